package main

// Part 13: conformance. Frame sequences come from a hand-written generator (rawFrame.encode, nothing of nbio),
// the verdict from rfcRef; the real receiver must agree, and so must the Coq model.

import (
	"bytes"
	"compress/flate"
	"fmt"
	"strings"

	"verifharness/hx"
)

type replay13 struct {
	Seed     int64    `json:"seed"`
	Class    string   `json:"class"`
	Receiver cfg      `json:"receiver"`
	Frames   []string `json:"frames"`
	WireHex  string   `json:"wire_hex"`
	SegKind  string   `json:"segmentation"`
	Cuts     string   `json:"cuts"`
	Expect   string   `json:"rfc_expectation"`
	HowToRun string   `json:"how_to_run"`
}

func deflateSync(p []byte, level int, final bool) []byte {
	var b bytes.Buffer
	w, _ := flate.NewWriter(&b, level)
	w.Write(p)
	if final {
		w.Close() // BFINAL=1 block (RFC 7692 7.2.3.4 allows it); nothing is cut off
		return b.Bytes()
	}
	w.Flush()
	out := b.Bytes()
	return out[:len(out)-4] // 00 00 ff ff
}

var utf8Valid = []string{
	"", "Hello", "¢", "€", "\U00010348", "\xce\xba\xe1\xbd\xb9\xcf\x83\xce\xbc\xce\xb5",
	"\x00", "\x7f", "\xc2\x80", "\xdf\xbf", "\xe0\xa0\x80", "\xef\xbf\xbf", "\xed\x9f\xbf", "\xee\x80\x80",
	"\xf0\x90\x80\x80", "\xf4\x8f\xbf\xbf", "Hello-\xc2\xb5@\xc3\x9f\xc3\xb6\xc3\xa4\xc3\xbc\xc3\xa0\xc3\xa1-UTF-8!!",
	"\xef\xbf\xbe", "\xf0\x9f\x98\x80 ok \xf0\x9f\x98\x80",
}

var utf8Invalid = []string{
	"\x80", "\xbf", "\xc0\x80", "\xc1\xbf", "\xc2", "\xc2\x41", "\xe0\x80\x80", "\xe0\x9f\xbf", "\xe0\xa0", "\xed\xa0\x80",
	"\xed\xbf\xbf", "\xf0\x80\x80\x80", "\xf0\x8f\xbf\xbf", "\xf0\x90\x80", "\xf4\x90\x80\x80", "\xf5\x80\x80\x80", "\xf8\x88\x80\x80\x80",
	"\xfe", "\xff", "abc\xe2\x82", "\xce\xba\xe1\xbd\xb9\xcf\x83\xce\xbc\xce\xb5\xed\xa0\x80edited", "ok\xf4\x8f\xbf", "\xe2\x82\xac\xac",
	"\xce\xba\xe1\xbd\xb9\xcf\x83\xce\xbc\xce\xb5\xf4\x90\x80\x80edited",
	// invalid only across what could be a fragment boundary: a character cut short and followed by something else
	"\xe2\x82A", "\xe2(\xa1", "\xc2\xc2\xa2", "\xf0\x90\x80", "\xf0\x90A\x80", "\xf0\x9f\x98", "\xe2\x82\xe2\x82\xac", "a\xc2", "\xdf", "\xf4\x8f\xbf",
}

// 2-, 3- and 4-byte characters, alone and between ASCII: cut at every inner position into up to four fragments
var utf8Cut = []string{"\xc2\xa2", "\xe2\x82\xac", "\xf0\x90\x8d\x88", "\xf4\x8f\xbf\xbf", "a\xc2\xa2b", "a\xe2\x82\xacb", "a\xf0\x90\x8d\x88b",
	"\xc2\xa2\xe2\x82\xac", "\xe2\x82\xac\xf0\x9f\x98\x80"}

type seqCase struct {
	Class  string
	Frames []rawFrame
	EnComp bool
	Few    bool // tiny, systematic case: only a few segmentations in the quick tier
}

func dataFrame(op int, fin bool, p []byte) rawFrame {
	return rawFrame{Fin: fin, Op: op, Payload: p, Masked: rng.Intn(2) == 0, Key: randBytes(4)}
}

// split p into k fragments at the given cut points and build text/binary + continuation frames
func fragments(op int, p []byte, cuts []int) []rawFrame {
	var fs []rawFrame
	prev := 0
	pieces := [][]byte{}
	for _, c := range cuts {
		pieces = append(pieces, p[prev:c])
		prev = c
	}
	pieces = append(pieces, p[prev:])
	for i, pc := range pieces {
		o := op
		if i > 0 {
			o = 0
		}
		fs = append(fs, dataFrame(o, i == len(pieces)-1, pc))
	}
	return fs
}

func closeFrame(code int, reason []byte) rawFrame {
	return dataFrame(8, true, append([]byte{byte(code >> 8), byte(code)}, reason...))
}

func systematic13() []seqCase {
	var cs []seqCase
	add := func(class string, encomp bool, few bool, fs ...rawFrame) {
		cs = append(cs, seqCase{Class: class, Frames: fs, EnComp: encomp, Few: few})
	}
	tail := dataFrame(2, true, []byte("after"))
	// B. UTF-8: whole, and split at every byte position into two and (short ones) three fragments
	for _, valid := range []bool{true, false} {
		set := utf8Valid
		cl := "utf8-valid"
		if !valid {
			set, cl = utf8Invalid, "utf8-invalid"
		}
		for _, s := range set {
			p := []byte(s)
			add(cl+"/text-whole", false, false, dataFrame(1, true, p), tail)
			add(cl+"/binary-whole", false, true, dataFrame(2, true, p), tail)
			for i := 0; i <= len(p); i++ {
				add(cl+"/text-2-fragments", false, len(p) > 12, append(fragments(1, p, []int{i}), tail)...)
				if len(p) <= 8 {
					for j := i; j <= len(p); j++ {
						add(cl+"/text-3-fragments", false, true, append(fragments(1, p, []int{i, j}), tail)...)
					}
				}
			}
			// compressed text: validity is decided after inflation
			add(cl+"/text-compressed", true, false, rawFrame{Fin: true, R1: true, Op: 1, Payload: deflateSync(p, 6, false)}, tail)
			// close reason
			add(cl+"/close-reason", false, false, closeFrame(1000, p), tail)
			// a ping between the fragments of the text
			if len(p) >= 2 {
				fr := fragments(1, p, []int{len(p) / 2})
				add(cl+"/text-ping-between", false, false, fr[0], dataFrame(9, true, []byte("mid")), fr[1], tail)
			}
		}
	}
	for _, s := range utf8Cut {
		p := []byte(s)
		for i := 0; i <= len(p); i++ {
			for j := i; j <= len(p); j++ {
				for k := j; k <= len(p); k++ {
					if len(p) > 5 && k != j {
						continue // longer strings: up to three fragments
					}
					add("utf8-cut/text-fragments", false, false, append(fragments(1, p, []int{i, j, k}), tail)...)
				}
			}
		}
	}
	// B2. UTF-8 at the END of a payload of every interesting total length (a reason filling the control frame, a text whose
	// length sits on a length-encoding boundary): complete, truncated and invalid sequences behind an ASCII pad
	{
		tails := []struct {
			s  string
			cl string
		}{{"\xc2\xa2", "valid"}, {"\xe2\x82\xac", "valid"}, {"\xf0\x9f\x98\x80", "valid"},
			{"\xc2", "truncated"}, {"\xe2", "truncated"}, {"\xe2\x82", "truncated"}, {"\xf0", "truncated"}, {"\xf0\x9f", "truncated"}, {"\xf0\x9f\x98", "truncated"},
			{"\xff", "invalid"}, {"\xc0\x80", "invalid"}, {"\xed\xa0\x80", "invalid"}, {"\x80", "invalid"}}
		for _, t := range tails {
			for _, total := range []int{len(t.s), len(t.s) + 1, 8, 61, 119, 120, 121, 122, 123} {
				if total < len(t.s) {
					continue
				}
				reason := append(bytes.Repeat([]byte("r"), total-len(t.s)), t.s...)
				add("utf8-tail-"+t.cl+"/close-reason", false, total != 123 && total != len(t.s), closeFrame(1000, reason), tail)
			}
			for _, total := range []int{125, 126, 127, 65535, 65536, 65537} {
				text := append(bytes.Repeat([]byte("t"), total-len(t.s)), t.s...)
				add("utf8-tail-"+t.cl+"/text-whole", false, true, dataFrame(1, true, text), tail)
				add("utf8-tail-"+t.cl+"/text-2-fragments", false, true, append(fragments(1, text, []int{total - len(t.s)}), tail)...)
			}
		}
	}
	// C. close codes
	codes := []int{0, 1, 999, 1000, 1001, 1002, 1003, 1004, 1005, 1006, 1007, 1008, 1009, 1010, 1011, 1012, 1013, 1014, 1015, 1016,
		1100, 1999, 2000, 2999, 3000, 3001, 3999, 4000, 4999, 5000, 5001, 9999, 32768, 65535}
	if thorough {
		codes = nil
		for c := 0; c < 65536; c++ {
			codes = append(codes, c)
		}
	} else {
		for i := 0; i < 40; i++ {
			codes = append(codes, rng.Intn(65536))
		}
	}
	for _, c := range codes {
		add("close-code", false, true, closeFrame(c, nil), tail)
		if c%7 == 0 || !thorough {
			add("close-code-reason", false, true, closeFrame(c, []byte("bye \xe2\x82\xac")), tail)
		}
	}
	add("close-empty", false, false, dataFrame(8, true, nil), tail)
	add("close-one-byte", false, false, dataFrame(8, true, []byte{3}), tail)
	add("close-max-reason", false, false, closeFrame(1000, bytes.Repeat([]byte("r"), 123)), tail)
	add("close-too-long", false, false, closeFrame(1000, bytes.Repeat([]byte("r"), 124)), tail)
	add("close-inside-fragmented", false, false, dataFrame(1, false, []byte("par")), closeFrame(1001, []byte("going")), dataFrame(0, true, []byte("t")))
	add("ping-after-close", false, false, closeFrame(1000, nil), dataFrame(9, true, []byte("late")), tail)
	// D. sequencing and control frames
	pl := func(n int) []byte { return bytes.Repeat([]byte("p"), n) }
	for _, n := range []int{0, 1, 124, 125, 126, 127, 128, 255, 256, 65535, 65536} {
		for _, op := range []int{9, 10, 8} {
			p := pl(n)
			if op == 8 && n >= 2 {
				p[0], p[1] = 0x03, 0xe8
			}
			f := dataFrame(op, true, p)
			add(fmt.Sprintf("control-length/%d", n), false, n > 300, dataFrame(9, true, []byte("first")), f, tail)
			if n <= 125 {
				f2 := f
				f2.LenEnc = 1 + rng.Intn(2)
				add(fmt.Sprintf("control-length-nonminimal/%d", n), false, false, f2, tail)
			}
		}
	}
	add("stray-continuation-fin", false, false, dataFrame(0, true, []byte("x")), tail)
	add("stray-continuation-fin-empty", false, false, dataFrame(0, true, nil), tail)
	add("stray-continuation-nonfin", false, false, dataFrame(0, false, []byte("x")), dataFrame(0, true, []byte("y")), tail)
	add("stray-continuation-after-message", false, false, dataFrame(1, true, []byte("m")), dataFrame(0, true, []byte("x")), tail)
	add("nested-text-in-text", false, false, dataFrame(1, false, []byte("a")), dataFrame(1, true, []byte("b")), tail)
	add("nested-binary-in-text", false, false, dataFrame(1, false, []byte("a")), dataFrame(2, false, []byte("b")), dataFrame(0, true, []byte("c")), tail)
	add("nested-after-empty-start", false, false, dataFrame(1, false, nil), dataFrame(1, true, []byte("x")), tail)
	add("empty-start-then-continuation", false, false, dataFrame(1, false, nil), dataFrame(0, true, []byte("hello")), tail)
	add("all-empty-fragments", false, false, dataFrame(2, false, nil), dataFrame(0, false, nil), dataFrame(0, true, nil), tail)
	add("empty-text", false, false, dataFrame(1, true, nil), tail)
	add("empty-binary", false, false, dataFrame(2, true, nil), tail)
	add("fragmented-ping", false, false, dataFrame(9, false, []byte("pi")), dataFrame(0, true, []byte("ng")), tail)
	add("fragmented-pong", false, false, dataFrame(10, false, []byte("po")), tail)
	add("fragmented-close", false, false, dataFrame(8, false, []byte{3, 232}), tail)
	add("controls-between-fragments", false, false, dataFrame(2, false, []byte("a")), dataFrame(9, true, []byte("1")), dataFrame(0, false, []byte("b")),
		dataFrame(10, true, []byte("2")), dataFrame(9, true, nil), dataFrame(0, true, []byte("c")), tail)
	add("many-pings", false, false, dataFrame(9, true, []byte("1")), dataFrame(9, true, []byte("2")), dataFrame(9, true, pl(125)), dataFrame(9, true, nil), tail)
	add("len64-topbit", false, false, dataFrame(2, true, []byte("ok")), rawFrame{Fin: true, Op: 2, TopBit: true}, tail)
	add("len64-topbit-masked", false, false, rawFrame{Fin: true, Op: 1, TopBit: true, Masked: true, Key: []byte{1, 2, 3, 4}, Declare: 5})
	add("len64-topbit-inside-fragmented", false, false, dataFrame(2, false, []byte("ok")), rawFrame{Fin: true, Op: 0, TopBit: true, Declare: 1})
	for _, le := range []int{1, 2} {
		f := dataFrame(1, true, []byte("nonminimal length"))
		f.LenEnc = le
		add("data-length-nonminimal", false, false, f, tail)
	}
	for _, n := range []int{125, 126, 127, 65535, 65536, 65537} {
		add(fmt.Sprintf("data-length/%d", n), false, true, dataFrame(2, true, randBytes(n)), tail)
	}
	// F. permessage-deflate
	txt := []byte("compress me, compress me, compress me €€€")
	z := deflateSync(txt, 6, false)
	add("deflate/one-frame", true, false, rawFrame{Fin: true, R1: true, Op: 1, Payload: z}, tail)
	add("deflate/bfinal-stream", true, false, rawFrame{Fin: true, R1: true, Op: 1, Payload: deflateSync(txt, 6, true)}, tail)
	for i := 0; i <= len(z); i += 1 + len(z)/9 {
		add("deflate/two-fragments", true, false, rawFrame{Fin: false, R1: true, Op: 1, Payload: z[:i]}, rawFrame{Fin: true, Op: 0, Payload: z[i:]}, tail)
	}
	add("deflate/ping-between", true, false, rawFrame{Fin: false, R1: true, Op: 1, Payload: z[:5]}, dataFrame(9, true, []byte("p")), rawFrame{Fin: true, Op: 0, Payload: z[5:]}, tail)
	add("deflate/uncompressed-in-negotiated", true, false, dataFrame(1, true, txt), tail)
	add("deflate/empty-message-00", true, false, rawFrame{Fin: true, R1: true, Op: 1, Payload: []byte{0}}, tail)
	add("deflate/empty-payload", true, false, rawFrame{Fin: true, R1: true, Op: 1}, tail)
	add("deflate/empty-payload-fragments", true, false, rawFrame{R1: true, Op: 2}, rawFrame{Fin: true, Op: 0}, tail)
	add("deflate/corrupt", true, false, rawFrame{Fin: true, R1: true, Op: 2, Payload: []byte{0xff, 0xff, 0xff, 0xff, 0xff}}, tail)
	add("deflate/truncated", true, false, rawFrame{Fin: true, R1: true, Op: 2, Payload: z[:len(z)/2]}, tail)
	add("deflate/rsv1-on-continuation", true, false, rawFrame{Fin: false, R1: true, Op: 1, Payload: z[:5]}, rawFrame{Fin: true, R1: true, Op: 0, Payload: z[5:]}, tail)
	add("deflate/binary-random", true, false, rawFrame{Fin: true, R1: true, Op: 2, Payload: deflateSync(randBytes(3000), 9, false)}, tail)
	add("deflate/stored-blocks", true, false, rawFrame{Fin: true, R1: true, Op: 2, Payload: deflateSync(randBytes(300), 0, false)}, tail)
	add("deflate/huffman-only", true, false, rawFrame{Fin: true, R1: true, Op: 1, Payload: deflateSync(txt, -2, false)}, tail)
	// A. the header space: FIN x RSV1-3 x 16 opcodes x mask x length encoding x (fresh | inside a fragmented message) x compression negotiated
	for _, encomp := range []bool{false, true} {
		for _, inside := range []bool{false, true} {
			for op := 0; op < 16; op++ {
				for bits := 0; bits < 16; bits++ {
					for _, masked := range []bool{false, true} {
						for lenEnc := 0; lenEnc < 3; lenEnc++ {
							f := rawFrame{Fin: bits&8 != 0, R1: bits&4 != 0, R2: bits&2 != 0, R3: bits&1 != 0, Op: op,
								Masked: masked, Key: []byte{0x11, 0x22, 0x33, 0x44}, LenEnc: lenEnc}
							switch {
							case op == 8:
								f.Payload = []byte{0x03, 0xe8, 'o', 'k'}
							case f.R1 && encomp && op == 1:
								f.Payload = deflateSync([]byte("heéllo"), 1, false)
							case f.R1 && encomp && op == 2:
								f.Payload = deflateSync([]byte{0xff, 0, 1}, 1, false)
							default:
								f.Payload = []byte("xy")
							}
							var fs []rawFrame
							if inside {
								fs = append(fs, rawFrame{Op: 2, Payload: []byte("ab")})
							}
							fs = append(fs, f)
							if !f.Fin && op < 3 {
								fs = append(fs, rawFrame{Fin: true, Op: 0, Payload: []byte("!")})
							} else if inside && op >= 8 {
								fs = append(fs, rawFrame{Fin: true, Op: 0, Payload: []byte("cd")})
							}
							fs = append(fs, tail)
							add(fmt.Sprintf("header-space/op=%d", op), encomp, true, fs...)
						}
					}
				}
			}
		}
	}
	return cs
}

// a random sequence from the grammar of RFC 6455, then zero or one mutation
func random13() seqCase {
	encomp := rng.Intn(3) == 0
	var fs []rawFrame
	nm := 1 + rng.Intn(5)
	ctl := func() {
		for rng.Intn(3) == 0 {
			fs = append(fs, dataFrame(pick(9, 9, 10), true, randBytes(pick(0, 1, 7, 125))))
		}
	}
	for i := 0; i < nm; i++ {
		ctl()
		op := 1 + rng.Intn(2)
		var p []byte
		n := pick(0, 1, 5, 50, 125, 126, 127, 300, 2000)
		if op == 1 {
			p = utf8Text(n)
		} else {
			p = randBytes(n)
		}
		comp := encomp && rng.Intn(2) == 0
		if comp {
			p = deflateSync(p, pick(-2, 0, 1, 6, 9), rng.Intn(6) == 0)
		}
		k := rng.Intn(4)
		var cuts []int
		for j := 0; j < k && len(p) > 0; j++ {
			cuts = append(cuts, rng.Intn(len(p)+1))
		}
		sortInts(cuts)
		fr := fragments(op, p, cuts)
		fr[0].R1 = comp
		for j, f := range fr {
			if j > 0 {
				ctl()
			}
			fs = append(fs, f)
		}
	}
	ctl()
	if rng.Intn(4) == 0 {
		fs = append(fs, closeFrame(pick(1000, 1001, 3000, 4999), utf8Text(rng.Intn(20))))
	}
	class := "random-valid"
	if rng.Intn(2) == 0 && len(fs) > 0 {
		class = "random-mutated"
		i := rng.Intn(len(fs))
		f := &fs[i]
		switch rng.Intn(9) {
		case 0:
			f.R2 = true
		case 1:
			f.R3 = true
		case 2:
			f.R1 = !f.R1
		case 3:
			f.Fin = !f.Fin
		case 4:
			f.Op = rng.Intn(16)
		case 5:
			if len(f.Payload) > 0 {
				f.Payload = append([]byte{}, f.Payload...)
				f.Payload[rng.Intn(len(f.Payload))] ^= 0x80
			}
		case 6:
			fs = append(fs[:i], fs[i+1:]...)
		case 7:
			fs = append(fs[:i+1], append([]rawFrame{fs[i]}, fs[i+1:]...)...)
		case 8:
			f.LenEnc = 1 + rng.Intn(2)
		}
	}
	return seqCase{Class: class, Frames: fs, EnComp: encomp}
}

func sortInts(a []int) {
	for i := 1; i < len(a); i++ {
		for j := i; j > 0 && a[j] < a[j-1]; j-- {
			a[j], a[j-1] = a[j-1], a[j]
		}
	}
}

func part13(n int) {
	start := rep.Cases
	sys := systematic13()
	idx := 0
	for (idx < len(sys) || rep.Cases-start < n) && !tooMany() {
		var sc seqCase
		if idx < len(sys) {
			sc = sys[idx]
			idx++
			if only != "" && !strings.HasPrefix(sc.Class, only) {
				continue
			}
			// the header sweep is 6144 sequences: the quick tier runs a seeded third of it
			if !thorough && sc.Few && len(sc.Class) > 12 && sc.Class[:12] == "header-space" && rng.Intn(3) != 0 {
				continue
			}
		} else {
			if only != "" {
				break
			}
			sc = random13()
		}
		run13(sc)
	}
	rep.Extra["part13_systematic_sequences"] = len(sys)
	rep.Extra["part13_systematic_done"] = idx
}

func run13(sc seqCase) {
	var wire []byte
	var bounds []int
	var descr []string
	for _, f := range sc.Frames {
		wire = append(wire, f.encode()...)
		bounds = append(bounds, len(wire))
		descr = append(descr, f.String())
	}
	exp := rfcRef(sc.Frames, sc.EnComp)
	rcfg := cfg{Client: rng.Intn(2) == 0, EnComp: sc.EnComp, WComp: sc.EnComp, FrameLimit: 32768, Level: 1, Decomp: pick(1, 1, 2), Hooks: true}
	segs := []segmentation{{Kind: "whole"}, {Kind: "per-frame", Cuts: bounds}}
	if sc.Few && (!thorough || strings.HasPrefix(sc.Class, "close-code")) {
		segs = append(segs, segmentation{"random-cuts", randomCuts(len(wire), 3)})
	} else {
		segs = append(segs, segmentations(len(wire), 2)[1:]...)
	}
	if len(wire) > 30000 && !thorough {
		segs = segs[:3]
	}
	for si, sg := range segs {
		rp := replay13{Seed: rep.Seed, Class: sc.Class, Receiver: rcfg, Frames: descr, SegKind: sg.Kind, Cuts: sprintCuts(sg.Cuts),
			Expect:   fmt.Sprintf("%s at frame %d (%s); %d deliveries, %d pongs", exp.End, exp.EndAt, exp.Why, len(exp.Deliver), len(exp.Pongs)),
			HowToRun: "feed wire_hex, cut at `cuts`, to Conn.Parse of a server/client Conn built as in harness/cmd/wscodec/endpoint.go (newEndpoint)"}
		if len(wire) <= 2000 {
			rp.WireHex = hx.Hex(wire)
		} else {
			rp.WireHex = fmt.Sprintf("(%d bytes; regenerate with -parts 13 -seed %d)", len(wire), rep.Seed)
		}
		ep := newEndpoint(rcfg, func(max int) int { return 1 + rng.Intn(max) })
		res := ep.feed(cutAt(wire, sg.Cuts), 1)
		rep.Ops += len(res)
		rep.Case(fmt.Sprintf("13/%s/encomp=%v/%s/%s", sc.Class, sc.EnComp, exp.End, sg.Kind), len(wire) >= 2)
		rep.Stat("13:expect:" + exp.End)
		rep.Stat("13:seg:" + sg.Kind)
		if d := compareModel(model, ep, res); d != "" {
			finding("mismatch", "C13", "ws-receiver-model", "receiver: "+d, rp)
		}
		if verbose {
			fmt.Printf("%s %v seg=%s cuts=%v\n  rfc: %s\n  impl: %+v\n  msgs=%d writes=%d\n", sc.Class, descr, sg.Kind, sg.Cuts, rp.Expect, res, len(ep.msgs), len(ep.writes))
		}
		cutAfterEnd := exp.EndAt >= 0 && containsInt(sg.Cuts, bounds[exp.EndAt])
		oracle13(ep, res, exp, cutAfterEnd || exp.EndAt == len(sc.Frames)-1, rp)
		// the other handler configurations (implementation-side oracle only)
		if sc.Few && !strings.HasPrefix(sc.Class, "random") {
			continue
		}
		modes := []string{"frame", "both", "none"}
		if si >= 2 || strings.HasPrefix(sc.Class, "random") {
			modes = []string{modes[rng.Intn(3)]}
		}
		for _, hm := range modes {
			hcfg := rcfg
			hcfg.Handlers = hm
			hcfg.Decomp = 0
			rph := rp
			rph.Receiver = hcfg
			eph := newEndpoint(hcfg, func(max int) int { return 1 + rng.Intn(max) })
			resh := eph.feed(cutAt(wire, sg.Cuts), 1)
			rep.Case(fmt.Sprintf("13h/%s/%s/encomp=%v/%s", hm, sc.Class, sc.EnComp, sg.Kind), len(wire) >= 2)
			rep.Stat("13h:handlers=" + hm)
			// EndAt may differ between the strict and the frame-level reference: exactness is judged per reference inside
			oracle13h(eph, resh, sc.Frames, sc.EnComp, sg.Kind == "per-frame", rph)
		}
	}
	if len(rep.Samples) < 5 && rng.Intn(50) == 0 {
		rep.Sample(map[string]interface{}{"part": 13, "class": sc.Class, "frames": descr, "rfc": exp.End, "why": exp.Why})
	}
}

func containsInt(a []int, x int) bool {
	for _, v := range a {
		if v == x {
			return true
		}
	}
	return false
}

func tooMany() bool {
	sigs := 0
	mism := 0
	for k, v := range rep.Stats {
		if len(k) > 15 && k[:15] == "finding:oracle:" {
			sigs++
		}
		if len(k) > 17 && k[:17] == "finding:mismatch:" {
			mism += v
		}
	}
	return sigs >= 6 || mism >= 60
}

func oracle13(ep *endpoint, res []opRes, exp expect, exact bool, rp replay13) {
	if sig, what := check13(ep, res, exp, exact, true); sig != "" {
		finding("oracle", "C13", sig, what, rp)
	}
}

// the handler configurations other than "OnMessage only" (which the model covers).  What the code promises on the pinned
// tree, and what is demanded here:
//
//	both   (OnMessage + OnDataFrame): everything as with OnMessage alone (verdict, deliveries, replies); in addition every
//	       non-empty data frame in front of the frame that ends the connection reaches OnDataFrame, in order, with the
//	       type of its MESSAGE, its FIN bit and its raw payload (frames of a message that later turns out invalid have been
//	       handed over already: streaming)
//	frame  (OnDataFrame only) / none: messages are never assembled, so the checks that need a whole message (UTF-8 of a text
//	       message, inflating) are not made by the code; demanded: a sequence RFC 6455 allows is ACCEPTED (frames delivered,
//	       connection open) - in particular text fragments that cut a multi-byte character; everything the frame header and
//	       the control frames decide (reserved bits/opcodes, sequencing, control > 125 or fragmented, close codes, close
//	       reason UTF-8, pings answered, close echoed) as always.  An invalid-UTF-8 / non-inflating message may be accepted
//	       or failed (both the strict and the frame-level reference are admissible), nothing reaches OnMessage.
func oracle13h(ep *endpoint, res []opRes, frames []rawFrame, encomp bool, exact bool, rp replay13) {
	mode := ep.cfg.Handlers
	strict := rfcRefOpt(frames, encomp, true)
	sig, what := "", ""
	if mode == "both" {
		sig, what = check13(ep, res, strict, exact, true)
		if sig == "" {
			sig, what = checkFrames(ep, strict, exact)
		}
	} else {
		loose := rfcRefOpt(frames, encomp, false)
		sig, what = check13(ep, res, loose, exact, false)
		if sig == "" && mode == "frame" {
			sig, what = checkFrames(ep, loose, exact)
		}
		if sig != "" && (strict.End != loose.End || strict.EndAt != loose.EndAt) {
			// the whole-message checks make the difference: the strict verdict is admissible too
			s2, w2 := check13(ep, res, strict, exact, false)
			if s2 == "" && mode == "frame" {
				s2, w2 = checkFrames(ep, strict, exact)
			}
			if s2 == "" {
				rep.Stat("13h:whole-message-check-made-without-OnMessage")
				sig, what = "", ""
			} else {
				_ = w2
			}
		}
		if sig == "" && len(ep.msgs) != 0 {
			sig, what = "message-delivered-without-handler", fmt.Sprintf("%d messages reached OnMessage although none was installed", len(ep.msgs))
		}
	}
	if sig != "" {
		finding("oracle", "C13", sig, "handlers="+mode+": "+what, rp)
	}
}

func checkFrames(ep *endpoint, exp expect, exact bool) (string, string) {
	want := exp.DFrames
	if exp.EndAt >= 0 {
		n := 0
		for n < len(want) && exp.DFrameAt[n] < exp.EndAt {
			n++
		}
		want = want[:n]
	}
	got := ep.frames
	for i, w := range want {
		if i >= len(got) {
			return "dataframe-not-delivered", fmt.Sprintf("data frame %d (message type %d, FIN=%v, %d bytes) was not handed to OnDataFrame (%d frames delivered)", i, w.T, w.Fin, len(w.P), len(got))
		}
		if got[i].T != w.T || got[i].Fin != w.Fin || !bytes.Equal(got[i].P, w.P) {
			return "dataframe-differs", fmt.Sprintf("OnDataFrame call %d: type %d FIN=%v %d bytes, expected type %d FIN=%v %d bytes", i, got[i].T, got[i].Fin, len(got[i].P), w.T, w.Fin, len(w.P))
		}
	}
	if len(got) > len(want) && (exp.End == "open" || (exact && len(got) > len(want)+1)) {
		return "dataframe-unexpected", fmt.Sprintf("%d OnDataFrame calls, expected %d", len(got), len(want))
	}
	return "", ""
}

func check13(ep *endpoint, res []opRes, exp expect, exact bool, wantMsgs bool) (rsig, rwhat string) {
	fail := func(sig, what string) {
		if rsig == "" {
			rsig, rwhat = sig, what
		}
	}
	failed := ep.mc.closed
	perr := ""
	for _, r := range res {
		if r.Err != "-" && r.Err != "closed" {
			failed = true
			perr = r.Err
		}
	}
	if exp.Lenient {
		// RSV1 on a control/continuation frame with permessage-deflate negotiated: RFC 7692 6 wants the connection
		// failed, RFC 6455 is silent once an extension owns the bit; both are accepted here
		if failed && (perr == "rsv" || exp.End == "open") {
			rep.Stat("13:rsv1-on-control-or-continuation:failed")
			return
		}
		rep.Stat("13:rsv1-on-control-or-continuation:accepted-or-other-end")
	}
	switch exp.End {
	case "open":
		if failed {
			sig := "valid-sequence-rejected"
			if perr == "panic" {
				sig = "valid-sequence-panic"
			}
			fail(sig, fmt.Sprintf("RFC 6455 allows this sequence, the endpoint failed the connection (Parse error %q, connection closed=%v)", perr, ep.mc.closed))
			return
		}
	default:
		if !failed {
			sig := "invalid-sequence-accepted"
			if exp.End == "closed" {
				sig = "close-frame-not-honoured"
			}
			fail(sig, fmt.Sprintf("frame %d must end the connection (%s %s); Parse reported no error and the connection is still open", exp.EndAt, exp.End, exp.Why))
			return
		}
	}
	// deliveries
	got := ep.msgs
	if !wantMsgs {
		got, exp.Deliver, exp.Poison = nil, nil, nil
	}
	if exp.Poison != nil {
		for _, m := range got[minInt(len(got), len(exp.Deliver)):] {
			if m.T == exp.Poison.T && bytes.Equal(m.P, exp.Poison.P) {
				fail("offending-message-delivered", fmt.Sprintf("the message containing offending frame %d (%s) was delivered", exp.EndAt, exp.Why))
				return
			}
		}
	}
	for i, w := range exp.Deliver {
		if i >= len(got) {
			if exp.End == "failed" && perr == "panic" && !exp.Lenient {
				// reported below as a panic
				break
			}
			fail("valid-message-not-delivered", fmt.Sprintf("message %d (type %d, %d bytes), complete before the connection ended, was not delivered (%d delivered)", i, w.T, len(w.P), len(got)))
			return
		}
		if got[i].T != w.T || !bytes.Equal(got[i].P, w.P) {
			fail("delivered-message-differs", fmt.Sprintf("delivery %d: type %d, %d bytes; RFC: type %d, %d bytes", i, got[i].T, len(got[i].P), w.T, len(w.P)))
			return
		}
	}
	if len(got) > len(exp.Deliver) {
		if exact || exp.End == "open" {
			fail("delivered-from-offending-frame-on", fmt.Sprintf("%d messages delivered, RFC: %d (the connection ends at frame %d: %s)", len(got), len(exp.Deliver), exp.EndAt, exp.Why))
			return
		}
		rep.Stat("13:delivery-after-end-in-same-read")
		if strictAfter {
			fail("delivery-after-fail-same-read", fmt.Sprintf("%d messages delivered after the endpoint had already ended the connection at frame %d (%s) - RFC 6455 7.1.7", len(got)-len(exp.Deliver), exp.EndAt, exp.Why))
			return
		}
	}
	// replies: pongs in order, then (closed) the echo / (failed) at most one close frame with a protocol-error class code
	var replies []rawFrame
	for _, w := range ep.writes {
		f, used, ok := decodeOne(w)
		if !ok || used != len(w) || f.R1 || f.R2 || f.R3 || !f.Fin || f.Masked != ep.cfg.Client {
			fail("malformed-reply", "the endpoint wrote "+hx.Hex(w))
			return
		}
		replies = append(replies, f)
	}
	i := 0
	for _, p := range exp.Pongs {
		if i >= len(replies) || replies[i].Op != 10 || !bytes.Equal(replies[i].Payload, p) {
			have := "nothing"
			if i < len(replies) {
				have = replies[i].String()
			}
			fail("ping-not-answered", fmt.Sprintf("ping with payload %s: expected a pong with the same payload as reply %d, found %s", hx.Hex(p), i, have))
			return
		}
		i++
	}
	rest := replies[i:]
	if !exact {
		// pongs for pings that follow the end inside the same read cannot be written (the connection is closed); close frames neither
	}
	switch exp.End {
	case "open":
		if len(rest) != 0 {
			fail("unexpected-reply", "unexpected extra frame written: "+rest[0].String())
		}
	case "closed":
		if len(rest) != 1 || rest[0].Op != 8 {
			fail("close-not-answered", fmt.Sprintf("a close frame must be answered by exactly one close frame; found %d further frames", len(rest)))
			return
		}
		p := rest[0].Payload
		if exp.EchoEmpty {
			if len(p) != 0 {
				fail("close-echo-differs", "empty close frame answered with payload "+hx.Hex(p))
			}
		} else if len(p) < 2 || int(p[0])<<8|int(p[1]) != exp.EchoCode || !bytes.Equal(p[2:], exp.EchoReason) {
			fail("close-echo-differs", fmt.Sprintf("close %d %q answered with %s", exp.EchoCode, exp.EchoReason, hx.Hex(p)))
		}
		if !ep.mc.closed {
			fail("close-conn-left-open", "the underlying connection was not closed after the closing handshake")
		}
	case "failed":
		if len(rest) > 1 || (len(rest) == 1 && rest[0].Op != 8) {
			fail("unexpected-reply", fmt.Sprintf("after failing the connection: %d frames written, first %s", len(rest), rest[0].String()))
			return
		}
		if len(rest) == 1 {
			p := rest[0].Payload
			code := 0
			if len(p) >= 2 {
				code = int(p[0])<<8 | int(p[1])
			}
			if code != 1002 && code != 1007 && code != 1009 {
				fail("fail-close-code", fmt.Sprintf("the connection was failed (%s) with close code %d", exp.Why, code))
			}
		}
	}
	return
}

func minInt(a, b int) int {
	if a < b {
		return a
	}
	return b
}
