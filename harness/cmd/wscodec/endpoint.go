package main

// Real websocket.Conn endpoints over an in-memory net.Conn, with everything observable recorded in the
// model's event vocabulary (m:T:HEX, pi:HEX, po:HEX, cl:CODE:HEX, w:HEX, wf, cc).

import (
	"bytes"
	"compress/flate"
	"errors"
	"fmt"
	"io"
	"net"
	"strings"
	"sync"
	"time"

	"github.com/lesismal/nbio/mempool"
	"github.com/lesismal/nbio/nbhttp"
	"github.com/lesismal/nbio/nbhttp/websocket"
	"verifharness/hx"
)

// ---- configuration of one endpoint (the model's config + what only the implementation needs)
type cfg struct {
	Client     bool `json:"client"`
	Limit      int  `json:"msg_limit"`
	ReadLimit  int  `json:"read_limit"`
	EnComp     bool `json:"enable_compression"`
	WComp      bool `json:"write_compression"`
	FrameLimit int  `json:"frame_limit"`
	Level      int  `json:"level"`
	// 0: default decompressor (no recording: no model run for compressed input), 1: recording wrapper of the
	// library's reader, 2: eager reader (whole output known, served in random chunks, the last one with io.EOF)
	Decomp int  `json:"decomp_mode"`
	Hooks  bool `json:"compress_hook"` // record the deflate output through Conn.WebsocketCompressor
	// Engine.BodyAllocator: "" mempool.DefaultMemPool, "aligned" mempool.NewAligned(), "std" mempool.NewSTD(),
	// "moving" the harness's always-relocating allocator (every Append/Realloc returns a fresh buffer, the old one is poisoned)
	Alloc string `json:"body_allocator,omitempty"`
	// which callbacks the application installed: "" OnMessage only (the configuration the model covers), "frame" OnDataFrame
	// only, "both", "none"
	Handlers string `json:"handlers,omitempty"`
}

func (c cfg) modelArgs() string {
	return fmt.Sprintf("%s %d %d %s %s %d", b01(c.Client), c.Limit, c.ReadLimit, b01(c.EnComp), b01(c.WComp), c.FrameLimit)
}

func b01(b bool) string {
	if b {
		return "1"
	}
	return "0"
}

// ---- in-memory connection
type mconn struct {
	ep     *endpoint
	closed bool
	closes int
}

func (c *mconn) Read(b []byte) (int, error) { return 0, io.EOF }
func (c *mconn) Write(b []byte) (int, error) {
	if c.closed {
		c.ep.ev = append(c.ep.ev, "wf")
		return 0, net.ErrClosed
	}
	w := append([]byte{}, b...)
	c.ep.writes = append(c.ep.writes, w)
	c.ep.ev = append(c.ep.ev, "w:"+hx.Hex(w))
	return len(b), nil
}
func (c *mconn) Close() error {
	c.closed = true
	c.closes++
	c.ep.ev = append(c.ep.ev, "cc")
	return nil
}
func (c *mconn) LocalAddr() net.Addr                { return &net.TCPAddr{} }
func (c *mconn) RemoteAddr() net.Addr               { return &net.TCPAddr{} }
func (c *mconn) SetDeadline(t time.Time) error      { return nil }
func (c *mconn) SetReadDeadline(t time.Time) error  { return nil }
func (c *mconn) SetWriteDeadline(t time.Time) error { return nil }

// ---- allocator wrapper: live and peak requested bytes
type meterAlloc struct {
	mu   sync.Mutex
	in   mempool.Allocator
	live map[*[]byte]int
	cur  int
	peak int
}

func newMeter() *meterAlloc {
	return &meterAlloc{in: mempool.DefaultMemPool, live: map[*[]byte]int{}}
}

var allocKinds = []string{"", "aligned", "std", "moving"}

// the shared instance of the library's aligned allocator (its pools are package-level anyway)
var sharedAligned = mempool.NewAligned()

func newMeterOf(kind string) *meterAlloc {
	m := newMeter()
	switch kind {
	case "aligned":
		m.in = sharedAligned
	case "std":
		m.in = mempool.NewSTD()
	case "moving":
		m.in = &movingAlloc{}
	}
	return m
}

// movingAlloc is a legal mempool.Allocator that relocates on EVERY growth: Append / AppendString / Realloc return a
// fresh buffer and the old one is poisoned (contents overwritten, header emptied), Free poisons as well. Code that keeps
// using a pointer it passed to Append/Realloc/Free - which the pooled allocators happen to forgive - breaks visibly.
type movingAlloc struct{}

func poison(p *[]byte) {
	if p == nil {
		return
	}
	b := (*p)[:cap(*p)]
	for i := range b {
		b[i] = 0xDD
	}
	*p = nil
}
func (a *movingAlloc) Malloc(size int) *[]byte {
	b := make([]byte, size)
	return &b
}
func (a *movingAlloc) grow(buf *[]byte, size int) *[]byte {
	nb := make([]byte, size)
	if buf != nil {
		copy(nb, *buf)
		poison(buf)
	}
	return &nb
}
func (a *movingAlloc) Realloc(buf *[]byte, size int) *[]byte { return a.grow(buf, size) }
func (a *movingAlloc) Append(buf *[]byte, more ...byte) *[]byte {
	n := 0
	if buf != nil {
		n = len(*buf)
	}
	nb := a.grow(buf, n+len(more))
	copy((*nb)[n:], more)
	return nb
}
func (a *movingAlloc) AppendString(buf *[]byte, more string) *[]byte {
	n := 0
	if buf != nil {
		n = len(*buf)
	}
	nb := a.grow(buf, n+len(more))
	copy((*nb)[n:], more)
	return nb
}
func (a *movingAlloc) Free(buf *[]byte) { poison(buf) }
func (a *meterAlloc) note(p *[]byte) {
	if p == nil {
		return
	}
	a.cur += len(*p) - a.live[p]
	a.live[p] = len(*p)
	if a.cur > a.peak {
		a.peak = a.cur
	}
}
func (a *meterAlloc) drop(p *[]byte) {
	if p == nil {
		return
	}
	a.cur -= a.live[p]
	delete(a.live, p)
}
func (a *meterAlloc) Malloc(size int) *[]byte {
	a.mu.Lock()
	defer a.mu.Unlock()
	p := a.in.Malloc(size)
	a.note(p)
	return p
}
func (a *meterAlloc) Realloc(buf *[]byte, size int) *[]byte {
	a.mu.Lock()
	defer a.mu.Unlock()
	a.drop(buf)
	p := a.in.Realloc(buf, size)
	a.note(p)
	return p
}
func (a *meterAlloc) Append(buf *[]byte, more ...byte) *[]byte {
	a.mu.Lock()
	defer a.mu.Unlock()
	a.drop(buf)
	p := a.in.Append(buf, more...)
	a.note(p)
	return p
}
func (a *meterAlloc) AppendString(buf *[]byte, more string) *[]byte {
	a.mu.Lock()
	defer a.mu.Unlock()
	a.drop(buf)
	p := a.in.AppendString(buf, more)
	a.note(p)
	return p
}
func (a *meterAlloc) Free(buf *[]byte) {
	a.mu.Lock()
	defer a.mu.Unlock()
	a.drop(buf)
	a.in.Free(buf)
}
func (a *meterAlloc) resetPeak() { a.peak = a.cur }

// ---- one endpoint
type msg struct {
	T int
	P []byte
}

type dframe struct {
	T   int
	Fin bool
	P   []byte
}

type endpoint struct {
	cfg    cfg
	eng    *nbhttp.Engine
	u      *websocket.Upgrader
	c      *websocket.Conn
	mc     *mconn
	alloc  *meterAlloc
	ev     []string   // events of the current operation
	writes [][]byte   // every successful conn.Write
	msgs   []msg      // every OnMessage
	frames []dframe   // every OnDataFrame
	infl   [][]string // reader scripts (model notation), one per decompressor instantiated
	defl   [][]byte   // deflate outputs, one per compressor instantiated
	chunk  func(max int) int
}

var engPool []*nbhttp.Engine

func inlineExec(f func()) { f() }

func newEngine() *nbhttp.Engine {
	e := nbhttp.NewEngine(nbhttp.Config{
		ServerExecutor: inlineExec,
		ClientExecutor: inlineExec,
	})
	return e
}

func newEndpoint(c cfg, chunk func(max int) int) *endpoint {
	ep := &endpoint{cfg: c, chunk: chunk}
	ep.eng = newEngine()
	ep.alloc = newMeterOf(c.Alloc)
	ep.eng.BodyAllocator = ep.alloc
	ep.eng.ReadLimit = c.ReadLimit
	ep.eng.MaxWebsocketFramePayloadSize = c.FrameLimit
	u := websocket.NewUpgrader()
	u.Engine = ep.eng
	u.KeepaliveTime = 0
	u.MessageLengthLimit = c.Limit
	u.EnableCompression(c.EnComp)
	if err := u.SetCompressionLevel(c.Level); err != nil {
		hx.Fatal("bad level %d", c.Level)
	}
	if c.Handlers == "" || c.Handlers == "both" {
		u.OnMessage(func(_ *websocket.Conn, mt websocket.MessageType, data []byte) {
			d := append([]byte{}, data...)
			ep.msgs = append(ep.msgs, msg{int(mt), d})
			ep.ev = append(ep.ev, fmt.Sprintf("m:%d:%s", int(mt), hx.Hex(d)))
		})
	}
	if c.Handlers == "frame" || c.Handlers == "both" {
		// not part of the model's event vocabulary: kept apart from ep.ev
		u.OnDataFrame(func(_ *websocket.Conn, mt websocket.MessageType, fin bool, data []byte) {
			ep.frames = append(ep.frames, dframe{int(mt), fin, append([]byte{}, data...)})
		})
	}
	websocket.VerifWrapHandlers(u,
		func(s string) { ep.ev = append(ep.ev, "pi:"+hx.Hex([]byte(s))) },
		func(s string) { ep.ev = append(ep.ev, "po:"+hx.Hex([]byte(s))) },
		func(code int, s string) { ep.ev = append(ep.ev, fmt.Sprintf("cl:%d:%s", code, hx.Hex([]byte(s)))) })
	switch c.Decomp {
	case 1:
		u.WebsocketDecompressor = func(_ *websocket.Conn, r io.Reader) io.ReadCloser {
			ep.infl = append(ep.infl, nil)
			return &recReader{rc: websocket.VerifDecompressReader(r), ep: ep}
		}
	case 2:
		u.WebsocketDecompressor = func(_ *websocket.Conn, r io.Reader) io.ReadCloser {
			ep.infl = append(ep.infl, nil)
			out, err := io.ReadAll(flate.NewReader(r))
			return &recReader{rc: &eagerReader{data: out, err: err, chunk: ep.chunk}, ep: ep}
		}
	}
	if c.Hooks {
		u.WebsocketCompressor = func(_ *websocket.Conn, w io.WriteCloser, level int) io.WriteCloser {
			ep.defl = append(ep.defl, []byte{})
			return websocket.VerifCompressWriter(&recWriter{w: w, ep: ep}, level)
		}
	}
	ep.u = u
	ep.mc = &mconn{ep: ep}
	if c.Client {
		ep.c = websocket.NewClientConn(u, ep.mc, "", c.WComp, false)
	} else {
		ep.c = websocket.NewServerConn(u, ep.mc, "", c.WComp, false)
	}
	ep.c.Execute = nbhttp.SyncExecutor
	return ep
}

// the reader the decompressor hook returns: records what every Read returned
type recReader struct {
	rc io.ReadCloser
	ep *endpoint
}

func (r *recReader) Read(p []byte) (int, error) {
	n, err := r.rc.Read(p)
	k := "c"
	if err == io.EOF {
		k = "e"
	} else if err != nil {
		k = "f"
	}
	h := hx.Hex(p[:n])
	if h == "-" {
		h = ""
	}
	i := len(r.ep.infl) - 1
	r.ep.infl[i] = append(r.ep.infl[i], k+h)
	return n, err
}
func (r *recReader) Close() error { return r.rc.Close() }

// serves a known output in chunks; the last chunk comes together with the terminal error (io.EOF when the
// stream was well formed), which the library's own reader never does for sync-flushed streams
type eagerReader struct {
	data  []byte
	err   error
	chunk func(max int) int
}

func (r *eagerReader) Read(p []byte) (int, error) {
	if len(p) == 0 {
		return 0, nil
	}
	max := len(p)
	if max > len(r.data) {
		max = len(r.data)
	}
	n := max
	if max > 1 {
		n = r.chunk(max)
	}
	copy(p, r.data[:n])
	r.data = r.data[n:]
	if len(r.data) == 0 {
		if r.err == nil {
			return n, io.EOF
		}
		return n, r.err
	}
	return n, nil
}
func (r *eagerReader) Close() error { return nil }

type recWriter struct {
	w  io.WriteCloser
	ep *endpoint
}

func (w *recWriter) Write(p []byte) (int, error) {
	i := len(w.ep.defl) - 1
	w.ep.defl[i] = append(w.ep.defl[i], p...)
	return w.w.Write(p)
}
func (w *recWriter) Close() error { return nil }

// ---- running operations
type opRes struct {
	Op  string   `json:"op"`
	Ev  []string `json:"events"`
	Err string   `json:"err"`
	St  string   `json:"state"`
}

func errClass(err error) string {
	switch {
	case err == nil:
		return "-"
	case errors.Is(err, websocket.ErrMessageTooLarge):
		return "toolarge"
	case errors.Is(err, websocket.ErrControlMessageTooBig):
		return "ctlbig"
	case errors.Is(err, websocket.ErrReserveBitSet):
		return "rsv"
	case errors.Is(err, websocket.ErrReservedMessageType):
		return "ropcode"
	case errors.Is(err, websocket.ErrControlMessageFragmented):
		return "ctlfrag"
	case errors.Is(err, websocket.ErrFragmentsShouldNotHaveBinaryOrTextMessage):
		return "nested"
	case errors.Is(err, websocket.ErrInvalidFragmentMessage):
		return "frag"
	case errors.Is(err, nbhttp.ErrTooLong):
		return "toolong"
	case errors.Is(err, net.ErrClosed):
		return "closed"
	case strings.HasPrefix(err.Error(), "websocket: parse error"):
		return "panic"
	case strings.HasPrefix(err.Error(), "flate:") || errors.Is(err, io.ErrUnexpectedEOF):
		return "inflate"
	}
	return "other:" + err.Error()
}

func (ep *endpoint) state() string {
	s := websocket.VerifGetState(ep.c)
	m := "-"
	if !s.MessageNil {
		m = fmt.Sprint(s.MessageLen)
	}
	st := fmt.Sprintf("%d,%s,%d,%s,%s,%s,%s", s.Cached, m, s.MsgType, b01(s.Compress), b01(s.Expecting), b01(s.Closed), b01(ep.mc.closed))
	if len(s.Missing) > 0 {
		// a state field the model tracks no longer exists in the code: a disagreement, not a build failure
		st += ";missing-in-code=" + strings.Join(s.Missing, "+")
	}
	return st
}

func (ep *endpoint) finishOp(op string, err error) opRes {
	r := opRes{Op: op, Ev: ep.ev, Err: errClass(err), St: ep.state()}
	ep.ev = nil
	return r
}

func (ep *endpoint) parse(data []byte) (opRes, error) {
	err := ep.c.Parse(data)
	return ep.finishOp("p:"+hx.Hex(data), err), err
}

func (ep *endpoint) write(mt int, data []byte) (opRes, error) {
	err := ep.c.WriteMessage(websocket.MessageType(mt), data)
	return ep.finishOp(fmt.Sprintf("w:%d:%s", mt, hx.Hex(data)), err), err
}

func (ep *endpoint) closeClean() opRes {
	ep.c.CloseAndClean(nil)
	return ep.finishOp("c", nil)
}

// feed the segments as the engine would: a failing Parse or a closed connection is followed by CloseAndClean;
// `extra` more segments are still offered afterwards (they must be refused with net.ErrClosed)
func (ep *endpoint) feed(segs [][]byte, extra int) []opRes {
	var out []opRes
	dead := false
	for _, s := range segs {
		if dead {
			if extra == 0 {
				break
			}
			extra--
		}
		r, err := ep.parse(s)
		out = append(out, r)
		if !dead && (err != nil || ep.mc.closed) {
			out = append(out, ep.closeClean())
			dead = true
		}
	}
	return out
}

// ---- an independent frame decoder for what endpoints wrote (keys, payloads)
type rawFrame struct {
	Fin, R1, R2, R3 bool
	Op              int
	Masked          bool
	Key             []byte
	Payload         []byte // unmasked
	// generator-only fields
	LenEnc  int    // 0 minimal, 1 force 16-bit, 2 force 64-bit
	TopBit  bool   // 64-bit length with the top bit set (no payload follows)
	Declare uint64 // declared length when it differs from len(Payload) (generator only; 0 = len(Payload))
}

func decodeOne(b []byte) (rawFrame, int, bool) {
	var f rawFrame
	if len(b) < 2 {
		return f, 0, false
	}
	f.Fin, f.R1, f.R2, f.R3 = b[0]&0x80 != 0, b[0]&0x40 != 0, b[0]&0x20 != 0, b[0]&0x10 != 0
	f.Op = int(b[0] & 15)
	f.Masked = b[1]&0x80 != 0
	n := uint64(b[1] & 127)
	h := 2
	switch n {
	case 126:
		if len(b) < 4 {
			return f, 0, false
		}
		n = uint64(b[2])<<8 | uint64(b[3])
		h = 4
	case 127:
		if len(b) < 10 {
			return f, 0, false
		}
		n = 0
		for i := 2; i < 10; i++ {
			n = n<<8 | uint64(b[i])
		}
		h = 10
	}
	if f.Masked {
		if len(b) < h+4 {
			return f, 0, false
		}
		f.Key = append([]byte{}, b[h:h+4]...)
		h += 4
	}
	if uint64(len(b)-h) < n {
		return f, 0, false
	}
	f.Payload = append([]byte{}, b[h:h+int(n)]...)
	if f.Masked {
		for i := range f.Payload {
			f.Payload[i] ^= f.Key[i%4]
		}
	}
	return f, h + int(n), true
}

func decodeAll(b []byte) ([]rawFrame, bool) {
	var fs []rawFrame
	for len(b) > 0 {
		f, n, ok := decodeOne(b)
		if !ok {
			return fs, false
		}
		fs = append(fs, f)
		b = b[n:]
	}
	return fs, true
}

// encode a frame byte by byte (independent of writeFrame): used by the conformance generator
func (f rawFrame) encode() []byte {
	var b bytes.Buffer
	b0 := byte(f.Op & 15)
	if f.Fin {
		b0 |= 0x80
	}
	if f.R1 {
		b0 |= 0x40
	}
	if f.R2 {
		b0 |= 0x20
	}
	if f.R3 {
		b0 |= 0x10
	}
	b.WriteByte(b0)
	n := uint64(len(f.Payload))
	if f.Declare != 0 {
		n = f.Declare
	}
	mb := byte(0)
	if f.Masked {
		mb = 0x80
	}
	switch {
	case f.TopBit:
		b.WriteByte(mb | 127)
		v := n | 1<<63
		for i := 7; i >= 0; i-- {
			b.WriteByte(byte(v >> (8 * uint(i))))
		}
	case f.LenEnc == 2 || n > 65535:
		b.WriteByte(mb | 127)
		for i := 7; i >= 0; i-- {
			b.WriteByte(byte(n >> (8 * uint(i))))
		}
	case f.LenEnc == 1 || n > 125:
		b.WriteByte(mb | 126)
		b.WriteByte(byte(n >> 8))
		b.WriteByte(byte(n))
	default:
		b.WriteByte(mb | byte(n))
	}
	if f.Masked {
		k := f.Key
		if len(k) != 4 {
			k = []byte{0, 0, 0, 0}
		}
		b.Write(k)
		for i, x := range f.Payload {
			b.WriteByte(x ^ k[i%4])
		}
	} else {
		b.Write(f.Payload)
	}
	return b.Bytes()
}

func (f rawFrame) String() string {
	s := fmt.Sprintf("op=%d fin=%s rsv=%s%s%s mask=%s len=%d", f.Op, b01(f.Fin), b01(f.R1), b01(f.R2), b01(f.R3), b01(f.Masked), len(f.Payload))
	if f.LenEnc != 0 {
		s += fmt.Sprintf(" lenenc=%d", f.LenEnc)
	}
	if f.TopBit {
		s += " len64-topbit"
	}
	if f.Declare != 0 {
		s += fmt.Sprintf(" declared=%d", f.Declare)
	}
	if len(f.Payload) <= 48 {
		s += " payload=" + hx.Hex(f.Payload)
	}
	return s
}
