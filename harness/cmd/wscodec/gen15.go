package main

// Part 15: size limits. Frame sequences that are valid RFC 6455 and straddle the configured limits.

import (
	"bytes"
	"fmt"
	"strings"

	"github.com/lesismal/nbio/nbhttp/websocket"
	"verifharness/hx"
)

type replay15 struct {
	Seed     int64    `json:"seed"`
	Class    string   `json:"class"`
	Receiver cfg      `json:"receiver"`
	Frames   []string `json:"frames"`
	WireLen  int      `json:"wire_len"`
	WireHex  string   `json:"wire_hex,omitempty"`
	SegKind  string   `json:"segmentation"`
	Cuts     string   `json:"cuts"`
	Expect   string   `json:"expectation"`
	HowToRun string   `json:"how_to_run"`
}

type limCase struct {
	Class     string
	Frames    []rawFrame
	Limit     int
	ReadLimit int
	EnComp    bool
	Decomp    int
	Truncate  int // feed only the first Truncate bytes of the wire (0 = all): declared lengths without payload
}

// what the limit demands, computed from the frames alone (they are otherwise valid)
type limExpect struct {
	Deliver   []msg
	TooLarge  bool // the connection must be failed with "message too large" (close code 1009)
	CtlBig    bool // a control frame declares more than 125 bytes
	At        int  // frame index
	Why       string
	CtlInside bool // a control frame is part of the sequence (it must not count against the message limit: D30)
	Closed    bool // a close frame ended the connection
	Inflated  int  // bytes produced by inflating the compressed messages (cost of a model run)
}

func limitRef(frames []rawFrame, limit int) limExpect {
	var e limExpect
	e.At = -1
	assembled := 0
	var cur []byte
	curOp, curComp := 0, false
	for i, f := range frames {
		n := len(f.Payload)
		if f.Declare != 0 {
			n = int(f.Declare)
		}
		if f.Op >= 8 {
			if n > 125 {
				e.CtlBig, e.At, e.Why = true, i, fmt.Sprintf("control frame declares %d bytes", n)
				return e
			}
			// control frames never count against the message limit, inside a fragmented message or alone
			e.CtlInside = true
			if f.Op == 8 {
				e.Closed, e.At = true, i
				return e
			}
			continue
		}
		if f.Op != 0 {
			curOp, curComp, cur, assembled = f.Op, f.R1, nil, 0
		}
		if limit > 0 && assembled+n > limit {
			e.TooLarge, e.At, e.Why = true, i, fmt.Sprintf("%d bytes assembled + %d declared > limit %d", assembled, n, limit)
			return e
		}
		assembled += n
		cur = append(cur, f.Payload...)
		if f.Fin {
			body := cur
			if curComp {
				out, err := rfcInflate(cur)
				if err != nil {
					e.Why = "does not inflate"
					e.At = i
					return e
				}
				e.Inflated += len(out)
				if limit > 0 && len(out) > limit {
					e.TooLarge, e.At, e.Why = true, i, fmt.Sprintf("inflates to %d bytes > limit %d", len(out), limit)
					return e
				}
				body = out
			}
			e.Deliver = append(e.Deliver, msg{curOp, append([]byte{}, body...)})
			cur, assembled = nil, 0
		}
	}
	return e
}

func systematic15() []limCase {
	var cs []limCase
	tail := rawFrame{Fin: true, Op: 2, Payload: []byte("t")}
	limits := []int{1, 2, 10, 100, 125, 126, 127, 1000, 4096, 65535, 65536, 70000}
	for _, L := range limits {
		for _, d := range []int{-1, 0, 1, 2} {
			n := L + d
			if n < 0 {
				continue
			}
			p := compressible(n)
			for _, op := range []int{1, 2} {
				// one frame
				cs = append(cs, limCase{Class: fmt.Sprintf("one-frame/L%+d", d), Limit: L, Frames: []rawFrame{dataFrame(op, true, p), tail}})
				// the header alone already decides (nothing of an oversize message is buffered)
				if d > 0 {
					f := dataFrame(op, true, p)
					hdr := len(f.encode()) - len(p)
					cs = append(cs, limCase{Class: fmt.Sprintf("header-only/L%+d", d), Limit: L, Frames: []rawFrame{f}, Truncate: hdr})
				}
			}
			// fragments whose sum is n
			if n >= 2 {
				for k := 0; k < 3; k++ {
					a := 1 + rng.Intn(n-1)
					fr := fragments(2, p, []int{a})
					cs = append(cs, limCase{Class: fmt.Sprintf("two-fragments/L%+d", d), Limit: L, Frames: append(fr, tail)})
				}
				if n >= 4 {
					cuts := []int{rng.Intn(n), rng.Intn(n), rng.Intn(n)}
					sortInts(cuts)
					fr := fragments(1, p, cuts)
					cs = append(cs, limCase{Class: fmt.Sprintf("four-fragments/L%+d", d), Limit: L, Frames: append(fr, tail)})
					// empty fragments in between do not count
					fr2 := fragments(2, p, []int{n / 2})
					cs = append(cs, limCase{Class: fmt.Sprintf("fragments-with-empty/L%+d", d), Limit: L,
						Frames: []rawFrame{fr2[0], dataFrame(0, false, nil), dataFrame(0, false, nil), fr2[1], tail}})
				}
			}
			// the second message of a connection is judged on its own
			cs = append(cs, limCase{Class: fmt.Sprintf("second-message/L%+d", d), Limit: L,
				Frames: []rawFrame{dataFrame(2, true, compressible(minInt(L, 50))), dataFrame(2, true, p), tail}})
		}
		// permessage-deflate: small on the wire, L-1 .. 1000 L after inflation
		for _, mult := range []struct {
			name string
			n    int
		}{{"L-1", L - 1}, {"L", L}, {"L+1", L + 1}, {"L+2", L + 2}, {"2L", 2 * L}, {"10L", 10 * L}, {"1000L", 1000 * L}} {
			if mult.n < 0 || mult.n > 8<<20 {
				continue
			}
			body := bytes.Repeat([]byte{'z'}, mult.n)
			for _, final := range []bool{false, true} {
				z := deflateSync(body, 6, final)
				if len(z) > L {
					continue // refused by the declared length already; covered by one-frame
				}
				for _, dm := range []int{0, 1, 2} {
					cl := fmt.Sprintf("inflate/%s/final=%v", mult.name, final)
					cs = append(cs, limCase{Class: cl, Limit: L, EnComp: true, Decomp: dm,
						Frames: []rawFrame{{Fin: true, R1: true, Op: 2, Payload: z}, tail}})
					if len(z) >= 2 {
						cs = append(cs, limCase{Class: cl + "/fragmented", Limit: L, EnComp: true, Decomp: dm,
							Frames: []rawFrame{{R1: true, Op: 2, Payload: z[:len(z)/2]}, {Fin: true, Op: 0, Payload: z[len(z)/2:]}, tail}})
					}
				}
			}
		}
		// a control frame between the fragments of a message that is within the limit
		if L >= 10 {
			p := compressible(L)
			fr := fragments(2, p, []int{L - 3})
			cs = append(cs, limCase{Class: "control-between-fragments-near-limit", Limit: L,
				Frames: []rawFrame{fr[0], dataFrame(9, true, []byte("12345678")), fr[1], tail}})
		}
	}
	// unlimited
	for _, n := range []int{0, 1, 70000, 300000} {
		cs = append(cs, limCase{Class: "unlimited", Limit: 0, Frames: []rawFrame{dataFrame(2, true, compressible(n)), tail}})
	}
	cs = append(cs, limCase{Class: "unlimited/inflate", Limit: 0, EnComp: true, Decomp: 1,
		Frames: []rawFrame{{Fin: true, R1: true, Op: 2, Payload: deflateSync(bytes.Repeat([]byte{0}, 1<<20), 6, false)}, tail}})
	// control frames: 125 is fine, 126.. is refused from the header alone
	for _, op := range []int{8, 9, 10} {
		for _, n := range []int{125, 126, 127, 200, 65535, 65536, 1 << 30} {
			p := bytes.Repeat([]byte("c"), minInt(n, 70000))
			if op == 8 {
				p[0], p[1] = 3, 232
			}
			f := dataFrame(op, true, p)
			c := limCase{Class: fmt.Sprintf("control-%d", n), Limit: pick(0, 100, 1<<20), Frames: []rawFrame{dataFrame(9, true, []byte("a")), f, tail}}
			if n > 70000 {
				f.Declare = uint64(n)
				c.Frames[1] = f
			}
			cs = append(cs, c)
			if n > 125 {
				hdr := len(c.Frames[0].encode()) + len(f.encode()) - len(p)
				c2 := c
				c2.Class += "/header-only"
				c2.Truncate = hdr
				cs = append(cs, c2)
			}
		}
	}
	// read limit: frames larger than the limit arriving in pieces
	for _, R := range []int{1, 2, 10, 100, 1000, 5000} {
		for _, n := range []int{R / 2, R - 20, R - 2, R - 1, R, R + 1, 3 * R} {
			if n < 0 {
				continue
			}
			cs = append(cs, limCase{Class: fmt.Sprintf("read-limit/R=%d", R), ReadLimit: R, Limit: 0,
				Frames: []rawFrame{dataFrame(2, true, compressible(n)), dataFrame(9, true, []byte("p")), tail}})
		}
	}
	return cs
}

func random15() limCase {
	L := pick(1, 5, 50, 125, 126, 300, 5000, 65536)
	c := limCase{Class: "random", Limit: L, EnComp: rng.Intn(2) == 0, Decomp: pick(0, 1, 2)}
	nm := 1 + rng.Intn(4)
	for i := 0; i < nm; i++ {
		n := L + pick(-40, -2, -1, 0, 0, 1, 2, 30, L)
		if rng.Intn(3) != 0 {
			n = rng.Intn(L + 1)
		}
		if n < 0 {
			n = 0
		}
		p := compressible(n)
		op := 1 + rng.Intn(2)
		comp := c.EnComp && rng.Intn(2) == 0
		if comp {
			p = deflateSync(p, pick(1, 6, 9), rng.Intn(3) == 0)
		}
		k := rng.Intn(3)
		var cuts []int
		for j := 0; j < k && len(p) > 0; j++ {
			cuts = append(cuts, rng.Intn(len(p)+1))
		}
		sortInts(cuts)
		fr := fragments(op, p, cuts)
		fr[0].R1 = comp
		c.Frames = append(c.Frames, fr...)
		if rng.Intn(3) == 0 {
			c.Frames = append(c.Frames, dataFrame(9, true, randBytes(rng.Intn(126))))
		}
	}
	if rng.Intn(4) == 0 {
		c.ReadLimit = pick(50, 500, 5000, 1<<20)
	}
	return c
}

func part15(n int) {
	start := rep.Cases
	sendSide15()
	sys := systematic15()
	idx := 0
	for (idx < len(sys) || rep.Cases-start < n) && !tooMany() {
		var c limCase
		if idx < len(sys) {
			c = sys[idx]
			idx++
			if only != "" && !strings.HasPrefix(c.Class, only) {
				continue
			}
		} else {
			if only != "" {
				break
			}
			c = random15()
		}
		run15(c)
	}
	rep.Extra["part15_systematic_cases"] = len(sys)
	rep.Extra["part15_systematic_done"] = idx
}

// control frames above 125 bytes must be refused by WriteMessage, nothing may reach the wire
func sendSide15() {
	for _, client := range []bool{false, true} {
		for _, op := range []int{8, 9, 10} {
			for _, n := range []int{0, 1, 124, 125, 126, 127, 128, 1000, 65536} {
				c := cfg{Client: client, FrameLimit: pick(125, 32768), Level: 1, Decomp: 1, Hooks: true}
				ep := newEndpoint(c, nil)
				p := bytes.Repeat([]byte("c"), n)
				r, err := ep.write(op, p)
				rep.Case(fmt.Sprintf("15/send-control/%d/%d", op, n), true)
				rep.Stat("15:send-control")
				rp := map[string]interface{}{"endpoint": c, "call": fmt.Sprintf("WriteMessage(%d, %d bytes)", op, n)}
				if d := compareModel(model, ep, []opRes{r}); d != "" {
					finding("mismatch", "C15", "ws-sender-model", "sender: "+d, rp)
				}
				if n > 125 {
					if err == nil || len(ep.writes) != 0 {
						finding("oracle", "C15", "oversize-control-frame-sent", fmt.Sprintf("WriteMessage(opcode %d, %d bytes): err=%v, %d frames written", op, n, err, len(ep.writes)), rp)
					}
				} else if err != nil || len(ep.writes) != 1 {
					finding("oracle", "C15", "control-frame-send-refused", fmt.Sprintf("WriteMessage(opcode %d, %d bytes): err=%v, %d frames written", op, n, err, len(ep.writes)), rp)
				}
			}
		}
	}
}

func run15(c limCase) {
	var wire []byte
	var bounds []int
	var descr []string
	for _, f := range c.Frames {
		wire = append(wire, f.encode()...)
		bounds = append(bounds, len(wire))
		descr = append(descr, f.String())
	}
	if c.Truncate > 0 && c.Truncate < len(wire) {
		wire = wire[:c.Truncate]
	}
	exp := limitRef(c.Frames, c.Limit)
	rcfg := cfg{Client: rng.Intn(2) == 0, Limit: c.Limit, ReadLimit: c.ReadLimit, EnComp: c.EnComp, WComp: c.EnComp, FrameLimit: 32768, Level: 1, Decomp: c.Decomp, Hooks: true,
		Alloc: allocKinds[rng.Intn(len(allocKinds))]}
	rep.Stat("15:alloc=" + rcfg.Alloc)
	var segs []segmentation
	if c.ReadLimit > 0 {
		// pieces smaller and larger than the read limit
		for k := 0; k < 4; k++ {
			var cuts []int
			pos := 0
			for pos < len(wire) {
				pos += 1 + rng.Intn(minInt(2*c.ReadLimit, 4000)+1)
				cuts = append(cuts, pos)
			}
			segs = append(segs, segmentation{"read-limit-pieces", cuts})
		}
		segs = append(segs, segmentation{Kind: "whole"})
	} else {
		segs = []segmentation{{Kind: "whole"}, {Kind: "per-frame", Cuts: bounds}}
		if len(wire) <= 300 {
			segs = append(segs, segmentations(len(wire), 1)[1:]...)
		} else {
			segs = append(segs, segmentation{"random-cuts", randomCuts(len(wire), 5)})
		}
		if len(segs) > 6 && !thorough {
			segs = append(segs[:3], segs[len(segs)-2:]...)
		}
	}
	for si, sg := range segs {
		rp := replay15{Seed: rep.Seed, Class: c.Class, Receiver: rcfg, Frames: descr, WireLen: len(wire), SegKind: sg.Kind, Cuts: sprintCuts(sg.Cuts),
			Expect:   fmt.Sprintf("deliver %d; tooLarge=%v controlTooBig=%v at frame %d (%s)", len(exp.Deliver), exp.TooLarge, exp.CtlBig, exp.At, exp.Why),
			HowToRun: "build/bin/wscodec -parts 15 -seed <seed> -only <class> -v"}
		if len(wire) <= 1500 {
			rp.WireHex = hx.Hex(wire)
		}
		ep := newEndpoint(rcfg, func(max int) int { return 1 + rng.Intn(max) })
		pieces := cutAt(wire, sg.Cuts)
		// feed piece by piece: the read-limit oracle needs the cache size before every call
		var res []opRes
		dead := false
		tooLongSeen := false
		maxRead := 0
		delivered := 0
		for _, s := range pieces {
			before := websocket.VerifGetState(ep.c).Cached
			if len(s) > maxRead {
				maxRead = len(s)
			}
			ep.alloc.resetPeak()
			curStart := ep.alloc.cur
			r, err := ep.parse(s)
			res = append(res, r)
			after := websocket.VerifGetState(ep.c).Cached
			// --- O15: buffered unparsed input never exceeds the read limit (one read into an empty cache excepted)
			if c.ReadLimit > 0 {
				wantTooLong := before > 0 && before+len(s) > c.ReadLimit
				if wantTooLong != (r.Err == "toolong") {
					finding("oracle", "C15", "read-limit-decision", fmt.Sprintf("ReadLimit=%d, %d bytes cached, %d bytes read: Parse returned %s", c.ReadLimit, before, len(s), r.Err), rp)
				}
				if after > c.ReadLimit && after > maxRead {
					finding("oracle", "C15", "cache-exceeds-read-limit", fmt.Sprintf("ReadLimit=%d: %d bytes cached after a read of %d bytes (longest single read so far %d)", c.ReadLimit, after, len(s), maxRead), rp)
				}
				if r.Err == "toolong" {
					tooLongSeen = true
				}
			}
			// --- O15: what the allocator was asked for during this call
			if c.Limit > 0 {
				// cache growth + message under assembly (<= limit) + inflate buffer and its growth step (<= 2(limit+1)) + replies
				// + what was handed to the application during this call (it keeps those buffers)
				bound := curStart + 2*len(s) + (len(ep.msgs)-delivered+3)*c.Limit + 2048
				delivered = len(ep.msgs)
				if ep.alloc.peak > bound {
					finding("oracle", "C15", "allocation-beyond-limit", fmt.Sprintf("limit %d, %d bytes cached, %d read: the allocator held %d more bytes at the peak of this Parse than before it", c.Limit, before, len(s), ep.alloc.peak-curStart), rp)
				}
			}
			if err != nil || ep.mc.closed {
				res = append(res, ep.closeClean())
				dead = true
				break
			}
		}
		_ = dead
		rep.Ops += len(res)
		rep.Case(fmt.Sprintf("15/%s/limit=%d/rl=%d/comp=%v/dm=%d/%s", c.Class, c.Limit, c.ReadLimit, c.EnComp, c.Decomp, sg.Kind), len(wire) >= 2)
		rep.Stat("15:seg:" + sg.Kind)
		if verbose {
			fmt.Printf("%s %v seg=%s cuts=%v\n  expect: %s\n  impl: %+v\n  msgs=%d writes=%d\n", c.Class, descr, sg.Kind, sprintCuts(sg.Cuts), rp.Expect, res, len(ep.msgs), len(ep.writes))
		}
		cost := len(wire) + exp.Inflated
		if modelable(rcfg) && (cost <= 8192 || (thorough && (cost <= 70000 || si == 0)) || (si == 0 && cost <= 300000 && rng.Intn(5) == 0)) {
			rep.Stat("15:model-runs")
			if d := compareModel(model, ep, res); d != "" {
				finding("mismatch", "C15", "ws-receiver-model", "receiver: "+d, rp)
			}
		}
		if tooLongSeen {
			rep.Stat("15:read-limit-hit")
			continue // the rest of the expectation does not apply: the connection was failed for the read limit
		}
		oracle15(ep, res, c, exp, rp)
	}
}

func oracle15(ep *endpoint, res []opRes, c limCase, exp limExpect, rp replay15) {
	fail := func(prop, sig, what string) { finding("oracle", prop, sig, what, rp) }
	perr := "-"
	for _, r := range res {
		if r.Err != "-" {
			perr = r.Err
		}
	}
	// never deliver more than the limit, whatever the expectation says
	if c.Limit > 0 {
		for i, m := range ep.msgs {
			if len(m.P) > c.Limit {
				fail("C15", "oversize-message-delivered", fmt.Sprintf("delivery %d has %d bytes, MessageLengthLimit=%d", i, len(m.P), c.Limit))
				return
			}
		}
	}
	truncated := c.Truncate > 0
	wrote1009 := false
	for _, w := range ep.writes {
		f, _, ok := decodeOne(w)
		if ok && f.Op == 8 && len(f.Payload) >= 2 && int(f.Payload[0])<<8|int(f.Payload[1]) == 1009 {
			wrote1009 = true
		}
	}
	switch {
	case exp.TooLarge || exp.CtlBig:
		want := "toolarge"
		sig := "oversize-message-not-refused"
		if exp.CtlBig {
			want, sig = "ctlbig", "oversize-control-frame-not-refused"
			if perr == "toolarge" && c.Limit > 0 {
				perr = "ctlbig" // the declared length also exceeds the message limit, which is tested first: same refusal
			}
		}
		if perr != want {
			fail("C15", sig, fmt.Sprintf("%s: Parse returned %s, want %s; %d messages delivered", exp.Why, perr, want, len(ep.msgs)))
			return
		}
		if !wrote1009 {
			fail("C15", "no-1009-close-frame", fmt.Sprintf("%s: the connection was failed with %s but no close frame with code 1009 was written", exp.Why, perr))
			return
		}
		if !ep.mc.closed {
			fail("C15", "conn-left-open-after-too-large", "the connection is still open")
			return
		}
	default:
		if perr == "toolarge" || perr == "ctlbig" || wrote1009 {
			if exp.CtlInside && perr == "toolarge" {
				fail("C12", "control-frame-counted-against-message-limit",
					fmt.Sprintf("every message is within MessageLengthLimit=%d, but a control frame was counted against it: Parse returned %s", c.Limit, perr))
				return
			}
			fail("C15", "message-within-limit-refused", fmt.Sprintf("every message is within MessageLengthLimit=%d, Parse returned %s (1009 written: %v)", c.Limit, perr, wrote1009))
			return
		}
	}
	// deliveries before the refusal: exactly the complete messages
	if exp.Closed {
		// what follows a close frame inside the same read is a C13 question (see -strict-after-fail)
		if len(ep.msgs) < len(exp.Deliver) {
			fail("C15", "delivery-count-under-limit", fmt.Sprintf("%d messages delivered before the close frame, expected %d", len(ep.msgs), len(exp.Deliver)))
		}
		return
	}
	if !truncated {
		if len(ep.msgs) != len(exp.Deliver) && exp.Why != "does not inflate" {
			if exp.CtlInside && perr == "toolarge" {
				fail("C12", "control-frame-counted-against-message-limit",
					fmt.Sprintf("a control frame between the fragments of a message within MessageLengthLimit=%d was counted against it: Parse returned %s", c.Limit, perr))
				return
			}
			fail("C15", "delivery-count-under-limit", fmt.Sprintf("%d messages delivered, expected %d (%s)", len(ep.msgs), len(exp.Deliver), exp.Why))
			return
		}
		for i := range ep.msgs {
			if i < len(exp.Deliver) && (ep.msgs[i].T != exp.Deliver[i].T || !bytes.Equal(ep.msgs[i].P, exp.Deliver[i].P)) {
				fail("C15", "delivery-differs-under-limit", fmt.Sprintf("delivery %d: %d bytes, expected %d bytes", i, len(ep.msgs[i].P), len(exp.Deliver[i].P)))
				return
			}
		}
	} else if len(ep.msgs) > len(exp.Deliver) {
		fail("C15", "delivery-count-under-limit", fmt.Sprintf("%d messages delivered from a truncated wire, at most %d are complete", len(ep.msgs), len(exp.Deliver)))
	}
}
