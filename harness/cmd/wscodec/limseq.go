package main

// A dimension shared by part 12 and part 13: a receiver with a SMALL MessageLengthLimit and a long valid sequence of
// small messages (some fragmented, pings in between) whose total wire size is several times the limit, fed in
// segmentations that leave a partial frame in the cache and bring the rest together with many further frames:
// whole, "1 byte then the rest", a cut inside the header of frame k, a cut inside the payload of frame k, random cuts.
// Every message respects the limit, so RFC 6455 and the limit both say: accept; and the deliveries must not depend on
// how the wire was cut (c12_segmentation_limit / c13_sequences_segmented say so for the model).
// Findings go to the property of the part that runs the family: C13 "a valid sequence is refused", C12 "a message is lost
// depending on the segmentation".

import (
	"fmt"

	"verifharness/hx"
)

func limitSeqFrames(L int) []rawFrame {
	var fs []rawFrame
	wire := 0
	maxPay := L
	if maxPay > 120 {
		maxPay = 120
	}
	i := 0
	for wire < 5*L+400 {
		i++
		n := rng.Intn(maxPay + 1)
		if i == 3 {
			n = L // one message exactly at the limit
		}
		op := 1 + rng.Intn(2)
		var p []byte
		if op == 1 {
			p = utf8Text(n)
		} else {
			p = randBytes(n)
		}
		var fr []rawFrame
		if i%4 == 0 && n >= 2 {
			a := 1 + rng.Intn(n-1)
			fr = fragments(op, p, []int{a})
		} else {
			fr = []rawFrame{dataFrame(op, true, p)}
		}
		for j, f := range fr {
			if j > 0 && rng.Intn(2) == 0 {
				pf := dataFrame(9, true, randBytes(rng.Intn(12)))
				fs = append(fs, pf)
				wire += len(pf.encode())
			}
			fs = append(fs, f)
			wire += len(f.encode())
		}
		if i%5 == 0 {
			pf := dataFrame(pick(9, 10), true, randBytes(rng.Intn(20)))
			fs = append(fs, pf)
			wire += len(pf.encode())
		}
	}
	return fs
}

var limSeqMismatches int

func limitSeqFamily(prop string) {
	limits := []int{64, 100, 256, 1024, 2048}
	for li, L := range limits {
		variants := 1
		if thorough {
			variants = 4
		}
		for v := 0; v < variants && !tooMany(); v++ {
			frames := limitSeqFrames(L)
			var wire []byte
			var bounds []int
			var descr []string
			for _, f := range frames {
				wire = append(wire, f.encode()...)
				bounds = append(bounds, len(wire))
				if len(descr) < 40 {
					descr = append(descr, f.String())
				}
			}
			exp := rfcRef(frames, false)
			rcfg := cfg{Client: rng.Intn(2) == 0, Limit: L, ReadLimit: pick(0, 1<<20, 64<<20), FrameLimit: 32768, Level: 1, Decomp: 1, Hooks: true,
				Alloc: allocKinds[(li+v)%len(allocKinds)]}
			// the segmentations
			segs := []segmentation{{Kind: "whole"}, {Kind: "1-byte-then-rest", Cuts: []int{1}}, {Kind: "2-bytes-then-rest", Cuts: []int{2}}}
			for _, k := range []int{1, 2, 3, len(frames) / 2, len(frames) - 2} {
				if k <= 0 || k >= len(frames) {
					continue
				}
				start := bounds[k-1]
				segs = append(segs, segmentation{fmt.Sprintf("inside-header-of-frame-%d", k), []int{start + 1}})
				if bounds[k]-start > 4 {
					segs = append(segs, segmentation{fmt.Sprintf("inside-payload-of-frame-%d", k), []int{start + (bounds[k]-start)/2 + 1}})
				}
			}
			segs = append(segs, segmentation{"first-frame-then-1-byte-then-rest", []int{bounds[0], bounds[0] + 1}})
			for r := 0; r < 4; r++ {
				segs = append(segs, segmentation{"random-cuts", randomCuts(len(wire), 1+rng.Intn(4))})
			}
			segs = append(segs, segmentation{"per-frame", bounds})
			wholeOK := true
			for si, sg := range segs {
				rp := replay13{Seed: rep.Seed, Class: fmt.Sprintf("small-limit-long-sequence/L=%d", L), Receiver: rcfg, Frames: descr, SegKind: sg.Kind, Cuts: sprintCuts(sg.Cuts),
					Expect:   fmt.Sprintf("%s; %d deliveries, %d pongs; %d frames, %d wire bytes, every message <= MessageLengthLimit=%d", exp.End, len(exp.Deliver), len(exp.Pongs), len(frames), len(wire), L),
					HowToRun: "feed wire_hex, cut at `cuts`, to Conn.Parse of a Conn built as in harness/cmd/wscodec/endpoint.go (newEndpoint) with the receiver configuration given"}
				if len(wire) <= 6000 {
					rp.WireHex = hx.Hex(wire)
				} else {
					rp.WireHex = fmt.Sprintf("(%d bytes; regenerate with -seed %d)", len(wire), rep.Seed)
				}
				ep := newEndpoint(rcfg, func(max int) int { return 1 + rng.Intn(max) })
				res := ep.feed(cutAt(wire, sg.Cuts), 0)
				rep.Ops += len(res)
				rep.Case(fmt.Sprintf("limseq/%s/L=%d/%s", prop, L, sg.Kind), true)
				rep.Stat("limseq:" + prop)
				if d := compareModel(model, ep, res); d != "" && limSeqMismatches < 3 {
					// a few are enough: the budget of mismatches (tooMany) belongs to the generators that run after this family
					limSeqMismatches++
					finding("mismatch", prop, "ws-receiver-model", "receiver: "+d, rp)
				}
				sig, what := check13(ep, res, exp, true, true)
				if sig == "" {
					continue
				}
				if si == 0 {
					wholeOK = false
				}
				if prop == "C12" {
					if wholeOK {
						sig = "delivery-depends-on-segmentation"
						what = fmt.Sprintf("MessageLengthLimit=%d, %d messages each within the limit (%d wire bytes): fed in one piece everything is delivered; cut as %q (%s): %s",
							L, len(exp.Deliver), len(wire), sg.Kind, sprintCuts(sg.Cuts), what)
					} else {
						sig = "limited-receiver-" + sig
					}
				} else {
					what = fmt.Sprintf("MessageLengthLimit=%d, every message within it, segmentation %q: %s", L, sg.Kind, what)
				}
				finding("oracle", prop, sig, what, rp)
			}
		}
	}
}
