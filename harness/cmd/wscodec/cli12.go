package main

// Part 12, client tier: the real websocket.Dialer against a real nbhttp server, end to end.
// The server greets in OnOpen (several messages written immediately after the 101: text, empty, 126 bytes, 5000 bytes)
// and echoes what it receives.  The client connects directly, or THROUGH an in-process TCP relay that holds back the
// bytes flowing from the server to the client until the link has been quiet for a while and then delivers them in ONE
// write: nothing but the segmentation changes, the handshake answer and the first frames now arrive in the same read
// (what TCP coalescing or one TLS record do in the field).  Plain and TLS (the library's own TLS client, TLS 1.2),
// the synchronous Dial and the asynchronous one (result handler argument), with and without greetings; in every cell the
// client also writes right after Dial returned (the mirror: first client frames behind the upgrade request).
// Oracle (Property C12): Dial succeeds, the greetings arrive exactly once and in order, then every echo round trip works,
// the connection stays open.  Real sockets: a failing cell is run a second time before it is reported.

import (
	"bytes"
	"fmt"
	"io"
	"net"
	"net/http"
	"strings"
	"sync"
	"time"

	"github.com/lesismal/nbio/nbhttp"
	"github.com/lesismal/nbio/nbhttp/websocket"
)

type dialCell struct {
	Relay bool `json:"through_coalescing_relay"`
	TLS   bool `json:"tls"`
	Async bool `json:"async_dial"`
	Greet bool `json:"server_greets_in_OnOpen"`
}

func (c dialCell) String() string {
	return fmt.Sprintf("relay=%v/tls=%v/async=%v/greet=%v", c.Relay, c.TLS, c.Async, c.Greet)
}

func dialGreetings() []msg {
	return []msg{
		{1, []byte("greeting-1 \xe2\x82\xac")},
		{1, nil},
		{2, bytes.Repeat([]byte{0xA5}, 126)},
		{2, bytes.Repeat([]byte("0123456789"), 500)},
		{1, []byte("last greeting")},
	}
}

func dialEchoes() []msg {
	return []msg{
		{1, []byte("first client message, written right after Dial returned")},
		{2, nil},
		{2, bytes.Repeat([]byte{7}, 125)},
		{2, bytes.Repeat([]byte{9}, 70000)},
		{1, []byte("bye")},
	}
}

// ---- the relay: server->client bytes are collected until the link was quiet for `quiet`, then written in one piece
type relay struct {
	ln     net.Listener
	target string
	quiet  time.Duration
	wg     sync.WaitGroup
}

func startRelay(target string, quiet time.Duration) (*relay, error) {
	ln, err := net.Listen("tcp", "127.0.0.1:0")
	if err != nil {
		return nil, err
	}
	r := &relay{ln: ln, target: target, quiet: quiet}
	go func() {
		for {
			c, err := ln.Accept()
			if err != nil {
				return
			}
			go r.serve(c)
		}
	}()
	return r, nil
}

func (r *relay) serve(cli net.Conn) {
	defer cli.Close()
	srv, err := net.DialTimeout("tcp", r.target, 3*time.Second)
	if err != nil {
		return
	}
	defer srv.Close()
	go func() { // client -> server: as it comes
		io.Copy(srv, cli)
		srv.Close()
	}()
	buf := make([]byte, 64<<10)
	var held []byte
	for {
		if len(held) == 0 {
			srv.SetReadDeadline(time.Time{})
		} else {
			srv.SetReadDeadline(time.Now().Add(r.quiet))
		}
		n, err := srv.Read(buf)
		held = append(held, buf[:n]...)
		if err != nil {
			if ne, ok := err.(net.Error); ok && ne.Timeout() {
				// quiet: hand over everything collected so far in one write
				if _, werr := cli.Write(held); werr != nil {
					return
				}
				held = held[:0]
				continue
			}
			if len(held) > 0 {
				cli.Write(held)
			}
			return
		}
	}
}

func (r *relay) addr() string { return r.ln.Addr().String() }
func (r *relay) stop()        { r.ln.Close() }

// ---- the server
type dialServer struct {
	eng      *nbhttp.Engine
	addr     string
	addrTLS  string
	mu       sync.Mutex
	srvErr   []string
	srvConns int
}

func startDialServer() (*dialServer, error) {
	e2eInitTLS()
	sv := &dialServer{}
	mux := http.NewServeMux()
	mux.HandleFunc("/ws", func(w http.ResponseWriter, r *http.Request) {
		greet := r.URL.Query().Get("greet") == "1"
		u := websocket.NewUpgrader()
		u.Engine = sv.eng
		u.CheckOrigin = func(*http.Request) bool { return true }
		u.OnOpen(func(c *websocket.Conn) {
			sv.mu.Lock()
			sv.srvConns++
			sv.mu.Unlock()
			if !greet {
				return
			}
			for _, g := range dialGreetings() {
				if err := c.WriteMessage(websocket.MessageType(g.T), g.P); err != nil {
					sv.mu.Lock()
					sv.srvErr = append(sv.srvErr, "greeting: "+err.Error())
					sv.mu.Unlock()
					return
				}
			}
		})
		u.OnMessage(func(c *websocket.Conn, mt websocket.MessageType, data []byte) {
			_ = c.WriteMessage(mt, data)
		})
		if _, err := u.Upgrade(w, r, nil); err != nil {
			sv.mu.Lock()
			sv.srvErr = append(sv.srvErr, "upgrade: "+err.Error())
			sv.mu.Unlock()
		}
	})
	sv.eng = nbhttp.NewEngine(nbhttp.Config{Network: "tcp", NPoller: 2, Handler: mux, Addrs: []string{"127.0.0.1:0"},
		AddrsTLS: []string{"127.0.0.1:0"}, TLSConfig: e2eLibTLS})
	if err := sv.eng.Start(); err != nil {
		return nil, err
	}
	sv.addr, sv.addrTLS = sv.eng.Addrs[0], sv.eng.AddrsTLS[0]
	return sv, nil
}

// ---- one client connection
type dialOutcome struct {
	Cell dialCell `json:"cell"`
	Sig  string   `json:"-"`
	What string   `json:"what"`
	Got  int      `json:"messages_received"`
}

func msgDescr(m msg) string {
	if len(m.P) <= 24 {
		return fmt.Sprintf("type %d %q", m.T, m.P)
	}
	return fmt.Sprintf("type %d, %d bytes", m.T, len(m.P))
}

func runDialCell(cell dialCell, sv *dialServer, cli *nbhttp.Engine) (out dialOutcome) {
	out.Cell = cell
	target := sv.addr
	if cell.TLS {
		target = sv.addrTLS
	}
	quiet := 120 * time.Millisecond
	if cell.Relay {
		rl, err := startRelay(target, quiet)
		if err != nil {
			out.Sig, out.What = "dialer-infrastructure", "relay: "+err.Error()
			return
		}
		defer rl.stop()
		target = rl.addr()
	}
	scheme := "ws"
	if cell.TLS {
		scheme = "wss"
	}
	greet := "0"
	if cell.Greet {
		greet = "1"
	}
	url := fmt.Sprintf("%s://%s/ws?greet=%s", scheme, target, greet)

	var mu sync.Mutex
	var got []msg
	closed := false
	var closeErr error
	u := websocket.NewUpgrader()
	u.Engine = cli
	u.OnMessage(func(c *websocket.Conn, mt websocket.MessageType, data []byte) {
		mu.Lock()
		got = append(got, msg{int(mt), append([]byte{}, data...)})
		mu.Unlock()
	})
	u.OnClose(func(c *websocket.Conn, err error) {
		mu.Lock()
		closed, closeErr = true, err
		mu.Unlock()
	})
	d := &websocket.Dialer{Engine: cli, Upgrader: u, DialTimeout: 8 * time.Second}
	if cell.TLS {
		// TLS 1.2 at most: with llib v1.2.4 the client's blocking TLS 1.3 handshake always fails ("bad record MAC"), a
		// defect of the dependency that the C10 harness reports as an observation (httpe2e, clientTLS13Probe)
		d.TLSClientConfig = nbhttp.VerifClientTLS(true)
	}
	var conn *websocket.Conn
	var derr error
	if cell.Async {
		done := make(chan struct{})
		_, _, _ = d.Dial(url, nil, func(c *websocket.Conn, resp *http.Response, err error) {
			conn, derr = c, err
			close(done)
		})
		select {
		case <-done:
		case <-time.After(10 * time.Second):
			out.Sig, out.What = "dialer-dial-failed", "asynchronous Dial: the result handler was not called within 10 s"
			return
		}
	} else {
		conn, _, derr = d.Dial(url, nil)
	}
	if derr != nil || conn == nil {
		out.Sig, out.What = "dialer-dial-failed", fmt.Sprintf("Dial(%s): %v", url, derr)
		return
	}
	defer conn.Close()
	// the client writes at once (the mirror: frames right behind the handshake)
	echoes := dialEchoes()
	writeErr := ""
	for i, m := range echoes {
		if err := conn.WriteMessage(websocket.MessageType(m.T), m.P); err != nil {
			writeErr = fmt.Sprintf("WriteMessage %d right after Dial returned: %v", i, err)
			echoes = echoes[:i]
			break
		}
	}
	var want []msg
	if cell.Greet {
		want = append(want, dialGreetings()...)
	}
	nGreet := len(want)
	want = append(want, echoes...)
	deadline := time.Now().Add(6 * time.Second)
	for time.Now().Before(deadline) {
		mu.Lock()
		n, cl := len(got), closed
		mu.Unlock()
		if n >= len(want) || cl {
			break
		}
		time.Sleep(2 * time.Millisecond)
	}
	time.Sleep(20 * time.Millisecond) // anything delivered twice would show up now
	mu.Lock()
	defer mu.Unlock()
	out.Got = len(got)
	// the greetings come first and in order (the echoes are answers to what was written after Dial returned, but they may
	// overtake nothing: one connection, one direction)
	for i := 0; i < len(want); i++ {
		if i >= len(got) {
			what := "echo of client message"
			sig := "dialer-echo-lost"
			if i < nGreet {
				what, sig = "greeting", "dialer-greeting-lost"
			}
			out.Sig = sig
			out.What = fmt.Sprintf("%s %d (%s) was never delivered to the client's OnMessage: %d of %d messages arrived; client connection closed=%v (%v)",
				what, i, msgDescr(want[i]), len(got), len(want), closed, closeErr)
			if writeErr != "" {
				out.What += "; " + writeErr
			}
			return
		}
		if got[i].T != want[i].T || !bytes.Equal(got[i].P, want[i].P) {
			out.Sig = "dialer-message-differs"
			out.What = fmt.Sprintf("message %d delivered to the client: %s, expected %s", i, msgDescr(got[i]), msgDescr(want[i]))
			return
		}
	}
	if len(got) > len(want) {
		out.Sig, out.What = "dialer-message-duplicated", fmt.Sprintf("%d messages delivered, %d expected", len(got), len(want))
		return
	}
	if writeErr != "" {
		out.Sig, out.What = "dialer-write-failed", fmt.Sprintf("%s; client connection closed=%v (%v)", writeErr, closed, closeErr)
		return
	}
	if closed {
		out.Sig, out.What = "dialer-conn-closed", fmt.Sprintf("the client connection was closed during the exchange: %v", closeErr)
	}
	return
}

func dialerTier() {
	sv, err := startDialServer()
	if err != nil {
		finding("oracle", "C12", "dialer-infrastructure", "server: "+err.Error(), nil)
		return
	}
	cli := nbhttp.NewEngine(nbhttp.Config{})
	if err := cli.Start(); err != nil {
		finding("oracle", "C12", "dialer-infrastructure", "client engine: "+err.Error(), nil)
		return
	}
	defer func() {
		done := make(chan struct{})
		go func() { cli.Stop(); sv.eng.Stop(); close(done) }()
		select {
		case <-done:
		case <-time.After(10 * time.Second):
		}
	}()
	var cells []dialCell
	for _, relay := range []bool{false, true} {
		for _, tls := range []bool{false, true} {
			for _, async := range []bool{false, true} {
				for _, greet := range []bool{true, false} {
					c := dialCell{relay, tls, async, greet}
					if only != "" && !strings.Contains(c.String(), only) {
						continue
					}
					cells = append(cells, c)
				}
			}
		}
	}
	rounds := 1
	if thorough {
		rounds = 5
	}
	for round := 0; round < rounds; round++ {
		outs := make([]dialOutcome, len(cells))
		run := func(idx []int) {
			var wg sync.WaitGroup
			for _, i := range idx {
				wg.Add(1)
				go func(i int) {
					defer wg.Done()
					outs[i] = runDialCell(cells[i], sv, cli)
				}(i)
			}
			wg.Wait()
		}
		all := make([]int, len(cells))
		for i := range all {
			all[i] = i
		}
		run(all)
		first := make([]dialOutcome, len(outs))
		copy(first, outs)
		var again []int
		for i, o := range outs {
			if o.Sig != "" {
				again = append(again, i)
			}
		}
		if len(again) > 0 {
			run(again)
		}
		for i, o := range outs {
			rep.Case("12d/"+cells[i].String(), true)
			rep.Stat("12d:cells")
			if o.Sig != "" && first[i].Sig == o.Sig {
				sv.mu.Lock()
				serr := append([]string{}, sv.srvErr...)
				sv.mu.Unlock()
				finding("oracle", "C12", o.Sig, fmt.Sprintf("websocket.Dialer, %s: %s", cells[i].String(), o.What),
					map[string]interface{}{"cell": cells[i], "outcome": o, "first_run": first[i].What, "server_side_errors": serr,
						"how_to_run": "build/bin/wscodec -parts 12d [-only relay=true/tls=false] (server, relay and client are in-process on loopback; a failing cell is run twice)"})
			}
		}
	}
	rep.Extra["part12_dialer"] = fmt.Sprintf("%d cells: direct / coalescing relay x plain / TLS x sync / async Dial x greetings or not; %d greetings, %d echo round trips", len(cells), len(dialGreetings()), len(dialEchoes()))
}
