package main

// RFC 6455 written down independently of the implementation and of the Coq model: what an endpoint has to do
// with a sequence of frames.  (UTF-8 per RFC 3629 with a hand-written decoder; close codes per RFC 6455 7.4 and
// the IANA registry; permessage-deflate payloads inflated with compress/flate after appending 00 00 ff ff.)

import (
	"bytes"
	"compress/flate"
	"fmt"
	"io"
)

type expect struct {
	Deliver []msg    // messages delivered before the connection ends, in order
	Pongs   [][]byte // pong payloads written before the connection ends, in order
	End     string   // "open", "closed" (by a valid close frame), "failed"
	EndAt   int      // index of the frame that ends the connection (-1 when open)
	Why     string
	// End == "closed": the echo
	EchoEmpty  bool
	EchoCode   int
	EchoReason []byte
	// the message that contains the offending frame: must never be delivered
	Poison *msg
	// RSV1 on a control or continuation frame while permessage-deflate is negotiated: RFC 7692 says fail,
	// RFC 6455 alone leaves it to the extension; both outcomes are accepted and only counted
	Lenient bool
	// the non-empty data frames in wire order (what an OnDataFrame handler is given: type of the MESSAGE, FIN, raw payload)
	// and the index of each in the sequence
	DFrames  []dframe
	DFrameAt []int
	// a frame sequence whose outcome depends on the message length limit is not judged here
}

// rfcUTF8 decodes by hand: shortest form, no surrogates, at most U+10FFFF
func rfcUTF8(b []byte) bool {
	i := 0
	for i < len(b) {
		c := b[i]
		var n int
		var cp, min rune
		switch {
		case c < 0x80:
			i++
			continue
		case c&0xE0 == 0xC0:
			n, cp, min = 1, rune(c&0x1F), 0x80
		case c&0xF0 == 0xE0:
			n, cp, min = 2, rune(c&0x0F), 0x800
		case c&0xF8 == 0xF0:
			n, cp, min = 3, rune(c&0x07), 0x10000
		default:
			return false
		}
		if i+n >= len(b) {
			return false
		}
		for k := 1; k <= n; k++ {
			x := b[i+k]
			if x&0xC0 != 0x80 {
				return false
			}
			cp = cp<<6 | rune(x&0x3F)
		}
		if cp < min || cp > 0x10FFFF || (cp >= 0xD800 && cp <= 0xDFFF) {
			return false
		}
		i += n + 1
	}
	return true
}

func rfcCloseCode(c int) bool {
	switch {
	case c >= 1000 && c <= 1003:
		return true
	case c >= 1007 && c <= 1011:
		return true
	case c == 1015: // accepted on the wire by this implementation's table and by the property's list
		return true
	case c >= 3000 && c <= 4999:
		return true
	}
	return false
}

func rfcInflate(payload []byte) ([]byte, error) {
	// RFC 7692 7.2.2: append 00 00 ff ff; a final empty stored block lets the stream reader end cleanly
	r := flate.NewReader(io.MultiReader(bytes.NewReader(payload), bytes.NewReader([]byte{0, 0, 0xff, 0xff, 1, 0, 0, 0xff, 0xff})))
	return io.ReadAll(r)
}

func rfcRef(frames []rawFrame, encomp bool) expect { return rfcRefOpt(frames, encomp, true) }

// msgChecks=false: what is left of the RFC for an endpoint that never assembles messages (no OnMessage handler): the
// checks that need the whole message (UTF-8 of a text message, inflating a compressed one) are not made
func rfcRefOpt(frames []rawFrame, encomp bool, msgChecks bool) expect {
	e := expect{End: "open", EndAt: -1}
	inMsg := false
	var cur []byte
	curOp := 0
	curComp := false
	fail := func(i int, why string) expect {
		e.End, e.EndAt, e.Why = "failed", i, why
		return e
	}
	for i, f := range frames {
		poison := func() {
			if inMsg {
				e.Poison = &msg{curOp, append(append([]byte{}, cur...), f.Payload...)}
			}
		}
		if f.TopBit {
			poison()
			return fail(i, "64-bit length with the most significant bit set")
		}
		if f.R2 || f.R3 {
			poison()
			return fail(i, "RSV2/RSV3 set")
		}
		if f.R1 && !encomp {
			poison()
			return fail(i, "RSV1 set without a negotiated extension")
		}
		if f.R1 && (f.Op == 0 || f.Op >= 8) {
			e.Lenient = true
		}
		switch {
		case (f.Op >= 3 && f.Op <= 7) || f.Op >= 11:
			poison()
			return fail(i, fmt.Sprintf("reserved opcode %d", f.Op))
		case f.Op >= 8:
			if !f.Fin {
				return fail(i, "fragmented control frame")
			}
			if len(f.Payload) > 125 {
				return fail(i, "control frame longer than 125 bytes")
			}
			switch f.Op {
			case 9:
				e.Pongs = append(e.Pongs, f.Payload)
			case 8:
				p := f.Payload
				switch {
				case len(p) == 0:
					e.End, e.EndAt, e.EchoEmpty = "closed", i, true
					return e
				case len(p) == 1:
					return fail(i, "close frame with a one-byte body")
				}
				code := int(p[0])<<8 | int(p[1])
				if !rfcCloseCode(code) {
					return fail(i, fmt.Sprintf("close code %d must not appear on the wire", code))
				}
				if !rfcUTF8(p[2:]) {
					return fail(i, "close reason is not UTF-8")
				}
				e.End, e.EndAt, e.EchoCode, e.EchoReason = "closed", i, code, p[2:]
				return e
			}
		default:
			if f.Op == 0 {
				if !inMsg {
					return fail(i, "continuation frame without a message to continue")
				}
			} else {
				if inMsg {
					poison()
					return fail(i, "new data frame inside a fragmented message")
				}
				inMsg, curOp, curComp, cur = true, f.Op, f.R1, nil
			}
			cur = append(cur, f.Payload...)
			if len(f.Payload) > 0 {
				e.DFrames = append(e.DFrames, dframe{curOp, f.Fin, f.Payload})
				e.DFrameAt = append(e.DFrameAt, i)
			}
			if f.Fin {
				body := cur
				if curComp && msgChecks {
					out, err := rfcInflate(cur)
					if err != nil {
						e.Poison = &msg{curOp, cur}
						return fail(i, "compressed message does not inflate: "+err.Error())
					}
					body = out
				}
				if msgChecks && curOp == 1 && !rfcUTF8(body) {
					e.Poison = &msg{curOp, body}
					return fail(i, "text message is not UTF-8")
				}
				e.Deliver = append(e.Deliver, msg{curOp, append([]byte{}, body...)})
				inMsg, cur = false, nil
			}
		}
	}
	return e
}
