package main

// Tier S: the real poller and connection code on the emulated kernel, under the cooperative scheduler.

import (
	"fmt"
	"math/rand"
	"os"
	"runtime"
	"strconv"
	"strings"
	"syscall"

	"github.com/lesismal/nbio"
	"github.com/lesismal/nbio/verifsched"
	"github.com/lesismal/nbio/verifsys"
	"verifharness/hx"
)

var modeNames = []string{"LT", "ET", "ETOS"}

// wop is one application write.
type wop struct {
	Kind string `json:"kind"` // w | wv | sf
	N    []int  `json:"n"`
}

// simStep is one step of the scenario driver after the origin part.
type simStep struct {
	Kind   string `json:"kind"` // write | spawn | pread | psend | quiesce
	Writes []wop  `json:"writes,omitempty"`
	K      int    `json:"k,omitempty"` // pread: bytes (0 = everything in flight)
}

type simCase struct {
	Seed   int64     `json:"case_seed"`
	Mode   int       `json:"mode"` // 0 LT, 1 ET, 2 ET+ONESHOT
	Async  bool      `json:"async_read"`
	Cap    int       `json:"sndbuf"`
	Merge  bool      `json:"merge_level_out"`
	Origin string    `json:"origin"`
	Hooks  string    `json:"hooks"` // default | onread (g.OnRead custom reader) | bufhooks (OnReadBufferAlloc/Free) | execute (custom Execute, writes from Conn.Execute jobs)
	Deep   bool      `json:"deep_queue,omitempty"` // many queue entries that the send buffer takes all at once
	OW     []wop     `json:"origin_writes"`
	Steps  []simStep `json:"steps"`
}

const sfFileSize = 300 << 10

func genSize(r *rand.Rand, cap int) int {
	max := 64 * cap
	if max > 260<<10 {
		max = 260 << 10
	}
	var n int
	switch r.Intn(12) {
	case 0:
		n = 0
	case 1:
		n = 1
	case 2:
		n = cap - 1
	case 3:
		n = cap
	case 4:
		n = cap + 1
	case 5:
		n = 2*cap + 1
	case 6:
		n = 65536 + r.Intn(3) - 1
	case 7:
		n = 1 + r.Intn(cap)
	default:
		n = 1 + r.Intn(8*cap)
	}
	if n > max {
		n = max
	}
	if n < 0 {
		n = 0
	}
	return n
}

func genWrite(r *rand.Rand, cap int) wop {
	switch r.Intn(6) {
	case 0:
		k := 2 + r.Intn(3)
		w := wop{Kind: "wv"}
		for i := 0; i < k; i++ {
			w.N = append(w.N, genSize(r, cap)/2)
		}
		return w
	case 1:
		n := genSize(r, cap)
		if n < 1 {
			n = 1
		}
		if n > sfFileSize {
			n = sfFileSize
		}
		return wop{Kind: "sf", N: []int{n}}
	}
	return wop{Kind: "w", N: []int{genSize(r, cap)}}
}

var simHooks = []string{"default", "onread", "bufhooks", "execute"}

var simOrigins = []string{"onopen", "ondata", "onclose", "goroutine", "main", "ondial", "dialnow"}

func genSim(cs int64) simCase {
	r := rand.New(rand.NewSource(cs))
	c := simCase{Seed: cs}
	c.Mode = r.Intn(3)
	c.Async = c.Mode != 0 && r.Intn(3) == 0
	c.Cap = []int{1, 2, 7, 64, 1000, 4096, 70000, 200 << 10}[r.Intn(8)]
	c.Merge = r.Intn(2) == 0
	c.Origin = simOrigins[r.Intn(len(simOrigins))]
	c.Hooks = simHooks[r.Intn(len(simHooks))]
	if c.Hooks == "onread" {
		c.Async = false // with an application OnRead hook the poller never calls AsyncRead
	}
	c.Deep = r.Intn(5) == 0
	if c.Deep {
		// a send buffer that takes more than 3 queue entries at once: one write that fills it, then 5-9 writes of 40-64 KiB
		// (one queue entry each) while it is full; when the peer has read everything one writability event has to flush them all
		c.Cap = 420 << 10
	}
	// the origin's writes: at least one that is larger than the send buffer
	nw := 1 + r.Intn(3)
	big := r.Intn(nw)
	for i := 0; i < nw; i++ {
		w := genWrite(r, c.Cap)
		if i == big {
			w = wop{Kind: w.Kind, N: w.N}
			tot := 0
			for _, n := range w.N {
				tot += n
			}
			if tot <= c.Cap {
				extra := c.Cap + 1 + r.Intn(2*c.Cap)
				if extra > 400<<10 {
					extra = 400 << 10
				}
				if w.Kind == "sf" && w.N[0]+extra > sfFileSize {
					extra = sfFileSize - w.N[0]
				}
				w.N[len(w.N)-1] += extra
			}
		}
		c.OW = append(c.OW, w)
	}
	if c.Deep {
		c.OW = []wop{{Kind: "w", N: []int{c.Cap + 1 + r.Intn(1000)}}}
		for i, k := 0, 5+r.Intn(5); i < k; i++ {
			c.OW = append(c.OW, wop{Kind: "w", N: []int{40<<10 + r.Intn(24<<10+1)}})
		}
	}
	ns := r.Intn(6)
	if c.Deep {
		ns = r.Intn(2)
	}
	for i := 0; i < ns; i++ {
		var s simStep
		k := r.Intn(7)
		if c.Async && r.Intn(3) == 0 {
			k = 5 // more inbound data while a read task may be running (the gate of AsyncRead)
		}
		switch k {
		case 0, 1:
			s = simStep{Kind: "write", Writes: []wop{genWrite(r, c.Cap)}}
		case 2:
			s = simStep{Kind: "spawn"}
			for j := 0; j < 1+r.Intn(3); j++ {
				s.Writes = append(s.Writes, genWrite(r, c.Cap))
			}
		case 3, 4:
			s = simStep{Kind: "pread", K: r.Intn(2) * (1 + r.Intn(2*c.Cap))}
		case 5:
			s = simStep{Kind: "psend"}
		default:
			s = simStep{Kind: "quiesce"}
		}
		c.Steps = append(c.Steps, s)
	}
	return c
}

type section struct {
	fn       string
	pending  int
	wire     int
	closed   bool
	dialPend bool
}

type simResult struct {
	Actions   []string `json:"model_actions"`
	Stall     string   `json:"stall,omitempty"`
	Spin      bool     `json:"spin,omitempty"`
	Mismatch  []string `json:"mismatch,omitempty"`
	Accepted  int      `json:"accepted"`
	PeerGot   int      `json:"peer_got"`
	Rounds    int      `json:"rounds"`
	OutEvents int      `json:"out_events"`
	Backlog   bool     `json:"backlog"`
	Steps     int      `json:"sched_steps"`
}

type simRun struct {
	c    simCase
	m    *hx.Model
	ep   *verifsys.Epoll
	eng  *nbio.VerifWakeEngine
	kA   *verifsys.KSock
	kB   *verifsys.KSock
	A    *nbio.Conn
	B    *nbio.Conn
	muA  *verifsched.Mutex
	sec  *section
	res  simResult
	mobs []int // the model's last answer
	live int   // application threads (writers, read tasks) alive
	file *os.File
	buf  []byte
	odone bool // the origin's writes have been issued
	stalled bool
	kinds   map[string]int
	pendRead bool // the event the poller holds carries IN and its read part has not been dispatched yet (model: prd)
}

var payload []byte

// sharedBuf is the source of every written byte (the library copies what it queues).
func sharedBuf() []byte {
	if payload == nil {
		payload = make([]byte, 1<<20)
		for i := range payload {
			payload[i] = byte(i)
		}
	}
	return payload
}

var sfFile *os.File

func sharedFile() *os.File {
	if sfFile != nil {
		return sfFile
	}
	f, err := os.CreateTemp("", "wake-sf-*")
	if err != nil {
		hx.Fatal("temp file: %v", err)
	}
	os.Remove(f.Name())
	b := make([]byte, sfFileSize)
	for i := range b {
		b[i] = byte(i * 13)
	}
	if _, err := f.Write(b); err != nil {
		hx.Fatal("temp file: %v", err)
	}
	sfFile = f
	return f
}

// lockHolder names the library function (first frame of package nbio) on the calling goroutine's stack.
func lockHolder() string {
	pcs := make([]uintptr, 32)
	n := runtime.Callers(2, pcs)
	frames := runtime.CallersFrames(pcs[:n])
	for {
		f, more := frames.Next()
		if strings.HasPrefix(f.Function, "github.com/lesismal/nbio.") {
			return strings.TrimPrefix(f.Function, "github.com/lesismal/nbio.")
		}
		if !more {
			return ""
		}
	}
}

func b2i(b bool) int {
	if b {
		return 1
	}
	return 0
}

// realObs: the implementation's and the emulated kernel's state, in the order of the model's obs.
func (r *simRun) realObs() []int {
	k := r.kA
	k.Sync()
	return []int{nbio.VerifPendingBytes(r.A), b2i(nbio.VerifWAdded(r.A)), b2i(nbio.VerifClosed(r.A)), k.Room(), b2i(k.Registered()),
		b2i(k.Mask&syscall.EPOLLOUT != 0), b2i(k.Armed), b2i(k.EdgeOut), b2i(k.NoSpace), -1, -1, len(k.S.Wire), b2i(nbio.VerifDialPending(r.A)), -1, -1}
}

var obsNames = []string{"q", "wadded", "closed", "room", "reg", "mout", "armed", "eout", "nospace", "pw", "owed", "sent", "dial", "prd", "dout"}

func (r *simRun) mismatch(format string, a ...interface{}) {
	if len(r.res.Mismatch) < 4 {
		r.res.Mismatch = append(r.res.Mismatch, fmt.Sprintf("after action #%d %q: ", len(r.res.Actions), last(r.res.Actions))+fmt.Sprintf(format, a...))
	}
}

func last(s []string) string {
	if len(s) == 0 {
		return ""
	}
	return s[len(s)-1]
}

// act feeds one action to the model and compares the states.
func (r *simRun) act(a string) { r.act2(a, true) }

// act2: compare = false for an action that is reported late, when the implementation has already moved on
// (the next action's comparison covers both).
func (r *simRun) act2(a string, compare bool) {
	r.res.Actions = append(r.res.Actions, a)
	if r.m == nil {
		return
	}
	line := r.m.Ask("%s", a)
	f := strings.Fields(line)
	if len(f) != len(obsNames) {
		hx.Fatal("model answered %q to %q", line, a)
	}
	mo := make([]int, len(f))
	for i := range f {
		mo[i], _ = strconv.Atoi(f[i])
	}
	r.mobs = mo
	if r.A == nil || !compare {
		return
	}
	ro := r.realObs()
	if mo[2] != ro[2] {
		r.mismatch("closed: model %d, implementation %d", mo[2], ro[2])
		return
	}
	if ro[2] == 1 {
		return // the teardown after the closed flag is not atomic; nothing else is compared on a closed connection
	}
	for _, i := range []int{0, 1, 3, 4, 5, 6, 7, 8, 11, 12} {
		if mo[i] != ro[i] {
			r.mismatch("%s: model %d, implementation %d (model %v, implementation %v)", obsNames[i], mo[i], ro[i], mo, ro)
			return
		}
	}
}

func (r *simRun) onAcquire(t *verifsched.Thread, m *verifsched.Mutex) {
	if r.A == nil || m != r.muA {
		return
	}
	k := r.kA
	r.sec = &section{fn: lockHolder(), pending: nbio.VerifPendingBytes(r.A), wire: len(k.S.Wire),
		closed: nbio.VerifClosed(r.A), dialPend: nbio.VerifDialPending(r.A)}
}

func (r *simRun) onRelease(t *verifsched.Thread, m *verifsched.Mutex) {
	if r.A == nil || m != r.muA || r.sec == nil {
		return
	}
	s := r.sec
	r.sec = nil
	delta := nbio.VerifPendingBytes(r.A) + len(r.kA.S.Wire) - s.pending - s.wire
	closedNow := nbio.VerifClosed(r.A)
	fn := s.fn
	if i := strings.Index(fn, ".func"); i >= 0 { // closures of a library function
		fn = fn[:i]
	}
	if i := strings.LastIndex(fn, ".(*"); i > 0 { // a closure of an inlined callee: "(*Conn).Execute.(*Conn).execute"
		fn = fn[i+1:]
	}
	switch fn {
	case "(*Conn).Write", "(*Conn).Writev":
		if !(s.closed) {
			r.act(fmt.Sprintf("w %d", delta))
		}
	case "(*Conn).Sendfile":
		if !(s.closed) {
			r.act(fmt.Sprintf("sf %d", delta))
		}
	case "(*Conn).flush":
		r.act("hout")
	case "(*Conn).takeOnConnected":
		if s.dialPend && !s.closed {
			r.act("hout")
		}
	case "(*poller).readWriteLoop":
		r.act("done")
	case "(*Conn).ResetPollerEvent":
		if !r.c.Async { // the read pass in the poller ends with the re-arm (reported behind the section);
			r.readDispatched(false, false) // with asynchronous reads the gate's hook reports the dispatch, and a re-arm may be a read task's
		}
		r.act("rearm")
	case "(*poller).addConn":
		r.act("reg")
	case "(*Conn).ReadAndGetConn", "(*Conn).Read", "(*Conn).SetDeadline", "(*Conn).setDeadline", "(*Conn).closeWithError",
		"(*Conn).Execute", "(*Conn).MustExecute", "(*Conn).execute", "(*Conn).ExecuteLen", "(*Conn).IsClosed":
	default:
		r.mismatch("critical section of Conn.mux taken by an unknown function %q", s.fn)
	}
	if closedNow && !s.closed {
		r.act("close")
	}
}

func (r *simRun) write(c *nbio.Conn, w wop) {
	var n int
	var err error
	switch w.Kind {
	case "w":
		n, err = c.Write(r.buf[:w.N[0]])
	case "wv":
		var bs [][]byte
		off := 0
		for _, l := range w.N {
			bs = append(bs, r.buf[off:off+l])
			off += l
		}
		n, err = c.Writev(bs)
	case "sf":
		var n64 int64
		r.file.Seek(0, 0) // Sendfile sends from the file's current position
		n64, err = c.Sendfile(r.file, int64(w.N[0]))
		n = int(n64)
	}
	if err == nil && n > 0 {
		r.res.Accepted += n
	}
	r.kinds[w.Kind]++
	if err != nil {
		r.kinds["err:"+err.Error()]++
	}
	if nbio.VerifPendingBytes(c) > 0 {
		r.res.Backlog = true
	}
}

func (r *simRun) origin(c *nbio.Conn) {
	if r.odone {
		return
	}
	r.odone = true
	issue := func() {
		for _, w := range r.c.OW {
			r.write(c, w)
		}
	}
	if r.c.Hooks == "execute" {
		c.Execute(issue) // a job of the connection's serializer, run by the application's Execute hook
		return
	}
	issue()
}

// readDispatched: the poller has dispatched the IN part of the event it holds (the model's ReadDispatch): the read pass
// in the poller or a new read task (absorbed = false), or an event absorbed by the read task that is already running.
func (r *simRun) readDispatched(absorbed bool, compare bool) {
	if !r.pendRead {
		return
	}
	r.pendRead = false
	if absorbed {
		r.kinds["absorbed-read-event"]++
	}
	r.act2(fmt.Sprintf("rdisp %d", b2i(absorbed)), compare)
}

// quiesce waits until the poller is parked with nothing deliverable and every application thread has ended, then
// evaluates the stall predicate.
func (r *simRun) quiesce(where string) {
	verifsched.WaitUntil(func() bool { return r.live == 0 && r.ep.Quiescent() })
	if r.A == nil || r.stalled {
		return
	}
	if r.m != nil && r.mobs != nil && nbio.VerifClosed(r.A) == false {
		if r.mobs[9] != 0 || r.mobs[10] != 0 || r.mobs[13] != 0 {
			r.mismatch("at quiescence (%s) the model's poller still owes pw=%d owed=%d prd=%d", where, r.mobs[9], r.mobs[10], r.mobs[13])
		}
		if (r.mobs[14] == 1) != r.kA.OutReady() {
			r.mismatch("at quiescence (%s) deliverable: model %d, emulated kernel %v", where, r.mobs[14], r.kA.OutReady())
		}
	}
	if !nbio.VerifClosed(r.A) && nbio.VerifPendingBytes(r.A) > 0 && r.kA.Room() > 0 {
		r.stalled = true
		k := r.kA
		r.res.Stall = fmt.Sprintf("%s: poller parked, nothing deliverable, queue=%d bytes isWAdded=%v, send buffer room=%d nospace=%v, epoll registered=%v mask=%#x armed=%v pending-ET-out=%v",
			where, nbio.VerifPendingBytes(r.A), nbio.VerifWAdded(r.A), k.Room(), k.NoSpace, k.Registered(), k.Mask, k.Armed, k.EdgeOut)
	}
}

func (r *simRun) peerRead(n int) {
	if n == 0 {
		n = r.kA.InFlight()
	}
	got := r.kA.PeerRead(n)
	if got > 0 {
		r.act(fmt.Sprintf("peer %d", got))
	}
}

func (r *simRun) scenario() {
	c := r.c
	em, os1 := uint32(nbio.EPOLLLT), uint32(0)
	if c.Mode >= 1 {
		em = nbio.EPOLLET
	}
	if c.Mode == 2 {
		os1 = nbio.EPOLLONESHOT
	}
	r.ep = verifsys.NewEpoll()
	r.ep.Merge = c.Merge
	r.ep.Block = func(cond func() bool) {
		r.readDispatched(false, true) // the poller is back in epoll_wait: whatever it held has been dispatched
		verifsched.WaitUntil(cond)
	}
	// the gate of Conn.AsyncRead (hook of the readpath overlay, called on the poller's goroutine right behind the atomic)
	nbio.VerifReadHook = func(cn *nbio.Conn, op string, a, b int, ok bool) {
		if cn != r.A || r.A == nil {
			return
		}
		switch {
		case op == "load" && a >= 2:
			r.readDispatched(true, true)
		case op == "cas" && ok:
			r.readDispatched(a >= 1, true)
		}
	}
	r.ep.OnDeliver = func(d verifsys.Delivered) {
		if r.kA == nil || d.Fd != r.kA.S.Fd || r.A == nil {
			return
		}
		if d.Events&syscall.EPOLLOUT != 0 {
			r.res.OutEvents++
		}
		r.act(fmt.Sprintf("deliver %d %d", b2i(d.Events&syscall.EPOLLIN != 0), b2i(d.Spur)))
		r.pendRead = d.Events&syscall.EPOLLIN != 0
		if r.m != nil && (r.mobs[9] == 1) != (d.Events&syscall.EPOLLOUT != 0) {
			r.mismatch("event %#x handed to the poller, but the model's OUT bit is %d", d.Events, r.mobs[9])
		}
	}
	conf := nbio.Config{NPoller: 1, EpollMod: em, EPOLLONESHOT: os1, ReadBufferSize: 4096, AsyncReadInPoller: c.Async}
	if c.Async {
		conf.IOExecute = func(f func(*[]byte)) {
			r.live++
			verifsched.Go(func() {
				b := make([]byte, 4096)
				f(&b)
				r.live--
			})
		}
	}
	attach := func(cn *nbio.Conn) {
		r.A = cn
		r.muA = nbio.VerifSchedConnMutex(cn)
	}
	r.eng = nbio.VerifNewWakeEngine(conf, r.ep,
		func(cn *nbio.Conn) { // open handler: runs before the registration
			if r.kA != nil && cn.Hash() == r.kA.S.Fd {
				attach(cn)
				if c.Origin == "onopen" {
					r.origin(cn)
				}
			}
		},
		func(cn *nbio.Conn, err error) { // close handler
			if r.kB != nil && cn.Hash() == r.kB.S.Fd && c.Origin == "onclose" && r.A != nil {
				r.origin(r.A)
			}
		})
	r.eng.G.OnData(func(cn *nbio.Conn, data []byte) {
		if cn == r.A && c.Origin == "ondata" {
			r.origin(cn)
		}
	})
	switch c.Hooks {
	case "onread": // the application reads by itself (and re-arms a one-shot descriptor by itself)
		r.eng.G.OnRead(func(cn *nbio.Conn) {
			buf := make([]byte, 4096)
			for {
				n, err := cn.Read(buf)
				if n > 0 && cn == r.A && c.Origin == "ondata" {
					r.origin(cn)
				}
				if err != nil || n < len(buf) {
					break
				}
			}
			if c.Mode == 2 {
				cn.ResetPollerEvent()
			}
		})
	case "bufhooks":
		r.eng.G.OnReadBufferAlloc(func(cn *nbio.Conn) *[]byte { b := make([]byte, 2048); return &b })
		r.eng.G.OnReadBufferFree(func(cn *nbio.Conn, pbuf *[]byte) {})
	case "execute":
		r.eng.G.Execute = func(f func()) {
			r.live++
			verifsched.Go(func() { f(); r.live-- })
		}
	}
	verifsched.Go(func() { r.eng.RunPoller() })

	if r.m != nil {
		r.m.Ask("new %d %d", c.Mode, c.Cap)
	}
	if c.Origin == "onclose" {
		r.kB = verifsys.NewKSock(r.ep, 4096)
		b, err := r.eng.AddConn(r.kB.S, nbio.ConnTypeTCP)
		if err != nil {
			hx.Fatal("AddConn B: %v", err)
		}
		r.B = b
	}
	r.kA = verifsys.NewKSock(r.ep, c.Cap)
	switch c.Origin {
	case "ondial":
		cn, err := r.eng.AddDialer(r.kA.S, nbio.ConnTypeTCP, true, func(cn *nbio.Conn, err error) {
			if err == nil {
				r.origin(cn)
			}
		})
		if err != nil {
			hx.Fatal("AddDialer: %v", err)
		}
		attach(cn)
		r.act("dial")
	case "dialnow":
		cn, err := r.eng.AddDialer(r.kA.S, nbio.ConnTypeTCP, false, nil)
		if err != nil {
			hx.Fatal("AddDialer: %v", err)
		}
		attach(cn)
		r.act("dialnow")
		r.origin(cn)
	default:
		if _, err := r.eng.AddConn(r.kA.S, nbio.ConnTypeTCP); err != nil {
			hx.Fatal("AddConn: %v", err)
		}
	}
	switch c.Origin {
	case "main":
		r.origin(r.A)
	case "goroutine":
		r.live++
		verifsched.Go(func() { r.origin(r.A); r.live-- })
	case "ondata":
		r.kA.PeerSend([]byte("ping"))
	case "onclose":
		r.kB.PeerClose()
	case "ondial":
		// DialAsync hands the connection to the application in the dial callback only: no write before that
		verifsched.WaitUntil(func() bool { return r.odone })
	}
	for _, s := range c.Steps {
		if r.stalled {
			break
		}
		switch s.Kind {
		case "write":
			for _, w := range s.Writes {
				r.write(r.A, w)
			}
		case "spawn":
			ws := s.Writes
			r.live++
			verifsched.Go(func() {
				for _, w := range ws {
					r.write(r.A, w)
				}
				r.live--
			})
		case "pread":
			r.peerRead(s.K)
		case "psend":
			r.kA.PeerSend([]byte("x"))
		case "quiesce":
			r.quiesce("step")
		}
	}
	// fair rounds: the peer reads everything, the poller handles what is deliverable
	r.quiesce("before the rounds")
	bound := (nbio.VerifPendingBytes(r.A)+r.kA.InFlight())/r.c.Cap + 8
	for i := 0; i < bound && !r.stalled && !nbio.VerifClosed(r.A); i++ {
		if nbio.VerifPendingBytes(r.A) == 0 && r.kA.InFlight() == 0 {
			break
		}
		r.res.Rounds++
		r.peerRead(0)
		r.quiesce(fmt.Sprintf("round %d", i+1))
	}
	r.res.PeerGot = r.kA.PeerGot
	nbio.VerifReadHook = nil
	r.eng.Shutdown()
	r.ep.Stop()
}

func runSim(c simCase, m *hx.Model, rep *hx.Report, show bool) simResult {
	r := &simRun{c: c, m: m, file: sharedFile(), buf: sharedBuf(), kinds: map[string]int{}}
	rng := rand.New(rand.NewSource(c.Seed ^ 0x5eed))
	s := verifsched.New(func(en []int) int { return rng.Intn(len(en)) })
	s.Exclusive = true
	s.MaxSteps = 400000
	s.OnAcquire, s.OnRelease = r.onAcquire, r.onRelease
	s.Go("main", r.scenario)
	ok := s.Run()
	r.res.Steps = s.Steps
	mode := modeNames[c.Mode]
	if !ok && r.res.Stall == "" {
		r.res.Spin = true
	}
	key := fmt.Sprintf("%s/%v/%d/%s/%s/%d", mode, c.Async, c.Cap, c.Origin, c.Hooks, len(r.res.Actions))
	rep.Case(key, r.res.Backlog && r.res.OutEvents > 0)
	rep.Ops += len(r.res.Actions)
	rep.Stat("S.mode:" + mode)
	rep.Stat("S.origin:" + c.Origin)
	rep.Stat("S.hooks:" + c.Hooks)
	rep.Stat("S.mode-hooks:" + mode + "/" + c.Hooks)
	if c.Deep {
		rep.Stat("S.deep-queue")
		rep.Stat("S.deep-queue:" + mode + "/" + c.Hooks)
	}
	rep.Stat(fmt.Sprintf("S.sndbuf:%d", c.Cap))
	if c.Async {
		rep.Stat("S.async-read")
	}
	if r.res.Backlog {
		rep.Stat("S.backlog")
	}
	for k, v := range r.kinds {
		if k == "absorbed-read-event" {
			rep.StatN("S.read-event-absorbed-by-running-task", v)
			continue
		}
		rep.StatN("S.write:"+k, v)
	}
	rep.StatN("S.rounds", r.res.Rounds)
	rep.StatN("S.out-events", r.res.OutEvents)
	rep.Sample(map[string]interface{}{"case": c, "result": r.res})
	replay := map[string]interface{}{"tier": "S", "case": c, "result": r.res, "rerun": fmt.Sprintf("wake -replay %d -model <model>", c.Seed)}
	if r.res.Stall != "" {
		rep.Add(hx.Finding{Kind: "oracle", Property: "C04", Signature: "stall-" + mode + "-" + c.Origin,
			What: "simulated kernel: backlog, the peer has made room, nothing deliverable: " + r.res.Stall, Replay: replay})
	} else if r.res.Spin {
		rep.Add(hx.Finding{Kind: "oracle", Property: "C04", Signature: "spin-" + mode + "-" + c.Origin,
			What: fmt.Sprintf("simulated kernel: the run did not come to rest within %d scheduling steps (stuck: %v)", s.MaxSteps, s.Stuck()), Replay: replay})
	} else if r.A != nil && !nbio.VerifClosed(r.A) && r.res.PeerGot != r.res.Accepted {
		rep.Add(hx.Finding{Kind: "oracle", Property: "C04", Signature: "undelivered-" + mode + "-" + c.Origin,
			What: fmt.Sprintf("simulated kernel: %d bytes accepted, the peer got %d after the fair rounds", r.res.Accepted, r.res.PeerGot), Replay: replay})
	}
	if len(r.res.Mismatch) > 0 {
		rep.Add(hx.Finding{Kind: "mismatch", Property: "C04", Signature: "wake-model", What: r.res.Mismatch[0], Replay: replay})
	}
	if show {
		fmt.Printf("case %d %s async=%v cap=%d origin=%s: actions=%d rounds=%d out=%d stall=%q spin=%v mismatch=%v\n", c.Seed, mode, c.Async, c.Cap,
			c.Origin, len(r.res.Actions), r.res.Rounds, r.res.OutEvents, r.res.Stall, r.res.Spin, r.res.Mismatch)
	}
	// release the simulated descriptors
	if r.kA != nil {
		r.kA.Release(r.ep)
	}
	if r.kB != nil {
		r.kB.Release(r.ep)
	}
	if r.ep != nil {
		r.ep.Release()
	}
	return r.res
}
