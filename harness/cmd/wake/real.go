package main

// Tier R: real engines, real sockets, the real kernel's epoll (no shim on these descriptors).

import (
	"fmt"
	"net"
	"os"
	"path/filepath"
	"strings"
	"sync"
	"sync/atomic"
	"syscall"
	"time"

	"github.com/lesismal/nbio"
	"github.com/lesismal/nbio/verifsys"
	"verifharness/hx"
)

type realCell struct {
	Mode      int    `json:"mode"`
	Transport string `json:"transport"`
	Origin    string `json:"origin"`
	Hooks     string `json:"hooks"` // default | onread | bufhooks | execute (see simHooks)
	Chunk     int    `json:"chunk"` // bytes per Write call (0: everything in one call); many calls = many queue entries
}

var realOrigins = []string{"onopen", "ondata", "onclose", "goroutine", "writev", "sendfile", "ondial"}

func chunkFor(hooks string, i int) int {
	if hooks != "default" {
		return 60 << 10 // one queue entry per call: a deep queue of entries the socket takes several at a time
	}
	return []int{0, 60 << 10, 1 << 20}[i%3]
}

func allCells() []realCell {
	var cs []realCell
	for m := 0; m < 3; m++ {
		for _, h := range simHooks {
			for _, t := range []string{"tcp", "unix"} {
				for _, o := range realOrigins {
					cs = append(cs, realCell{m, t, o, h, chunkFor(h, len(cs))})
				}
			}
		}
	}
	return cs
}

// quickCells: one cell per (mode, hooks) pair; transport, origin and write granularity rotate with the seed.
func quickCells(seed int64, n int) []realCell {
	var cs []realCell
	k := int(seed % 1000)
	if k < 0 {
		k = -k
	}
	for i := 0; len(cs) < n; i++ {
		m, h := (i/len(simHooks))%3, simHooks[i%len(simHooks)]
		round := i / (3 * len(simHooks))
		cs = append(cs, realCell{m, []string{"tcp", "unix"}[(i+k+round)%2], realOrigins[(i*5+k*3+round)%len(realOrigins)], h, chunkFor(h, i+k)})
	}
	return cs
}

type realResult struct {
	Cell     realCell `json:"cell"`
	Total    int      `json:"total"`
	Received int64    `json:"received"`
	Stalled  bool     `json:"stalled"`
	Backlog  bool     `json:"backlog_before_reader"`
	Entries  int      `json:"queue_entries_before_reader"`
	SpinBlocked int64 `json:"epoll_wait_returns_in_80ms_while_blocked"`
	SpinIdle    int64 `json:"epoll_wait_returns_in_80ms_after_drain"`
	Ms       int64    `json:"ms"`
	Detail   string   `json:"detail,omitempty"`
	Conns    []string `json:"conns,omitempty"`
}

func listenAddr(transport, dir string, i int) string {
	if transport == "unix" {
		return filepath.Join(dir, fmt.Sprintf("s%d.sock", i))
	}
	return "127.0.0.1:0"
}

var realFile *os.File
var realFileSize int

func bigFile(total int) *os.File {
	if realFile != nil && realFileSize == total {
		return realFile
	}
	f, err := os.CreateTemp("", "wake-real-*")
	if err != nil {
		hx.Fatal("temp file: %v", err)
	}
	os.Remove(f.Name())
	chunk := make([]byte, 1<<20)
	for i := range chunk {
		chunk[i] = byte(i * 31)
	}
	for w := 0; w < total; w += len(chunk) {
		n := len(chunk)
		if total-w < n {
			n = total - w
		}
		if _, err := f.Write(chunk[:n]); err != nil {
			hx.Fatal("temp file: %v", err)
		}
	}
	realFile, realFileSize = f, total
	return f
}

// lateReader reads everything from c after a delay, counting; it never writes (after an optional first byte).
func lateReader(c net.Conn, delay time.Duration, got *int64, done chan struct{}) {
	defer close(done)
	time.Sleep(delay)
	buf := make([]byte, 256<<10)
	for {
		n, err := c.Read(buf)
		if n > 0 {
			atomic.AddInt64(got, int64(n))
		}
		if err != nil {
			return
		}
	}
}

func runCell(cell realCell, total int, stall time.Duration) realResult {
	res := realResult{Cell: cell, Total: total}
	t0 := time.Now()
	em, os1 := uint32(nbio.EPOLLLT), uint32(0)
	if cell.Mode >= 1 {
		em = nbio.EPOLLET
	}
	if cell.Mode == 2 {
		os1 = nbio.EPOLLONESHOT
	}
	dir, err := os.MkdirTemp("", "wake-r-")
	if err != nil {
		hx.Fatal("tempdir: %v", err)
	}
	defer os.RemoveAll(dir)
	data := make([]byte, total)
	for i := range data {
		data[i] = byte(i)
	}
	var got int64
	var mu sync.Mutex
	var first *nbio.Conn
	firstCh := make(chan *nbio.Conn, 1)
	var once sync.Once
	write0 := func(c *nbio.Conn) {
		piece := cell.Chunk
		switch cell.Origin {
		case "writev":
			if piece == 0 {
				piece = 1 << 20
			}
			var bs [][]byte
			for off := 0; off < total; off += piece {
				e := off + piece
				if e > total {
					e = total
				}
				bs = append(bs, data[off:e])
			}
			c.Writev(bs)
		case "sendfile":
			f := bigFile(total)
			f.Seek(0, 0)
			c.Sendfile(f, int64(total))
		default:
			if piece == 0 {
				c.Write(data)
				return
			}
			for off := 0; off < total; off += piece {
				e := off + piece
				if e > total {
					e = total
				}
				if _, err := c.Write(data[off:e]); err != nil {
					return
				}
			}
		}
	}
	write := func(c *nbio.Conn) {
		if cell.Hooks == "execute" {
			c.Execute(func() { write0(c) }) // a job of the connection's serializer, run by the application's Execute hook
			return
		}
		write0(c)
	}
	onData := func(c *nbio.Conn) {
		if cell.Origin == "ondata" {
			once.Do(func() { write(c) })
		}
	}
	hooks := func(g *nbio.Engine) {
		switch cell.Hooks {
		case "onread": // the application reads by itself and re-arms a one-shot descriptor by itself
			g.OnRead(func(c *nbio.Conn) {
				buf := make([]byte, 16<<10)
				for {
					n, err := c.Read(buf)
					if n > 0 {
						onData(c)
					}
					if err != nil || n < len(buf) {
						break
					}
				}
				if cell.Mode == 2 {
					c.ResetPollerEvent()
				}
			})
		case "bufhooks":
			g.OnReadBufferAlloc(func(c *nbio.Conn) *[]byte { b := make([]byte, 8<<10); return &b })
			g.OnReadBufferFree(func(c *nbio.Conn, pbuf *[]byte) {})
		case "execute":
			g.Execute = func(f func()) { go f() }
		}
	}
	readerDone := make(chan struct{})
	var g *nbio.Engine
	var peers []net.Conn
	defer func() {
		for _, p := range peers {
			p.Close()
		}
		if g != nil {
			g.Stop()
		}
	}()

	if cell.Origin == "ondial" {
		// the engine dials a plain listener; the accepted end is the late reader
		ln, err := net.Listen(cell.Transport, listenAddr(cell.Transport, dir, 0))
		if err != nil {
			hx.Fatal("listen: %v", err)
		}
		defer ln.Close()
		go func() {
			c, err := ln.Accept()
			if err != nil {
				close(readerDone)
				return
			}
			mu.Lock()
			peers = append(peers, c)
			mu.Unlock()
			lateReader(c, 300*time.Millisecond, &got, readerDone)
		}()
		g = nbio.NewEngine(nbio.Config{NPoller: 1, EpollMod: em, EPOLLONESHOT: os1})
		hooks(g)
		if err := g.Start(); err != nil {
			hx.Fatal("start: %v", err)
		}
		err = g.DialAsync(cell.Transport, ln.Addr().String(), func(c *nbio.Conn, err error) {
			if err == nil {
				write(c)
			} else {
				res.Detail = "dial: " + err.Error()
			}
		})
		if err != nil {
			res.Detail = "DialAsync: " + err.Error()
		}
	} else {
		addr := listenAddr(cell.Transport, dir, 0)
		g = nbio.NewEngine(nbio.Config{Network: cell.Transport, Addrs: []string{addr}, NPoller: 2, EpollMod: em, EPOLLONESHOT: os1})
		g.OnOpen(func(c *nbio.Conn) {
			mu.Lock()
			isFirst := first == nil
			if isFirst {
				first = c
			}
			mu.Unlock()
			if isFirst {
				if cell.Origin == "onopen" {
					write(c)
				}
				firstCh <- c
			}
		})
		g.OnData(func(c *nbio.Conn, d []byte) { onData(c) })
		hooks(g)
		g.OnClose(func(c *nbio.Conn, err error) {
			mu.Lock()
			a := first
			mu.Unlock()
			if cell.Origin == "onclose" && a != nil && c != a {
				once.Do(func() { write(a) })
			}
		})
		if err := g.Start(); err != nil {
			hx.Fatal("start: %v", err)
		}
		la := g.Addrs[0]
		pc, err := net.Dial(cell.Transport, la)
		if err != nil {
			hx.Fatal("dial %s: %v", la, err)
		}
		peers = append(peers, pc)
		if cell.Origin == "ondata" {
			pc.Write([]byte("x"))
		}
		go lateReader(pc, 300*time.Millisecond, &got, readerDone)
		var a *nbio.Conn
		select {
		case a = <-firstCh:
		case <-time.After(5 * time.Second):
			res.Detail = "the engine did not open the connection"
		}
		switch cell.Origin {
		case "onclose":
			if a != nil {
				pb, err := net.Dial(cell.Transport, la)
				if err == nil {
					time.Sleep(20 * time.Millisecond)
					pb.Close()
				}
			}
		case "goroutine", "writev", "sendfile":
			if a != nil {
				go write(a)
			}
		}
	}
	// did a backlog form before the reader started? (what makes the cell non-trivial) - and while the socket takes nothing
	// and the peer does not read, the poller must be parked
	time.Sleep(120 * time.Millisecond)
	w0 := atomic.LoadInt64(&verifsys.RealWaits)
	time.Sleep(80 * time.Millisecond)
	res.SpinBlocked = atomic.LoadInt64(&verifsys.RealWaits) - w0
	for _, l := range nbio.VerifDumpConns(g) {
		if strings.Contains(l, "closed=false") && !strings.Contains(l, "queued=0 ") {
			res.Backlog = true
			if i := strings.Index(l, "queued="); i >= 0 {
				var q int
				fmt.Sscanf(l[i:], "queued=%d", &q)
				if q > res.Entries {
					res.Entries = q
				}
			}
		}
	}
	// progress watch
	last, lastT := int64(-1), time.Now()
	for {
		v := atomic.LoadInt64(&got)
		if v >= int64(total) {
			break
		}
		if v != last {
			last, lastT = v, time.Now()
		} else if time.Since(lastT) > stall {
			res.Stalled = true
			break
		}
		time.Sleep(10 * time.Millisecond)
	}
	res.Received = atomic.LoadInt64(&got)
	res.Ms = time.Since(t0).Milliseconds()
	if !res.Stalled { // everything has arrived: an idle connection must not keep the poller busy
		time.Sleep(20 * time.Millisecond)
		w1 := atomic.LoadInt64(&verifsys.RealWaits)
		time.Sleep(80 * time.Millisecond)
		res.SpinIdle = atomic.LoadInt64(&verifsys.RealWaits) - w1
	}
	if res.Stalled && g != nil {
		res.Conns = nbio.VerifDumpConns(g)
	}
	return res
}

// idleSpin: a dialed connection that is idle must not keep the poller spinning on EPOLLOUT (D32).
func idleSpin(rep *hx.Report, transport string, mode int) {
	dir, _ := os.MkdirTemp("", "wake-i-")
	defer os.RemoveAll(dir)
	ln, err := net.Listen(transport, listenAddr(transport, dir, 0))
	if err != nil {
		hx.Fatal("listen: %v", err)
	}
	defer ln.Close()
	go func() {
		for {
			c, err := ln.Accept()
			if err != nil {
				return
			}
			defer c.Close()
		}
	}()
	em, os1 := uint32(nbio.EPOLLLT), uint32(0)
	if mode >= 1 {
		em = nbio.EPOLLET
	}
	if mode == 2 {
		os1 = nbio.EPOLLONESHOT
	}
	g := nbio.NewEngine(nbio.Config{NPoller: 1, EpollMod: em, EPOLLONESHOT: os1})
	if err := g.Start(); err != nil {
		hx.Fatal("start: %v", err)
	}
	defer g.Stop()
	connected := make(chan error, 1)
	if err := g.DialAsync(transport, ln.Addr().String(), func(c *nbio.Conn, err error) { connected <- err }); err != nil {
		return
	}
	select {
	case <-connected:
	case <-time.After(3 * time.Second):
		return
	}
	time.Sleep(50 * time.Millisecond)
	w0 := atomic.LoadInt64(&verifsys.RealWaits)
	time.Sleep(300 * time.Millisecond)
	w := atomic.LoadInt64(&verifsys.RealWaits) - w0
	rep.Case(fmt.Sprintf("idle/%s/%d", transport, mode), true)
	rep.Stat("R.idle-spin-checks")
	if w > 200 {
		rep.Add(hx.Finding{Kind: "oracle", Property: "C04", Signature: "idle-spin-" + modeNames[mode] + "-dial-" + transport,
			What:   fmt.Sprintf("an idle dialed %s connection made the poller return from epoll_wait %d times in 300 ms", transport, w),
			Replay: map[string]interface{}{"tier": "R", "check": "idle-spin", "transport": transport, "mode": modeNames[mode]}})
	}
}

func runReal(rep *hx.Report) {
	cells := allCells()
	n := *realN
	full := n < 0 || n >= len(cells)
	if full {
		n = len(cells)
	} else {
		cells = quickCells(*seed, n)
	}
	total := *realMiB << 20
	for i := 0; i < n && !rep.TooMany(); i++ {
		cell := cells[i]
		res := runCell(cell, total, time.Duration(*stallSec)*time.Second)
		if res.Stalled { // re-run once before reporting
			rep.Stat("R.rerun")
			res2 := runCell(cell, total, time.Duration(*stallSec)*time.Second)
			if !res2.Stalled {
				rep.Stat("R.rerun-passed")
				res = res2
			}
		}
		mode := modeNames[cell.Mode]
		rep.Case(fmt.Sprintf("R/%s/%s/%s/%s/%d", mode, cell.Transport, cell.Origin, cell.Hooks, cell.Chunk), res.Backlog)
		rep.Stat("R.mode-hooks:" + mode + "/" + cell.Hooks)
		if res.Entries > 3 {
			rep.Stat("R.deep-queue(>3 entries)")
		}
		const spinLimit = 4000 // epoll_wait returns in 80 ms; a busy poller makes several 10^4
		if res.SpinBlocked > spinLimit || res.SpinIdle > spinLimit {
			rep.Add(hx.Finding{Kind: "oracle", Property: "C04", Signature: "spin-" + mode + "-" + cell.Origin,
				What: fmt.Sprintf("real %s sockets, %s, hooks=%s: the poller returned from epoll_wait %d times in 80 ms while the socket took nothing and %d times in 80 ms after everything had arrived",
					cell.Transport, mode, cell.Hooks, res.SpinBlocked, res.SpinIdle),
				Replay: map[string]interface{}{"tier": "R", "result": res}})
		}
		if res.Backlog {
			rep.Stat("R.backlog-before-reader")
		}
		rep.Stat("R.mode:" + mode)
		rep.Stat("R.origin:" + cell.Origin)
		rep.Stat("R.transport:" + cell.Transport)
		rep.StatN("R.ms", int(res.Ms))
		if *verbose {
			fmt.Printf("real %s %s %s hooks=%s chunk=%d: %d/%d in %d ms entries=%d waits=%d/%d stalled=%v %s\n", mode, cell.Transport, cell.Origin, cell.Hooks, cell.Chunk,
				res.Received, res.Total, res.Ms, res.Entries, res.SpinBlocked, res.SpinIdle, res.Stalled, res.Detail)
		}
		if res.Stalled {
			rep.Add(hx.Finding{Kind: "oracle", Property: "C04", Signature: "stall-" + mode + "-" + cell.Origin,
				What: fmt.Sprintf("real %s sockets, %s, hooks=%s, %d bytes per Write: %d of %d bytes received, then no progress for %d s (twice) %s", cell.Transport, mode,
					cell.Hooks, cell.Chunk, res.Received, res.Total, *stallSec, res.Detail),
				Replay: map[string]interface{}{"tier": "R", "result": res, "rerun": fmt.Sprintf("wake -n 0 -real -1 -realmb %d", *realMiB)}})
		}
	}
	if n > 0 {
		kernelProbe(rep, "tcp")
		kernelProbe(rep, "unix")
		idleSpin(rep, "unix", 0)
		if full {
			idleSpin(rep, "tcp", 0)
			idleSpin(rep, "unix", 1)
			idleSpin(rep, "unix", 2)
		}
	}
}

// ---- the kernel assumptions of the model (K3/K4), probed on the running kernel with raw system calls ----

func rawPair(transport string) (int, int, func(), error) {
	if transport == "unix" {
		fds, err := syscall.Socketpair(syscall.AF_UNIX, syscall.SOCK_STREAM|syscall.SOCK_NONBLOCK, 0)
		if err != nil {
			return 0, 0, nil, err
		}
		return fds[0], fds[1], func() { syscall.Close(fds[0]); syscall.Close(fds[1]) }, nil
	}
	ln, err := net.Listen("tcp", "127.0.0.1:0")
	if err != nil {
		return 0, 0, nil, err
	}
	defer ln.Close()
	type acc struct {
		c   net.Conn
		err error
	}
	ch := make(chan acc, 1)
	go func() { c, err := ln.Accept(); ch <- acc{c, err} }()
	c1, err := net.Dial("tcp", ln.Addr().String())
	if err != nil {
		return 0, 0, nil, err
	}
	a := <-ch
	if a.err != nil {
		c1.Close()
		return 0, 0, nil, a.err
	}
	f1, _ := c1.(*net.TCPConn).File()
	f2, _ := a.c.(*net.TCPConn).File()
	c1.Close()
	a.c.Close()
	fd1, fd2 := int(f1.Fd()), int(f2.Fd())
	syscall.SetNonblock(fd1, true)
	syscall.SetNonblock(fd2, true)
	return fd1, fd2, func() { f1.Close(); f2.Close() }, nil
}

func waitOut(ep int, ms int) bool {
	evs := make([]syscall.EpollEvent, 4)
	for {
		n, err := syscall.EpollWait(ep, evs, ms)
		if err == syscall.EINTR {
			continue
		}
		for i := 0; i < n; i++ {
			if evs[i].Events&syscall.EPOLLOUT != 0 {
				return true
			}
		}
		return false
	}
}

func fillUntilEagain(fd int) int {
	buf := make([]byte, 64<<10)
	tot := 0
	for i := 0; i < 100000; i++ {
		n, err := syscall.Write(fd, buf)
		if n > 0 {
			tot += n
		}
		if err == syscall.EAGAIN {
			return tot
		}
		if err != nil && err != syscall.EINTR {
			return tot
		}
	}
	return tot
}

func drainAll(fd int, want int) {
	buf := make([]byte, 256<<10)
	deadline := time.Now().Add(3 * time.Second)
	for got := 0; got < want && time.Now().Before(deadline); {
		n, err := syscall.Read(fd, buf)
		if n > 0 {
			got += n
			continue
		}
		if err == syscall.EAGAIN || err == syscall.EINTR {
			time.Sleep(time.Millisecond)
			continue
		}
		return
	}
}

// kernelProbe checks, for one transport: ADD/MOD re-evaluate readiness and re-arm ONESHOT (K3); an ET entry is reported
// once per edge; after a send hit EAGAIN the peer's reading raises a writability edge (K4).
func kernelProbe(rep *hx.Report, transport string) {
	const etOut = syscall.EPOLLOUT | 1<<31
	fail := func(what string) {
		rep.Add(hx.Finding{Kind: "mismatch", Property: "C04", Signature: "kernel-assumption",
			What:   "the running kernel does not behave as the model's kernel assumes (" + transport + "): " + what,
			Replay: map[string]interface{}{"tier": "R", "check": "kernel-probe", "transport": transport}})
	}
	a, b, closeFn, err := rawPair(transport)
	if err != nil {
		return
	}
	defer closeFn()
	rep.Stat("R.kernel-probes")
	rep.Case("kernel/"+transport, true)
	ep, _ := syscall.EpollCreate1(0)
	defer syscall.Close(ep)
	ev := syscall.EpollEvent{Events: etOut, Fd: int32(a)}
	syscall.EpollCtl(ep, syscall.EPOLL_CTL_ADD, a, &ev)
	if !waitOut(ep, 500) {
		fail("EPOLL_CTL_ADD of a writable socket with EPOLLOUT|EPOLLET reported nothing")
	}
	if waitOut(ep, 30) {
		fail("an edge-triggered entry was reported twice without a new edge")
	}
	sent := fillUntilEagain(a)
	if waitOut(ep, 30) {
		fail("EPOLLOUT reported for a socket whose last send returned EAGAIN")
	}
	drainAll(b, sent)
	if !waitOut(ep, 2000) {
		fail("no writability edge after the peer read everything although the last send had returned EAGAIN (K4)")
	}
	// ONESHOT
	ep2, _ := syscall.EpollCreate1(0)
	defer syscall.Close(ep2)
	ev2 := syscall.EpollEvent{Events: etOut | syscall.EPOLLONESHOT, Fd: int32(a)}
	syscall.EpollCtl(ep2, syscall.EPOLL_CTL_ADD, a, &ev2)
	if !waitOut(ep2, 500) {
		fail("ONESHOT: ADD of a writable socket reported nothing")
	}
	sent = fillUntilEagain(a)
	drainAll(b, sent)
	if waitOut(ep2, 50) {
		fail("ONESHOT: a disarmed entry was reported")
	}
	syscall.EpollCtl(ep2, syscall.EPOLL_CTL_MOD, a, &ev2)
	if !waitOut(ep2, 500) {
		fail("ONESHOT: EPOLL_CTL_MOD did not re-arm / re-evaluate readiness (K3)")
	}
	ev3 := syscall.EpollEvent{Events: syscall.EPOLLIN | 1<<31 | syscall.EPOLLONESHOT, Fd: int32(a)}
	syscall.EpollCtl(ep2, syscall.EPOLL_CTL_MOD, a, &ev3)
	if waitOut(ep2, 30) {
		fail("EPOLLOUT reported although it is not in the mask")
	}
}
