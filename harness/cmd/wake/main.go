// Harness for C04 (flush liveness: a backlog always drains when the peer makes room, wherever the write was issued,
// in LT / ET / ET+ONESHOT).
//
// Tier S (simulated kernel, sim.go): the REAL poller.readWriteLoop / addConn / addDialer / Conn.Write / Writev /
// Sendfile / flush / ResetPollerEvent run on simulated sockets with a bounded send buffer and an emulated epoll
// (overlay/pkg/verifsys/epoll.go) under the cooperative scheduler of the overlay (verifsched): the poller, the
// scenario driver, writer goroutines and asynchronous read tasks are managed threads; a seeded PRNG picks who runs next
// at every mutex acquisition / wait.
//
//	correspondence: every critical section of the connection's mutex (attributed to the library function that took
//	    it), every event handed out by the emulated epoll_wait, every read of the peer and the dial registration become
//	    one action of the Coq model (coq/wake/WakeModel.v) in the order in which they happened; after every action the
//	    model's state is compared with the implementation's (unsent bytes, isWAdded, closed, dial pending) and the
//	    emulated kernel's (room, registered, EPOLLOUT in the mask, ONESHOT armed, pending ET report, NOSPACE, bytes
//	    accepted); at every quiescent point the model must agree that the poller owes nothing.
//	oracle (implementation alone): stall = the poller is parked in epoll_wait with nothing deliverable, every other
//	    thread has ended, the connection is open, its queue is non-empty and the peer has made room; spin = the poller
//	    never parks. Finally every accepted byte must have reached the peer.
//
// Both tiers have "application hooks installed" as a dimension: default reader, g.OnRead custom reader, OnReadBufferAlloc /
// OnReadBufferFree, custom Execute (the writes then come from Conn.Execute jobs); and deep queues: many queue entries that
// the socket takes several at a time, so that one writability event has to flush more than a few entries.
//
// Tier R (real kernel, real.go): real engines in the three modes on tcp / unix sockets; 16 MiB (quick) written from
// OnOpen / OnData / OnClose of another connection / another goroutine / with Writev / with Sendfile / from the DialAsync
// callback to a reader that starts late and never writes; the peer's byte count must keep growing until everything
// has arrived (stall = no progress for 10 s, re-run once before reporting). Plus the idle-spin check: an idle dialed
// unix connection must not make the poller spin on EPOLLOUT.
package main

import (
	"flag"
	"fmt"
	"os"

	"github.com/lesismal/nbio/logging"
	"verifharness/hx"
)

var (
	seed     = flag.Int64("seed", 1, "PRNG seed")
	nCases   = flag.Int("n", 400, "simulated-kernel cases")
	modelP   = flag.String("model", "", "path of the extracted model (empty: oracle only)")
	outP     = flag.String("out", "", "report file")
	realN    = flag.Int("real", 12, "real-kernel cells to run (rotated by seed); -1: all")
	realMiB  = flag.Int("realmb", 16, "MiB written per real-kernel cell")
	replayS  = flag.String("replay", "", "run one simulated case: <case-seed>")
	verbose  = flag.Bool("v", false, "print every simulated case")
	stallSec = flag.Int("stall", 10, "seconds without progress that count as a stall (real tier)")
	gapProbe = flag.Int("gap", 8, "also run N schedules of the directed D38 scenario (immediate-connect dial, ET+ONESHOT, first event without OUT)")
)

func main() {
	flag.Parse()
	logging.SetLevel(logging.LevelNone)
	rep := hx.NewReport("wake", *seed)
	rep.Rule = "tier S: one case = epoll mode x sync/async read x application hooks (default reader, g.OnRead custom reader, OnReadBufferAlloc/Free, custom Execute with " +
		"the writes issued from Conn.Execute jobs) x send-buffer capacity (1 B .. 420 KiB; 1 case in 5 has a deep queue: 5-9 entries of 40-64 KiB that the " +
		"send buffer takes all at once) x origin of the writes (open handler before " +
		"registration, data handler, close handler of another connection, other goroutines, after registration, dial callback, immediate dial) x 2-8 steps " +
		"(Write / Writev / Sendfile of sizes around the capacity and the 64 KiB queue item limit incl. empty ones, peer reads, peer sends, quiescence checks) " +
		"x one seeded schedule, then fair rounds until drained; non-trivial = a backlog formed and at least one writability event was needed to drain it. " +
		"tier R: one cell = mode x application hooks x transport x origin x bytes per Write call (everything at once / 60 KiB = one queue entry per call / 1 MiB) on real " +
		"sockets; quick: one cell per (mode, hooks) pair, the rest rotated by seed; plus epoll_wait return counts while blocked and after the drain (spin)"
	var m *hx.Model
	if *modelP != "" {
		m = hx.StartModel(*modelP)
		defer m.Close()
	}
	gap := *gapProbe
	if gap < 0 {
		gap = 0
	}
	for i := 0; i < gap; i++ { // the directed history that found D38: about two schedules in three take the bad path
		c := simCase{Seed: int64(i), Mode: 2, Cap: 64, Origin: "dialnow", Hooks: "default", OW: []wop{{Kind: "w", N: []int{64}}},
			Steps: []simStep{{Kind: "psend"}, {Kind: "quiesce"}, {Kind: "pread"}, {Kind: "write", Writes: []wop{{Kind: "w", N: []int{129}}}}}}
		runSim(c, m, rep, *verbose)
	}
	if *replayS != "" {
		var cs int64
		fmt.Sscan(*replayS, &cs)
		c := genSim(cs)
		res := runSim(c, m, rep, true)
		fmt.Printf("%+v\n%+v\n", c, res)
		rep.Write(*outP)
		return
	}
	for i := 0; i < *nCases && !rep.TooMany(); i++ {
		cs := *seed*1000003 + int64(i)
		c := genSim(cs)
		runSim(c, m, rep, *verbose)
	}
	runReal(rep)
	rep.Write(*outP)
	if len(rep.Findings) > 0 {
		os.Exit(0)
	}
}
