package main

// Part P: the processor model (coq/httpproc: the fold of the parser callbacks into *http.Request / *http.Response) against
// the real ServerProcessor / ClientProcessor: the same stream goes through the real parser + real processor (the handler
// records every field it sees) and through the extracted parser model + processor model; the two renderings must be equal.
// This ties the theorems of C07Proc.v (delivered request = the reference's view) to nbhttp/processor.go.

import (
	"encoding/hex"
	"fmt"
	"io"
	"net/http"
	"net/url"
	"sort"
	"strings"

	"github.com/lesismal/nbio/nbhttp"
)

func mmString(h http.Header) string {
	var items []string
	for k, vs := range h {
		var hv []string
		for _, v := range vs {
			hv = append(hv, hex.EncodeToString([]byte(v)))
		}
		items = append(items, hex.EncodeToString([]byte(k))+"="+strings.Join(hv, ","))
	}
	sort.Strings(items)
	return strings.Join(items, ";")
}

// procRun returns the rendering of what the real processor delivered and whether the model's assumption about the
// request targets (url.ParseRequestURI succeeds with an empty host) held for every delivered request
func procRun(stream []byte, client bool) (out string, assumption bool) {
	assumption = true
	var msgs []string
	var p *nbhttp.Parser
	defer func() {
		if e := recover(); e != nil {
			out = fmt.Sprintf("PANIC:%v", e)
		}
	}()
	if client {
		engine := nbhttp.NewEngine(nbhttp.Config{})
		p = nbhttp.NewParser(&fconn{}, engine, nbhttp.NewClientProcessor(nil, func(res *http.Response, err error) {
			var body []byte
			if res.Body != nil {
				body, _ = io.ReadAll(res.Body)
			}
			msgs = append(msgs, fmt.Sprintf("S:%s|%d.%d|%d|%s|cl=%d|body=%s|H:%s|T:%s", h(res.Proto), res.ProtoMajor, res.ProtoMinor,
				res.StatusCode, h(res.Status), res.ContentLength, hex.EncodeToString(body), mmString(res.Header), mmString(res.Trailer)))
		}), true, nil)
	} else {
		engine := nbhttp.NewEngine(nbhttp.Config{Handler: http.HandlerFunc(func(w http.ResponseWriter, req *http.Request) {
			body, _ := io.ReadAll(req.Body)
			if u, err := url.ParseRequestURI(req.RequestURI); err != nil || u.Host != "" {
				assumption = false
			}
			var te []string
			for _, v := range req.TransferEncoding {
				te = append(te, h(v))
			}
			msgs = append(msgs, fmt.Sprintf("Q:%s|%s|%s|%d.%d|host=%s|close=%v|cl=%d|body=%s|H:%s|T:%s|TE:%s", h(req.Method), h(req.RequestURI), h(req.Proto),
				req.ProtoMajor, req.ProtoMinor, h(req.Host), req.Close, req.ContentLength, hex.EncodeToString(body), mmString(req.Header), mmString(req.Trailer), strings.Join(te, ",")))
		})})
		p = nbhttp.NewParser(&fconn{}, engine, nbhttp.NewServerProcessor(), false, nil)
	}
	err := p.Parse(stream)
	cls := "nil"
	if err != nil {
		cls = "err"
	}
	return strings.Join(msgs, " ") + " ERR:" + cls, assumption
}
