// Harness for C07 (agreement with the reference parser net/http on well-formed messages) and the
// body-size clause of C08.
//  part R : nbio's real ServerProcessor / ClientProcessor + handler vs. http.ReadRequest / http.ReadResponse
//           on generated well-formed pipelined streams (restricted grammar of the property), field by field,
//           including the offset of every message boundary (property oracle: differential against the reference)
//  part M : the same streams through the Coq parser model vs. the real parser (events) - ties the C07 theorems to the code
//  part B : MaxHTTPBodySize: no body longer than the limit is ever handed to the handler; the message is rejected
package main

import (
	"bufio"
	"bytes"
	"encoding/hex"
	"flag"
	"fmt"
	"io"
	"math/rand"
	"net"
	"net/http"
	"sort"
	"strings"
	"time"

	"github.com/lesismal/nbio/nbhttp"
	"verifharness/hx"
)

type fconn struct{}

func (c *fconn) Read(b []byte) (int, error)         { return 0, io.EOF }
func (c *fconn) Write(b []byte) (int, error)        { return len(b), nil }
func (c *fconn) Close() error                       { return nil }
func (c *fconn) LocalAddr() net.Addr                { return &net.TCPAddr{} }
func (c *fconn) RemoteAddr() net.Addr               { return &net.TCPAddr{} }
func (c *fconn) SetDeadline(t time.Time) error      { return nil }
func (c *fconn) SetReadDeadline(t time.Time) error  { return nil }
func (c *fconn) SetWriteDeadline(t time.Time) error { return nil }

// ---- projected message ----
type pmsg struct {
	Start   string // method target proto | proto status
	Host    string
	Headers string // canonical multimap without framing headers and Host, values right-trimmed
	Body    string
	Trailer string
	Close   string
	End     int // offset of the message boundary in the stream
}

func (m pmsg) String() string {
	return fmt.Sprintf("start=%q host=%q headers=%s body=%dB:%s trailer=%s close=%s end=%d", m.Start, m.Host, m.Headers, len(m.Body), hx.Hex([]byte(trunc(m.Body, 24))), m.Trailer, m.Close, m.End)
}

func trunc(s string, n int) string {
	if len(s) > n {
		return s[:n]
	}
	return s
}

var framing = map[string]bool{"Host": true, "Transfer-Encoding": true, "Trailer": true, "Content-Length": true}

func canonHeader(h http.Header, dropFraming bool) string {
	var keys []string
	for k := range h {
		if dropFraming && framing[k] {
			continue
		}
		keys = append(keys, k)
	}
	sort.Strings(keys)
	var sb strings.Builder
	for _, k := range keys {
		for _, v := range h[k] {
			sb.WriteString(k + "=" + strings.Trim(v, " ") + ";")
		}
	}
	return sb.String()
}

// ---- generator (restricted grammar of C07) ----
var hnames = []string{"X-Custom", "accept", "x-a-b", "User-Agent", "Cookie", "X-Custom", "A1", "x_y.z"}
var hvals = []string{"v", "a b", "text/html; q=0.8, */*", "x,y", "1", "a  b   c", "~!@#$%^&*()_+{}|:\"<>?", "Wed, 21 Oct 2015 07:28:00 GMT"}
var conns = []string{"", "", "close", "keep-alive", "close, x", "keep-alive, Upgrade", "Keep-Alive", "CLOSE", "x, close", "upgrade"}

func spn(r *rand.Rand) string { return strings.Repeat(" ", r.Intn(3)) }

func genBody(r *rand.Rand) []byte {
	n := []int{0, 1, 2, 10, 50, 200, 1000}[r.Intn(7)]
	b := make([]byte, n)
	for i := range b {
		switch r.Intn(6) {
		case 0:
			b[i] = "\r\n :;0aF"[r.Intn(8)]
		default:
			b[i] = byte(r.Intn(256))
		}
	}
	return b
}

func writeFraming(r *rand.Rand, sb *strings.Builder, minor int, tags *[]string) {
	body := genBody(r)
	kind := r.Intn(3)
	if minor == 0 && kind == 2 {
		kind = 1
	}
	switch kind {
	case 0:
		if r.Intn(8) == 0 {
			sb.WriteString("Trailer: X-T2\r\n")
		}
		sb.WriteString("\r\n")
		*tags = append(*tags, "nobody")
	case 1:
		if r.Intn(5) == 0 { // a Trailer declaration on a message that is not chunked is legal and ignored
			sb.WriteString("Trailer: X-T1\r\n")
		}
		sb.WriteString(fmt.Sprintf("Content-Length:%s%d%s\r\n\r\n", spn(r), len(body), spn(r)))
		sb.Write(body)
		*tags = append(*tags, "content-length")
	default:
		tr := r.Intn(2) == 0
		sb.WriteString("Transfer-Encoding:" + spn(r) + []string{"chunked", "Chunked", "CHUNKED"}[r.Intn(3)] + spn(r) + "\r\n")
		var tkeys []string
		if tr {
			tkeys = [][]string{{"X-T1"}, {"X-T1", "X-T2"}, {"x-t1", "Expires"}}[r.Intn(3)]
			if r.Intn(2) == 0 {
				sb.WriteString("Trailer:" + spn(r) + strings.Join(tkeys, []string{",", ", ", " ,"}[r.Intn(3)]) + "\r\n")
			} else {
				for _, k := range tkeys {
					sb.WriteString("Trailer: " + k + "\r\n")
				}
			}
		}
		sb.WriteString("\r\n")
		for len(body) > 0 {
			n := 1 + r.Intn(len(body))
			if n > 300 {
				n = 300
			}
			sz := []string{fmt.Sprintf("%x", n), fmt.Sprintf("%X", n), fmt.Sprintf("00%x", n)}[r.Intn(3)]
			sb.WriteString(sz + []string{"", ";ext=1", ";a;b=c", " "}[r.Intn(4)] + "\r\n")
			sb.Write(body[:n])
			sb.WriteString("\r\n")
			body = body[n:]
		}
		sb.WriteString("0\r\n")
		for _, k := range tkeys {
			sb.WriteString(k + ":" + spn(r) + hvals[r.Intn(len(hvals))] + "\r\n")
		}
		sb.WriteString("\r\n")
		if tr {
			*tags = append(*tags, "chunked+trailer")
		} else {
			*tags = append(*tags, "chunked")
		}
	}
}

func genRequest(r *rand.Rand, tags *[]string) string {
	var sb strings.Builder
	minor := r.Intn(2)
	method := []string{"GET", "POST", "PUT", "DELETE", "PATCH", "OPTIONS", "HEAD", "TRACE"}[r.Intn(8)]
	target := []string{"/", "/a/b?x=1&y=2", "/p%20q", "/index.html", "/a;b=c/d"}[r.Intn(5)]
	if method == "OPTIONS" && r.Intn(3) == 0 {
		target = "*"
	}
	sb.WriteString(fmt.Sprintf("%s %s HTTP/1.%d\r\n", method, target, minor))
	sb.WriteString("Host:" + spn(r) + "h.example" + []string{"", ":8080"}[r.Intn(2)] + spn(r) + "\r\n")
	for i, nh := 0, r.Intn(4); i < nh; i++ {
		sb.WriteString(hnames[r.Intn(len(hnames))] + ":" + spn(r) + hvals[r.Intn(len(hvals))] + spn(r) + "\r\n")
	}
	if c := conns[r.Intn(len(conns))]; c != "" {
		sb.WriteString("Connection:" + spn(r) + c + "\r\n")
		if r.Intn(3) == 0 { // a Connection list split over several field lines
			sb.WriteString("Connection:" + spn(r) + conns[2+r.Intn(len(conns)-2)] + "\r\n")
		}
	}
	writeFraming(r, &sb, minor, tags)
	return sb.String()
}

func genResponse(r *rand.Rand, tags *[]string) string {
	var sb strings.Builder
	minor := r.Intn(2)
	code := []int{200, 201, 404, 500, 301, 204, 304}[r.Intn(7)]
	sb.WriteString(fmt.Sprintf("HTTP/1.%d %d %s\r\n", minor, code, []string{"OK", "Created", "Whatever"}[r.Intn(3)]))
	for i, nh := 0, r.Intn(4); i < nh; i++ {
		sb.WriteString(hnames[r.Intn(len(hnames))] + ":" + spn(r) + hvals[r.Intn(len(hvals))] + spn(r) + "\r\n")
	}
	if code == 204 || code == 304 {
		sb.WriteString("\r\n")
		*tags = append(*tags, "nobody")
		return sb.String()
	}
	// responses are always framed explicitly in the restricted grammar (no read-until-close bodies)
	for {
		var t []string
		var fb strings.Builder
		writeFraming(r, &fb, minor, &t)
		if t[0] != "nobody" {
			sb.WriteString(fb.String())
			*tags = append(*tags, t...)
			return sb.String()
		}
	}
}

// ---- reference ----
func refRequests(stream []byte) ([]pmsg, error) {
	rd := bytes.NewReader(stream)
	br := bufio.NewReader(rd)
	var out []pmsg
	for {
		if _, err := br.Peek(1); err != nil {
			return out, nil
		}
		req, err := http.ReadRequest(br)
		if err != nil {
			return out, err
		}
		body, err := io.ReadAll(req.Body)
		if err != nil {
			return out, err
		}
		out = append(out, pmsg{Start: req.Method + " " + req.RequestURI + " " + req.Proto, Host: strings.Trim(req.Host, " "),
			Headers: canonHeader(req.Header, true), Body: string(body), Trailer: canonHeader(req.Trailer, false),
			Close: fmt.Sprint(req.Close), End: len(stream) - rd.Len() - br.Buffered()})
	}
}

func refResponses(stream []byte) ([]pmsg, error) {
	rd := bytes.NewReader(stream)
	br := bufio.NewReader(rd)
	var out []pmsg
	for {
		if _, err := br.Peek(1); err != nil {
			return out, nil
		}
		res, err := http.ReadResponse(br, &http.Request{Method: "GET"})
		if err != nil {
			return out, err
		}
		body, err := io.ReadAll(res.Body)
		if err != nil {
			return out, err
		}
		out = append(out, pmsg{Start: fmt.Sprintf("%s %d", res.Proto, res.StatusCode), Headers: canonHeader(res.Header, true),
			Body: string(body), Trailer: canonHeader(res.Trailer, false), Close: "-", End: len(stream) - rd.Len() - br.Buffered()})
	}
}

// ---- nbio ----
func nbioRun(stream []byte, client bool, bytewise bool, maxBody int, cuts ...int) (msgs []pmsg, perr error, maxSeen int) {
	defer func() {
		if e := recover(); e != nil {
			perr = fmt.Errorf("panic: %v", e)
		}
	}()
	pos := 0
	var p *nbhttp.Parser
	if client {
		engine := nbhttp.NewEngine(nbhttp.Config{MaxHTTPBodySize: maxBody})
		p = nbhttp.NewParser(&fconn{}, engine, nbhttp.NewClientProcessor(nil, func(res *http.Response, err error) {
			var body []byte
			if res.Body != nil {
				body, _ = io.ReadAll(res.Body)
			}
			if len(body) > maxSeen {
				maxSeen = len(body)
			}
			msgs = append(msgs, pmsg{Start: fmt.Sprintf("%s %d", res.Proto, res.StatusCode), Headers: canonHeader(res.Header, true),
				Body: string(body), Trailer: canonHeader(res.Trailer, false), Close: "-", End: pos})
		}), true, nil)
	} else {
		engine := nbhttp.NewEngine(nbhttp.Config{MaxHTTPBodySize: maxBody, Handler: http.HandlerFunc(func(w http.ResponseWriter, req *http.Request) {
			body, _ := io.ReadAll(req.Body)
			if len(body) > maxSeen {
				maxSeen = len(body)
			}
			msgs = append(msgs, pmsg{Start: req.Method + " " + req.RequestURI + " " + req.Proto, Host: strings.Trim(req.Host, " "),
				Headers: canonHeader(req.Header, true), Body: string(body), Trailer: canonHeader(req.Trailer, false),
				Close: fmt.Sprint(req.Close), End: pos})
		})})
		p = nbhttp.NewParser(&fconn{}, engine, nbhttp.NewServerProcessor(), false, nil)
	}
	if bytewise {
		for i := range stream {
			pos = i + 1
			if err := p.Parse(stream[i : i+1]); err != nil {
				return msgs, err, maxSeen
			}
		}
		return msgs, nil, maxSeen
	}
	pos = -1
	if len(cuts) > 0 {
		prev := 0
		for _, k := range append(append([]int{}, cuts...), len(stream)) {
			if k <= prev || k > len(stream) {
				continue
			}
			if err := p.Parse(append([]byte{}, stream[prev:k]...)); err != nil {
				return msgs, err, maxSeen
			}
			prev = k
		}
		return msgs, nil, maxSeen
	}
	err := p.Parse(stream)
	return msgs, err, maxSeen
}

// recording processor for part M
type recp struct{ ev []string }

func h(s string) string                                       { return hex.EncodeToString([]byte(s)) }
func (p *recp) OnMethod(_ *nbhttp.Parser, m string)           { p.ev = append(p.ev, "M:"+h(m)) }
func (p *recp) OnURL(_ *nbhttp.Parser, u string) error        { p.ev = append(p.ev, "U:"+h(u)); return nil }
func (p *recp) OnProto(_ *nbhttp.Parser, s string) error      { p.ev = append(p.ev, "P:"+h(s)); return nil }
func (p *recp) OnStatus(_ *nbhttp.Parser, c int, s string)    { p.ev = append(p.ev, fmt.Sprintf("S:%d:%s", c, h(s))) }
func (p *recp) OnHeader(_ *nbhttp.Parser, k, v string)        { p.ev = append(p.ev, "H:"+h(k)+"="+h(v)) }
func (p *recp) OnContentLength(_ *nbhttp.Parser, n int)       { p.ev = append(p.ev, fmt.Sprintf("CL:%d", n)) }
func (p *recp) OnBody(_ *nbhttp.Parser, d []byte) error       { p.ev = append(p.ev, "B:"+hex.EncodeToString(d)); return nil }
func (p *recp) OnTrailerHeader(_ *nbhttp.Parser, k, v string) { p.ev = append(p.ev, "T:"+h(k)+"="+h(v)) }
func (p *recp) OnComplete(_ *nbhttp.Parser)                   { p.ev = append(p.ev, "C") }
func (p *recp) Close(_ *nbhttp.Parser, err error)             {}
func (p *recp) Clean(_ *nbhttp.Parser)                        {}

var recEngine *nbhttp.Engine

func recRun(stream []byte, client bool) string {
	if recEngine == nil {
		recEngine = nbhttp.NewEngine(nbhttp.Config{})
		recEngine.ReadLimit = 0
	}
	rp := &recp{}
	p := nbhttp.NewParser(&fconn{}, recEngine, rp, client, nil)
	err := p.Parse(stream)
	cls, ret := "nil", nbhttp.VerifCached(p)
	if err != nil {
		cls, ret = "err", -1
	}
	return strings.Join(rp.ev, "|") + fmt.Sprintf("|ERR:%s|RET:%d", cls, ret)
}

func main() {
	seed := flag.Int64("seed", 1, "")
	n := flag.Int("n", 3000, "streams")
	model := flag.String("model", "", "")
	pmodel := flag.String("pmodel", "", "extracted parser + processor model (coq/httpproc)")
	out := flag.String("out", "-", "")
	flag.Parse()
	rep := hx.NewReport("httpref", *seed)
	rep.Rule = "pipelined streams (1-3 messages) of well-formed requests/responses from the restricted grammar of C07 (token header names, visible-ASCII values with inner spaces, SP-only OWS, Content-Length or chunked framing with extensions, declared trailers, Connection variants); each stream fed in one piece and byte at a time; non-trivial = at least one message with a body; distinct = distinct streams"
	var m *hx.Model
	if *model != "" {
		m = hx.StartModel(*model)
		defer m.Close()
	}
	var pm *hx.Model
	if *pmodel != "" {
		pm = hx.StartModel(*pmodel)
		defer pm.Close()
	}
	r := rand.New(rand.NewSource(*seed))
	for it := 0; it < *n && !rep.TooMany(); it++ {
		client := r.Intn(3) == 0
		var sb strings.Builder
		var tags []string
		for k, nm := 0, 1+r.Intn(3); k < nm; k++ {
			if client {
				sb.WriteString(genResponse(r, &tags))
			} else {
				sb.WriteString(genRequest(r, &tags))
			}
		}
		stream := []byte(sb.String())
		nontrivial := false
		for _, t := range tags {
			rep.Stat("msg." + t)
			nontrivial = nontrivial || t != "nobody"
		}
		rep.Case(string(stream), nontrivial)
		rep.Ops += len(tags)
		var ref []pmsg
		var rerr error
		if client {
			ref, rerr = refResponses(stream)
		} else {
			ref, rerr = refRequests(stream)
		}
		replay := map[string]interface{}{"harness": "httpref", "client": client, "stream": string(stream), "stream_hex": hex.EncodeToString(stream)}
		if rerr != nil {
			// the generator left the grammar on which the reference itself accepts: not a finding about nbio
			rep.Stat("reference-rejected")
			continue
		}
		for _, bytewise := range []bool{false, true} {
			got, perr, _ := nbioRun(stream, client, bytewise, 0)
			sig, what := "", ""
			if perr != nil {
				sig, what = "nbio-rejects-wellformed", fmt.Sprintf("nbio rejects a message the reference accepts: %v (after %d of %d messages)", perr, len(got), len(ref))
			} else if len(got) != len(ref) {
				sig, what = "message-count", fmt.Sprintf("nbio delivered %d messages, the reference %d", len(got), len(ref))
			} else {
				for i := range ref {
					g, w := got[i], ref[i]
					if !bytewise {
						g.End = w.End // boundaries are observable only when feeding byte by byte
					}
					if g != w {
						field := "fields"
						switch {
						case g.Start != w.Start:
							field = "start-line"
						case g.Host != w.Host:
							field = "host"
						case g.Headers != w.Headers:
							field = "headers"
						case g.Body != w.Body:
							field = "body"
						case g.Trailer != w.Trailer:
							field = "trailer"
						case g.Close != w.Close:
							field = "close-decision"
						case g.End != w.End:
							field = "boundary"
						}
						sig, what = "differs-"+field, fmt.Sprintf("message %d differs from the reference in %s\n nbio: %s\n ref : %s", i, field, g, w)
						break
					}
				}
			}
			if sig != "" {
				replay["bytewise"] = bytewise
				rep.Add(hx.Finding{Kind: "oracle", Property: "C07", Signature: sig, What: what, Replay: replay})
				break
			}
		}
		if m != nil {
			ci := 0
			if client {
				ci = 1
			}
			want := m.Ask("%d 0 %s", ci, hex.EncodeToString(stream))
			if got := recRun(stream, client); got != want {
				rep.Add(hx.Finding{Kind: "mismatch", Property: "C07", Signature: "httpparser-model", What: "implementation and model disagree on a well-formed stream\n impl =" + trunc(got, 600) + "\n model=" + trunc(want, 600), Replay: replay})
			}
		}
		if pm != nil {
			ci := 0
			if client {
				ci = 1
			}
			want := pm.Ask("%d 0 %s", ci, hex.EncodeToString(stream))
			got, ok := procRun(stream, client)
			if !ok {
				rep.Stat("processor-model-assumption-not-met(url host)")
			} else if got != want {
				rep.Add(hx.Finding{Kind: "mismatch", Property: "C07", Signature: "httpprocessor-model", What: "the real processor and the processor model deliver different requests/responses for a well-formed stream\n impl =" + trunc(got, 900) + "\n model=" + trunc(want, 900), Replay: replay})
			} else {
				rep.Stat("processor-model-agrees")
			}
		}
		if it < 3 {
			rep.Sample(map[string]interface{}{"client": client, "stream": string(stream), "messages": len(ref), "reference_first": ref[0].String()})
		}
	}
	bodyLimit(rep, r)
	rep.Write(*out)
}

// part B: MaxHTTPBodySize
func bodyLimit(rep *hx.Report, r *rand.Rand) {
	for it := 0; it < 300; it++ {
		limit := []int{1, 16, 100, 1000}[r.Intn(4)]
		total := limit - 2 + r.Intn(5)
		if total < 0 {
			total = 0
		}
		if r.Intn(4) == 0 {
			total = limit * (2 + r.Intn(3))
		}
		body := bytes.Repeat([]byte("x"), total)
		var sb strings.Builder
		chunked := r.Intn(2) == 0
		if chunked {
			sb.WriteString("POST /u HTTP/1.1\r\nHost: h\r\nTransfer-Encoding: chunked\r\n\r\n")
			rest := body
			for len(rest) > 0 {
				k := 1 + r.Intn(limit)
				if k > len(rest) {
					k = len(rest)
				}
				sb.WriteString(fmt.Sprintf("%x\r\n%s\r\n", k, rest[:k]))
				rest = rest[k:]
			}
			sb.WriteString("0\r\n\r\n")
		} else {
			sb.WriteString(fmt.Sprintf("POST /u HTTP/1.1\r\nHost: h\r\nContent-Length: %d\r\n\r\n%s", total, body))
		}
		// a pipelined successor right behind the body: bytes that follow a body are not part of it
		follow := r.Intn(2) == 0
		nmsg := 1
		if follow && total <= limit {
			sb.WriteString(fmt.Sprintf("POST /v HTTP/1.1\r\nHost: h\r\nContent-Length: %d\r\n\r\n%s", limit/2, bytes.Repeat([]byte("y"), limit/2)))
			nmsg = 2
		}
		stream := []byte(sb.String())
		for mode := 0; mode < 4; mode++ {
			bytewise := mode == 1
			var cuts []int
			if mode >= 2 { // one or two reads that end inside the (first) body
				for k := 0; k < mode-1; k++ {
					cuts = append(cuts, 40+r.Intn(len(stream)-40))
				}
				sort.Ints(cuts)
			}
			msgs, perr, maxSeen := nbioRun(stream, false, bytewise, limit, cuts...)
			rep.Case(fmt.Sprintf("B/%d/%d/%v/%d/%v", limit, total, chunked, mode, follow), true)
			rep.Stat("bodylimit")
			replay := map[string]interface{}{"harness": "httpref", "part": "bodylimit", "MaxHTTPBodySize": limit, "body": total, "chunked": chunked, "bytewise": bytewise, "cuts": cuts, "pipelined_successor": nmsg == 2, "stream": trunc(string(stream), 300)}
			if maxSeen > limit {
				rep.Add(hx.Finding{Kind: "oracle", Property: "C08", Signature: "body-exceeds-max", What: fmt.Sprintf("handler received a %d byte body, MaxHTTPBodySize is %d", maxSeen, limit), Replay: replay})
			} else if total > limit && (perr == nil || len(msgs) > 0) {
				rep.Add(hx.Finding{Kind: "oracle", Property: "C08", Signature: "oversized-body-accepted", What: fmt.Sprintf("a %d byte body under MaxHTTPBodySize %d was not rejected (err=%v, delivered=%d)", total, limit, perr, len(msgs)), Replay: replay})
			} else if total <= limit && (perr != nil || len(msgs) != nmsg) {
				// the same bytes are accepted or rejected whatever the segmentation: this is also the C06 clause
				rep.Add(hx.Finding{Kind: "oracle", Property: "C06", Signature: "fitting-body-rejected", What: fmt.Sprintf("a %d byte body under MaxHTTPBodySize %d (followed by %d further message(s)) fed with cuts %v bytewise=%v: err=%v, %d of %d messages delivered", total, limit, nmsg-1, cuts, bytewise, perr, len(msgs), nmsg), Replay: replay})
			}
		}
	}
}
