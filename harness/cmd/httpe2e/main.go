// Harness for C10 (HTTP exchanges end to end: one answer per request, in order, isolated; client callbacks exactly once).
// A real nbhttp server on loopback in every IOMod x epoll mode with a plain and a TLS listener on the same engine
// (tls.go: in-memory self-signed certificate), raw pipelining clients (plain, and crypto/tls 1.2 / 1.3 with records
// optionally cut into random TCP writes), net/http clients (http and https) and nbhttp.Client (http and https), many
// concurrent connections of both kinds, a deterministic handler whose answer is a function of the request
// (connection id, request index, size, framing), sizes straddling the 64 KiB thresholds.
//
//	oracle (implementation alone): per connection exactly one response per request, in request order, each with the
//	bytes belonging to that request (no byte of another connection), connection kept open / closed as the request
//	version and Connection header dictate; every nbhttp.Client callback exactly once with the matching response.
package main

import (
	"bufio"
	"bytes"
	"flag"
	"fmt"
	"io"
	"math/rand"
	"net"
	"net/http"
	"net/url"
	"os"
	"runtime"
	"strconv"
	"strings"
	"sync"
	"sync/atomic"
	"time"

	"github.com/lesismal/nbio"
	"github.com/lesismal/nbio/logging"
	"github.com/lesismal/nbio/nbhttp"
	"verifharness/hx"
)

func pattern(c, i, n int) []byte {
	b := make([]byte, n)
	x := uint32(c*7919+i*104729) + 1
	for k := range b {
		x = x*1664525 + 1013904223
		b[k] = 'a' + byte(x>>24)%26
	}
	// the identity is also written into the body so foreign bytes are recognisable
	tag := fmt.Sprintf("<%d/%d>", c, i)
	copy(b, tag)
	return b
}

func handler(w http.ResponseWriter, req *http.Request) {
	q := req.URL.Query()
	c, _ := strconv.Atoi(q.Get("c"))
	i, _ := strconv.Atoi(q.Get("i"))
	n, _ := strconv.Atoi(q.Get("n"))
	rb, _ := io.ReadAll(req.Body)
	if d, _ := strconv.Atoi(q.Get("d")); d > 0 {
		time.Sleep(time.Duration(d) * time.Millisecond) // handlers of different connections overlap
	}
	if q.Get("m") == "hijack" {
		// the handler takes the connection over (what a protocol upgrade does), answers by itself and closes
		if hj, ok := w.(http.Hijacker); ok {
			if hc, _, err := hj.Hijack(); err == nil {
				hc.Write([]byte(fmt.Sprintf("HTTP/1.1 200 OK\r\nX-Id: %d-%d\r\nContent-Length: 2\r\nConnection: close\r\n\r\nhj", c, i)))
				hc.Close()
				return
			}
		}
		w.WriteHeader(500)
		return
	}
	body := pattern(c, i, n)
	w.Header().Set("X-Id", fmt.Sprintf("%d-%d", c, i))
	w.Header().Set("X-Req-Body", fmt.Sprint(len(rb)))
	switch q.Get("m") {
	case "sc": // http.ServeContent over an in-memory reader: io.CopyN -> Response.ReadFrom with an io.LimitedReader
		w.Header().Set("Content-Type", "application/octet-stream")
		http.ServeContent(w, req, "", time.Time{}, bytes.NewReader(append(append([]byte{}, body...), "BYTES-BEHIND-THE-SERVED-CONTENT"...)[:len(body)]))
	case "sf": // the same over a file that is LONGER than what is served: the Sendfile branch where the connection allows it
		w.Header().Set("Content-Type", "application/octet-stream")
		if f, err := os.CreateTemp("", "httpe2e"); err == nil {
			f.Write(body)
			f.Write([]byte("BYTES-BEHIND-THE-SERVED-RANGE"))
			f.Seek(0, 0)
			w.Header().Set("Content-Length", fmt.Sprint(n))
			if n > 0 {
				io.CopyN(w, f, int64(n))
			}
			f.Close()
			os.Remove(f.Name())
		}
	case "cl":
		w.Header().Set("Content-Length", fmt.Sprint(n))
		w.Write(body)
	case "multi":
		for len(body) > 0 {
			k := 1 + len(body)/3
			w.Write(body[:k])
			body = body[k:]
		}
	default:
		w.Write(body)
	}
}

type quiet struct{}

func (quiet) SetLevel(int)                 {}
func (quiet) Debug(string, ...interface{}) {}
func (quiet) Info(string, ...interface{})  {}
func (quiet) Warn(string, ...interface{})  {}
func (quiet) Error(string, ...interface{}) {}

func freePort() string {
	ln, err := net.Listen("tcp", "127.0.0.1:0")
	if err != nil {
		hx.Fatal("listen: %v", err)
	}
	a := ln.Addr().String()
	ln.Close()
	return a
}

type reqSpec struct {
	D      int    `json:"handler_delay_ms,omitempty"`
	I      int    `json:"i"`
	N      int    `json:"size"`
	M      string `json:"framing"`
	Minor  int    `json:"http_minor"`
	Conn   string `json:"connection,omitempty"`
	Post   int    `json:"post_body,omitempty"`
	closes bool
}

var sizes = []int{0, 1, 100, 3000, 65535, 65536, 65537, 70000, 200000}

// -part c09: the cells serve mostly files and in-memory content through Response.ReadFrom (the Sendfile branch where the
// connection allows it), on the plain and on the TLS listener; findings are attributed to C09 (the response on the wire is
// not the well-formed response the handler produced)
var c09Mode bool

func genConn(r *rand.Rand) []reqSpec {
	depth := 1 + r.Intn(5)
	var rs []reqSpec
	for i := 0; i < depth; i++ {
		s := reqSpec{I: i, N: sizes[r.Intn(len(sizes))], M: []string{"cl", "multi", "one", "cl", "multi", "one", "sc", "sf"}[r.Intn(8)], Minor: 1}
		if r.Intn(3) == 0 {
			s.Post = []int{0, 5, 1000, 70000}[r.Intn(4)]
		}
		if r.Intn(3) == 0 {
			s.D = 1 + r.Intn(8)
		}
		if c09Mode {
			s.M = []string{"sf", "sc", "sf", "sc", "cl", "multi", "one"}[r.Intn(7)]
		}
		last := i == depth-1
		if last {
			switch r.Intn(4) {
			case 0:
				s.Conn = "close"
				s.closes = true
			case 1:
				s.Minor = 0
				s.closes = true
			case 2:
				s.Minor = 0
				s.Conn = "keep-alive"
			}
		}
		rs = append(rs, s)
	}
	return rs
}

func render(c int, s reqSpec) []byte {
	var sb bytes.Buffer
	method := "GET"
	if s.Post > 0 {
		method = "POST"
	}
	fmt.Fprintf(&sb, "%s /r?c=%d&i=%d&n=%d&m=%s&d=%d HTTP/1.%d\r\nHost: x\r\n", method, c, s.I, s.N, s.M, s.D, s.Minor)
	if s.Conn != "" {
		fmt.Fprintf(&sb, "Connection: %s\r\n", s.Conn)
	}
	if s.Post > 0 {
		fmt.Fprintf(&sb, "Content-Length: %d\r\n", s.Post)
	}
	sb.WriteString("\r\n")
	if s.Post > 0 {
		sb.Write(bytes.Repeat([]byte("p"), s.Post))
	}
	return sb.Bytes()
}

type cfg struct {
	IOMod int    `json:"iomod"`
	Epoll string `json:"epoll"`
	NConn int    `json:"connections"`
	NTLS  int    `json:"tls_connections"`
}

// one raw pipelining connection; returns signature, description
func rawConn(addr string, t transport, c int, specs []reqSpec, r *rand.Rand) (string, string) {
	conn, sig, what := t.dial(addr, r.Int63())
	if conn == nil {
		return sig, what
	}
	defer conn.Close()
	var all []byte
	for _, s := range specs {
		all = append(all, render(c, s)...)
	}
	// write in one piece or in random segments
	go func() {
		if r.Intn(2) == 0 {
			conn.Write(all)
			return
		}
		rest := all
		for len(rest) > 0 {
			k := 1 + r.Intn(len(rest))
			conn.Write(rest[:k])
			rest = rest[k:]
		}
	}()
	br := bufio.NewReaderSize(conn, 1<<16)
	for _, s := range specs {
		conn.SetReadDeadline(time.Now().Add(10 * time.Second))
		res, err := http.ReadResponse(br, &http.Request{Method: "GET"})
		if err != nil {
			return "response-missing", fmt.Sprintf("request %d of connection %d: no (decodable) response: %v", s.I, c, err)
		}
		body, err := io.ReadAll(res.Body)
		if err != nil {
			return "response-body", fmt.Sprintf("request %d of connection %d: body: %v (got %d of %d bytes)", s.I, c, err, len(body), s.N)
		}
		want := fmt.Sprintf("%d-%d", c, s.I)
		if got := res.Header.Get("X-Id"); got != want {
			if strings.HasSuffix(got, fmt.Sprintf("-%d", s.I)) || !strings.HasPrefix(got, fmt.Sprintf("%d-", c)) {
				return "foreign-response", fmt.Sprintf("connection %d request %d received the response %q", c, s.I, got)
			}
			return "response-order", fmt.Sprintf("connection %d: expected the response to request %d, got %q", c, s.I, got)
		}
		if !bytes.Equal(body, pattern(c, s.I, s.N)) {
			return "response-content", fmt.Sprintf("connection %d request %d: body differs (%d bytes, want %d): starts %q", c, s.I, len(body), s.N, trunc(body, 40))
		}
		if got := res.Header.Get("X-Req-Body"); got != fmt.Sprint(s.Post) {
			return "request-body", fmt.Sprintf("connection %d request %d: handler saw a %s byte request body, sent %d", c, s.I, got, s.Post)
		}
	}
	last := specs[len(specs)-1]
	if last.closes {
		conn.SetReadDeadline(time.Now().Add(5 * time.Second))
		b, err := br.ReadByte()
		if err == nil {
			return "extra-bytes", fmt.Sprintf("connection %d: byte %q after the last response", c, b)
		}
		if ne, ok := err.(net.Error); ok && ne.Timeout() {
			return "not-closed", fmt.Sprintf("connection %d: still open 5s after a response to a request that asks for close (HTTP/1.%d, Connection: %q)", c, last.Minor, last.Conn)
		}
		return "", ""
	}
	conn.SetReadDeadline(time.Now().Add(150 * time.Millisecond))
	b, err := br.ReadByte()
	if err == nil {
		return "extra-bytes", fmt.Sprintf("connection %d: byte %q after the last response", c, b)
	}
	if ne, ok := err.(net.Error); !ok || !ne.Timeout() {
		return "closed-early", fmt.Sprintf("connection %d: closed although the last request keeps the connection alive (HTTP/1.%d, Connection: %q): %v", c, last.Minor, last.Conn, err)
	}
	// and it still answers
	conn.Write(render(c, reqSpec{I: 99, N: 10, M: "cl", Minor: 1}))
	conn.SetReadDeadline(time.Now().Add(5 * time.Second))
	res, err := http.ReadResponse(br, &http.Request{Method: "GET"})
	if err != nil || res.Header.Get("X-Id") != fmt.Sprintf("%d-99", c) {
		return "keepalive-broken", fmt.Sprintf("connection %d: a kept-alive connection does not answer a further request: %v", c, err)
	}
	io.ReadAll(res.Body)
	return "", ""
}

func trunc(b []byte, n int) []byte {
	if len(b) > n {
		return b[:n]
	}
	return b
}

// runCell runs one matrix cell. Findings that rest on a time-out (a response that did not arrive within N seconds) are
// reported only if the SAME cell with the SAME scripts (same cell seed) shows a finding of the same signature again:
// a stalled exchange that belongs to the code reproduces, a scheduling hiccup of a loaded machine does not.
func runCell(rep *hx.Report, r *rand.Rand, iomod int, emode int, nconn, ntls int) {
	cellSeed := r.Int63()
	var first []hx.Finding
	runCellOnce(rep, rand.New(rand.NewSource(cellSeed)), iomod, emode, nconn, ntls, func(f hx.Finding) { first = append(first, f) })
	timed := false
	for _, f := range first {
		if strings.Contains(f.What, "timeout") || strings.Contains(f.What, "i/o timeout") {
			timed = true
		}
	}
	var second []hx.Finding
	if timed {
		rep.Stat("cell-rerun-after-timeout-finding")
		runCellOnce(rep, rand.New(rand.NewSource(cellSeed)), iomod, emode, nconn, ntls, func(f hx.Finding) { second = append(second, f) })
	}
	for _, f := range first {
		if timed && (strings.Contains(f.What, "timeout")) {
			again := false
			for _, g := range second {
				if g.Signature == f.Signature {
					again = true
				}
			}
			if !again {
				rep.Stat("timeout-finding-not-reproduced." + f.Signature)
				continue
			}
		}
		if c09Mode {
			f.Property = "C09"
		}
		rep.Add(f)
	}
}

func runCellOnce(rep *hx.Report, r *rand.Rand, iomod int, emode int, nconn, ntls int, add func(hx.Finding)) {
	em, os1, ename := uint32(nbio.EPOLLLT), uint32(0), "LT"
	switch emode {
	case 1:
		em, ename = nbio.EPOLLET, "ET"
	case 2:
		em, os1, ename = nbio.EPOLLET, nbio.EPOLLONESHOT, "ET+ONESHOT"
	}
	addr, addrTLS := freePort(), freePort()
	// MaxBlockingOnline: in IOModMixed the first 6 connections (plain and TLS share the counter) are served by blocking
	// readers, the others by the pollers - both halves of the listener mux carry traffic
	e := nbhttp.NewEngine(nbhttp.Config{Network: "tcp", Addrs: []string{addr}, AddrsTLS: []string{addrTLS}, TLSConfig: serverTLS,
		IOMod: iomod, MaxBlockingOnline: 6, EpollMod: em, EPOLLONESHOT: os1, NPoller: 2, Handler: http.HandlerFunc(handler)})
	if err := e.Start(); err != nil {
		rep.Stat("start-failed")
		return
	}
	defer e.Stop()
	c := cfg{IOMod: iomod, Epoll: ename, NConn: nconn, NTLS: ntls}
	hx.Current("", "the process died while this cell of the end-to-end matrix was running", c)
	// peers that disconnect while their handler is still running: the response flush of those exchanges fails
	for k := 0; k < 1+r.Intn(3); k++ {
		if ac, err := net.DialTimeout("tcp", addr, 3*time.Second); err == nil {
			ac.Write(render(900+k, reqSpec{I: 0, N: 100, M: "cl", Minor: 1, D: 25}))
			time.Sleep(5 * time.Millisecond)
			ac.Close()
		}
	}
	// the same on the TLS listener: a peer that leaves after its request, one that leaves in the middle of the
	// handshake, and one that speaks plain HTTP to the TLS port
	for k := 0; k < 3; k++ {
		switch k {
		case 0:
			if ac, _, _ := (transport{TLS: true, Ver: "1.3"}).dial(addrTLS, 0); ac != nil {
				ac.Write(render(950, reqSpec{I: 0, N: 100, M: "cl", Minor: 1, D: 25}))
				time.Sleep(5 * time.Millisecond)
				ac.Close()
			}
		default:
			if ac, err := net.DialTimeout("tcp", addrTLS, 3*time.Second); err == nil {
				if k == 1 {
					ac.Write([]byte{0x16, 0x03, 0x01, 0x02, 0x00, 0x01, 0x00, 0x01, 0xfc, 0x03, 0x03}) // start of a ClientHello record
				} else {
					ac.Write(render(951, reqSpec{I: 0, N: 100, M: "cl", Minor: 1}))
				}
				time.Sleep(2 * time.Millisecond)
				ac.Close()
			}
		}
	}
	time.Sleep(40 * time.Millisecond)
	rep.Stat("aborted-exchanges")
	type res struct {
		sig, what string
		specs     []reqSpec
		c         int
		tr        transport
	}
	// connections 0..nconn-1 are plain, 100..100+ntls-1 are TLS; both kinds run concurrently against the one engine
	results := make([]res, nconn+ntls)
	var wg sync.WaitGroup
	for k := 0; k < nconn+ntls; k++ {
		specs := genConn(r)
		seed := r.Int63()
		// a DEEP pipeline on the first plain connection of most cells: hundreds of small requests in one burst queued up
		// behind a handler that takes its time (the per-connection job list grows far beyond what a shallow pipeline
		// reaches); drawn from a generator of its own, the other connections' scripts stay what they were
		if dr := rand.New(rand.NewSource(seed ^ 0xdee9)); k == 0 && dr.Intn(4) != 0 {
			depth := []int{127, 128, 129, 130, 131, 200, 257, 400, 513}[dr.Intn(9)] + dr.Intn(3)
			specs = nil
			for i := 0; i < depth; i++ {
				s := reqSpec{I: i, N: []int{0, 1, 100, 3000}[dr.Intn(4)], M: []string{"cl", "multi", "one"}[dr.Intn(3)], Minor: 1}
				if i == 0 {
					s.D = 100 + dr.Intn(200)
				}
				specs = append(specs, s)
			}
			rep.Stat("deep-pipeline-connection")
		}
		id, tr, a := k, transport{}, addr
		if k >= nconn {
			id, tr, a = 100+k-nconn, genTransport(r), addrTLS
		}
		wg.Add(1)
		go func(k int, specs []reqSpec) {
			defer wg.Done()
			sig, what := rawConn(a, tr, id, specs, rand.New(rand.NewSource(seed)))
			results[k] = res{sig, what, specs, id, tr}
		}(k, specs)
	}
	// peers that abort exchanges WHILE the other connections are being served (all framings, HTTP/1.0 and 1.1, status
	// without a body): a response flush that fails must not disturb the responses in flight on other connections
	nabort := 6 + r.Intn(8)
	abortSeed := r.Int63()
	wg.Add(1)
	go func() {
		defer wg.Done()
		ar := rand.New(rand.NewSource(abortSeed))
		for k := 0; k < nabort; k++ {
			a, tr := addr, transport{}
			if ar.Intn(3) == 0 {
				a, tr = addrTLS, transport{TLS: true, Ver: []string{"1.2", "1.3"}[ar.Intn(2)]}
			}
			ac, _, _ := tr.dial(a, 0)
			if ac == nil {
				continue
			}
			spec := reqSpec{I: 0, N: []int{0, 10, 100, 5000}[ar.Intn(4)], M: []string{"cl", "multi", "one"}[ar.Intn(3)], Minor: ar.Intn(2), D: 5 + ar.Intn(30)}
			ac.Write(render(900+k, spec))
			time.Sleep(time.Duration(1+ar.Intn(6)) * time.Millisecond)
			if tc, ok := ac.(*net.TCPConn); ok && ar.Intn(2) == 0 {
				tc.SetLinger(0) // reset instead of an orderly close
			}
			ac.Close()
			time.Sleep(time.Duration(ar.Intn(8)) * time.Millisecond)
		}
	}()
	rep.Stat("aborted-exchanges-under-load")
	// exchanges whose handler HIJACKS the connection, next to the ordinary ones: an object that served a hijacked exchange
	// must not carry that state into a later ordinary exchange (pooled responses), on any connection
	nhijack := 4 + r.Intn(6)
	var hijackErr atomic.Value
	wg.Add(1)
	go func() {
		defer wg.Done()
		for k := 0; k < nhijack; k++ {
			hc, err := net.DialTimeout("tcp", addr, 3*time.Second)
			if err != nil {
				continue
			}
			hc.Write([]byte(fmt.Sprintf("GET /r?c=%d&i=0&n=0&m=hijack HTTP/1.1\r\nHost: x\r\n\r\n", 2000+k)))
			hc.SetReadDeadline(time.Now().Add(10 * time.Second))
			resp, err := http.ReadResponse(bufio.NewReader(hc), &http.Request{Method: "GET"})
			if err != nil {
				hijackErr.Store(fmt.Sprintf("hijacked exchange %d: no answer from the hijacking handler: %v", k, err))
			} else {
				b, _ := io.ReadAll(resp.Body)
				if resp.Header.Get("X-Id") != fmt.Sprintf("%d-0", 2000+k) || string(b) != "hj" {
					hijackErr.Store(fmt.Sprintf("hijacked exchange %d: wrong answer X-Id=%q body=%q", k, resp.Header.Get("X-Id"), b))
				}
			}
			hc.Close()
			time.Sleep(time.Duration(r.Intn(5)) * time.Millisecond)
		}
	}()
	rep.Stat("hijacked-exchanges-under-load")
	// net/http clients in parallel on the same server
	var httpErr, httpsErr atomic.Value
	tr, trTLS := &http.Transport{MaxIdleConnsPerHost: 4}, tlsTransport()
	for k := 0; k < 8; k++ {
		wg.Add(1)
		go func(k int) {
			defer wg.Done()
			hc, base, cid, errv, name := &http.Client{Transport: tr, Timeout: 15 * time.Second}, "http://"+addr, 1000+k, &httpErr, "net/http"
			if k >= 4 {
				hc, base, cid, errv, name = &http.Client{Transport: trTLS, Timeout: 15 * time.Second}, "https://"+addrTLS, 1100+k-4, &httpsErr, "net/http over TLS"
			}
			for i := 0; i < 4; i++ {
				n := sizes[(k+i)%len(sizes)]
				resp, err := hc.Get(fmt.Sprintf("%s/r?c=%d&i=%d&n=%d&m=%s", base, cid, i, n, []string{"cl", "multi", "one"}[i%3]))
				if err != nil {
					errv.Store(fmt.Sprintf("%s client %d request %d: %v", name, k%4, i, err))
					return
				}
				body, err := io.ReadAll(resp.Body)
				resp.Body.Close()
				if err != nil || resp.Header.Get("X-Id") != fmt.Sprintf("%d-%d", cid, i) || !bytes.Equal(body, pattern(cid, i, n)) {
					errv.Store(fmt.Sprintf("%s client %d request %d: wrong response (X-Id %q, %d bytes, err %v)", name, k%4, i, resp.Header.Get("X-Id"), len(body), err))
					return
				}
			}
		}(k)
	}
	wg.Wait()
	tr.CloseIdleConnections()
	trTLS.CloseIdleConnections()
	rep.Stat(fmt.Sprintf("tls-nethttp.iomod%d", iomod))
	var dump []string
	for _, x := range results {
		if x.sig != "" && x.sig != "infra" && dump == nil {
			dump = nbio.VerifDumpConns(e.Engine)
			buf := make([]byte, 1<<20)
			buf = buf[:runtime.Stack(buf, true)]
			for _, g := range strings.Split(string(buf), "\n\n") {
				if strings.Contains(g, "lesismal/nbio") && !strings.Contains(g, "EpollWait") {
					dump = append(dump, g)
				}
			}
		}
	}
	for _, x := range results {
		rep.Case(fmt.Sprintf("%v/%v/%v", c, x.tr, x.specs), len(x.specs) > 1)
		rep.Ops += len(x.specs)
		rep.Stat(fmt.Sprintf("cell.iomod%d.%s", iomod, ename))
		sig := x.sig
		if x.tr.TLS {
			rep.Stat(fmt.Sprintf("tls-raw.iomod%d", iomod))
			rep.Stat(fmt.Sprintf("tls-raw.%s.%s", ename, x.tr))
			sig = "tls-" + sig
		}
		if x.sig == "infra" {
			rep.Stat("infra." + x.what)
			continue
		}
		if x.sig != "" {
			add(hx.Finding{Kind: "oracle", Property: "C10", Signature: sig, What: x.what,
				Replay: map[string]interface{}{"harness": "httpe2e", "config": c, "connection": x.c, "transport": x.tr, "requests": x.specs, "server_conn_table": dump}})
		}
	}
	if v := hijackErr.Load(); v != nil {
		add(hx.Finding{Kind: "oracle", Property: "C10", Signature: "hijacked-exchange", What: v.(string), Replay: map[string]interface{}{"harness": "httpe2e", "config": c}})
	}
	if v := httpErr.Load(); v != nil {
		add(hx.Finding{Kind: "oracle", Property: "C10", Signature: "nethttp-client", What: v.(string), Replay: map[string]interface{}{"harness": "httpe2e", "config": c}})
	}
	if v := httpsErr.Load(); v != nil {
		add(hx.Finding{Kind: "oracle", Property: "C10", Signature: "tls-nethttp-client", What: v.(string), Replay: map[string]interface{}{"harness": "httpe2e", "config": c, "transport": "net/http + crypto/tls, InsecureSkipVerify"}})
	}
	if len(rep.Samples) < 3 && nconn > 0 {
		rep.Sample(map[string]interface{}{"config": c, "connection0_requests": results[0].specs})
	}
}

// nbhttp.Client: every callback exactly once, with the response of its own request
// (useTLS: https against a TLS listener of a server in the given IOMod, the client with the library's own tls config;
// max12: the client offers TLS 1.2 at most)
func clientCase(rep *hx.Report, r *rand.Rand, useTLS bool, iomod int, max12 bool) {
	addr := freePort()
	scfg := nbhttp.Config{Network: "tcp", Addrs: []string{addr}, Handler: http.HandlerFunc(handler)}
	scheme, cid, pre := "http", 2000, ""
	if useTLS {
		scfg = nbhttp.Config{Network: "tcp", AddrsTLS: []string{addr}, TLSConfig: serverTLS, IOMod: iomod, Handler: http.HandlerFunc(handler)}
		scheme, cid, pre = "https", 2100+iomod, "tls-"
	}
	srv := nbhttp.NewEngine(scfg)
	if err := srv.Start(); err != nil {
		return
	}
	defer srv.Stop()
	ce := nbhttp.NewEngine(nbhttp.Config{})
	if err := ce.Start(); err != nil {
		return
	}
	defer ce.Stop()
	cli := &nbhttp.Client{Engine: ce, Timeout: 10 * time.Second, MaxConnsPerHost: int32(1 + r.Intn(3))}
	if useTLS {
		cli.TLSClientConfig = nbhttp.VerifClientTLS(max12)
	}
	defer func() { go cli.Close(); time.Sleep(20 * time.Millisecond) }() // bounded: a broken client may block in Close
	n := 4 + r.Intn(12)
	counts := make([]int32, n)
	bad := make([]string, n)
	var wg sync.WaitGroup
	wg.Add(n)
	done := make([]int32, n)
	for i := 0; i < n; i++ {
		i := i
		size := sizes[r.Intn(len(sizes))]
		u, _ := url.Parse(fmt.Sprintf("%s://%s/r?c=%d&i=%d&n=%d&m=%s", scheme, addr, cid, i, size, []string{"cl", "multi", "one"}[i%3]))
		req := &http.Request{Method: "GET", URL: u, Host: u.Host, Header: http.Header{}, Proto: "HTTP/1.1", ProtoMajor: 1, ProtoMinor: 1}
		cli.Do(req, func(res *http.Response, conn net.Conn, err error) {
			if atomic.AddInt32(&counts[i], 1) > 1 {
				return
			}
			if err != nil {
				bad[i] = "error " + err.Error()
			} else {
				var body []byte
				if res.Body != nil {
					body, _ = io.ReadAll(res.Body)
				}
				if res.Header.Get("X-Id") != fmt.Sprintf("%d-%d", cid, i) || !bytes.Equal(body, pattern(cid, i, size)) {
					bad[i] = fmt.Sprintf("response of another request: X-Id %q, %d bytes (want %d)", res.Header.Get("X-Id"), len(body), size)
				}
			}
			if atomic.CompareAndSwapInt32(&done[i], 0, 1) {
				wg.Done()
			}
		})
	}
	ch := make(chan struct{})
	go func() { wg.Wait(); close(ch) }()
	select {
	case <-ch:
	case <-time.After(15 * time.Second):
	}
	time.Sleep(50 * time.Millisecond)
	rep.Case(fmt.Sprintf("client/%s%d/%v/%d/%d", pre, iomod, max12, n, cli.MaxConnsPerHost), true)
	rep.Ops += n
	rep.Stat("client.requests")
	replay := map[string]interface{}{"harness": "httpe2e", "part": "nbhttp.Client", "requests": n, "MaxConnsPerHost": cli.MaxConnsPerHost}
	if useTLS {
		rep.Stat(fmt.Sprintf("tls-nbclient.iomod%d", iomod))
		rep.Stat(fmt.Sprintf("tls-nbclient.max12=%v", max12))
		replay["part"], replay["server_iomod"], replay["client_max_tls12"] = "nbhttp.Client over TLS (https, TLSClientConfig InsecureSkipVerify)", iomod, max12
	}
	for i := range counts {
		switch c := atomic.LoadInt32(&counts[i]); {
		case c == 0:
			rep.Add(hx.Finding{Kind: "oracle", Property: "C10", Signature: pre + "client-callback-missing", What: fmt.Sprintf("callback of request %d was never invoked", i), Replay: replay})
		case c > 1:
			rep.Add(hx.Finding{Kind: "oracle", Property: "C10", Signature: pre + "client-callback-twice", What: fmt.Sprintf("callback of request %d invoked %d times", i, c), Replay: replay})
		case bad[i] != "":
			rep.Add(hx.Finding{Kind: "oracle", Property: "C10", Signature: pre + "client-wrong-response", What: fmt.Sprintf("request %d: %s", i, bad[i]), Replay: replay})
		}
	}
}

// nbhttp.Client with its default TLS configuration (TLS 1.3 is negotiated) against a healthy nbhttp TLS server: one
// request. Reported under its own narrow signature, so that the batches above can keep their full oracle over TLS 1.2
// while this one says whether the client's TLS 1.3 handshake works at all.
func clientTLS13Probe(rep *hx.Report) bool {
	addr := freePort()
	srv := nbhttp.NewEngine(nbhttp.Config{Network: "tcp", AddrsTLS: []string{addr}, TLSConfig: serverTLS, Handler: http.HandlerFunc(handler)})
	if err := srv.Start(); err != nil {
		return false
	}
	defer srv.Stop()
	ce := nbhttp.NewEngine(nbhttp.Config{})
	if err := ce.Start(); err != nil {
		return false
	}
	defer ce.Stop()
	cli := &nbhttp.Client{Engine: ce, Timeout: 3 * time.Second, MaxConnsPerHost: 1, TLSClientConfig: nbhttp.VerifClientTLS(false)}
	defer func() { go cli.Close(); time.Sleep(20 * time.Millisecond) }()
	u, _ := url.Parse(fmt.Sprintf("https://%s/r?c=2200&i=0&n=100&m=cl", addr))
	req := &http.Request{Method: "GET", URL: u, Host: u.Host, Header: http.Header{}, Proto: "HTTP/1.1", ProtoMajor: 1, ProtoMinor: 1}
	var count int32
	ch := make(chan string, 4)
	cli.Do(req, func(res *http.Response, conn net.Conn, err error) {
		atomic.AddInt32(&count, 1)
		switch {
		case err != nil:
			ch <- "error " + err.Error()
		case res.Header.Get("X-Id") != "2200-0":
			ch <- "response " + res.Header.Get("X-Id")
		default:
			ch <- ""
		}
	})
	got := "no callback within 10s (client Timeout 3s)"
	select {
	case got = <-ch:
	case <-time.After(10 * time.Second):
	}
	rep.Case("client/tls13-probe", true)
	rep.Ops++
	if got == "" {
		rep.Stat("tls-nbclient.tls13-ok")
		return true
	}
	rep.Stat("tls-nbclient.tls13-fails")
	if strings.HasPrefix(got, "error ") {
		// C10 allows the callback to carry an error ("the response belonging to that request or an error"): with llib
		// v1.2.4 the blocking TLS 1.3 handshake of nbhttp.Client always fails with "bad record MAC" (the nested
		// readRecordOrCCS on the compatibility ChangeCipherSpec reads with a stale rawInputOff; dependency defect, TLS 1.2
		// works). That is an observation, not a violation of the property; exactly-once is still checked.
		time.Sleep(50 * time.Millisecond)
		if n := atomic.LoadInt32(&count); n != 1 {
			rep.Add(hx.Finding{Kind: "oracle", Property: "C10", Signature: "tls-client-callback-twice",
				What:   fmt.Sprintf("nbhttp.Client TLS 1.3 probe: the callback of one request ran %d times (first: %s)", n, got),
				Replay: map[string]interface{}{"harness": "httpe2e", "part": "nbhttp.Client TLS 1.3 probe", "request": "GET https://<server>" + u.RequestURI()}})
		}
		rep.Extra["tls13_probe"] = got
		return false
	}
	rep.Add(hx.Finding{Kind: "oracle", Property: "C10", Signature: "tls-nbclient-tls13-" + map[bool]string{true: "callback-missing", false: "wrong-response"}[strings.HasPrefix(got, "no callback")],
		What: "nbhttp.Client with the default TLSClientConfig (TLS 1.3 negotiated) against a healthy nbhttp TLS server, one GET: " + got,
		Replay: map[string]interface{}{"harness": "httpe2e", "part": "nbhttp.Client TLS 1.3 probe", "request": "GET https://<server>" + u.RequestURI(),
			"client": "nbhttp.Client{Timeout: 3s, MaxConnsPerHost: 1, TLSClientConfig: &tls.Config{InsecureSkipVerify: true}}",
			"server": "nbhttp.Config{AddrsTLS, TLSConfig: one self-signed ECDSA P-256 certificate}, IOModNonBlocking; crypto/tls and net/http clients complete TLS 1.3 handshakes with the same server"}})
	return false
}

// a client whose connection attempt fails first and succeeds later must still call every callback exactly once
func clientRedial(rep *hx.Report) {
	addr := freePort()
	ce := nbhttp.NewEngine(nbhttp.Config{})
	if err := ce.Start(); err != nil {
		return
	}
	defer ce.Stop()
	cli := &nbhttp.Client{Engine: ce, Timeout: 5 * time.Second, MaxConnsPerHost: 1}
	var c1, c2 int32
	var r2 string
	mk := func(i int) *http.Request {
		u, _ := url.Parse(fmt.Sprintf("http://%s/r?c=3000&i=%d&n=10&m=cl", addr, i))
		return &http.Request{Method: "GET", URL: u, Host: u.Host, Header: http.Header{}, Proto: "HTTP/1.1", ProtoMajor: 1, ProtoMinor: 1}
	}
	d1 := make(chan struct{}, 4)
	cli.Do(mk(1), func(res *http.Response, conn net.Conn, err error) { atomic.AddInt32(&c1, 1); d1 <- struct{}{} })
	select {
	case <-d1:
	case <-time.After(6 * time.Second):
	}
	srv := nbhttp.NewEngine(nbhttp.Config{Network: "tcp", Addrs: []string{addr}, Handler: http.HandlerFunc(handler)})
	if err := srv.Start(); err != nil {
		return
	}
	defer srv.Stop()
	d2 := make(chan struct{}, 4)
	cli.Do(mk(2), func(res *http.Response, conn net.Conn, err error) {
		atomic.AddInt32(&c2, 1)
		if err == nil {
			r2 = res.Header.Get("X-Id")
		} else {
			r2 = "error " + err.Error()
		}
		d2 <- struct{}{}
	})
	select {
	case <-d2:
	case <-time.After(6 * time.Second):
	}
	time.Sleep(100 * time.Millisecond)
	rep.Case("client/redial", true)
	replay := map[string]interface{}{"harness": "httpe2e", "part": "nbhttp.Client redial after a failed dial"}
	if n := atomic.LoadInt32(&c1); n != 1 {
		rep.Add(hx.Finding{Kind: "oracle", Property: "C10", Signature: "client-callback-count-after-failed-dial", What: fmt.Sprintf("callback of the request whose dial failed was invoked %d times", n), Replay: replay})
	}
	if n := atomic.LoadInt32(&c2); n != 1 || r2 != "3000-2" {
		rep.Add(hx.Finding{Kind: "oracle", Property: "C10", Signature: "client-callback-count-after-failed-dial", What: fmt.Sprintf("callback of the second request invoked %d times with %q", n, r2), Replay: replay})
	}
	go cli.Close() // bounded: a broken client may block here
	time.Sleep(50 * time.Millisecond)
}

// a server that accepts and reads but never answers (first request of a new connection), or answers once and then goes
// silent (a later request on the kept-alive connection): with Client.Timeout set every callback must still be invoked
// exactly once - with an error - within a bounded time, not only when the engine stops
func clientSilentServer(rep *hx.Report) {
	ln, err := net.Listen("tcp", "127.0.0.1:0")
	if err != nil {
		return
	}
	defer ln.Close()
	var answerFirst int32
	go func() {
		for {
			c, err := ln.Accept()
			if err != nil {
				return
			}
			go func(c net.Conn) {
				defer c.Close()
				buf := make([]byte, 4096)
				first := atomic.LoadInt32(&answerFirst) == 1
				for {
					n, err := c.Read(buf)
					if err != nil {
						return
					}
					if first && n > 0 {
						first = false
						c.Write([]byte("HTTP/1.1 200 OK\r\nContent-Length: 2\r\nX-Id: silent-1\r\n\r\nok"))
					}
				}
			}(c)
		}
	}()
	ce := nbhttp.NewEngine(nbhttp.Config{})
	if err := ce.Start(); err != nil {
		return
	}
	defer ce.Stop()
	const timeout = 400 * time.Millisecond
	for variant := 0; variant < 2; variant++ {
		atomic.StoreInt32(&answerFirst, int32(variant))
		cli := &nbhttp.Client{Engine: ce, Timeout: timeout, MaxConnsPerHost: 1}
		nreq := 1 + variant
		counts := make([]int32, nreq)
		got := make([]string, nreq)
		done := make(chan int, 8)
		for i := 0; i < nreq; i++ {
			i := i
			u, _ := url.Parse(fmt.Sprintf("http://%s/silent?i=%d", ln.Addr().String(), i))
			req := &http.Request{Method: "GET", URL: u, Host: u.Host, Header: http.Header{}, Proto: "HTTP/1.1", ProtoMajor: 1, ProtoMinor: 1}
			cli.Do(req, func(res *http.Response, conn net.Conn, err error) {
				if atomic.AddInt32(&counts[i], 1) == 1 {
					if err != nil {
						got[i] = "error " + err.Error()
					} else {
						got[i] = "response " + res.Header.Get("X-Id")
					}
				}
				done <- i
			})
			select {
			case <-done:
			case <-time.After(timeout + 5*time.Second):
			}
		}
		time.Sleep(100 * time.Millisecond)
		name := []string{"silent-from-the-start", "answers-once-then-silent"}[variant]
		rep.Case("client/silent-server/"+name, true)
		rep.Ops += nreq
		rep.Stat("client.silent-server." + name)
		replay := map[string]interface{}{"harness": "httpe2e", "part": "nbhttp.Client against a server that stops answering", "variant": name,
			"client": fmt.Sprintf("nbhttp.Client{Timeout: %v, MaxConnsPerHost: 1}", timeout), "requests": nreq, "callbacks": counts, "outcomes": got}
		for i := 0; i < nreq; i++ {
			n := atomic.LoadInt32(&counts[i])
			silent := i == nreq-1 // the request the server never answers
			switch {
			case n == 0:
				rep.Add(hx.Finding{Kind: "oracle", Property: "C10", Signature: "client-callback-missing-silent-server",
					What: fmt.Sprintf("%s: the callback of request %d was not invoked within Timeout+5s (Timeout %v): a request whose server never answers must end with an error", name, i, timeout), Replay: replay})
			case n > 1:
				rep.Add(hx.Finding{Kind: "oracle", Property: "C10", Signature: "client-callback-twice",
					What: fmt.Sprintf("%s: the callback of request %d was invoked %d times", name, i, n), Replay: replay})
			case silent && !strings.HasPrefix(got[i], "error "):
				rep.Add(hx.Finding{Kind: "oracle", Property: "C10", Signature: "client-wrong-response",
					What: fmt.Sprintf("%s: request %d was never answered but its callback got %q", name, i, got[i]), Replay: replay})
			case !silent && got[i] != "response silent-1":
				rep.Add(hx.Finding{Kind: "oracle", Property: "C10", Signature: "client-wrong-response",
					What: fmt.Sprintf("%s: request %d was answered but its callback got %q", name, i, got[i]), Replay: replay})
			}
		}
		go cli.Close()
		time.Sleep(30 * time.Millisecond)
	}
}

// C08 at engine level: once the parser has returned an error nothing further is reported - the connection is closed and
// bytes that follow the malformed ones are never handled, in every IOMod, plain and TLS (each read loop has its own
// handling of the parser's error). The request after the malformed bytes is sent in a separate write (a separate TLS record).
func parseErrorCloses(rep *hx.Report) {
	var handled sync.Map
	h := http.HandlerFunc(func(w http.ResponseWriter, req *http.Request) {
		handled.Store(req.URL.Path, true)
		w.Write([]byte("ok"))
	})
	malformed := []struct{ name, bytes string }{
		{"control-byte-as-header-name", "GET /bad HTTP/1.1\r\nHost: x\r\n\x01"},
		{"bad-content-length", "POST /bad HTTP/1.1\r\nHost: x\r\nContent-Length: x1\r\n\r\n"},
		{"bad-chunk-size", "POST /bad HTTP/1.1\r\nHost: x\r\nTransfer-Encoding: chunked\r\n\r\nzz\r\n"},
	}
	for _, iomod := range []int{nbhttp.IOModNonBlocking, nbhttp.IOModBlocking, nbhttp.IOModMixed} {
		addr, addrTLS := freePort(), freePort()
		e := nbhttp.NewEngine(nbhttp.Config{Network: "tcp", Addrs: []string{addr}, AddrsTLS: []string{addrTLS}, TLSConfig: serverTLS,
			IOMod: iomod, MaxBlockingOnline: 2, NPoller: 2, Handler: h})
		if err := e.Start(); err != nil {
			rep.Stat("c08.start-failed")
			continue
		}
		for k := 0; k < 12; k++ { // in mixed mode the first connections are served by blocking readers, the later ones by the pollers
			tr, a := transport{}, addr
			if k%2 == 1 {
				tr, a = transport{TLS: true, Ver: []string{"1.2", "1.3"}[k/2%2]}, addrTLS
			}
			m := malformed[k%len(malformed)]
			id := fmt.Sprintf("%d-%s-%d", iomod, tr, k)
			conn, _, _ := tr.dial(a, 0)
			if conn == nil {
				continue
			}
			conn.Write([]byte("GET /first-" + id + " HTTP/1.1\r\nHost: x\r\n\r\n"))
			conn.SetReadDeadline(time.Now().Add(5 * time.Second))
			br := bufio.NewReader(conn)
			if resp, err := http.ReadResponse(br, &http.Request{Method: "GET"}); err == nil {
				io.ReadAll(resp.Body)
			}
			conn.Write([]byte(m.bytes))
			time.Sleep(20 * time.Millisecond)
			conn.Write([]byte("\r\n\r\n"))
			time.Sleep(10 * time.Millisecond)
			conn.Write([]byte("GET /after-error-" + id + " HTTP/1.1\r\nHost: x\r\n\r\n"))
			// the server must close; nothing that looks like an answer to the request behind the error may arrive
			conn.SetReadDeadline(time.Now().Add(4 * time.Second))
			rest, rerr := io.ReadAll(br)
			conn.Close()
			rep.Case("c08/parse-error-closes/"+id+"/"+m.name, true)
			rep.Ops += 3
			rep.Stat(fmt.Sprintf("c08.parse-error.iomod%d.%s", iomod, tr))
			replay := map[string]interface{}{"harness": "httpe2e", "part": "c08", "iomod": iomod, "transport": tr, "connection": k, "malformed": m.name,
				"sent": []string{"GET /first-" + id, m.bytes, "\r\n\r\n", "GET /after-error-" + id}}
			_, after := handled.Load("/after-error-" + id)
			switch {
			case after:
				rep.Add(hx.Finding{Kind: "oracle", Property: "C08", Signature: fmt.Sprintf("request-handled-after-parse-error-iomod%d-%s", iomod, map[bool]string{true: "tls", false: "plain"}[tr.TLS]),
					What: fmt.Sprintf("[iomod %d, %s] the request sent behind malformed bytes (%s) reached the handler: the parser went on after it had returned an error", iomod, tr, m.name), Replay: replay})
			case rerr != nil && strings.Contains(rerr.Error(), "timeout"):
				rep.Add(hx.Finding{Kind: "oracle", Property: "C08", Signature: fmt.Sprintf("connection-open-after-parse-error-iomod%d-%s", iomod, map[bool]string{true: "tls", false: "plain"}[tr.TLS]),
					What: fmt.Sprintf("[iomod %d, %s] the connection is still open 4s after malformed bytes (%s); received meanwhile: %q", iomod, tr, m.name, trunc(rest, 80)), Replay: replay})
			}
		}
		e.Stop()
	}
}

// the recorded finding D16: Connection: close + response larger than the socket buffers + slow reader
// (the same mechanism over TLS keeps the same signature)
func closeTruncation(rep *hx.Report, t transport) {
	addr := freePort()
	scfg := nbhttp.Config{Network: "tcp", Addrs: []string{addr}, Handler: http.HandlerFunc(handler)}
	if t.TLS {
		scfg = nbhttp.Config{Network: "tcp", AddrsTLS: []string{addr}, TLSConfig: serverTLS, Handler: http.HandlerFunc(handler)}
	}
	e := nbhttp.NewEngine(scfg)
	if err := e.Start(); err != nil {
		return
	}
	defer e.Stop()
	conn, _, _ := t.dial(addr, 0)
	if conn == nil {
		return
	}
	defer conn.Close()
	const n = 24 << 20
	conn.Write(render(7, reqSpec{I: 0, N: n, M: "cl", Minor: 1, Conn: "close"}))
	time.Sleep(300 * time.Millisecond) // slow reader: the response cannot fit the socket buffers
	conn.SetReadDeadline(time.Now().Add(20 * time.Second))
	res, err := http.ReadResponse(bufio.NewReader(conn), &http.Request{Method: "GET"})
	rep.Case("close-large-response/"+t.String(), true)
	if err != nil {
		return
	}
	body, err := io.ReadAll(res.Body)
	if len(body) != n {
		rep.Add(hx.Finding{Kind: "oracle", Property: "C10", Signature: "close-truncates-large-response",
			What:   fmt.Sprintf("Connection: close with a %d byte response to a slow reader (%v): %d bytes received (%v)", n, t, len(body), err),
			Replay: map[string]interface{}{"harness": "httpe2e", "part": "close-large-response", "size": n, "transport": t}})
	}
}

func main() {
	seed := flag.Int64("seed", 1, "")
	n := flag.Int("n", 1, "rounds over the matrix")
	_ = flag.String("model", "", "")
	out := flag.String("out", "-", "")
	full := flag.Bool("full", false, "full matrix (9 cells) per round instead of 3 rotating cells")
	part := flag.String("part", "", "c08: only the engine-level part of property C08 (a parse error ends the connection); c09: served-content cells attributed to C09")
	only := flag.Int("cell", -1, "run only this cell (0..8 = iomod*3+epoll mode), every round")
	flag.Parse()
	logging.SetLogger(quiet{})
	initTLS()
	rep := hx.NewReport("httpe2e", *seed)
	if *out != "" && *out != "-" {
		hx.CurrentFile = *out + ".current"
	}
	if *part == "c08" {
		rep.Rule = "engine level: per IOMod x {plain, TLS 1.2, TLS 1.3} x kind of malformed input: an answered request, malformed bytes, then a well-formed request in a separate write; the request behind the error must never reach the handler and the server must close the connection"
		parseErrorCloses(rep)
		rep.Write(*out)
		return
	}
	if *part == "c09" {
		c09Mode = true
		rep.Rule = "end to end, framing of served content: per IOMod one cell (rotating epoll modes) with 4 plain and 8 TLS raw pipelining connections whose handlers serve files (io.CopyN from an *os.File with Content-Length: Response.ReadFrom, Sendfile branch where the connection allows it), http.ServeContent over memory, and ordinary writes; independent decoders: net/http's ReadResponse over TCP and over crypto/tls"
		r := rand.New(rand.NewSource(*seed))
		for k, m := range []int{nbhttp.IOModNonBlocking, nbhttp.IOModBlocking, nbhttp.IOModMixed} {
			runCell(rep, r, m, (k+int(*seed))%3, 4, 8)
		}
		rep.Write(*out)
		return
	}
	rep.Rule = "per matrix cell (IOMod x epoll mode; one engine with a plain and a TLS listener, IOModMixed with MaxBlockingOnline 6): up to 24 plain plus up to 24 TLS (crypto/tls 1.2 or 1.3, a third with records cut into random TCP writes) concurrent raw connections, each pipelining 1-5 requests (GET/POST with bodies up to 70000 bytes, response sizes 0..200000 around 64 KiB, Content-Length / multi-write / single-write framing, last request keep-alive or close by version / Connection header), written in one piece or random segments, plus 4 net/http and 4 net/http-over-TLS clients, after peers that abort exchanges / handshakes on both listeners; nbhttp.Client batches of 4-15 requests over http and, per server IOMod, over https (TLS 1.2; also the client's default once the TLS 1.3 probe succeeds); the D16 case over plain and TLS; non-trivial = connection with more than one request; distinct = distinct (cell, transport, request list)"
	r := rand.New(rand.NewSource(*seed))
	iomods := []int{nbhttp.IOModNonBlocking, nbhttp.IOModBlocking, nbhttp.IOModMixed}
	tls13 := clientTLS13Probe(rep)
	for round := 0; round < *n && !rep.TooMany(); round++ {
		for ci := 0; ci < 9; ci++ {
			if *only >= 0 {
				if ci != *only {
					continue
				}
			} else if !*full && ci%3 != (ci/3+round+int(*seed))%3 { // three cells per round: every IOMod, rotating epoll modes
				continue
			}
			runCell(rep, r, iomods[ci/3], ci%3, []int{1, 8, 24}[r.Intn(3)], []int{1, 8, 24}[r.Intn(3)])
		}
		clientCase(rep, r, false, nbhttp.IOModNonBlocking, false)
		for k, m := range iomods {
			// TLS 1.2 always; the client's default (TLS 1.3) in turn once the probe has shown that it can connect at all
			clientCase(rep, r, true, m, !tls13 || (k+round)%2 == 0)
		}
	}
	clientRedial(rep)
	clientSilentServer(rep)
	closeTruncation(rep, transport{})
	closeTruncation(rep, transport{TLS: true, Ver: "1.3"})
	rep.Write(*out)
}
