// TLS side of the C10 harness: an in-memory self-signed certificate, the server configuration for nbhttp's TLS
// listeners (github.com/lesismal/llib/std/crypto/tls), and the independent clients (Go's crypto/tls) that drive them.
package main

import (
	"crypto/ecdsa"
	"crypto/elliptic"
	crand "crypto/rand"
	stls "crypto/tls"
	"crypto/x509"
	"crypto/x509/pkix"
	"fmt"
	"math/big"
	"math/rand"
	"net"
	"net/http"
	"sync"
	"time"

	"github.com/lesismal/nbio/nbhttp"
	"verifharness/hx"
)

// serverTLS is the configuration of every TLS listener of the harness (one certificate for the whole run); its type is
// the library's fork of crypto/tls (github.com/lesismal/llib/std/crypto/tls), built by overlay/add/nbhttp/zz_verif_tls.go.
var serverTLS = nbhttp.VerifServerTLS(nil, nil)

func initTLS() {
	key, err := ecdsa.GenerateKey(elliptic.P256(), crand.Reader)
	if err != nil {
		hx.Fatal("tls key: %v", err)
	}
	tmpl := &x509.Certificate{
		SerialNumber:          big.NewInt(10),
		Subject:               pkix.Name{CommonName: "verif-c10"},
		NotBefore:             time.Now().Add(-time.Hour),
		NotAfter:              time.Now().Add(24 * time.Hour),
		KeyUsage:              x509.KeyUsageDigitalSignature,
		ExtKeyUsage:           []x509.ExtKeyUsage{x509.ExtKeyUsageServerAuth},
		BasicConstraintsValid: true,
		IPAddresses:           []net.IP{net.IPv4(127, 0, 0, 1)},
		DNSNames:              []string{"localhost"},
	}
	der, err := x509.CreateCertificate(crand.Reader, tmpl, tmpl, &key.PublicKey, key)
	if err != nil {
		hx.Fatal("tls certificate: %v", err)
	}
	serverTLS = nbhttp.VerifServerTLS(der, key)
}

func tlsTransport() *http.Transport {
	return &http.Transport{MaxIdleConnsPerHost: 4, TLSClientConfig: &stls.Config{InsecureSkipVerify: true}}
}

// how one raw connection reaches the server
type transport struct {
	TLS  bool   `json:"tls"`
	Ver  string `json:"tls_version,omitempty"` // "1.2" | "1.3"
	Chop bool   `json:"tcp_chopped,omitempty"` // TLS records cut into random TCP writes (partial records at the server)
}

func (t transport) String() string {
	if !t.TLS {
		return "plain"
	}
	s := "tls" + t.Ver
	if t.Chop {
		s += "+chop"
	}
	return s
}

func genTransport(r *rand.Rand) transport {
	return transport{TLS: true, Ver: []string{"1.2", "1.3"}[r.Intn(2)], Chop: r.Intn(3) == 0}
}

// chopConn cuts every write of the TLS layer into random pieces, so that TLS records reach the server split over
// several reads (its decrypt loop must keep partial records) - the TLS analogue of the segmented plain writes.
type chopConn struct {
	net.Conn
	mu sync.Mutex
	r  *rand.Rand
}

func (c *chopConn) Write(b []byte) (int, error) {
	c.mu.Lock()
	defer c.mu.Unlock()
	n := 0
	for len(b) > 0 {
		k := 1 + c.r.Intn(len(b))
		m, err := c.Conn.Write(b[:k])
		n += m
		if err != nil {
			return n, err
		}
		b = b[k:]
		if len(b) > 0 && c.r.Intn(4) == 0 {
			time.Sleep(200 * time.Microsecond)
		}
	}
	return n, nil
}

// dial returns the connection, or (nil, signature, description)
func (t transport) dial(addr string, seed int64) (net.Conn, string, string) {
	nc, err := net.DialTimeout("tcp", addr, 3*time.Second)
	if err != nil {
		return nil, "infra", "dial: " + err.Error()
	}
	if !t.TLS {
		return nc, "", ""
	}
	var under net.Conn = nc
	if t.Chop {
		under = &chopConn{Conn: nc, r: rand.New(rand.NewSource(seed))}
	}
	ver := uint16(stls.VersionTLS13)
	if t.Ver == "1.2" {
		ver = stls.VersionTLS12
	}
	tc := stls.Client(under, &stls.Config{InsecureSkipVerify: true, MinVersion: ver, MaxVersion: ver})
	nc.SetDeadline(time.Now().Add(10 * time.Second))
	if err := tc.Handshake(); err != nil {
		nc.Close()
		return nil, "handshake", fmt.Sprintf("TLS %s handshake with the server failed: %v", t.Ver, err)
	}
	nc.SetDeadline(time.Time{})
	return tc, "", ""
}
