// Harness for C01 (outbound stream integrity) and C17 (write-buffer bound).
//
//	(M)  correspondence: a real nbio.Conn on a SIMULATED descriptor of the shim kernel (overlay package verifsys)
//	     and the extracted Coq model (coq/connio/ConnIO.v at the rope instance) execute the same operations
//	     (Write / Writev / Sendfile / flush / Close) with the same script of kernel answers; compared after every
//	     operation: (n, error class), the bytes the shim received, left, closed, the OnClose error, and whether the
//	     queue holds an item with nothing to send.
//	(O1) property oracle C01 on the implementation alone: the received stream is, byte for byte, a prefix of the
//	     concatenation of the accepted ranges and equal to it after a drain; a call without error reports the
//	     length of its input.
//	(O17) property oracle C17 on the implementation alone: Conn.left equals the harness' own count of
//	     accepted-but-unsent buffer bytes, never exceeds MaxWriteBufferSize, a write overflows iff left+n > Max
//	     (then the connection is closed with ErrOverflow), left is 0 after a drain.
//	(R)  real sockets (no shim): TCP and Unix x LT / ET / ET+ONESHOT engines, a slow reader, MiB-sized mixes of
//	     Write / Writev / Sendfile, content compared byte for byte; then three concurrent writers on one connection
//	     sending self-describing records: no call's bytes inside another's, per-writer order, exactly once.
package main

import (
	"encoding/json"
	"errors"
	"flag"
	"fmt"
	"io/ioutil"
	"math/rand"
	"net"
	"os"
	"path/filepath"
	"strconv"
	"strings"
	"sync"
	"sync/atomic"
	"syscall"
	"time"

	"github.com/lesismal/nbio"
	"github.com/lesismal/nbio/logging"
	"github.com/lesismal/nbio/verifsys"
	"verifharness/hx"
)

// ---------------------------------------------------------------- payloads

// pbyte is the content of byte pos of source src (buffers: src >= 1000, files: src = file id).
func pbyte(src, pos int) byte {
	x := uint32(src)*2654435761 + uint32(pos)*40503 + uint32(pos>>8)*977 + uint32(pos>>16)*131
	return byte(x ^ x>>8 ^ x>>16 ^ x>>24)
}

func fill(src, n int) []byte {
	b := make([]byte, n)
	for i := range b {
		b[i] = pbyte(src, i)
	}
	return b
}

type rng struct{ src, off, n int }

func (r rng) isFile() bool { return r.src < 1000 }

// stream is a sequence of ranges with a cursor: bytes are checked against it incrementally.
type stream struct {
	rs       []rng
	total    int
	ri, ro   int // cursor: range index, offset inside it
	checked  int // bytes verified
	bufBytes int // verified bytes that came from buffers
}

func (s *stream) add(r rng) {
	if r.n > 0 {
		s.rs = append(s.rs, r)
		s.total += r.n
	}
}

// check verifies b (the bytes following the checked prefix); returns the index of the first bad byte or -1,
// and -2 when b is longer than the stream.
func (s *stream) check(b []byte) int {
	for i := 0; i < len(b); {
		if s.ri >= len(s.rs) {
			return -2
		}
		r := s.rs[s.ri]
		k := r.n - s.ro
		if k > len(b)-i {
			k = len(b) - i
		}
		for j := 0; j < k; j++ {
			if b[i+j] != pbyte(r.src, r.off+s.ro+j) {
				return i + j
			}
		}
		i += k
		s.ro += k
		s.checked += k
		if !r.isFile() {
			s.bufBytes += k
		}
		if s.ro == r.n {
			s.ri++
			s.ro = 0
		}
	}
	return -1
}

// ---------------------------------------------------------------- files

type tfile struct {
	id   int
	size int
	f    *os.File
	fd   int
}

var fileSizes = []int{0, 1, 4096, 70000, 1<<20 + 17, 9<<20 + 3}

func makeFiles(dir string) []*tfile {
	var fs []*tfile
	for id, size := range fileSizes {
		p := filepath.Join(dir, fmt.Sprintf("f%d", id))
		if err := ioutil.WriteFile(p, fill(id, size), 0o600); err != nil {
			hx.Fatal("temp file: %v", err)
		}
		f, err := os.Open(p)
		if err != nil {
			hx.Fatal("temp file: %v", err)
		}
		fs = append(fs, &tfile{id: id, size: size, f: f, fd: int(f.Fd())})
	}
	return fs
}

// ---------------------------------------------------------------- kernel scripts

const dupErrno = syscall.EMFILE

var fatalErrnos = []int{int(syscall.EPIPE), int(syscall.ECONNRESET), int(syscall.EIO)}

func ksString(ks []verifsys.Ans) string {
	if len(ks) == 0 {
		return "-"
	}
	p := make([]string, len(ks))
	for i, a := range ks {
		switch a.Kind {
		case verifsys.Took:
			p[i] = "t" + strconv.Itoa(a.N)
		case verifsys.EAgain:
			p[i] = "a"
		case verifsys.EIntr:
			p[i] = "i"
		default:
			p[i] = "e" + strconv.Itoa(a.N)
		}
	}
	return strings.Join(p, ",")
}

func errClass(err error) string {
	if err == nil {
		return "none"
	}
	if errors.Is(err, net.ErrClosed) {
		return "closed"
	}
	if errors.Is(err, nbio.ErrOverflow) {
		return "overflow"
	}
	var en syscall.Errno
	if errors.As(err, &en) {
		if en == dupErrno {
			return "dup"
		}
		return "errno" + strconv.Itoa(int(en))
	}
	return "other:" + err.Error()
}

// ---------------------------------------------------------------- one operation

type opKind int

const (
	kWrite opKind = iota
	kWritev
	kSendfile
	kFlush
	kClose
)

type op struct {
	kind    opKind
	bufs    [][2]int // (src, len) per buffer
	fid     int
	pos     int
	req     int
	dupfail bool
	ks      []verifsys.Ans
}

func (o *op) line() string {
	switch o.kind {
	case kWrite:
		return fmt.Sprintf("w %d %d %s", o.bufs[0][0], o.bufs[0][1], ksString(o.ks))
	case kWritev:
		var sb strings.Builder
		fmt.Fprintf(&sb, "v %d", len(o.bufs))
		for _, b := range o.bufs {
			fmt.Fprintf(&sb, " %d %d", b[0], b[1])
		}
		fmt.Fprintf(&sb, " %s", ksString(o.ks))
		return sb.String()
	case kSendfile:
		d := 0
		if o.dupfail {
			d = 1
		}
		return fmt.Sprintf("s %d %d %d %d %s", o.fid, o.pos, o.req, d, ksString(o.ks))
	case kFlush:
		return "f " + ksString(o.ks)
	}
	return "c"
}

func parseKs(t string) []verifsys.Ans {
	if t == "-" || t == "" {
		return nil
	}
	var ks []verifsys.Ans
	for _, p := range strings.Split(t, ",") {
		v := 0
		if len(p) > 1 {
			v, _ = strconv.Atoi(p[1:])
		}
		switch p[0] {
		case 't':
			ks = append(ks, verifsys.Ans{Kind: verifsys.Took, N: v})
		case 'a':
			ks = append(ks, verifsys.Ans{Kind: verifsys.EAgain})
		case 'i':
			ks = append(ks, verifsys.Ans{Kind: verifsys.EIntr})
		case 'e':
			ks = append(ks, verifsys.Ans{Kind: verifsys.Fatal, N: v})
		}
	}
	return ks
}

// parseOp is the inverse of op.line (replay files).
func parseOp(line string) (*op, error) {
	f := strings.Fields(line)
	if len(f) == 0 {
		return nil, fmt.Errorf("empty line")
	}
	at := func(i int) int { v, _ := strconv.Atoi(f[i]); return v }
	o := &op{}
	switch {
	case f[0] == "w" && len(f) == 4:
		o.kind = kWrite
		o.bufs = [][2]int{{at(1), at(2)}}
		o.ks = parseKs(f[3])
	case f[0] == "v" && len(f) >= 3 && len(f) == 3+2*at(1):
		o.kind = kWritev
		for i := 0; i < at(1); i++ {
			o.bufs = append(o.bufs, [2]int{at(2 + 2*i), at(3 + 2*i)})
		}
		o.ks = parseKs(f[len(f)-1])
	case f[0] == "s" && len(f) == 6:
		o.kind = kSendfile
		o.fid, o.pos, o.req, o.dupfail = at(1), at(2), at(3), f[4] == "1"
		o.ks = parseKs(f[5])
	case f[0] == "f" && len(f) == 2:
		o.kind = kFlush
		o.ks = parseKs(f[1])
	case f[0] == "c":
		o.kind = kClose
	default:
		return nil, fmt.Errorf("bad op line %q", line)
	}
	return o, nil
}

// inputRanges: what the call offers, in order (Sendfile: the range clipped to the file).
func (o *op) inputRanges() []rng {
	var rs []rng
	switch o.kind {
	case kWrite, kWritev:
		for _, b := range o.bufs {
			rs = append(rs, rng{b[0], 0, b[1]})
		}
	case kSendfile:
		size := fileSizes[o.fid]
		avail := size - o.pos
		n := o.req
		if n <= 0 || n > avail {
			n = avail
		}
		if n > 0 {
			rs = append(rs, rng{o.fid, o.pos, n})
		}
	}
	return rs
}

func rangesLen(rs []rng) int {
	n := 0
	for _, r := range rs {
		n += r.n
	}
	return n
}

// ---------------------------------------------------------------- model answers

type mans struct {
	n                      int
	err                    string
	spin, closed           int
	cerr                   string
	left, q, wadded, degen int
	backlog, in            int
	wire                   []rng
	raw                    string
}

func parseModel(line string) (mans, error) {
	var a mans
	a.raw = line
	for _, tok := range strings.Fields(line) {
		kv := strings.SplitN(tok, "=", 2)
		if len(kv) != 2 {
			return a, fmt.Errorf("bad token %q", tok)
		}
		iv := func() int { v, _ := strconv.Atoi(kv[1]); return v }
		switch kv[0] {
		case "n":
			a.n = iv()
		case "err":
			a.err = kv[1]
		case "spin":
			a.spin = iv()
		case "closed":
			a.closed = iv()
		case "cerr":
			a.cerr = kv[1]
		case "left":
			a.left = iv()
		case "q":
			a.q = iv()
		case "wadded":
			a.wadded = iv()
		case "degen":
			a.degen = iv()
		case "backlog":
			a.backlog = iv()
		case "in":
			a.in = iv()
		case "wire":
			if kv[1] != "-" {
				for _, p := range strings.Split(kv[1], ";") {
					var r rng
					if _, err := fmt.Sscanf(p, "%d:%d:%d", &r.src, &r.off, &r.n); err != nil {
						return a, fmt.Errorf("bad range %q", p)
					}
					a.wire = append(a.wire, r)
				}
			}
		}
	}
	return a, nil
}

// ---------------------------------------------------------------- the simulated tier

type simEnv struct {
	rep      *hx.Report
	model    *hx.Model
	eng      *nbio.VerifSimEngine
	files    []*tfile
	maxcache int
	maxsend  int
	progress int64
	// a class of input that has produced its oracle finding twice is no longer generated: the remaining budget of
	// findings (hx.Report.TooMany) stays available for anything else
	dupDrops, pastEOFs, spins int
	allocs                    []namedAlloc
}

// (incl. the size classes of the aligned allocator, 32 ... 32768, +-1)
var sizeClasses = []int{0, 1, 2, 7, 31, 32, 33, 63, 64, 65, 100, 127, 128, 129, 255, 256, 257, 511, 512, 513, 1000, 1023, 1024, 1025, 2047, 2048, 2049, 4095, 4096, 4097,
	8191, 8192, 8193, 16383, 16384, 16385, 30000, 32767, 32768, 32769, 65535, 65536, 65537, 131071, 131072, 131073}
var maxClasses = []int{0, 0, 1, 100, 4096, 65535, 65536, 65537, 200000, 1 << 20}

func pickSize(r *rand.Rand, budget int) int {
	var n int
	switch x := r.Intn(100); {
	case x < 55:
		n = sizeClasses[r.Intn(len(sizeClasses))]
	case x < 80:
		n = r.Intn(3000)
	case x < 95:
		n = 60000 + r.Intn(12000)
	case x < 98:
		n = 1<<20 + r.Intn(3) - 1
	default:
		n = r.Intn(400000)
	}
	if n > budget {
		n = budget
	}
	if n < 0 {
		n = 0
	}
	return n
}

// partial acceptance counts aimed at every position class of a write of n bytes
func pickTook(r *rand.Rand, n int) int {
	if n <= 1 {
		return 1 + r.Intn(3)
	}
	switch r.Intn(9) {
	case 0:
		return 1
	case 1:
		return n - 1
	case 2:
		return n
	case 3:
		return n + 1 + r.Intn(1000)
	case 4:
		return 1 + r.Intn(n)
	case 5:
		if n > 65536 {
			return 65536 + r.Intn(3) - 1
		}
		return 1 + r.Intn(n)
	case 6:
		return n / 2
	default:
		return 1 + r.Intn(n)
	}
}

func fatalAns(r *rand.Rand) verifsys.Ans {
	return verifsys.Ans{Kind: verifsys.Fatal, N: fatalErrnos[r.Intn(len(fatalErrnos))]}
}

// script of the single syscall of a write on an empty queue (n bytes offered)
func writeScript(r *rand.Rand, n int) []verifsys.Ans {
	switch x := r.Intn(100); {
	case x < 22:
		return []verifsys.Ans{{Kind: verifsys.Took, N: n + r.Intn(10)}}
	case x < 62:
		return []verifsys.Ans{{Kind: verifsys.Took, N: pickTook(r, n)}}
	case x < 80:
		return []verifsys.Ans{{Kind: verifsys.EAgain}}
	case x < 88:
		return []verifsys.Ans{{Kind: verifsys.EIntr}}
	case x < 95:
		return nil
	default:
		return []verifsys.Ans{fatalAns(r)}
	}
}

func loopScript(r *rand.Rand, unit int) []verifsys.Ans {
	var ks []verifsys.Ans
	k := r.Intn(7)
	for i := 0; i < k; i++ {
		switch x := r.Intn(100); {
		case x < 60:
			ks = append(ks, verifsys.Ans{Kind: verifsys.Took, N: pickTook(r, unit)})
		case x < 72:
			ks = append(ks, verifsys.Ans{Kind: verifsys.Took, N: 1 << 30})
		case x < 88:
			ks = append(ks, verifsys.Ans{Kind: verifsys.EIntr})
		case x < 97:
			ks = append(ks, verifsys.Ans{Kind: verifsys.EAgain})
		default:
			ks = append(ks, fatalAns(r))
		}
	}
	return ks
}

type simCase struct {
	env        *simEnv
	idx        int
	seed       int64
	r          *rand.Rand
	typ        nbio.ConnType
	max        int
	sock       *verifsys.Sock
	conn       *nbio.Conn
	closeErr   []error
	lines      []string
	exp        stream // accepted ranges (oracle)
	mw         stream // the model's wire
	accBuf     int    // accepted buffer bytes (oracle side of left)
	hookBuf    int    // OnWrittenSize total for buffer bytes
	nextSrc    int
	budget     int
	backlog    bool
	alloc      string
	sawDupDrop bool
	pastEOF    bool
	degenerate bool
	key        strings.Builder
	dead       bool
}

func (sc *simCase) replay(extra map[string]interface{}) map[string]interface{} {
	m := map[string]interface{}{
		"harness": "connio", "tier": "sim", "seed": sc.env.rep.Seed, "case": sc.idx,
		"rerun":   "build/bin/connio -replay <this file> -model build/ocaml/connio/model -out -   (executes \"ops\" on a fresh connection of \"conn\"; the recorded ops include the final drain/close)",
		"conn":    map[string]interface{}{"type": typName(sc.typ), "MaxWriteBufferSize": sc.max, "BodyAllocator": sc.alloc},
		"files":   fileSizes,
		"ops":     append([]string{}, sc.lines...),
		"payload": "byte pos of source src = pbyte(src,pos) (cmd/connio/main.go); 'w src len ks' Write, 'v k (src len)* ks' Writev, 's fid pos req dupfail ks' Sendfile, 'f ks' flush, 'c' Close; ks: tK accept K bytes, a EAGAIN, i EINTR, eN errno N",
	}
	for k, v := range extra {
		m[k] = v
	}
	return m
}

func typName(t nbio.ConnType) string {
	if t == nbio.ConnTypeUnix {
		return "unix"
	}
	return "tcp"
}

func (sc *simCase) mismatch(prop, what string, extra map[string]interface{}) {
	sc.env.rep.Add(hx.Finding{Kind: "mismatch", Property: prop, Signature: "connio-model", What: what, Replay: sc.replay(extra)})
}

func (sc *simCase) oracle(prop, sig, what string, extra map[string]interface{}) {
	sc.env.rep.Add(hx.Finding{Kind: "oracle", Property: prop, Signature: sig, What: what, Replay: sc.replay(extra)})
}

// limitSize aims a write at the MaxWriteBufferSize threshold: with a limit configured most writes fit (so that
// backlogs build up to the limit), some hit room-1 / room / room+1 exactly.
func (sc *simCase) limitSize(n int) int {
	if sc.max <= 0 {
		return n
	}
	room := sc.max - nbio.VerifLeft(sc.conn)
	switch x := sc.r.Intn(20); {
	case x == 0:
		return room + 1
	case x == 1:
		return room
	case x == 2 && room > 0:
		return room - 1
	case x < 17 && n > room:
		if room <= 0 {
			return 0
		}
		return 1 + sc.r.Intn(room)
	}
	return n
}

// genOp chooses the next operation looking at the implementation's state (queue empty or not).
func (sc *simCase) genOp() *op {
	r := sc.r
	qlen := nbio.VerifQueued(sc.conn)
	o := &op{}
	x := r.Intn(100)
	switch {
	case x < 34:
		o.kind = kWrite
	case x < 56:
		o.kind = kWritev
	case x < 70:
		o.kind = kSendfile
	case x < 97:
		o.kind = kFlush
	default:
		o.kind = kClose
	}
	if o.kind == kFlush && sc.degenerate {
		o.kind = kWrite // flush would not terminate on the real code (reported separately)
	}
	switch o.kind {
	case kWrite:
		n := sc.limitSize(pickSize(r, sc.budget))
		sc.budget -= n
		o.bufs = [][2]int{{sc.nextSrc, n}}
		sc.nextSrc++
		// (a script is supplied whether or not the queue is empty: behind a backlog the code must not issue a syscall,
		// and if it wrongly does, the kernel accepts and the bytes overtake the queue)
		if n > 0 && (qlen == 0 || r.Intn(4) != 0) {
			o.ks = writeScript(r, n)
		}
	case kWritev:
		k := 1 + r.Intn(8)
		if r.Intn(12) == 0 {
			k = 0
		}
		total := 0
		for i := 0; i < k; i++ {
			n := pickSize(r, sc.budget)
			if r.Intn(5) == 0 {
				n = 0
			}
			if r.Intn(3) > 0 && n > 70000 {
				n = r.Intn(5000)
			}
			if sc.max > 0 && i == k-1 {
				// the last buffer decides on which side of the limit the whole Writev falls
				if t := sc.limitSize(total + n); t >= total {
					n = t - total
				}
			}
			sc.budget -= n
			total += n
			o.bufs = append(o.bufs, [2]int{sc.nextSrc, n})
			sc.nextSrc++
		}
		if total > 0 && (qlen == 0 || r.Intn(4) != 0) {
			o.ks = writeScript(r, total)
		}
	case kSendfile:
		o.fid = 1 + r.Intn(len(fileSizes)-2)
		if r.Intn(12) == 0 {
			o.fid = 0 // the empty file
		}
		if r.Intn(5) == 0 && sc.budget > 10<<20 {
			o.fid = len(fileSizes) - 1 // larger than maxSendfileSize: the inline loop slices it
		}
		size := fileSizes[o.fid]
		switch r.Intn(8) {
		case 0:
			o.pos = 0
		case 1:
			o.pos = size / 2
		case 2:
			if size > 0 {
				o.pos = size - 1
			}
		case 3:
			if r.Intn(6) == 0 {
				o.pos = size // empty range
			}
		case 4:
			if r.Intn(10) == 0 {
				o.pos = size + 1 + r.Intn(20) // beyond the end of the file
				if sc.env.pastEOFs >= 2 {
					o.pos = size / 3
				}
			}
		default:
			if size > 0 {
				o.pos = r.Intn(size)
			}
		}
		avail := size - o.pos
		switch r.Intn(6) {
		case 0:
			o.req = 0
		case 1:
			o.req = -1
		case 2:
			o.req = 1
		case 3:
			o.req = avail
		case 4:
			o.req = avail + 1 + r.Intn(100)
		default:
			if avail > 0 {
				o.req = 1 + r.Intn(avail)
			}
		}
		n := rangesLen(o.inputRanges())
		if n > sc.budget {
			o.req = 1 + r.Intn(1000)
			n = rangesLen(o.inputRanges())
		}
		sc.budget -= n
		o.dupfail = r.Intn(16) == 0
		if sc.env.dupDrops >= 2 && qlen == 0 {
			o.dupfail = false // (a Dup failure behind a backlog is a clean error and stays in)
		}
		if qlen == 0 || r.Intn(4) != 0 {
			unit := n
			if unit > sc.env.maxsend {
				unit = sc.env.maxsend
			}
			if r.Intn(3) == 0 {
				o.ks = []verifsys.Ans{{Kind: verifsys.Took, N: 1 << 30}, {Kind: verifsys.Took, N: 1 << 30}, {Kind: verifsys.Took, N: 1 << 30}}
			} else {
				o.ks = loopScript(r, unit)
			}
		}
	case kFlush:
		unit := nbio.VerifLeft(sc.conn)
		if unit <= 0 || r.Intn(3) == 0 {
			unit = 1 + r.Intn(70000)
		}
		o.ks = loopScript(r, unit)
		if r.Intn(4) == 0 {
			for i := 0; i < qlen+2; i++ {
				o.ks = append(o.ks, verifsys.Ans{Kind: verifsys.Took, N: 1 << 30})
			}
		}
	}
	return o
}

// exec runs the operation on the implementation.
func (sc *simCase) exec(o *op) (n int, err error) {
	sc.sock.SetScript(append([]verifsys.Ans{}, o.ks...))
	switch o.kind {
	case kWrite:
		n, err = sc.conn.Write(fill(o.bufs[0][0], o.bufs[0][1]))
	case kWritev:
		in := make([][]byte, len(o.bufs))
		for i, b := range o.bufs {
			in[i] = fill(b[0], b[1])
		}
		n, err = sc.conn.Writev(in)
	case kSendfile:
		f := sc.env.files[o.fid]
		if _, e := f.f.Seek(int64(o.pos), 0); e != nil {
			hx.Fatal("seek: %v", e)
		}
		if o.dupfail {
			verifsys.PlanDupFailure(f.fd, dupErrno)
		}
		var n64 int64
		n64, err = sc.conn.Sendfile(f.f, int64(o.req))
		verifsys.PlanDupFailure(f.fd, 0)
		n = int(n64)
	case kFlush:
		err = nbio.VerifFlush(sc.conn)
	case kClose:
		err = sc.conn.Close()
	}
	return
}

// step runs one operation on both sides and checks everything; returns false when the case must stop.
func (sc *simCase) step(o *op) bool {
	env := sc.env
	rep := env.rep
	atomic.AddInt64(&env.progress, 1)
	rep.Ops++
	line := o.line()
	sc.lines = append(sc.lines, line)

	wasClosed := nbio.VerifClosed(sc.conn)
	leftBefore := sc.accBuf - sc.exp.bufBytes // the harness' own count of accepted-but-unsent buffer bytes
	wireBefore := len(sc.sock.Wire)
	input := o.inputRanges()
	inLen := rangesLen(input)

	n, err := sc.exec(o)
	ec := errClass(err)
	closed := nbio.VerifClosed(sc.conn)
	shape, empty := nbio.VerifQueueShape(sc.conn)
	left := nbio.VerifLeft(sc.conn)
	newWire := sc.sock.Wire[wireBefore:]
	names := []string{"write", "writev", "sendfile", "flush", "close"}
	rep.Stat("op." + names[o.kind] + "." + ec)
	if len(shape) > 0 {
		sc.backlog = true
	}
	switch {
	case len(shape) == 0:
		rep.Stat("queue.empty")
	case len(shape) == 1:
		rep.Stat("queue.1")
	case len(shape) <= 4:
		rep.Stat("queue.2-4")
	default:
		rep.Stat("queue.5+")
	}
	if strings.Contains(shape, "f") {
		rep.Stat("queue.with-file")
	}
	if call := o.kind <= kSendfile; call && err == nil && len(newWire) > 0 && len(newWire) < inLen {
		rep.Stat("call.partially-sent." + names[o.kind])
	}
	if o.kind == kSendfile && err == nil && inLen > env.maxsend && len(newWire) > env.maxsend {
		rep.Stat("sendfile.sliced-by-maxSendfileSize")
	}
	if o.kind == kFlush && len(newWire) > 0 && len(shape) > 0 {
		rep.Stat("flush.partial")
	}
	fmt.Fprintf(&sc.key, "%d%s%d;", o.kind, ec[:1], len(shape))

	// ---------------- model
	var ma mans
	haveModel := env.model != nil
	if haveModel {
		ans := env.model.Ask("%s", line)
		var perr error
		ma, perr = parseModel(ans)
		if perr != nil {
			hx.Fatal("model answer %q: %v", ans, perr)
		}
		for _, r := range ma.wire {
			sc.mw.add(r)
		}
		obs := fmt.Sprintf("impl: n=%d err=%s closed=%v left=%d queue=%q empty-items=%d wire+=%d | model: %s", n, ec, closed, left, shape, empty, len(newWire), ma.raw)
		switch {
		case o.kind != kFlush && o.kind != kClose && n != ma.n:
			sc.mismatch("C01", "returned count differs: "+obs, nil)
		case ec != ma.err:
			sc.mismatch("C01", "error class differs: "+obs, nil)
			if ec == "overflow" || ma.err == "overflow" {
				sc.mismatch("C17", "overflow decision differs: "+obs, nil)
			}
		case closed != (ma.closed == 1):
			sc.mismatch("C01", "closed differs: "+obs, nil)
		case (empty > 0) != (ma.degen == 1):
			sc.mismatch("C01", "queue holds an empty item on one side only: "+obs, nil)
		}
		if bad := sc.mw.check(newWire); bad != -1 || sc.mw.checked != sc.mw.total {
			sc.mismatch("C01", fmt.Sprintf("bytes received by the shim differ from the model's wire (first difference at +%d of this call; model wire %d bytes, received %d): %s", bad, sc.mw.total, len(sc.sock.Wire), obs), nil)
			sc.dead = true
		}
		if !closed && left != ma.left {
			sc.mismatch("C17", "Conn.left differs: "+obs, nil)
		}
		if len(shape) != ma.q {
			rep.Stat("coverage.queue-length-differs-from-model")
		}
		if nbio.VerifWAdded(sc.conn) != (ma.wadded == 1) {
			rep.Stat("coverage.isWAdded-differs-from-model")
		}
	}

	// ---------------- O1: the stream
	call := o.kind == kWrite || o.kind == kWritev || o.kind == kSendfile
	if call && err == nil {
		if n != inLen {
			sig := "reported-count-differs-from-input-length"
			if o.kind == kSendfile && o.pos > fileSizes[o.fid] {
				sig = "sendfile-past-eof-negative-count"
				sc.pastEOF = true
				sc.env.pastEOFs++
			}
			sc.oracle("C01", sig, fmt.Sprintf("%s returned n=%d with a nil error; its input has %d bytes", names[o.kind], n, inLen),
				map[string]interface{}{"failing_op": line, "n": n, "input_len": inLen})
		}
		for _, r := range input {
			sc.exp.add(r)
			if !r.isFile() {
				sc.accBuf += r.n
			}
		}
	}
	if call && err != nil {
		// (n > 0, error): the call reports the first n bytes of its input as accepted
		acc := 0
		if n > 0 && !closed {
			acc = n
			if acc > inLen {
				sc.oracle("C01", "reported-count-exceeds-input-length", fmt.Sprintf("%s returned n=%d with %v; its input has %d bytes", names[o.kind], n, err, inLen),
					map[string]interface{}{"failing_op": line})
				acc = inLen
			}
		}
		if !closed && len(newWire) != acc && !wasClosed {
			sc.oracle("C01", "failed-call-bytes-differ-from-reported-count",
				fmt.Sprintf("%s failed with (%d, %v), the connection stays open, and %d bytes of it reached the kernel", names[o.kind], n, err, len(newWire)),
				map[string]interface{}{"failing_op": line})
		}
		// a call that closed the connection may have sent a prefix of its input
		rest := acc
		if closed {
			rest = inLen
		}
		for _, r := range input {
			if rest <= 0 {
				break
			}
			if r.n > rest {
				r.n = rest
			}
			sc.exp.add(r)
			if !r.isFile() && !closed {
				sc.accBuf += r.n
			}
			rest -= r.n
		}
	}
	if bad := sc.exp.check(newWire); bad != -1 {
		what := fmt.Sprintf("the peer received a byte that is not the next byte of the accepted stream (offset %d of the stream)", sc.exp.checked+maxInt(bad, 0))
		if bad == -2 {
			what = fmt.Sprintf("the peer received more bytes (%d) than the calls accepted (%d)", len(sc.sock.Wire), sc.exp.total)
		}
		sc.oracle("C01", "received-differs-from-accepted", what, map[string]interface{}{"failing_op": line})
		sc.dead = true
	}
	if o.kind == kSendfile && o.dupfail && err == nil && !wasClosed {
		// did the call really put its whole range on the stream (sent or queued)?
		sent := len(newWire)
		queued := 0
		if strings.HasSuffix(shape, "f") && len(shape) > 0 {
			queued = inLen - sent // a file item was queued for the rest
		}
		if sent+queued < inLen && n == inLen {
			sc.sawDupDrop = true
			sc.env.dupDrops++
			sc.oracle("C01", "sendfile-dup-failure-drops-accepted-range",
				fmt.Sprintf("Sendfile reported %d bytes accepted with a nil error, sent %d, and queued nothing after Dup failed (EAGAIN path): %d bytes are lost", n, sent, inLen-sent),
				map[string]interface{}{"failing_op": line, "sent": sent, "reported": n})
			sc.dead = true
		}
	}

	// ---------------- O17: the counter
	isWrite := o.kind == kWrite || o.kind == kWritev
	if isWrite && !wasClosed {
		predicted := sc.max > 0 && leftBefore+inLen > sc.max
		if sc.max > 0 {
			switch d := leftBefore + inLen - sc.max; {
			case d == 0:
				rep.Stat("limit.exactly-at-max")
			case d == 1:
				rep.Stat("limit.max-plus-1")
			case d == -1:
				rep.Stat("limit.max-minus-1")
			case d > 1:
				rep.Stat("limit.above")
			default:
				rep.Stat("limit.below")
			}
		}
		if predicted != (ec == "overflow") {
			sc.oracle("C17", "overflow-not-iff-left-plus-n-exceeds-max",
				fmt.Sprintf("unsent buffer bytes %d + write of %d with MaxWriteBufferSize %d: overflow expected=%v, call returned %v", leftBefore, inLen, sc.max, predicted, err),
				map[string]interface{}{"failing_op": line})
		}
		if ec == "overflow" {
			ce := "none"
			if len(sc.closeErr) > 0 {
				ce = errClass(sc.closeErr[len(sc.closeErr)-1])
			}
			if !closed || len(sc.closeErr) != 1 || ce != "overflow" {
				sc.oracle("C17", "overflow-does-not-close-with-overflow-error",
					fmt.Sprintf("after ErrOverflow: closed=%v, OnClose calls=%d, last OnClose error class=%s", closed, len(sc.closeErr), ce), map[string]interface{}{"failing_op": line})
			}
		}
	}
	if !closed && !sc.dead {
		want := sc.accBuf - sc.exp.bufBytes
		if left != want {
			sc.oracle("C17", "left-differs-from-unsent-buffer-bytes",
				fmt.Sprintf("Conn.left=%d but %d buffer bytes were accepted and %d of them reached the kernel (unsent: %d)", left, sc.accBuf, sc.exp.bufBytes, want),
				map[string]interface{}{"failing_op": line})
		}
		if bb := nbio.VerifBufferedBytes(sc.conn); bb != left {
			rep.Stat("coverage.left-differs-from-queue-sum")
		}
		if len(shape) == 0 && left != 0 {
			sc.oracle("C17", "budget-not-restored-after-drain", fmt.Sprintf("queue empty but Conn.left=%d", left), map[string]interface{}{"failing_op": line})
		}
	}
	if sc.max > 0 && (left > sc.max || left < 0) {
		sc.oracle("C17", "left-outside-0-max", fmt.Sprintf("Conn.left=%d with MaxWriteBufferSize=%d", left, sc.max), map[string]interface{}{"failing_op": line})
	}
	if sc.hookBuf != sc.exp.bufBytes && !sc.dead {
		rep.Stat("coverage.onwrittensize-buffer-total-differs")
	}

	// ---------------- the close notification
	if closed {
		if len(sc.closeErr) != 1 {
			sc.oracle("C01", "close-notification-count", fmt.Sprintf("connection closed, OnClose called %d times", len(sc.closeErr)), map[string]interface{}{"failing_op": line})
		} else if haveModel && errClass(sc.closeErr[0]) != ma.cerr {
			sc.mismatch("C01", fmt.Sprintf("OnClose error class %s, model %s", errClass(sc.closeErr[0]), ma.cerr), nil)
		}
	}

	// ---------------- an item with nothing to send: flush would never get past it (spin with the lock held)
	sc.degenerate = empty > 0
	if sc.degenerate {
		rep.Stat("queue-holds-empty-item")
		if env.spins < 2 {
			sc.oracle("C01", "queue-holds-item-with-nothing-to-send-flush-would-spin",
				fmt.Sprintf("after %q the write queue (%s) holds an item with nothing left to send; Conn.flush never removes it and loops forever with the connection lock held, so nothing queued behind it is ever delivered (flush is not run by the harness in this state)", line, shape),
				map[string]interface{}{"failing_op": line, "queue": shape})
		}
		env.spins++
	}
	return !closed && !sc.dead
}

func maxInt(a, b int) int {
	if a > b {
		return a
	}
	return b
}

// scenarioOps: the queue holds ONLY one item X (a file range after Sendfile hit EAGAIN: left == 0 with a non-empty
// queue; or a buffer after a refused / partial Write), then a call Y (Write, Writev, Sendfile) arrives while the kernel
// would accept everything: Y must be queued behind X, never sent ahead of it.  Then (usually) a flush drains the queue.
func (sc *simCase) scenarioOps(k int) []*op {
	r := sc.r
	x, y := k/3, k%3
	all := verifsys.Ans{Kind: verifsys.Took, N: 1 << 30}
	var ops []*op
	first := []verifsys.Ans{{Kind: verifsys.EAgain}}
	if r.Intn(2) == 0 {
		first = []verifsys.Ans{{Kind: verifsys.Took, N: 1 + r.Intn(900)}, {Kind: verifsys.EAgain}}
	}
	if x == 0 {
		fid := 2 + r.Intn(3)
		pos := r.Intn(fileSizes[fid] - 2000)
		ops = append(ops, &op{kind: kSendfile, fid: fid, pos: pos, req: 1000 + r.Intn(1000), ks: first})
	} else {
		ops = append(ops, &op{kind: kWrite, bufs: [][2]int{{sc.nextSrc, 1000 + r.Intn(20000)}}, ks: first[:1]})
		sc.nextSrc++
	}
	switch y {
	case 0:
		ops = append(ops, &op{kind: kWrite, bufs: [][2]int{{sc.nextSrc, 1 + r.Intn(5000)}}, ks: []verifsys.Ans{all}})
		sc.nextSrc++
	case 1:
		o := &op{kind: kWritev, ks: []verifsys.Ans{all}}
		for i, n := 0, 2+r.Intn(3); i < n; i++ {
			o.bufs = append(o.bufs, [2]int{sc.nextSrc, r.Intn(3000)})
			sc.nextSrc++
		}
		o.bufs[0][1]++
		ops = append(ops, o)
	default:
		fid := 2 + r.Intn(3)
		ops = append(ops, &op{kind: kSendfile, fid: fid, pos: r.Intn(fileSizes[fid] - 3000), req: 1 + r.Intn(3000), ks: []verifsys.Ans{all, all}})
	}
	if r.Intn(4) != 0 {
		ops = append(ops, &op{kind: kFlush, ks: []verifsys.Ans{all, all, all, all, all, all}})
	}
	sc.env.rep.Stat(fmt.Sprintf("scenario.only-%s-queued-then-%s", []string{"file", "buffer"}[x], []string{"write", "writev", "sendfile"}[y]))
	return ops
}

// fixedCase is a recorded case (replay file): connection parameters and the operation lines.
type fixedCase struct {
	alloc string
	typ   string
	max   int
	ops   []string
}

func runSimCase(env *simEnv, idx int, fixed *fixedCase) {
	rep := env.rep
	seed := rep.Seed*1000003 + int64(idx)
	r := rand.New(rand.NewSource(seed))
	sc := &simCase{env: env, idx: idx, seed: seed, r: r, nextSrc: 1000}
	sc.typ = nbio.ConnTypeTCP
	if r.Intn(2) == 0 {
		sc.typ = nbio.ConnTypeUnix
	}
	sc.max = maxClasses[r.Intn(len(maxClasses))]
	if fixed != nil {
		sc.max = fixed.max
		sc.typ = nbio.ConnTypeTCP
		if fixed.typ == "unix" {
			sc.typ = nbio.ConnTypeUnix
		}
	}
	sc.budget = 300000
	if r.Intn(12) == 0 {
		sc.budget = 3 << 20
	}
	if r.Intn(30) == 0 {
		sc.budget = 24 << 20
	}
	al := env.allocs[r.Intn(len(env.allocs))]
	if fixed != nil && fixed.alloc != "" {
		for _, a := range env.allocs {
			if a.name == fixed.alloc {
				al = a
			}
		}
	}
	sc.alloc = al.name
	env.eng.SetBodyAllocator(al.a)
	rep.Stat("alloc." + al.name)
	scenario := -1
	if fixed == nil && r.Intn(8) == 0 {
		scenario = r.Intn(6) // (queue holds only X) x (next call Y with an accepting kernel)
		sc.max = []int{0, 0, 65536, 1 << 20}[r.Intn(4)]
	}
	rep.Stat("conn." + typName(sc.typ))
	rep.Stat("max." + strconv.Itoa(sc.max))

	env.eng.SetMaxWriteBufferSize(sc.max)
	env.eng.OnClose = func(c *nbio.Conn, err error) { sc.closeErr = append(sc.closeErr, err) }
	env.eng.CountWritten(func(c *nbio.Conn, b []byte, n int) {
		if len(b) > 0 {
			sc.hookBuf += n
		}
	})
	sc.sock = verifsys.NewSock()
	defer sc.sock.Release()
	c, err := env.eng.NewConn(sc.sock, sc.typ)
	if err != nil {
		hx.Fatal("sim conn: %v", err)
	}
	sc.conn = c
	if env.model != nil {
		var sb strings.Builder
		fmt.Fprintf(&sb, "cfg %d %d %d %d", env.maxcache, env.maxsend, sc.max, len(fileSizes))
		for _, s := range fileSizes {
			fmt.Fprintf(&sb, " %d", s)
		}
		sc.lines = append(sc.lines, sb.String())
		if a := env.model.Ask("%s", sb.String()); a != "OK" {
			hx.Fatal("model cfg: %q", a)
		}
	}

	nops := 3 + r.Intn(14)
	alive := true
	if fixed != nil {
		for _, l := range fixed.ops {
			if !alive {
				break
			}
			if strings.HasPrefix(l, "cfg ") {
				continue
			}
			o, err := parseOp(l)
			if err != nil {
				hx.Fatal("replay: %v", err)
			}
			if o.kind == kFlush && sc.degenerate {
				fmt.Println("replay: flush skipped, the queue holds an empty item (flush would not return)")
				continue
			}
			alive = sc.step(o)
			fmt.Printf("replay: %-60.60s -> closed=%v left=%d queued=%d received=%d accepted=%d\n", l, nbio.VerifClosed(sc.conn), nbio.VerifLeft(sc.conn), nbio.VerifQueued(sc.conn), len(sc.sock.Wire), sc.exp.total)
		}
		alive = false
	}
	if scenario >= 0 {
		for _, o := range sc.scenarioOps(scenario) {
			if !alive {
				break
			}
			alive = sc.step(o)
		}
	}
	for i := 0; i < nops && alive && fixed == nil; i++ {
		alive = sc.step(sc.genOp())
	}
	// drain: everything accepted must arrive
	if alive && !sc.degenerate {
		q := nbio.VerifQueued(sc.conn)
		if q > 0 {
			o := &op{kind: kFlush}
			for i := 0; i < 2*q+8; i++ {
				o.ks = append(o.ks, verifsys.Ans{Kind: verifsys.Took, N: 1 << 30})
			}
			alive = sc.step(o)
		}
		if alive {
			if q := nbio.VerifQueued(sc.conn); q != 0 {
				sc.oracle("C01", "drain-incomplete", fmt.Sprintf("%d items still queued after a flush whose every syscall accepts everything", q), nil)
			} else if len(sc.sock.Wire) != sc.exp.total {
				sig := "accepted-bytes-not-received-after-drain"
				if sc.sawDupDrop {
					sig = "sendfile-dup-failure-drops-accepted-range"
				}
				sc.oracle("C01", sig, fmt.Sprintf("queue drained: the calls accepted %d bytes, the peer received %d", sc.exp.total, len(sc.sock.Wire)), nil)
			} else {
				rep.Stat("drained-and-equal")
			}
		}
	}
	if alive {
		sc.step(&op{kind: kClose})
	}
	if !nbio.VerifClosed(sc.conn) {
		sc.conn.Close() // a case abandoned after a finding: release its descriptors
	}
	if sc.sock.Closed != 1 {
		rep.Stat("coverage.descriptor-close-count-" + strconv.Itoa(sc.sock.Closed))
	}
	if d := verifsys.LiveDups(); d != 0 {
		rep.Stat("coverage.dup-descriptors-left-open")
	}
	if sc.sock.ZeroWrites > 0 {
		rep.Stat("c04.zero-length-write-issued")
	}
	if sc.backlog {
		rep.Stat("case.backlog")
	}
	rep.Case(sc.key.String(), sc.backlog)
	if sc.backlog && len(sc.lines) > 4 && len(sc.lines) < 12 {
		rep.Sample(map[string]interface{}{"case": idx, "conn": typName(sc.typ), "max": sc.max, "ops": sc.lines, "received": len(sc.sock.Wire), "accepted": sc.exp.total})
	}
}

// ---------------------------------------------------------------- the real-socket tier

type realCombo struct {
	network string
	mod     uint32
	oneshot uint32
	name    string
}

func realOnce(rep *hx.Report, cb realCombo, al namedAlloc, seed int64, totalBytes int, dir string, files []*tfile) (string, map[string]interface{}) {
	addr := "127.0.0.1:0"
	if cb.network == "unix" {
		addr = filepath.Join(dir, fmt.Sprintf("s-%s-%d.sock", cb.name, seed))
		os.Remove(addr)
	}
	g := nbio.NewEngine(nbio.Config{Network: cb.network, Addrs: []string{addr}, NPoller: 1, EpollMod: cb.mod, EPOLLONESHOT: cb.oneshot, BodyAllocator: al.a})
	opened := make(chan *nbio.Conn, 1)
	var closeMu sync.Mutex
	var closeErr error
	closedFlag := false
	g.OnOpen(func(c *nbio.Conn) { opened <- c })
	g.OnData(func(c *nbio.Conn, data []byte) {})
	g.OnClose(func(c *nbio.Conn, err error) { closeMu.Lock(); closeErr = err; closedFlag = true; closeMu.Unlock() })
	if err := g.Start(); err != nil {
		return "", map[string]interface{}{"infra": "engine start: " + err.Error()}
	}
	defer g.Stop()
	cli, err := net.Dial(cb.network, g.Addrs[0])
	if err != nil {
		return "", map[string]interface{}{"infra": "dial: " + err.Error()}
	}
	defer cli.Close()
	var c *nbio.Conn
	select {
	case c = <-opened:
	case <-time.After(10 * time.Second):
		return "", map[string]interface{}{"infra": "no OnOpen"}
	}

	r := rand.New(rand.NewSource(seed))
	var expected []byte
	var ops []string
	var wmu sync.Mutex
	done := make(chan string, 1)
	go func() {
		src := 1000
		sent := 0
		for sent < totalBytes {
			var n int
			var err error
			var want int
			switch x := r.Intn(10); {
			case x < 4:
				sz := []int{1, 100, 4096, 65536, 65537, 200000, 1 << 20}[r.Intn(7)]
				b := fill(src, sz)
				src++
				want = sz
				wmu.Lock()
				expected = append(expected, b...)
				wmu.Unlock()
				n, err = c.Write(b)
				ops = append(ops, fmt.Sprintf("Write(%d)=%d,%v", sz, n, err))
			case x < 7:
				k := 2 + r.Intn(5)
				in := make([][]byte, k)
				for i := range in {
					sz := []int{0, 1, 1000, 65536, 100000, 300000}[r.Intn(6)]
					in[i] = fill(src, sz)
					src++
					want += sz
				}
				wmu.Lock()
				for _, b := range in {
					expected = append(expected, b...)
				}
				wmu.Unlock()
				n, err = c.Writev(in)
				ops = append(ops, fmt.Sprintf("Writev(%d bufs, %d)=%d,%v", k, want, n, err))
			default:
				f := files[2+r.Intn(3)]
				pos := r.Intn(f.size)
				req := 1 + r.Intn(f.size-pos)
				if r.Intn(3) == 0 {
					req = 0
				}
				want = req
				if req == 0 {
					want = f.size - pos
				}
				ff, e := os.Open(f.f.Name())
				if e != nil {
					done <- "open: " + e.Error()
					return
				}
				ff.Seek(int64(pos), 0)
				wmu.Lock()
				for i := 0; i < want; i++ {
					expected = append(expected, pbyte(f.id, pos+i))
				}
				wmu.Unlock()
				var n64 int64
				n64, err = c.Sendfile(ff, int64(req))
				ff.Close()
				n = int(n64)
				ops = append(ops, fmt.Sprintf("Sendfile(file %d, pos %d, %d)=%d,%v", f.id, pos, req, n, err))
			}
			if err != nil {
				done <- fmt.Sprintf("call failed: %s", ops[len(ops)-1])
				return
			}
			if n != want {
				done <- fmt.Sprintf("call reported %d for an input of %d bytes: %s", n, want, ops[len(ops)-1])
				return
			}
			sent += want
		}
		done <- ""
	}()

	// slow reader: waits, then small reads with pauses, then full speed
	var got []byte
	buf := make([]byte, 256<<10)
	time.Sleep(40 * time.Millisecond)
	writerDone := false
	writerMsg := ""
	lastProgress := time.Now()
	for {
		if !writerDone {
			select {
			case writerMsg = <-done:
				writerDone = true
			default:
			}
		}
		wmu.Lock()
		want := len(expected)
		wmu.Unlock()
		if writerDone && (len(got) >= want || writerMsg != "") {
			break
		}
		chunk := len(buf)
		if len(got) < 512<<10 {
			chunk = 8 << 10
			time.Sleep(300 * time.Microsecond)
		}
		cli.SetReadDeadline(time.Now().Add(500 * time.Millisecond))
		k, err := cli.Read(buf[:chunk])
		if k > 0 {
			got = append(got, buf[:k]...)
			lastProgress = time.Now()
		}
		if err != nil {
			var ne net.Error
			if errors.As(err, &ne) && ne.Timeout() {
				if time.Since(lastProgress) > 15*time.Second {
					break
				}
				continue
			}
			break
		}
	}
	closeMu.Lock()
	ce, cf := closeErr, closedFlag
	closeMu.Unlock()
	wmu.Lock()
	defer wmu.Unlock()
	info := map[string]interface{}{"harness": "connio", "tier": "real", "combo": cb.name, "BodyAllocator": al.name, "seed": seed, "ops": ops,
		"accepted": len(expected), "received": len(got), "closed": cf, "close_error": fmt.Sprint(ce)}
	if writerMsg != "" {
		info["writer"] = writerMsg
		return "real-socket-call-result", info
	}
	if len(got) != len(expected) {
		// diagnosis (unsynchronised read of the queue; the poller is either idle or spinning)
		shape, empty := nbio.VerifQueueShape(c)
		info["queue"] = shape
		info["queue_items_with_nothing_to_send"] = empty
		if empty > 0 {
			return "queue-holds-item-with-nothing-to-send-flush-spins", info
		}
		return "real-socket-stream-incomplete", info
	}
	for i := range got {
		if got[i] != expected[i] {
			info["first_difference"] = i
			return "real-socket-stream-differs", info
		}
	}
	return "", nil
}

// ---- concurrent writers on one real connection: the bytes of one call are never interleaved with another call's

const recMagic0, recMagic1 = 0xA5, 0x5A

// record builds a self-describing payload: magic, source id, body length, body (pbyte(src, i)).
func record(src, bodyLen int) []byte {
	b := make([]byte, 10+bodyLen)
	b[0], b[1] = recMagic0, recMagic1
	b[2], b[3], b[4], b[5] = byte(src>>24), byte(src>>16), byte(src>>8), byte(src)
	b[6], b[7], b[8], b[9] = byte(bodyLen>>24), byte(bodyLen>>16), byte(bodyLen>>8), byte(bodyLen)
	for i := 0; i < bodyLen; i++ {
		b[10+i] = pbyte(src, i)
	}
	return b
}

func realConcurrent(cb realCombo, al namedAlloc, seed int64, callsPerWriter int, dir string) (string, map[string]interface{}) {
	addr := "127.0.0.1:0"
	if cb.network == "unix" {
		addr = filepath.Join(dir, fmt.Sprintf("c-%s-%d.sock", cb.name, seed))
		os.Remove(addr)
	}
	g := nbio.NewEngine(nbio.Config{Network: cb.network, Addrs: []string{addr}, NPoller: 1, EpollMod: cb.mod, EPOLLONESHOT: cb.oneshot, BodyAllocator: al.a})
	opened := make(chan *nbio.Conn, 1)
	g.OnOpen(func(c *nbio.Conn) { opened <- c })
	g.OnData(func(c *nbio.Conn, data []byte) {})
	if err := g.Start(); err != nil {
		return "", map[string]interface{}{"infra": "engine start: " + err.Error()}
	}
	defer g.Stop()
	cli, err := net.Dial(cb.network, g.Addrs[0])
	if err != nil {
		return "", map[string]interface{}{"infra": "dial: " + err.Error()}
	}
	defer cli.Close()
	var c *nbio.Conn
	select {
	case c = <-opened:
	case <-time.After(10 * time.Second):
		return "", map[string]interface{}{"infra": "no OnOpen"}
	}
	// record files for Sendfile (one per writer, sent whole)
	const writers = 3
	recFiles := make([]string, writers)
	for w := 0; w < writers; w++ {
		recFiles[w] = filepath.Join(dir, fmt.Sprintf("rec-%s-%d-%d", cb.name, seed, w))
		if err := ioutil.WriteFile(recFiles[w], record(900000+w, 30000+w*50000), 0o600); err != nil {
			return "", map[string]interface{}{"infra": err.Error()}
		}
	}
	var mu sync.Mutex
	accepted := map[int]int{} // src -> number of accepted calls carrying it
	total := 0
	var failure string
	var wg sync.WaitGroup
	for w := 0; w < writers; w++ {
		wg.Add(1)
		go func(w int) {
			defer wg.Done()
			r := rand.New(rand.NewSource(seed*31 + int64(w)))
			for seq := 0; seq < callsPerWriter; seq++ {
				src := (w+1)*100000 + seq
				var n, want int
				var err error
				var srcs []int
				switch x := r.Intn(10); {
				case x < 6:
					bl := []int{0, 1, 50, 500, 3000}[r.Intn(5)]
					if r.Intn(4) == 0 {
						bl = []int{70000, 200000}[r.Intn(2)]
					}
					b := record(src, bl)
					want, srcs = len(b), []int{src}
					n, err = c.Write(b)
				case x < 9:
					// one record spread over several buffers (an empty one among them)
					bl := []int{100, 2000}[r.Intn(2)]
					if r.Intn(4) == 0 {
						bl = []int{66000, 150000}[r.Intn(2)]
					}
					b := record(src, bl)
					cut1, cut2 := 1+r.Intn(9), 10+r.Intn(len(b)-10)
					want, srcs = len(b), []int{src}
					n, err = c.Writev([][]byte{b[:cut1], {}, b[cut1:cut2], b[cut2:]})
				default:
					f, e := os.Open(recFiles[w])
					if e != nil {
						err = e
						break
					}
					st, _ := f.Stat()
					want, srcs = int(st.Size()), []int{900000 + w}
					var n64 int64
					n64, err = c.Sendfile(f, 0)
					n = int(n64)
					f.Close()
				}
				mu.Lock()
				if err != nil || n != want {
					if failure == "" {
						failure = fmt.Sprintf("writer %d call %d: returned (%d, %v) for %d bytes", w, seq, n, err, want)
					}
					mu.Unlock()
					return
				}
				for _, s := range srcs {
					accepted[s]++
				}
				total += want
				mu.Unlock()
			}
		}(w)
	}
	writersDone := make(chan struct{})
	go func() { wg.Wait(); close(writersDone) }()

	// reader: slow start, parses records
	got := map[int]int{}
	lastSeq := map[int]int{}
	received := 0
	var pend []byte
	buf := make([]byte, 256<<10)
	time.Sleep(30 * time.Millisecond)
	done := false
	lastProgress := time.Now()
	parseErr := ""
	for parseErr == "" {
		if !done {
			select {
			case <-writersDone:
				done = true
			default:
			}
		}
		mu.Lock()
		want, fail := total, failure
		mu.Unlock()
		if done && (received >= want || fail != "") {
			break
		}
		chunk := len(buf)
		if received < 256<<10 {
			chunk = 4 << 10
			time.Sleep(200 * time.Microsecond)
		}
		cli.SetReadDeadline(time.Now().Add(500 * time.Millisecond))
		k, err := cli.Read(buf[:chunk])
		if k > 0 {
			received += k
			lastProgress = time.Now()
			pend = append(pend, buf[:k]...)
			for len(pend) >= 10 && parseErr == "" {
				if pend[0] != recMagic0 || pend[1] != recMagic1 {
					parseErr = fmt.Sprintf("no record header at stream offset %d", received-len(pend))
					break
				}
				src := int(pend[2])<<24 | int(pend[3])<<16 | int(pend[4])<<8 | int(pend[5])
				bl := int(pend[6])<<24 | int(pend[7])<<16 | int(pend[8])<<8 | int(pend[9])
				if len(pend) < 10+bl {
					break
				}
				for i := 0; i < bl; i++ {
					if pend[10+i] != pbyte(src, i) {
						parseErr = fmt.Sprintf("record of source %d: byte %d of its body is not its own (another call's bytes inside it)", src, i)
						break
					}
				}
				got[src]++
				if src < 900000 {
					w, seq := src/100000, src%100000
					if last, ok := lastSeq[w]; ok && seq <= last {
						parseErr = fmt.Sprintf("writer %d: call %d arrived after call %d", w-1, seq, last)
					}
					lastSeq[w] = seq
				}
				pend = pend[10+bl:]
			}
		}
		if err != nil {
			var ne net.Error
			if errors.As(err, &ne) && ne.Timeout() {
				if time.Since(lastProgress) > 15*time.Second {
					break
				}
				continue
			}
			break
		}
	}
	mu.Lock()
	defer mu.Unlock()
	info := map[string]interface{}{"harness": "connio", "tier": "real-concurrent", "combo": cb.name, "BodyAllocator": al.name, "seed": seed, "writers": writers,
		"accepted_bytes": total, "received_bytes": received}
	if failure != "" {
		info["writer"] = failure
		return "real-socket-call-result", info
	}
	if parseErr != "" {
		info["stream"] = parseErr
		return "concurrent-calls-interleaved-or-reordered", info
	}
	if received != total || len(pend) != 0 {
		shape, empty := nbio.VerifQueueShape(c)
		info["queue"], info["queue_items_with_nothing_to_send"] = shape, empty
		return "real-socket-stream-incomplete", info
	}
	for s, k := range accepted {
		if got[s] != k {
			info["source"], info["accepted_times"], info["received_times"] = s, k, got[s]
			return "accepted-call-not-received-exactly-once", info
		}
	}
	return "", nil
}

func detail(info map[string]interface{}) string {
	for _, k := range []string{"stream", "writer"} {
		if v, ok := info[k]; ok {
			return fmt.Sprint(v)
		}
	}
	return "the stream is incomplete"
}

func realTier(rep *hx.Report, seed int64, mib int, dir string, files []*tfile) {
	allocs := allocators()
	combos := []realCombo{
		{"tcp", nbio.EPOLLLT, 0, "tcp-LT"}, {"tcp", nbio.EPOLLET, 0, "tcp-ET"}, {"tcp", nbio.EPOLLET, nbio.EPOLLONESHOT, "tcp-ET-ONESHOT"},
		{"unix", nbio.EPOLLLT, 0, "unix-LT"}, {"unix", nbio.EPOLLET, 0, "unix-ET"}, {"unix", nbio.EPOLLET, nbio.EPOLLONESHOT, "unix-ET-ONESHOT"},
	}
	for i, cb := range combos {
		s := seed*7919 + int64(i)
		al := allocs[(i+int(seed))%len(allocs)] // every allocator is used by at least one combination, rotating with the seed
		rep.Stat("real.alloc." + al.name)
		sig, info := realOnce(rep, cb, al, s, mib<<20, dir, files)
		if sig == "" && info != nil {
			hx.Fatal("real tier %s: %v", cb.name, info["infra"])
		}
		if sig != "" {
			// re-run before reporting: a deterministic defect survives, a hiccup does not
			rep.Stat("real.rerun." + cb.name)
			sig2, info2 := sig, info
			if !strings.HasPrefix(sig, "queue-holds") { // (that one is deterministic: no second 15 s stall)
				sig2, info2 = realOnce(rep, cb, al, s, mib<<20, dir, files)
			}
			if sig2 != "" {
				rep.Add(hx.Finding{Kind: "oracle", Property: "C01", Signature: sig2 + ":" + cb.name,
					What: fmt.Sprintf("real %s sockets: the calls accepted %v bytes, the peer received %v", cb.name, info2["accepted"], info2["received"]), Replay: info2})
				continue
			}
			_ = info
		}
		rep.Stat("real.ok." + cb.name)
		rep.Case("real:"+cb.name, true)

		// concurrent writers
		per := 70 * mib
		csig, cinfo := realConcurrent(cb, al, s, per, dir)
		if csig == "" && cinfo != nil {
			hx.Fatal("real tier %s: %v", cb.name, cinfo["infra"])
		}
		if csig != "" {
			rep.Stat("real.rerun.concurrent." + cb.name)
			csig, cinfo = realConcurrent(cb, al, s, per, dir)
			if csig != "" {
				rep.Add(hx.Finding{Kind: "oracle", Property: "C01", Signature: csig + ":concurrent:" + cb.name,
					What: fmt.Sprintf("real %s sockets, 3 concurrent writers: %s (accepted %v bytes, received %v)", cb.name, detail(cinfo), cinfo["accepted_bytes"], cinfo["received_bytes"]), Replay: cinfo})
				continue
			}
		}
		rep.Stat("real.ok.concurrent." + cb.name)
		rep.Case("real-concurrent:"+cb.name, true)
	}
}

// loadReplay reads a finding (as written by bin/check) or its bare replay object.
func loadReplay(path string) *fixedCase {
	raw, err := ioutil.ReadFile(path)
	if err != nil {
		hx.Fatal("replay: %v", err)
	}
	var top map[string]interface{}
	if err := json.Unmarshal(raw, &top); err != nil {
		hx.Fatal("replay: %v", err)
	}
	if r, ok := top["replay"].(map[string]interface{}); ok {
		top = r
	}
	fc := &fixedCase{typ: "tcp"}
	if c, ok := top["conn"].(map[string]interface{}); ok {
		if t, ok := c["type"].(string); ok {
			fc.typ = t
		}
		if m, ok := c["MaxWriteBufferSize"].(float64); ok {
			fc.max = int(m)
		}
		if a, ok := c["BodyAllocator"].(string); ok {
			fc.alloc = a
		}
	}
	ops, _ := top["ops"].([]interface{})
	for _, o := range ops {
		if s, ok := o.(string); ok {
			fc.ops = append(fc.ops, s)
		}
	}
	if len(fc.ops) == 0 {
		hx.Fatal("replay: no ops in %s", path)
	}
	return fc
}

// ---------------------------------------------------------------- main

func main() {
	seed := flag.Int64("seed", 1, "")
	n := flag.Int("n", 3000, "simulated-kernel cases")
	model := flag.String("model", "", "path of the extracted model")
	out := flag.String("out", "-", "")
	only := flag.Int("only", -1, "run only this simulated case")
	conc := flag.Int("conc", 600, "concurrent-tier cases (cooperative scheduler)")
	concOnly := flag.Int("conconly", -1, "run only this concurrent case")
	replayFile := flag.String("replay", "", "replay file written by bin/check (or a finding's replay object): run its ops")
	realMiB := flag.Int("real", 3, "MiB per real-socket combination (0: skip the real tier)")
	flag.Parse()
	logging.SetLevel(logging.LevelNone)

	rep := hx.NewReport("connio", *seed)
	rep.Rule = "every tier runs with Config.BodyAllocator in {default MemPool, mempool.NewAligned(), mempool.NewSTD(), an always-moving poisoning allocator of the harness}; sizes include the aligned size classes 32..32768 +-1. sim tier: per case a stream Conn (TCP/Unix) on a simulated descriptor, MaxWriteBufferSize in {0,1,100,4096,64Ki-1,64Ki,64Ki+1,200000,1Mi}, 3-16 operations " +
		"(Write, Writev of 0-8 buffers incl. empty ones, Sendfile of 6 files with offsets 0/mid/last/end/past-end and lengths 0/-1/1/exact/too long, flush, Close) with sizes 0,1,2,...,4095-4097,64Ki+-1,128Ki+-1,1Mi+-1 " +
		"and kernel scripts (accept all / 1 / n-1 / random / 64Ki+-1, EAGAIN, EINTR bursts, fatal errno, Dup failure), then a drain and Close; non-trivial = a backlog formed; distinct = distinct (op, result, queue length) sequences. " +
		"concurrent tier: 2-3 writer goroutines (1-2 calls each: Write/Writev/Sendfile with sizes around MaxWriteBufferSize and partial/EAGAIN/EINTR kernel answers) and a flushing goroutine on one Conn under the cooperative scheduler, OnWrittenSize handler that yields, random seeded schedules; results must equal the sequential model's for some order consistent with real time; non-trivial = calls overlapped. " +
		"real tier: TCP and Unix x LT/ET/ET+ONESHOT, slow reader, Write/Writev/Sendfile mixes, content compared; 3 concurrent writers with self-describing records (contiguity, per-writer order, exactly once)"

	dir, err := ioutil.TempDir("", "connio")
	if err != nil {
		hx.Fatal("tempdir: %v", err)
	}
	defer os.RemoveAll(dir)
	files := makeFiles(dir)
	for _, f := range files {
		verifsys.TrackDup(f.fd)
	}

	mc, ms := nbio.VerifConstants()
	env := &simEnv{rep: rep, files: files, maxcache: mc, maxsend: ms, allocs: allocators()}
	env.eng = nbio.VerifNewSimEngine(nbio.Config{})
	if *model != "" {
		env.model = hx.StartModel(*model)
		defer env.model.Close()
	} else {
		rep.Stat("no-model")
	}
	rep.Extra["constants"] = map[string]int{"maxWriteCacheOrFlushSize": mc, "maxSendfileSize": ms}

	// watchdog: a hang of the implementation must not hang the check
	go func() {
		last := int64(-1)
		stuck := 0
		for {
			time.Sleep(5 * time.Second)
			p := atomic.LoadInt64(&env.progress)
			if p == last {
				stuck++
			} else {
				stuck = 0
			}
			last = p
			if stuck >= 12 {
				fmt.Fprintf(os.Stderr, "HARNESS-ERROR: no progress for 60 s (operation %d)\n", p)
				os.Exit(4)
			}
		}
	}()

	if *replayFile != "" {
		runSimCase(env, 0, loadReplay(*replayFile))
	} else if *only >= 0 {
		runSimCase(env, *only, nil)
	} else if *concOnly >= 0 {
		runConcCase(env, *concOnly)
	} else {
		for i := 0; i < *n && !rep.TooMany(); i++ {
			runSimCase(env, i, nil)
		}
		for i := 0; i < *conc && !rep.TooMany(); i++ {
			runConcCase(env, i)
		}
		atomic.AddInt64(&env.progress, 1)
		if *realMiB > 0 && !rep.TooMany() {
			stop := make(chan struct{})
			go func() { // the real tier has its own timeouts; keep the watchdog quiet
				for {
					select {
					case <-stop:
						return
					case <-time.After(time.Second):
						atomic.AddInt64(&env.progress, 1)
					}
				}
			}()
			realTier(rep, *seed, *realMiB, dir, files)
			close(stop)
		}
	}
	for _, f := range files {
		verifsys.UntrackDup(f.fd)
		f.f.Close()
	}
	rep.Write(*out)
}
