// The allocator behind the write queue (Config.BodyAllocator, read as c.p.g.BodyAllocator) is a dimension of every
// tier: the library's default pool, its aligned allocator (relocates a buffer when it outgrows its size class), the std
// allocator, and an "always-moving" allocator of the harness that returns a fresh buffer on EVERY Append / Realloc and
// poisons the one it retires - so a stale pointer kept by the queue shows up as wrong or missing bytes on the wire.
// The model does not depend on the allocator.
package main

import (
	"sync"

	"github.com/lesismal/nbio/mempool"
)

type namedAlloc struct {
	name string
	a    mempool.Allocator
}

func allocators() []namedAlloc {
	return []namedAlloc{
		{"default", mempool.DefaultMemPool},
		{"aligned", mempool.NewAligned()},
		{"std", mempool.NewSTD()},
		{"moving", &movingAlloc{live: map[*[]byte]bool{}}},
	}
}

const poison = 0xEE

// movingAlloc: exact capacities, every growth relocates, retired and freed buffers are poisoned.
type movingAlloc struct {
	mu         sync.Mutex
	live       map[*[]byte]bool
	DoubleFree int
	Foreign    int // Free / Append of a pointer that is not live (stale or never handed out)
}

func (m *movingAlloc) fresh(n int) *[]byte {
	b := make([]byte, n)
	p := &b
	m.mu.Lock()
	m.live[p] = true
	m.mu.Unlock()
	return p
}

func (m *movingAlloc) retire(p *[]byte) {
	if p == nil {
		return
	}
	m.mu.Lock()
	if !m.live[p] {
		m.Foreign++
	}
	delete(m.live, p)
	m.mu.Unlock()
	b := (*p)[:cap(*p)]
	for i := range b {
		b[i] = poison
	}
}

func (m *movingAlloc) Malloc(size int) *[]byte { return m.fresh(size) }

func (m *movingAlloc) Realloc(p *[]byte, size int) *[]byte {
	np := m.fresh(size)
	if p != nil {
		copy(*np, *p)
		m.retire(p)
	}
	return np
}

func (m *movingAlloc) Append(p *[]byte, more ...byte) *[]byte {
	old := 0
	if p != nil {
		old = len(*p)
	}
	np := m.fresh(old + len(more))
	if p != nil {
		copy(*np, *p)
	}
	copy((*np)[old:], more)
	m.retire(p)
	return np
}

func (m *movingAlloc) AppendString(p *[]byte, more string) *[]byte {
	return m.Append(p, []byte(more)...)
}

func (m *movingAlloc) Free(p *[]byte) {
	if p == nil {
		return
	}
	m.mu.Lock()
	stale := !m.live[p]
	if stale {
		m.DoubleFree++
	}
	m.mu.Unlock()
	if !stale {
		m.retire(p)
	}
}
