// Concurrent tier of the connio harness (C01 / C17): 2-3 goroutines issue Write / Writev / Sendfile, a "poller"
// goroutine issues flush, all on ONE real nbio.Conn on a simulated descriptor, with MaxWriteBufferSize set and an
// OnWrittenSize handler installed, under the cooperative scheduler of the overlay (package verifsched: every
// Lock of Conn.mux is a scheduling point, and so is the handler, which yields; if the code drops the lock around the
// handler another writer runs inside it).  Each call has its own script of kernel answers (partial writes, EAGAIN).
//
//	(L)   linearizability against the sequential model: the observed results (n, error class of every call; final
//	      wire, left, closed, close error) must equal the model's for SOME order of the calls that is consistent with
//	      their real-time order; the order in which the calls first took Conn.mux is tried first, then all others.
//	      Also: one call = one critical section of Conn.mux (the atomicity the model's steps stand for).
//	(OC)  oracles on the implementation alone: whenever Conn.mux is released and at the end, the bytes held by the
//	      queued buffers equal Conn.left and do not exceed MaxWriteBufferSize unless the connection is closed; an
//	      overflow error comes with a closed connection; after a final drain the received stream is a concatenation
//	      of whole accepted calls (no call's bytes inside another's, none lost, none twice) in per-goroutine order;
//	      n = input length for nil errors; the handler's sizes for buffers sum to the buffer bytes received.
package main

import (
	"fmt"
	"math/rand"
	"os"
	"strings"
	"sync/atomic"
	"syscall"

	"github.com/lesismal/nbio"
	"github.com/lesismal/nbio/verifsched"
	"github.com/lesismal/nbio/verifsys"
	"verifharness/hx"
)

type ccall struct {
	thread     int
	idx        int // index in the thread's program
	o          *op
	start, end int // logical clock
	acq        int // acquisitions of Conn.mux during the call
	lockOrder  int
	n          int
	err        error
	ec         string
	ks         []verifsys.Ans // answers not yet consumed
}

func (c *ccall) String() string { return fmt.Sprintf("T%d: %s", c.thread, c.o.line()) }

// perCallKern answers the syscalls of a simulated socket from the script of the call the current thread is in.
type perCallKern struct {
	cur map[int]*ccall // scheduler thread id -> running call
}

func (k *perCallKern) Send(s *verifsys.Sock, offered int) verifsys.Ans {
	t := verifsched.Self()
	if t == nil {
		if len(s.Script) == 0 {
			return verifsys.Ans{Kind: verifsys.EAgain}
		}
		a := s.Script[0]
		s.Script = s.Script[1:]
		return a
	}
	c := k.cur[t.ID]
	if c == nil || len(c.ks) == 0 {
		return verifsys.Ans{Kind: verifsys.EAgain}
	}
	a := c.ks[0]
	c.ks = c.ks[1:]
	return a
}

func (k *perCallKern) Recv(s *verifsys.Sock, b []byte) (int, error) { return -1, syscall.EAGAIN }

type concCase struct {
	env     *simEnv
	idx     int
	typ     nbio.ConnType
	max     int
	alloc   string
	calls   []*ccall
	threads [][]*ccall
	sched   []int
}

func (cc *concCase) replay(extra map[string]interface{}) map[string]interface{} {
	var prog []string
	for _, c := range cc.calls {
		prog = append(prog, fmt.Sprintf("T%d#%d %s -> (%d, %s) clock %d..%d lock#%d acquisitions=%d", c.thread, c.idx, c.o.line(), c.n, c.ec, c.start, c.end, c.lockOrder, c.acq))
	}
	m := map[string]interface{}{
		"harness": "connio", "tier": "concurrent", "seed": cc.env.rep.Seed, "case": cc.idx,
		"rerun":    fmt.Sprintf("build/bin/connio -seed %d -conconly %d -n 0 -real 0 -model build/ocaml/connio/model -out -", cc.env.rep.Seed, cc.idx),
		"conn":     map[string]interface{}{"type": typName(cc.typ), "MaxWriteBufferSize": cc.max, "BodyAllocator": cc.alloc, "OnWrittenSize": "installed; yields to the scheduler twice"},
		"calls":    prog,
		"schedule": cc.sched,
		"note":     "threads are goroutines under the cooperative scheduler (overlay verifsched); 'schedule' lists the thread chosen at every scheduling point (every Lock of Conn.mux, every yield of the handler, thread ends); op syntax as in the sequential tier",
	}
	for k, v := range extra {
		m[k] = v
	}
	return m
}

func (cc *concCase) oracle(prop, sig, what string, extra map[string]interface{}) {
	cc.env.rep.Add(hx.Finding{Kind: "oracle", Property: prop, Signature: sig, What: what, Replay: cc.replay(extra)})
}

func (cc *concCase) mismatch(prop, sig, what string, extra map[string]interface{}) {
	cc.env.rep.Add(hx.Finding{Kind: "mismatch", Property: prop, Signature: sig, What: what, Replay: cc.replay(extra)})
}

// genCalls builds the threads' programs: sizes aimed at the limit (two writes that fit alone but not together).
func (cc *concCase) genCalls(r *rand.Rand) {
	nw := 2 + r.Intn(2)
	src := 1000
	sizeNear := func() int {
		m := cc.max
		if m <= 0 {
			m = 4096
		}
		switch r.Intn(8) {
		case 0:
			return m
		case 1:
			return m / 2
		case 2:
			return m/2 + 1
		case 3:
			return m - 1
		case 4:
			return 1 + r.Intn(m)
		case 5:
			return m + 1
		default:
			return 1 + r.Intn(m/2+1)
		}
	}
	partial := func(n int) []verifsys.Ans {
		switch x := r.Intn(10); {
		case x < 5:
			return []verifsys.Ans{{Kind: verifsys.Took, N: 1 + r.Intn(maxInt(1, n/4))}}
		case x < 6:
			return []verifsys.Ans{{Kind: verifsys.Took, N: n + 5}}
		case x < 8:
			return []verifsys.Ans{{Kind: verifsys.EAgain}}
		case x < 9:
			return []verifsys.Ans{{Kind: verifsys.EIntr}}
		default:
			return nil
		}
	}
	for t := 0; t < nw; t++ {
		var prog []*ccall
		for i, k := 0, 1+r.Intn(2); i < k; i++ {
			o := &op{}
			switch x := r.Intn(10); {
			case x < 6:
				n := sizeNear()
				o.kind = kWrite
				o.bufs = [][2]int{{src, n}}
				src++
				o.ks = partial(n)
			case x < 8:
				o.kind = kWritev
				total := 0
				for j, nb := 0, 1+r.Intn(3); j < nb; j++ {
					n := sizeNear() / 2
					if r.Intn(6) == 0 {
						n = 0
					}
					o.bufs = append(o.bufs, [2]int{src, n})
					src++
					total += n
				}
				o.ks = partial(maxInt(total, 1))
			default:
				o.kind = kSendfile
				o.fid = 2 + r.Intn(2)
				o.pos = r.Intn(fileSizes[o.fid] - 3000)
				o.req = 1 + r.Intn(3000)
				o.ks = []verifsys.Ans{{Kind: verifsys.Took, N: 1 + r.Intn(2000)}}
				if r.Intn(2) == 0 {
					o.ks = append(o.ks, verifsys.Ans{Kind: verifsys.EAgain})
				} else {
					o.ks = append(o.ks, verifsys.Ans{Kind: verifsys.Took, N: 1 << 20})
				}
			}
			prog = append(prog, &ccall{thread: t, idx: i, o: o})
		}
		cc.threads = append(cc.threads, prog)
	}
	// the poller: one or two flushes
	if r.Intn(3) != 0 {
		var prog []*ccall
		for i, k := 0, 1+r.Intn(2); i < k; i++ {
			o := &op{kind: kFlush}
			for j, nk := 0, r.Intn(4); j < nk; j++ {
				switch r.Intn(4) {
				case 0:
					o.ks = append(o.ks, verifsys.Ans{Kind: verifsys.EIntr})
				case 1:
					o.ks = append(o.ks, verifsys.Ans{Kind: verifsys.Took, N: 1 << 20})
				default:
					o.ks = append(o.ks, verifsys.Ans{Kind: verifsys.Took, N: 1 + r.Intn(3000)})
				}
			}
			prog = append(prog, &ccall{thread: len(cc.threads), idx: i, o: o})
		}
		cc.threads = append(cc.threads, prog)
	}
	for _, p := range cc.threads {
		cc.calls = append(cc.calls, p...)
	}
}

func execCall(env *simEnv, c *nbio.Conn, o *op) (int, error) {
	switch o.kind {
	case kWrite:
		return c.Write(fill(o.bufs[0][0], o.bufs[0][1]))
	case kWritev:
		in := make([][]byte, len(o.bufs))
		for i, b := range o.bufs {
			in[i] = fill(b[0], b[1])
		}
		return c.Writev(in)
	case kSendfile:
		f, err := os.Open(env.files[o.fid].f.Name()) // its own handle: the file position belongs to this call
		if err != nil {
			hx.Fatal("open: %v", err)
		}
		defer f.Close()
		if _, err := f.Seek(int64(o.pos), 0); err != nil {
			hx.Fatal("seek: %v", err)
		}
		n, err := c.Sendfile(f, int64(o.req))
		return int(n), err
	case kFlush:
		return 0, nbio.VerifFlush(c)
	}
	return 0, c.Close()
}

// orders enumerates the permutations of the calls that respect real-time order (a ended before b started => a first).
func orders(calls []*ccall, limit int, visit func([]*ccall) bool) {
	n := len(calls)
	used := make([]bool, n)
	cur := make([]*ccall, 0, n)
	count := 0
	var rec func() bool
	rec = func() bool {
		if len(cur) == n {
			count++
			return visit(cur) || count >= limit
		}
		for i, c := range calls {
			if used[i] {
				continue
			}
			ok := true
			for j, d := range calls {
				if !used[j] && j != i && d.end < c.start {
					ok = false // d finished before c began and is not placed yet
					break
				}
			}
			if !ok {
				continue
			}
			used[i] = true
			cur = append(cur, c)
			stop := rec()
			cur = cur[:len(cur)-1]
			used[i] = false
			if stop {
				return true
			}
		}
		return false
	}
	rec()
}

type observed struct {
	wire   []byte
	left   int
	closed bool
	cerr   string
	queued int
}

// modelAgrees runs the calls sequentially, in the given order, through the model and compares.
func (cc *concCase) modelAgrees(order []*ccall, obs *observed) (bool, string) {
	env := cc.env
	var sb strings.Builder
	fmt.Fprintf(&sb, "cfg %d %d %d %d", env.maxcache, env.maxsend, cc.max, len(fileSizes))
	for _, s := range fileSizes {
		fmt.Fprintf(&sb, " %d", s)
	}
	if a := env.model.Ask("%s", sb.String()); a != "OK" {
		hx.Fatal("model cfg: %q", a)
	}
	var mw stream
	var last mans
	why := ""
	for _, c := range order {
		ma, err := parseModel(env.model.Ask("%s", c.o.line()))
		if err != nil {
			hx.Fatal("model: %v", err)
		}
		last = ma
		for _, r := range ma.wire {
			mw.add(r)
		}
		if why == "" {
			if c.o.kind != kFlush && c.o.kind != kClose && ma.n != c.n {
				why = fmt.Sprintf("%s: n=%d, model %d", c, c.n, ma.n)
			} else if ma.err != c.ec {
				why = fmt.Sprintf("%s: error class %s, model %s", c, c.ec, ma.err)
			}
		}
	}
	if why != "" {
		return false, why
	}
	if (last.closed == 1) != obs.closed {
		return false, fmt.Sprintf("closed=%v, model %d", obs.closed, last.closed)
	}
	if obs.closed && last.cerr != obs.cerr {
		return false, fmt.Sprintf("close error %s, model %s", obs.cerr, last.cerr)
	}
	if !obs.closed && last.left != obs.left {
		return false, fmt.Sprintf("left=%d, model %d", obs.left, last.left)
	}
	if mw.total != len(obs.wire) || mw.check(obs.wire) != -1 {
		return false, fmt.Sprintf("received %d bytes, model wire %d bytes (or different content)", len(obs.wire), mw.total)
	}
	return true, ""
}

func runConcCase(env *simEnv, idx int) {
	rep := env.rep
	r := rand.New(rand.NewSource(rep.Seed*7368787 + int64(idx)))
	cc := &concCase{env: env, idx: idx}
	cc.typ = nbio.ConnTypeTCP
	if r.Intn(2) == 0 {
		cc.typ = nbio.ConnTypeUnix
	}
	cc.max = []int{1000, 4096, 4096, 65536, 65536, 70000, 0}[r.Intn(7)]
	cc.genCalls(r)
	al := env.allocs[r.Intn(len(env.allocs))]
	cc.alloc = al.name
	env.eng.SetBodyAllocator(al.a)
	rep.Stat("conc.alloc." + al.name)

	env.eng.SetMaxWriteBufferSize(cc.max)
	var closeErrs []error
	env.eng.OnClose = func(c *nbio.Conn, err error) { closeErrs = append(closeErrs, err) }
	hookBuf, hookCalls := 0, 0
	env.eng.CountWritten(func(c *nbio.Conn, b []byte, n int) {
		hookCalls++
		if len(b) > 0 {
			hookBuf += n
		}
		// user code: it may take a while; another goroutine runs meanwhile (and gets into the connection if the
		// lock is not held)
		verifsched.Yield()
		verifsched.Yield()
	})
	sock := verifsys.NewSock()
	defer sock.Release()
	kern := &perCallKern{cur: map[int]*ccall{}}
	sock.Kern = kern
	conn, err := env.eng.NewConn(sock, cc.typ)
	if err != nil {
		hx.Fatal("sim conn: %v", err)
	}
	cm := nbio.VerifSchedConnMutex(conn)

	s := verifsched.New(func(en []int) int { return r.Intn(len(en)) })
	s.Exclusive = true
	s.MaxSteps = 20000
	clock, lockSeq := 0, 0
	invariantBroken := ""
	checkInv := func(where string) {
		if invariantBroken != "" || nbio.VerifClosed(conn) {
			return
		}
		left, held := nbio.VerifLeft(conn), nbio.VerifBufferedBytes(conn)
		if left != held {
			invariantBroken = fmt.Sprintf("%s: Conn.left=%d but the queued buffers hold %d unsent bytes", where, left, held)
			cc.oracle("C17", "concurrent-left-differs-from-queued-bytes", invariantBroken, nil)
		} else if cc.max > 0 && held > cc.max {
			invariantBroken = fmt.Sprintf("%s: the connection is open and holds %d accepted-but-unsent bytes, more than MaxWriteBufferSize=%d", where, held, cc.max)
			cc.oracle("C17", "concurrent-backlog-exceeds-max-on-open-conn", invariantBroken, nil)
		}
	}
	s.OnAcquire = func(t *verifsched.Thread, m *verifsched.Mutex) {
		if m != cm {
			return
		}
		if c := kern.cur[t.ID]; c != nil {
			if c.acq == 0 {
				c.lockOrder = lockSeq
				lockSeq++
			}
			c.acq++
		}
	}
	s.OnRelease = func(t *verifsched.Thread, m *verifsched.Mutex) {
		if m == cm {
			c := kern.cur[t.ID]
			// (the first release of a call is where its critical section ends in the unchanged code)
			if c != nil && c.acq == 1 {
				checkInv(fmt.Sprintf("when %s releases Conn.mux", c))
			}
		}
	}
	for ti, prog := range cc.threads {
		prog := prog
		var th *verifsched.Thread
		th = s.Go(fmt.Sprintf("T%d", ti), func() {
			for _, c := range prog {
				c.ks = append([]verifsys.Ans{}, c.o.ks...)
				clock++
				c.start = clock
				kern.cur[th.ID] = c
				c.n, c.err = execCall(env, conn, c.o)
				kern.cur[th.ID] = nil
				c.ec = errClass(c.err)
				clock++
				c.end = clock
				atomic.AddInt64(&env.progress, 1)
			}
		})
	}
	finished := s.Run()
	for _, ch := range s.Choices {
		cc.sched = append(cc.sched, ch.Thread)
	}
	rep.Ops += len(cc.calls)
	if !finished {
		cc.mismatch("C01", "concurrent-run-stuck", fmt.Sprintf("the scheduler run did not finish (deadlock or step limit): %v", s.Stuck()), nil)
		return
	}
	sock.Kern = nil
	checkInv("at the end of the run")

	obs := &observed{wire: append([]byte{}, sock.Wire...), left: nbio.VerifLeft(conn), closed: nbio.VerifClosed(conn), queued: nbio.VerifBufferedBytes(conn)}
	if len(closeErrs) > 0 {
		obs.cerr = errClass(closeErrs[0])
	} else {
		obs.cerr = "none"
	}
	key := ""
	overflowed := false
	for _, c := range cc.calls {
		rep.Stat("conc.op." + []string{"write", "writev", "sendfile", "flush", "close"}[c.o.kind] + "." + c.ec)
		key += fmt.Sprintf("%d%s;", c.o.kind, c.ec[:1])
		if c.acq != 1 {
			cc.mismatch("C01", "call-is-not-one-critical-section",
				fmt.Sprintf("%s took Conn.mux %d times: the model treats each call as one atomic step because the code runs it in ONE critical section", c, c.acq), nil)
			cc.mismatch("C17", "call-is-not-one-critical-section",
				fmt.Sprintf("%s took Conn.mux %d times: the overflow test and the enqueueing are no longer one atomic step", c, c.acq), nil)
		}
		if c.err == nil && c.o.kind <= kSendfile && c.n != rangesLen(c.o.inputRanges()) {
			cc.oracle("C01", "reported-count-differs-from-input-length", fmt.Sprintf("%s returned n=%d with a nil error; its input has %d bytes", c, c.n, rangesLen(c.o.inputRanges())), nil)
		}
		if c.ec == "overflow" {
			overflowed = true
		}
	}
	if overflowed && (!obs.closed || obs.cerr != "overflow") {
		cc.oracle("C17", "overflow-does-not-close-with-overflow-error", fmt.Sprintf("a call returned ErrOverflow; closed=%v, close error class %s", obs.closed, obs.cerr), nil)
	}
	concurrent := false
	for _, a := range cc.calls {
		for _, b := range cc.calls {
			if a != b && a.start < b.start && b.start < a.end {
				concurrent = true
			}
		}
	}
	if concurrent {
		rep.Stat("conc.case.overlapping-calls")
	}
	rep.Case("conc:"+key, concurrent)

	// ---- (L) linearizability against the model
	if env.model != nil {
		byLock := append([]*ccall{}, cc.calls...)
		for i := 1; i < len(byLock); i++ {
			for j := i; j > 0 && byLock[j].lockOrder < byLock[j-1].lockOrder; j-- {
				byLock[j], byLock[j-1] = byLock[j-1], byLock[j]
			}
		}
		ok, why := cc.modelAgrees(byLock, obs)
		tried := 1
		if ok {
			rep.Stat("conc.linearized-in-lock-order")
		} else {
			orders(cc.calls, 400, func(o []*ccall) bool {
				tried++
				ok, _ = cc.modelAgrees(o, obs)
				return ok
			})
			if ok {
				rep.Stat("conc.linearized-in-another-order")
			}
		}
		if !ok {
			what := fmt.Sprintf("no sequential order of the %d calls (%d orders consistent with real time tried) gives the observed results in the model; in the order in which the calls took Conn.mux: %s. Observed: left=%d queued=%d closed=%v received=%d",
				len(cc.calls), tried, why, obs.left, obs.queued, obs.closed, len(obs.wire))
			cc.mismatch("C01", "connio-model-concurrent-not-linearizable", what, nil)
			cc.mismatch("C17", "connio-model-concurrent-not-linearizable", what, nil)
		}
	}

	// ---- (OC) the stream: drain, then decompose the received bytes into whole accepted calls
	if !obs.closed {
		q := nbio.VerifQueued(conn)
		var ks []verifsys.Ans
		for i := 0; i < 2*q+8; i++ {
			ks = append(ks, verifsys.Ans{Kind: verifsys.Took, N: 1 << 30})
		}
		sock.SetScript(ks)
		if err := nbio.VerifFlush(conn); err != nil || nbio.VerifQueued(conn) != 0 {
			cc.oracle("C01", "drain-incomplete", fmt.Sprintf("final flush: %v, %d items still queued", err, nbio.VerifQueued(conn)), nil)
		}
		if l := nbio.VerifLeft(conn); l != 0 && invariantBroken == "" {
			cc.oracle("C17", "budget-not-restored-after-drain", fmt.Sprintf("queue drained but Conn.left=%d", l), nil)
		}
	}
	wire := sock.Wire
	next := make([]int, len(cc.threads))
	pos, bufOnWire := 0, 0
	bad := ""
	for pos < len(wire) && bad == "" {
		matched := false
		for ti, prog := range cc.threads {
			// skip calls that put nothing on the stream
			for next[ti] < len(prog) && (prog[next[ti]].err != nil || rangesLen(prog[next[ti]].o.inputRanges()) == 0) {
				next[ti]++
			}
			if next[ti] >= len(prog) {
				continue
			}
			c := prog[next[ti]]
			var st stream
			for _, rg := range c.o.inputRanges() {
				st.add(rg)
			}
			avail := len(wire) - pos
			take := st.total
			if take > avail {
				take = avail
			}
			if st.check(wire[pos:pos+take]) == -1 {
				if take < st.total && !obs.closed {
					bad = fmt.Sprintf("the stream ends inside the bytes of %s (%d of %d bytes)", c, take, st.total)
				}
				pos += take
				bufOnWire += st.bufBytes
				next[ti]++
				matched = true
				break
			}
		}
		if !matched && bad == "" {
			bad = fmt.Sprintf("at offset %d the received stream does not continue with the whole input of any goroutine's next accepted call (bytes of one call inside another's, lost or duplicated bytes)", pos)
		}
	}
	if bad == "" && !obs.closed {
		for ti, prog := range cc.threads {
			for i := next[ti]; i < len(prog); i++ {
				if prog[i].err == nil && rangesLen(prog[i].o.inputRanges()) > 0 {
					bad = fmt.Sprintf("%s returned nil but its bytes never arrived (queue drained)", prog[i])
				}
			}
		}
	}
	if bad != "" {
		cc.oracle("C01", "concurrent-stream-is-not-a-sequence-of-whole-accepted-calls", bad, nil)
	} else {
		rep.Stat("conc.stream-ok")
		if hookBuf != bufOnWire && !obs.closed {
			cc.oracle("C17", "onwrittensize-total-differs-from-delivered-buffer-bytes",
				fmt.Sprintf("the OnWrittenSize handler was told about %d buffer bytes, the peer received %d buffer bytes", hookBuf, bufOnWire), nil)
		}
	}
	if hookCalls > 0 {
		rep.Stat("conc.case.handler-ran")
	}
	if !nbio.VerifClosed(conn) {
		conn.Close()
	}
	if len(cc.calls) <= 4 && concurrent {
		var prog []string
		for _, c := range cc.calls {
			prog = append(prog, fmt.Sprintf("%s -> (%d,%s) lock#%d", c, c.n, c.ec, c.lockOrder))
		}
		rep.Sample(map[string]interface{}{"tier": "concurrent", "case": idx, "max": cc.max, "calls": prog, "received": len(wire)})
	}
}
