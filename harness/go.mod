module verifharness

go 1.16

require github.com/lesismal/nbio v0.0.0

replace github.com/lesismal/nbio => /repo
