open Pmodel

let rec pos_of_int n = if n = 1 then XH else if n land 1 = 1 then XI (pos_of_int (n lsr 1)) else XO (pos_of_int (n lsr 1))
let n_of_int n = if n = 0 then N0 else Npos (pos_of_int n)
let rec int_of_pos = function XH -> 1 | XO p -> 2 * int_of_pos p | XI p -> 2 * int_of_pos p + 1
let int_of_n = function N0 -> 0 | Npos p -> int_of_pos p
let rec pos_to_string p =
  let rec go p = match p with
    | XH -> [1]
    | XO q -> dbl (go q) 0
    | XI q -> dbl (go q) 1
  and dbl ds carry =
    let rec f ds c = match ds with
      | [] -> if c = 0 then [] else [c]
      | d :: t -> let v = 2 * d + c in (v mod 10) :: f t (v / 10) in
    f ds carry in
  String.concat "" (List.rev_map string_of_int (go p))
let z_to_string = function Z0 -> "0" | Zpos p -> pos_to_string p | Zneg p -> "-" ^ pos_to_string p

let hexdig c = match c with '0'..'9' -> Char.code c - 48 | 'a'..'f' -> Char.code c - 87 | _ -> failwith "hex"
let bytes_of_hex s =
  let n = String.length s / 2 in
  List.init n (fun i -> n_of_int (16 * hexdig s.[2*i] + hexdig s.[2*i+1]))
let hex_of_bytes l = String.concat "" (List.map (fun b -> Printf.sprintf "%02x" (int_of_n b)) l)

(* header map: keys sorted (Go's map has no order), values in arrival order *)
let mm_to_string (m : (n list * n list list) list) =
  let l = List.map (fun (k, vs) -> (hex_of_bytes k, String.concat "," (List.map hex_of_bytes vs))) m in
  let l = List.sort compare l in
  String.concat ";" (List.map (fun (k, v) -> k ^ "=" ^ v) l)

let req_to_string q =
  Printf.sprintf "Q:%s|%s|%s|%d.%d|host=%s|close=%b|cl=%s|body=%s|H:%s|T:%s|TE:%s"
    (hex_of_bytes q.q_method) (hex_of_bytes q.q_uri) (hex_of_bytes q.q_proto) (int_of_n q.q_major) (int_of_n q.q_minor)
    (hex_of_bytes q.q_host) q.q_close (z_to_string q.q_clen) (hex_of_bytes q.q_body)
    (mm_to_string q.q_hdrs) (mm_to_string q.q_trailer) (String.concat "," (List.map hex_of_bytes q.q_te))

let res_to_string r =
  Printf.sprintf "S:%s|%d.%d|%s|%s|cl=%s|body=%s|H:%s|T:%s"
    (hex_of_bytes r.s_proto) (int_of_n r.s_major) (int_of_n r.s_minor) (z_to_string r.s_code) (hex_of_bytes r.s_status)
    (z_to_string r.s_clen) (hex_of_bytes r.s_body) (mm_to_string r.s_hdrs) (mm_to_string r.s_trailer)

let () =
  try
    while true do
      let line = input_line stdin in
      match String.split_on_char ' ' line with
      | [client; limit; segs] ->
        let segs = if segs = "-" then [] else List.map bytes_of_hex (String.split_on_char ',' segs) in
        let ((_, evs), err) = feed (n_of_int (int_of_string limit)) (init (client = "1")) segs [] in
        let perr = match err with None -> "nil" | Some _ -> "err" in
        let out =
          if client = "1" then
            (match crun CIdle evs [] with
             | Some (_, rs) -> String.concat " " (List.map res_to_string rs)
             | None -> "PROCERR")
          else
            (* the harness checks, per message, that url.ParseRequestURI(target).Host is empty *)
            (match srun (fun _ -> Some []) SIdle evs [] with
             | Some (_, qs) -> String.concat " " (List.map req_to_string qs)
             | None -> "PROCERR") in
        Printf.printf "%s ERR:%s\n%!" out perr
      | _ -> print_endline "BADLINE"
    done
  with End_of_file -> ()
