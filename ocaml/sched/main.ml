(* Line-protocol driver of the extracted models of component `sched` (stdin -> stdout, one answer per line, flushed).

   Serializer (several instances, addressed by a small integer):
     init <i> <c|a> <i|g|p> <cap>        new instance: conn / async variant, inline / goroutine / pool executor, capacity
     <i> s <job> <must 0|1> <nc>         Submit           -> S <accepted> <head>
     <i> c                               Close            -> N
     <i> l                               Len              -> L <n>
     <i> b | t | e | p | a               DBegin / DStart / DEnd / DPanic / DAdvance
                                                          -> N | J <job> | N | N | A <exit>     (X when not enabled)
     <i> q                               -> Q <drainer alive 0|1> <nrunning> <started ids ...>
   every answer to an action ends with " | <len> <cap> <live drainers>".

   Task pool (one instance):
     tp init <M> <Q>                     -> T ...
     tp <action> [arg]                   inc dec enq giveup (task id) wend (task id, early 0|1) wpoll drecv ddrain (- or id)
                                         dclose dfork ddecr dend stop
     tp go <t>                           one Go call as far as it gets without blocking, then the dispatcher until it blocks
                                         (canonical schedule while all tasks block)    -> T ... <forked|queued|blocked>
     tp finish                           canonical completion: every running task ends, workers and dispatcher drain
   -> T <c> <qlen> <running> <started> <finished> <units> <dispatcher> *)

let rec pos_of_int n = if n = 1 then Tpmodel.XH else if n land 1 = 1 then Tpmodel.XI (pos_of_int (n lsr 1)) else Tpmodel.XO (pos_of_int (n lsr 1))
let z_of_int n = if n = 0 then Tpmodel.Z0 else if n > 0 then Tpmodel.Zpos (pos_of_int n) else Tpmodel.Zneg (pos_of_int (-n))
let rec int_of_pos = function Tpmodel.XH -> 1 | Tpmodel.XO p -> 2 * int_of_pos p | Tpmodel.XI p -> 2 * int_of_pos p + 1
let int_of_z = function Tpmodel.Z0 -> 0 | Tpmodel.Zpos p -> int_of_pos p | Tpmodel.Zneg p -> - (int_of_pos p)

(* ---------- serializer ---------- *)
type inst = { v : Sermodel.variant; ex : Sermodel.executor; mutable s : Sermodel.st }
let insts : (int, inst) Hashtbl.t = Hashtbl.create 8

let b01 b = if b then 1 else 0

let ser_action (i : inst) (a : Sermodel.action) : string =
  let o = Sermodel.observe i.s a in
  i.s <- Sermodel.step i.v i.ex i.s a;
  let ((len, cap), live) = Sermodel.shape i.s in
  let head = match o with
    | Sermodel.OSubmit (acc, hd) -> Printf.sprintf "S %d %d" (b01 acc) (b01 hd)
    | Sermodel.OLen n -> Printf.sprintf "L %d" n
    | Sermodel.OStart j -> Printf.sprintf "J %d" j
    | Sermodel.OAdv e -> Printf.sprintf "A %d" (b01 e)
    | Sermodel.ONone -> "N"
    | Sermodel.OStuck -> "X" in
  Printf.sprintf "%s | %d %d %d" head len cap live

(* ---------- task pool ---------- *)
let tp_m = ref (z_of_int 0)
let tp_q = ref 0
let tp = ref Tpmodel.init

let dname = function
  | Tpmodel.DRecv -> "recv" | Tpmodel.DHold _ -> "hold" | Tpmodel.DDec _ -> "dec" | Tpmodel.DRun _ -> "run"
  | Tpmodel.DDrain -> "drain" | Tpmodel.DDrainRun _ -> "drainrun" | Tpmodel.DGone -> "gone"

let tp_step a = tp := Tpmodel.step !tp_m !tp_q !tp a

let tp_summary extra =
  let ((((c, ql), running), started), finished) = Tpmodel.summary !tp in
  Printf.sprintf "T %d %d %d %d %d %d %s%s" (int_of_z c) ql running started finished (Tpmodel.units !tp) (dname !tp.Tpmodel.d) extra

let opt s = if s = "-" then None else Some (int_of_string s)

(* the dispatcher alone, until it blocks (in the outer select with nothing to receive, or inside a task) *)
let rec dispatcher_settle () =
  let s = !tp in
  match s.Tpmodel.d with
  | Tpmodel.DRecv when s.Tpmodel.queue <> [] -> tp_step (Tpmodel.DRecvTask None); dispatcher_settle ()
  | Tpmodel.DHold _ -> tp_step Tpmodel.DFork; dispatcher_settle ()
  | Tpmodel.DDec _ -> tp_step Tpmodel.DDecr; dispatcher_settle ()
  | _ -> ()

let tp_go t =
  let before = List.length !tp.Tpmodel.wrun in
  tp_step (Tpmodel.GoInc t);
  if List.length !tp.Tpmodel.wrun > before then " forked"
  else begin
    tp_step (Tpmodel.GoDec t);
    dispatcher_settle ();
    let s = !tp in
    let rendezvous = !tp_q = 0 && s.Tpmodel.queue = [] && (match s.Tpmodel.d with Tpmodel.DRecv -> true | _ -> false) in
    if rendezvous then begin
      tp_step (Tpmodel.DRecvTask (Some t)); dispatcher_settle (); " queued"
    end else if List.length s.Tpmodel.queue < !tp_q then begin
      tp_step (Tpmodel.GoEnq t); dispatcher_settle (); " queued"
    end else if s.Tpmodel.closed then begin
      tp_step (Tpmodel.GoGiveUp t); " dropped"
    end else " blocked"
  end

let rec tp_finish fuel =
  if fuel = 0 then () else
  let s = !tp in
  let continue_ a = tp_step a; tp_finish (fuel - 1) in
  match s.Tpmodel.wrun with
  | x :: _ -> continue_ (Tpmodel.WEnd x)
  | [] ->
    if s.Tpmodel.widle > 0 then continue_ (Tpmodel.WPoll None)
    else match s.Tpmodel.d with
      | Tpmodel.DRun _ | Tpmodel.DDrainRun _ -> continue_ Tpmodel.DEnd
      | Tpmodel.DRecv when s.Tpmodel.queue <> [] -> continue_ (Tpmodel.DRecvTask None)
      | Tpmodel.DRecv when s.Tpmodel.closed -> continue_ Tpmodel.DSeeClose
      | Tpmodel.DHold _ -> continue_ Tpmodel.DFork
      | Tpmodel.DDec _ -> continue_ Tpmodel.DDecr
      | Tpmodel.DDrain -> continue_ (Tpmodel.DDrainStep None)
      | _ -> ()

let tp_command toks =
  match toks with
  | ["init"; m; q] -> tp_m := z_of_int (int_of_string m); tp_q := int_of_string q; tp := Tpmodel.init; tp_summary ""
  | ["inc"; t] -> tp_step (Tpmodel.GoInc (int_of_string t)); tp_summary ""
  | ["dec"; t] -> tp_step (Tpmodel.GoDec (int_of_string t)); tp_summary ""
  | ["enq"; t] -> tp_step (Tpmodel.GoEnq (int_of_string t)); tp_summary ""
  | ["giveup"; t] -> tp_step (Tpmodel.GoGiveUp (int_of_string t)); tp_summary ""
  | ["wend"; t; e] -> tp_step (Tpmodel.WEnd (int_of_string t, e = "1")); tp_summary ""
  | ["wpoll"; r] -> tp_step (Tpmodel.WPoll (opt r)); tp_summary ""
  | ["drecv"; r] -> tp_step (Tpmodel.DRecvTask (opt r)); tp_summary ""
  | ["ddrain"; r] -> tp_step (Tpmodel.DDrainStep (opt r)); tp_summary ""
  | ["dclose"] -> tp_step Tpmodel.DSeeClose; tp_summary ""
  | ["dfork"] -> tp_step Tpmodel.DFork; tp_summary ""
  | ["ddecr"] -> tp_step Tpmodel.DDecr; tp_summary ""
  | ["dend"] -> tp_step Tpmodel.DEnd; tp_summary ""
  | ["stop"] -> tp_step Tpmodel.Stop; tp_summary ""
  | ["go"; t] -> let r = tp_go (int_of_string t) in tp_summary r
  | ["finish"] -> tp_finish 1000000; tp_summary ""
  | _ -> "ERR bad tp command"

let () =
  try
    while true do
      let line = input_line stdin in
      let toks = List.filter (fun x -> x <> "") (String.split_on_char ' ' line) in
      let answer =
        match toks with
        | "tp" :: rest -> tp_command rest
        | ["init"; i; v; ex; cap] ->
          let v = if v = "a" then Sermodel.AsyncV else Sermodel.ConnV in
          let ex = (match ex with "i" -> Sermodel.Inline | "p" -> Sermodel.Pool | _ -> Sermodel.PerCall) in
          Hashtbl.replace insts (int_of_string i) { v; ex; s = Sermodel.init (int_of_string cap) };
          "OK"
        | i :: cmd ->
          (match Hashtbl.find_opt insts (int_of_string i) with
           | None -> "ERR no instance"
           | Some inst ->
             (match cmd with
              | ["s"; j; must; nc] -> ser_action inst (Sermodel.Submit (int_of_string j, must = "1", int_of_string nc))
              | ["c"] -> ser_action inst Sermodel.Close
              | ["l"] -> ser_action inst Sermodel.Len
              | ["b"] -> ser_action inst Sermodel.DBegin
              | ["t"] -> ser_action inst Sermodel.DStart
              | ["e"] -> ser_action inst Sermodel.DEnd
              | ["p"] -> ser_action inst Sermodel.DPanic
              | ["a"] -> ser_action inst Sermodel.DAdvance
              | ["q"] ->
                let s = inst.s in
                Printf.sprintf "Q %d %d%s" (match s.Sermodel.dr with None -> 0 | Some _ -> 1) s.Sermodel.nrunning
                  (String.concat "" (List.map (fun j -> " " ^ string_of_int j) s.Sermodel.started))
              | _ -> "ERR bad command"))
        | [] -> "ERR empty" in
      Printf.printf "%s\n%!" answer
    done
  with End_of_file -> ()
