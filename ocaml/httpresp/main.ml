open Rmodel

let rec pos_of_int n = if n = 1 then XH else if n land 1 = 1 then XI (pos_of_int (n lsr 1)) else XO (pos_of_int (n lsr 1))
let n_of_int n = if n = 0 then N0 else Npos (pos_of_int n)
let rec int_of_pos = function XH -> 1 | XO p -> 2 * int_of_pos p | XI p -> 2 * int_of_pos p + 1
let int_of_n = function N0 -> 0 | Npos p -> int_of_pos p
let hexdig c = match c with '0'..'9' -> Char.code c - 48 | 'a'..'f' -> Char.code c - 87 | _ -> failwith "hex"
let bytes_of_hex s =
  if s = "-" then [] else
  let n = String.length s / 2 in
  List.init n (fun i -> n_of_int (16 * hexdig s.[2*i] + hexdig s.[2*i+1]))
let hex_of_bytes l =
  let b = Buffer.create 1024 in
  List.iter (fun x -> Buffer.add_string b (Printf.sprintf "%02x" (int_of_n x))) l;
  if Buffer.length b = 0 then "-" else Buffer.contents b

(* line: <minor11 0/1> <close 0/1> <protohex> op op ...   ops: cl:N  x:K:V  t:K  tv:K:V  s:CODE:TEXT  w:HEX  f  e *)
let parse_op tok =
  match String.split_on_char ':' tok with
  | ["cl"; n] -> HSetCL (n_of_int (int_of_string n))
  | ["x"; k; v] -> HCustom (bytes_of_hex k, bytes_of_hex v)
  | ["t"; k] -> HDeclTrailer (bytes_of_hex k)
  | ["tv"; k; v] -> HSetTrailer (bytes_of_hex k, bytes_of_hex v)
  | ["s"; c; t] -> HWriteHeader (n_of_int (int_of_string c), bytes_of_hex t)
  | ["w"; d] -> HWrite (bytes_of_hex d)
  | ["f"] -> HFlush
  | ["e"] -> HFinish
  | _ -> failwith ("bad op " ^ tok)

let () =
  try
    while true do
      let line = input_line stdin in
      match String.split_on_char ' ' line with
      | m :: c :: p :: ops ->
        let q = { proto = bytes_of_hex p; minor11 = (m = "1"); rclose = (c = "1") } in
        let (r, ws) = run_prog (new_resp q) (List.map parse_op (List.filter (fun s -> s <> "") ops)) [] in
        let wstr = String.concat "," (List.map (function WOk n -> string_of_int (int_of_n n) | WErrContentLength -> "ECL") ws) in
        Printf.printf "W=%s OUT=%s\n%!" wstr (String.concat "," (List.map hex_of_bytes r.out))
      | _ -> print_endline "BADLINE"
    done
  with End_of_file -> ()
