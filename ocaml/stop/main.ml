open Stopmodel
(* one log per line: characters o (open), n (close notification), s (Stop called), r (Stop returned) *)
let () =
  try
    while true do
      let line = input_line stdin in
      let l = ref [] in
      String.iter (fun c -> match c with
        | 'o' -> l := OOpen :: !l | 'n' -> l := ONotified :: !l
        | 's' -> l := OStop :: !l | 'r' -> l := OReturn :: !l | _ -> ()) line;
      Printf.printf "%s\n%!" (if legal (List.rev !l) then "legal" else "illegal")
    done
  with End_of_file -> ()
