open Bomodel
(* line protocol (one answer line per request line, flushed):
   T ev ev ...            ev: m<a>  a<a>,<b>  r<a>,<b>  f<a>  u<a>
     -> OK <live-at-end>  |  BAD <index> <verdict>
   R <minor11 0/1> <close 0/1> <protohex> <moves bits|-> <fails bits|-> op op ...
        ops: cl:N  x:K:V  t:K  tv:K:V  s:CODE:TEXT  w:LEN  f        (w: a Write of LEN bytes)
     -> W=<n|ECL|ERR,...> OUT=<len:0/1,...> TR=<ev ev ...>
   Q <maxbuf> <moves bits|-> <slack> op op ...       the connection write queue (WqAlloc.v)
        ops: w:LEN:KS  v:L1,L2,...:KS  s:FLEN:REQ:KS  f:KS  c      KS: kernel script, '.'-separated t<k> a i x, or -
     -> S=<ok|err>/<closed 0/1>/<shape b,f..|->/<left>;...  TR=<ev ev ...>
   B <maxbody> <slack> op op ...                     BodyReader (BodyAlloc.v)   ops: a:LEN  r:LEN  c
     -> S=<n|eof|toolong>/<buffers>/<index>/<left>;...  TR=<ev ev ...>     (observation after every op)
   W <release> <mh> <fh> <zip> <limit> <rlimit> <recov> <moves bits|-> <frames> op op ...     WebSocket receive path (WsRecvAlloc.v)
        frames: ';'-separated  op(d|c|t|b),fin,rsv1,rsvx,lk,mask,plen,neg,reply,clean,mpanic,fpanic,infl(o|l|b),ilen,grow   ('-' = none)
        ops: p:LEN (Parse of the next LEN bytes)   c (CloseAndClean)
     -> S=<ok|err|closed|toolong>/<cache>/<message>/<closed 0/1>;...  G=<buffers left to the application> TR=<ev ev ...>
   nat is an OCaml int (ExtrOcamlNatInt): ids, indices. N stays a Coq datatype. *)

let rec pos_of_int n = if n = 1 then XH else if n land 1 = 1 then XI (pos_of_int (n lsr 1)) else XO (pos_of_int (n lsr 1))
let n_of_int n = if n = 0 then N0 else Npos (pos_of_int n)
let rec int_of_pos = function XH -> 1 | XO p -> 2 * int_of_pos p | XI p -> 2 * int_of_pos p + 1
let int_of_n = function N0 -> 0 | Npos p -> int_of_pos p
let hexdig c = match c with '0'..'9' -> Char.code c - 48 | 'a'..'f' -> Char.code c - 87 | _ -> failwith "hex"
let bytes_of_hex s =
  if s = "-" then [] else
  List.init (String.length s / 2) (fun i -> n_of_int (16 * hexdig s.[2*i] + hexdig s.[2*i+1]))
let bits s = if s = "-" then [] else List.init (String.length s) (fun i -> s.[i] = '1')

let pair s = match String.split_on_char ',' s with
  | [a; b] -> (int_of_string a, int_of_string b) | _ -> failwith ("bad pair " ^ s)
let rest s = String.sub s 1 (String.length s - 1)
let parse_ev tok =
  match tok.[0] with
  | 'm' -> EMalloc (int_of_string (rest tok))
  | 'a' -> let (a, b) = pair (rest tok) in EAppend (a, b)
  | 'r' -> let (a, b) = pair (rest tok) in ERealloc (a, b)
  | 'f' -> EFree (int_of_string (rest tok))
  | 'u' -> EUse (int_of_string (rest tok))
  | _ -> failwith ("bad event " ^ tok)
let show_ev = function
  | EMalloc a -> Printf.sprintf "m%d" a
  | EAppend (a, b) -> Printf.sprintf "a%d,%d" a b
  | ERealloc (a, b) -> Printf.sprintf "r%d,%d" a b
  | EFree a -> Printf.sprintf "f%d" a
  | EUse a -> Printf.sprintf "u%d" a
let show_verdict = function
  | VDoubleFree -> "double-free" | VUseAfterFree -> "use-after-free" | VAppendAfterFree -> "append-after-free"
  | VForeignFree -> "foreign-free" | VForeignUse -> "foreign-use" | VForeignAppend -> "foreign-append"
  | VShared -> "shared"

let parse_op tok =
  match String.split_on_char ':' tok with
  | ["cl"; n] -> HSetCL (n_of_int (int_of_string n))
  | ["x"; k; v] -> HCustom (bytes_of_hex k, bytes_of_hex v)
  | ["t"; k] -> HDeclTrailer (bytes_of_hex k)
  | ["tv"; k; v] -> HSetTrailer (bytes_of_hex k, bytes_of_hex v)
  | ["s"; c; t] -> HWriteHeader (n_of_int (int_of_string c), bytes_of_hex t)
  | ["w"; n] -> HWrite (n_of_int (int_of_string n))
  | ["f"] -> HFlush
  | _ -> failwith ("bad op " ^ tok)

let rec z_of_int n = if n = 0 then Z0 else if n > 0 then Zpos (pos_of_int n) else Zneg (pos_of_int (-n))
let int_of_z = function Z0 -> 0 | Zpos p -> int_of_pos p | Zneg p -> - (int_of_pos p)
let parse_ks s =
  if s = "-" || s = "" then [] else
  List.map (fun t -> match t.[0] with
    | 't' -> Took (pos_of_int (int_of_string (rest t)))
    | 'a' -> EAgain | 'i' -> EIntr | 'x' -> EFatal
    | _ -> failwith ("bad kernel answer " ^ t)) (String.split_on_char '.' s)
let parse_qop tok =
  match String.split_on_char ':' tok with
  | ["w"; l; ks] -> QWrite (n_of_int (int_of_string l), parse_ks ks)
  | ["v"; ls; ks] ->
    let ls = if ls = "-" then [] else List.map (fun x -> n_of_int (int_of_string x)) (String.split_on_char ',' ls) in
    QWritev (ls, parse_ks ks)
  | ["s"; fl; rq; ks] -> QSendfile (n_of_int (int_of_string fl), n_of_int (int_of_string rq), parse_ks ks)
  | ["f"; ks] -> QFlush (parse_ks ks)
  | ["c"] -> QClose
  | _ -> failwith ("bad queue op " ^ tok)

let nonempty l = List.filter (fun s -> s <> "") l

let () =
  try
    while true do
      let line = input_line stdin in
      match String.split_on_char ' ' line with
      | "T" :: evs ->
        let t = List.map parse_ev (nonempty evs) in
        (match check_trace t with
         | None -> Printf.printf "OK %d\n%!" (List.length (live_at_end t))
         | Some (i, v) -> Printf.printf "BAD %d %s\n%!" i (show_verdict v))
      | "R" :: m :: c :: p :: mv :: fl :: ops ->
        let q = { proto = bytes_of_hex p; minor11 = (m = "1"); rclose = (c = "1") } in
        let (r, ws) = run_exchange q (bits mv) (bits fl) (List.map parse_op (nonempty ops)) in
        let wstr = String.concat "," (List.map (function WOk n -> string_of_int (int_of_n n) | WErrContentLength -> "ECL" | WErr -> "ERR") ws) in
        let ostr = String.concat "," (List.map (fun (n, ok) -> Printf.sprintf "%d:%d" (int_of_n n) (if ok then 1 else 0)) r.al.out) in
        Printf.printf "W=%s OUT=%s TR=%s\n%!" wstr ostr (String.concat " " (List.map show_ev r.al.trace))
      | "Q" :: mb :: mv :: slack :: ops ->
        let sl = int_of_string slack in
        let qops = List.map parse_qop (nonempty ops) in
        (* every buffer the allocator creates serves a Write / one element of a Writev: two answers each are enough *)
        let need = List.fold_left (fun a o -> a + (match o with QWrite _ -> 2 | QWritev (ls, _) -> 2 * List.length ls | _ -> 0)) 4 qops in
        let c = n_of_int sl in
        let caps = if sl = 0 then [] else List.init need (fun _ -> c) in
        let (q, obs) = qrun (q0 (z_of_int (int_of_string mb)) (bits mv) caps) qops in
        let show (((r, cl), sh), lf) =
          Printf.sprintf "%s/%d/%s/%d" (match r with ROk -> "ok" | RErr -> "err") (if cl then 1 else 0)
            (if sh = [] then "-" else String.concat "" (List.map (fun b -> if b then "b" else "f") sh)) (int_of_z lf) in
        Printf.printf "S=%s TR=%s\n%!" (String.concat ";" (List.map show obs))
          (String.concat " " (List.map show_ev q.qa.trace))
      | "B" :: mx :: slack :: ops ->
        let sl = int_of_string slack in
        let bops = List.map (fun tok -> match String.split_on_char ':' tok with
          | ["a"; l] -> BAppend (n_of_int (int_of_string l))
          | ["r"; l] -> BRead (n_of_int (int_of_string l))
          | ["c"] -> BClose
          | _ -> failwith ("bad body op " ^ tok)) (nonempty ops) in
        let c = n_of_int sl in
        let caps = if sl = 0 then [] else List.init (2 * List.length bops + 4) (fun _ -> c) in
        (* observations need the intermediate states: run the prefixes step by step *)
        let b = ref (body0 (n_of_int (int_of_string mx)) caps) in
        let obs = List.map (fun o ->
          let (b1, rs) = brun !b [o] in
          b := b1;
          let r = match rs with [BOk n] -> string_of_int (int_of_n n) | [BEOF] -> "eof" | [BTooLong] -> "toolong" | _ -> "?" in
          Printf.sprintf "%s/%d/%d/%d" r (List.length b1.bufs) (int_of_n b1.bindex) (int_of_n b1.bleft)) bops in
        Printf.printf "S=%s TR=%s\n%!" (String.concat ";" obs) (String.concat " " (List.map show_ev !b.ba.trace))
      | "W" :: rel :: mhs :: fhs :: zs :: lim :: rlim :: rcv :: mv :: frs :: ops ->
        let b s = (s = "1") in
        let ni s = n_of_int (int_of_string s) in
        let parse_frame t = match String.split_on_char ',' t with
          | [op; fin; r1; rx; lk; mask; plen; neg; reply; clean; mpan; fpan; infl; ilen; grow] ->
            { f_op = (match op with "d" -> ODataFirst | "c" -> OCont | "t" -> OCtl | _ -> OBad);
              f_fin = b fin; f_rsv1 = b r1; f_rsvx = b rx; f_lk = ni lk; f_mask = b mask; f_plen = ni plen; f_neg = b neg;
              f_reply = b reply; f_clean = b clean; f_mpanic = b mpan; f_fpanic = b fpan;
              f_infl = (match infl with "l" -> ITooLarge | "b" -> IBad | _ -> IOk); f_ilen = ni ilen; f_grow = int_of_string grow }
          | _ -> failwith ("bad frame " ^ t) in
        let frames = if frs = "-" then [] else List.map parse_frame (String.split_on_char ';' frs) in
        let cfg = { wrelease = b rel; wmh = b mhs; wfh = b fhs; wzip = b zs; wlimit = ni lim; wrlimit = ni rlim; wrecov = b rcv } in
        let wops = List.map (fun tok -> match String.split_on_char ':' tok with
          | ["p"; l] -> WParse (ni l) | ["c"] -> WClose | _ -> failwith ("bad ws op " ^ tok)) (nonempty ops) in
        let (w, obs) = wrun cfg (w0 (bits mv) frames) wops in
        let show (((r, cl), ml), closed) =
          Printf.sprintf "%s/%d/%d/%d" (match r with POk -> "ok" | PErr -> "err" | PClosed -> "closed" | PTooLong -> "toolong")
            (int_of_n cl) (int_of_n ml) (if closed then 1 else 0) in
        Printf.printf "S=%s G=%d TR=%s\n%!" (String.concat ";" (List.map show obs)) (List.length w.given)
          (String.concat " " (List.map show_ev w.wa.trace))
      | _ -> print_endline "BADLINE"
    done
  with End_of_file -> ()
