open Bomodel
(* line protocol (one answer line per request line, flushed):
   T ev ev ...            ev: m<a>  a<a>,<b>  r<a>,<b>  f<a>  u<a>
     -> OK <live-at-end>  |  BAD <index> <verdict>
   R <minor11 0/1> <close 0/1> <protohex> <moves bits|-> <fails bits|-> op op ...
        ops: cl:N  x:K:V  t:K  tv:K:V  s:CODE:TEXT  w:LEN  f        (w: a Write of LEN bytes)
     -> W=<n|ECL|ERR,...> OUT=<len:0/1,...> TR=<ev ev ...>
   nat is an OCaml int (ExtrOcamlNatInt): ids, indices. N stays a Coq datatype. *)

let rec pos_of_int n = if n = 1 then XH else if n land 1 = 1 then XI (pos_of_int (n lsr 1)) else XO (pos_of_int (n lsr 1))
let n_of_int n = if n = 0 then N0 else Npos (pos_of_int n)
let rec int_of_pos = function XH -> 1 | XO p -> 2 * int_of_pos p | XI p -> 2 * int_of_pos p + 1
let int_of_n = function N0 -> 0 | Npos p -> int_of_pos p
let hexdig c = match c with '0'..'9' -> Char.code c - 48 | 'a'..'f' -> Char.code c - 87 | _ -> failwith "hex"
let bytes_of_hex s =
  if s = "-" then [] else
  List.init (String.length s / 2) (fun i -> n_of_int (16 * hexdig s.[2*i] + hexdig s.[2*i+1]))
let bits s = if s = "-" then [] else List.init (String.length s) (fun i -> s.[i] = '1')

let pair s = match String.split_on_char ',' s with
  | [a; b] -> (int_of_string a, int_of_string b) | _ -> failwith ("bad pair " ^ s)
let rest s = String.sub s 1 (String.length s - 1)
let parse_ev tok =
  match tok.[0] with
  | 'm' -> EMalloc (int_of_string (rest tok))
  | 'a' -> let (a, b) = pair (rest tok) in EAppend (a, b)
  | 'r' -> let (a, b) = pair (rest tok) in ERealloc (a, b)
  | 'f' -> EFree (int_of_string (rest tok))
  | 'u' -> EUse (int_of_string (rest tok))
  | _ -> failwith ("bad event " ^ tok)
let show_ev = function
  | EMalloc a -> Printf.sprintf "m%d" a
  | EAppend (a, b) -> Printf.sprintf "a%d,%d" a b
  | ERealloc (a, b) -> Printf.sprintf "r%d,%d" a b
  | EFree a -> Printf.sprintf "f%d" a
  | EUse a -> Printf.sprintf "u%d" a
let show_verdict = function
  | VDoubleFree -> "double-free" | VUseAfterFree -> "use-after-free" | VAppendAfterFree -> "append-after-free"
  | VForeignFree -> "foreign-free" | VForeignUse -> "foreign-use" | VForeignAppend -> "foreign-append"
  | VShared -> "shared"

let parse_op tok =
  match String.split_on_char ':' tok with
  | ["cl"; n] -> HSetCL (n_of_int (int_of_string n))
  | ["x"; k; v] -> HCustom (bytes_of_hex k, bytes_of_hex v)
  | ["t"; k] -> HDeclTrailer (bytes_of_hex k)
  | ["tv"; k; v] -> HSetTrailer (bytes_of_hex k, bytes_of_hex v)
  | ["s"; c; t] -> HWriteHeader (n_of_int (int_of_string c), bytes_of_hex t)
  | ["w"; n] -> HWrite (n_of_int (int_of_string n))
  | ["f"] -> HFlush
  | _ -> failwith ("bad op " ^ tok)

let nonempty l = List.filter (fun s -> s <> "") l

let () =
  try
    while true do
      let line = input_line stdin in
      match String.split_on_char ' ' line with
      | "T" :: evs ->
        let t = List.map parse_ev (nonempty evs) in
        (match check_trace t with
         | None -> Printf.printf "OK %d\n%!" (List.length (live_at_end t))
         | Some (i, v) -> Printf.printf "BAD %d %s\n%!" i (show_verdict v))
      | "R" :: m :: c :: p :: mv :: fl :: ops ->
        let q = { proto = bytes_of_hex p; minor11 = (m = "1"); rclose = (c = "1") } in
        let (r, ws) = run_exchange q (bits mv) (bits fl) (List.map parse_op (nonempty ops)) in
        let wstr = String.concat "," (List.map (function WOk n -> string_of_int (int_of_n n) | WErrContentLength -> "ECL" | WErr -> "ERR") ws) in
        let ostr = String.concat "," (List.map (fun (n, ok) -> Printf.sprintf "%d:%d" (int_of_n n) (if ok then 1 else 0)) r.al.out) in
        Printf.printf "W=%s OUT=%s TR=%s\n%!" wstr ostr (String.concat " " (List.map show_ev r.al.trace))
      | _ -> print_endline "BADLINE"
    done
  with End_of_file -> ()
