open Lifemodel
(* Line protocol.
   run <a1> ; <a2> ; ...      -> "<events of a1> ; <events of a2> ; ... | <snapshot>"
   log <e1> <e2> ...          -> "legal|illegal complete|incomplete"
   urun <u1> ; <u2> ; ...     -> "<events of u1> ; ... | tbl=<key>:<sid>,... srv=<0|1>"   (UDP listener: d <key> | s <sid> <action> | sc;
                                 events <sid>.<event> and <sid>.data)
   actions: add0 add1 | dial <0|1> ok|tb:<e>|ep:<e> | dcb | kern ok|<e> | take <0|1> | call | cl <t> <e|nil> <0|1> | td <t>
            | op <w|v|s|f|x|r> <t> ok:<n>|fail:<e>:<n> | job
   events : open close:<e|nil> dstart drej:<e> dial:<e|ok> cret op:<0|1>:<k>:<done|closed|err:e> *)

let oerr s = if s = "nil" || s = "ok" then None else Some (int_of_string s)
let serr = function None -> "nil" | Some e -> string_of_int e

let opk_of = function
  | "w" -> OWrite | "v" -> OWritev | "s" -> OSendfile | "f" -> OFlush | "x" -> OExecute | "r" -> ORead
  | s -> failwith ("bad op kind " ^ s)
let s_opk = function OWrite -> "w" | OWritev -> "v" | OSendfile -> "s" | OFlush -> "f" | OExecute -> "x" | ORead -> "r"

let b s = s = "1"

let split_on c s = List.filter (fun x -> x <> "") (String.split_on_char c s)

let action_of toks =
  match toks with
  | ["add0"] -> AAdd false
  | ["add1"] -> AAdd true
  | ["dial"; ip; r] ->
      let rg = match String.split_on_char ':' r with
        | ["ok"] -> RegOk
        | ["tb"; e] -> RegTooBig (int_of_string e)
        | ["ep"; e] -> RegEpoll (int_of_string e)
        | _ -> failwith "bad regres" in
      ADial (b ip, rg)
  | ["dcb"] -> ADialCbAsync
  | ["kern"; r] -> AKernel (oerr r)
  | ["take"; h] -> APollTake (b h)
  | ["call"] -> APollCall
  | ["cl"; t; e; u] -> ACloseLock (int_of_string t, oerr e, b u)
  | ["td"; t] -> ATeardown (int_of_string t)
  | ["op"; k; t; o] ->
      let oc = match String.split_on_char ':' o with
        | ["ok"; n] -> OutOk (int_of_string n)
        | ["fail"; e; n] -> OutFail (int_of_string e, int_of_string n)
        | _ -> failwith "bad outcome" in
      AOp (opk_of k, int_of_string t, oc)
  | ["job"] -> ARunJob
  | _ -> failwith ("bad action: " ^ String.concat " " toks)

let s_ev = function
  | EOpen -> "open"
  | EClose e -> "close:" ^ serr e
  | EDialStart -> "dstart"
  | EDialRej e -> "drej:" ^ string_of_int e
  | EDial r -> "dial:" ^ (match r with None -> "ok" | Some e -> string_of_int e)
  | ECloseRet -> "cret"
  | EOp (a, k, r) ->
      "op:" ^ (if a then "1" else "0") ^ ":" ^ s_opk k ^ ":" ^
      (match r with RDone -> "done" | RClosed -> "closed" | RErr e -> "err:" ^ string_of_int e)

let ev_of s =
  match String.split_on_char ':' s with
  | ["open"] -> EOpen
  | ["close"; e] -> EClose (oerr e)
  | ["dstart"] -> EDialStart
  | ["drej"; e] -> EDialRej (int_of_string e)
  | ["dial"; r] -> EDial (oerr r)
  | ["cret"] -> ECloseRet
  | "op" :: a :: k :: rest ->
      let r = match rest with
        | ["done"] -> RDone | ["closed"] -> RClosed | ["err"; e] -> RErr (int_of_string e)
        | _ -> failwith "bad op result" in
      EOp (b a, opk_of k, r)
  | _ -> failwith ("bad event " ^ s)

let bs x = if x then "1" else "0"

let snapshot s =
  Printf.sprintf "closed=%s closeerr=%s fdcl=%d sys=%d tears=%d taken=%d jobs=%d pend=%s imm=%s notes=%s dials=%s quiescent=%s"
    (bs s.closed) (match s.flip with None -> "-" | Some e -> serr e) s.fdcl s.sys (List.length s.tears) (List.length s.taken) (List.length s.jobs) (bs s.pend) (bs s.imm)
    (String.concat "," (List.map serr s.notes))
    (String.concat "," (List.map (function None -> "ok" | Some e -> string_of_int e) s.dials))
    (bs (quiescent s))

let () =
  try
    while true do
      let line = input_line stdin in
      (try
        match split_on ' ' line with
        | "run" :: _ ->
            let body = String.sub line 4 (String.length line - 4) in
            let acts = List.map (fun a -> action_of (split_on ' ' a)) (split_on ';' body) in
            let s = ref init in
            let outs = List.map (fun a ->
              let (s', evs) = step !s a in
              s := s';
              String.concat " " (List.map s_ev evs)) acts in
            Printf.printf "%s | %s\n%!" (String.concat " ; " outs) (snapshot !s)
        | "urun" :: _ ->
            let body = String.sub line 5 (String.length line - 5) in
            let uact toks = match toks with
              | ["d"; k] -> UDatagram (int_of_string k)
              | "s" :: sid :: rest -> USess (int_of_string sid, action_of rest)
              | ["sc"] -> UServerClose
              | _ -> failwith ("bad udp action: " ^ String.concat " " toks) in
            let acts = List.map (fun a -> uact (split_on ' ' a)) (split_on ';' body) in
            let u = ref uinit in
            let s_uev = function
              | UEv (sid, e) -> string_of_int sid ^ "." ^ s_ev e
              | UData sid -> string_of_int sid ^ ".data" in
            let outs = List.map (fun a ->
              let (u', evs) = ustep !u a in
              u := u';
              String.concat " " (List.map s_uev evs)) acts in
            Printf.printf "%s | tbl=%s srv=%s\n%!" (String.concat " ; " outs)
              (String.concat "," (List.map (fun (k, v) -> string_of_int k ^ ":" ^ string_of_int v) (!u).tbl))
              (bs (!u).srv)
        | "log" :: evs ->
            let l = List.map ev_of evs in
            Printf.printf "%s %s\n%!" (if legal l then "legal" else "illegal") (if complete l then "complete" else "incomplete")
        | _ -> Printf.printf "error bad command\n%!"
      with Failure m -> Printf.printf "error %s\n%!" m)
    done
  with End_of_file -> ()
