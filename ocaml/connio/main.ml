open Cmodel
(* Line-protocol driver of the extracted ConnIO model at the rope instance (see harness/cmd/connio).
   N, Z, positive are Coq datatypes; this glue converts OCaml ints.

   cfg <maxcache> <maxsend> <maxbuf> <nfiles> <size0> ... : new connection, new configuration  -> OK
   w <src> <len> <ks>                                     : Write
   v <k> <src1> <len1> ... <srck> <lenk> <ks>             : Writev
   s <fid> <pos> <req> <dupfail 0|1> <ks>                 : Sendfile
   f <ks>                                                 : flush
   c                                                      : Close
   ks: comma separated  t<k> | a | i | e<errno>,  "-" = empty
   answer: n=.. err=.. spin=.. closed=.. cerr=.. left=.. q=.. wadded=.. degen=.. backlog=.. in=<len of the call's input> wire=<src:off:len;...> (only what this call added) *)
let rec pos_of_int n = if n = 1 then XH else if n land 1 = 1 then XI (pos_of_int (n lsr 1)) else XO (pos_of_int (n lsr 1))
let n_of_int n = if n = 0 then N0 else Npos (pos_of_int n)
let z_of_int n = if n = 0 then Z0 else if n > 0 then Zpos (pos_of_int n) else Zneg (pos_of_int (-n))
let rec int_of_pos = function XH -> 1 | XO p -> 2 * int_of_pos p | XI p -> 2 * int_of_pos p + 1
let int_of_n = function N0 -> 0 | Npos p -> int_of_pos p
let int_of_z = function Z0 -> 0 | Zpos p -> int_of_pos p | Zneg p -> - (int_of_pos p)

let parse_ks s =
  if s = "-" || s = "" then [] else
  List.map (fun t ->
    let arg () = int_of_string (String.sub t 1 (String.length t - 1)) in
    match t.[0] with
    | 't' -> Took (pos_of_int (arg ()))
    | 'a' -> EAgain
    | 'i' -> EIntr
    | 'e' -> EFatal (n_of_int (arg ()))
    | _ -> failwith ("bad kres " ^ t)) (String.split_on_char ',' s)

let err_str = function
  | ENone -> "none" | EClosed -> "closed" | EOverflow -> "overflow"
  | EErrno e -> "errno" ^ string_of_int (int_of_n e) | EDupFail -> "dup"

let rope_str r =
  if r = [] then "-" else
  String.concat ";" (List.map (fun ((s, o), l) -> Printf.sprintf "%d:%d:%d" (int_of_n s) (int_of_n o) (int_of_n l)) r)

let pay src len = [((n_of_int src, N0), n_of_int len)]

let () =
  let cfg = ref (mkcfg (fun _ -> []) (n_of_int 65536) (z_of_int 4194304) Z0) in
  let st = ref rconn0 in
  try
    while true do
      let line = input_line stdin in
      let toks = List.filter (fun s -> s <> "") (String.split_on_char ' ' line) in
      let i = int_of_string in
      let o = match toks with
        | "cfg" :: mc :: ms :: mb :: nf :: sizes ->
          let tbl = Array.of_list (List.map i sizes) in
          if Array.length tbl <> i nf then failwith "cfg: file table";
          let files fid = let k = int_of_n fid in
            if k < Array.length tbl then [((fid, N0), n_of_int tbl.(k))] else [] in
          cfg := mkcfg files (n_of_int (i mc)) (z_of_int (i ms)) (z_of_int (i mb));
          st := rconn0; None
        | ["w"; src; len; ks] -> Some (OWrite (pay (i src) (i len), parse_ks ks))
        | "v" :: k :: rest ->
          let k = i k in
          let rec take j l acc = if j = 0 then (List.rev acc, l) else
            match l with s :: n :: t -> take (j - 1) t (pay (i s) (i n) :: acc) | _ -> failwith "v: args" in
          let (bs, tl) = take k rest [] in
          (match tl with [ks] -> Some (OWritev (bs, parse_ks ks)) | _ -> failwith "v: script")
        | ["s"; fid; pos; req; df; ks] ->
          Some (OSendfile (n_of_int (i fid), n_of_int (i pos), z_of_int (i req), df = "1", parse_ks ks))
        | ["f"; ks] -> Some (OFlush (parse_ks ks))
        | ["c"] -> Some OClose
        | _ -> failwith ("bad line " ^ line) in
      match o with
      | None -> print_string "OK\n"; flush stdout
      | Some o ->
        let old = !st in
        let (s', r) = rstep !cfg old o in
        st := s';
        let added = rdrop (rlen old.wire) s'.wire in
        Printf.printf "n=%d err=%s spin=%d closed=%d cerr=%s left=%d q=%d wadded=%d degen=%d backlog=%d in=%d wire=%s\n%!"
          (int_of_z r.rn) (err_str r.rerr) (if r.rspin then 1 else 0)
          (if s'.closed then 1 else 0) (err_str s'.cerr) (int_of_z s'.left) (List.length s'.wlist)
          (if s'.wadded then 1 else 0) (if rdegenerate s' then 1 else 0) (int_of_z (rbacklog s'))
          (int_of_n (rlen (rinput !cfg o))) (rope_str added)
    done
  with End_of_file -> ()
