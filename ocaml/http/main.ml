open Model

let rec pos_of_int n = if n = 1 then XH else if n land 1 = 1 then XI (pos_of_int (n lsr 1)) else XO (pos_of_int (n lsr 1))
let n_of_int n = if n = 0 then N0 else Npos (pos_of_int n)
let rec int_of_pos = function XH -> 1 | XO p -> 2 * int_of_pos p | XI p -> 2 * int_of_pos p + 1
let int_of_n = function N0 -> 0 | Npos p -> int_of_pos p
(* Z printing through strings to avoid overflow: use float-free bignum via Printf on pieces *)
let rec pos_to_string p =
  (* decimal conversion of arbitrary positive via repeated doubling on a digit list *)
  let rec go p = match p with
    | XH -> [1]
    | XO q -> dbl (go q) 0
    | XI q -> dbl (go q) 1
  and dbl ds carry =
    (* ds little-endian decimal digits *)
    let rec f ds c = match ds with
      | [] -> if c = 0 then [] else [c]
      | d :: t -> let v = 2 * d + c in (v mod 10) :: f t (v / 10) in
    f ds carry in
  String.concat "" (List.rev_map string_of_int (go p))
let z_to_string = function Z0 -> "0" | Zpos p -> pos_to_string p | Zneg p -> "-" ^ pos_to_string p

let hexdig c = match c with '0'..'9' -> Char.code c - 48 | 'a'..'f' -> Char.code c - 87 | _ -> failwith "hex"
let bytes_of_hex s =
  let n = String.length s / 2 in
  List.init n (fun i -> n_of_int (16 * hexdig s.[2*i] + hexdig s.[2*i+1]))
let hex_of_bytes l = String.concat "" (List.map (fun b -> Printf.sprintf "%02x" (int_of_n b)) l)

let ev_to_string = function
  | EMethod m -> "M:" ^ hex_of_bytes m
  | EURL u -> "U:" ^ hex_of_bytes u
  | EProto p -> "P:" ^ hex_of_bytes p
  | EStatus (c, s) -> "S:" ^ z_to_string c ^ ":" ^ hex_of_bytes s
  | EHeader (k, v) -> "H:" ^ hex_of_bytes k ^ "=" ^ hex_of_bytes v
  | EContentLength n -> "CL:" ^ z_to_string n
  | EBody b -> "B:" ^ hex_of_bytes b
  | ETrailer (k, v) -> "T:" ^ hex_of_bytes k ^ "=" ^ hex_of_bytes v
  | EComplete -> "C"

let err_to_string = function
  | None -> "nil" | Some ErrTooLong -> "toolong" | Some ErrClosed -> "closed" | Some _ -> "err"

let () =
  try
    while true do
      let line = input_line stdin in
      match String.split_on_char ' ' line with
      | [client; limit; segs] ->
        let segs = if segs = "-" then [] else List.map bytes_of_hex (String.split_on_char ',' segs) in
        let ((p, evs), err) = feed (n_of_int (int_of_string limit)) (init (client = "1")) segs [] in
        let retained = List.length p.tok in
        print_string (String.concat "|" (List.map ev_to_string evs));
        Printf.printf "|ERR:%s|RET:%d\n%!" (err_to_string err) (match err with None -> retained | Some _ -> -1)
      | _ -> print_endline "BADLINE"
    done
  with End_of_file -> ()
