open Gatemodel
(* Line protocol of the gate model (coq/readpath/Gate.v, payload elements = small ints).
     reset 0|1                 -> OK      (1: EPOLLONESHOT)
     arrive b1 b2 ...          the peer's bytes reach the socket
     eof                       the peer shuts down its sending side
     mod                       one-shot: an EPOLL_CTL_MOD from the write side re-arms the descriptor
     take                      epoll_wait reports the descriptor to the poller
     mark | gate | spawn       poller: store readEOF / gate step (successful CAS or the load that saw 2) / hand-over to IOExecute
     read N                    task: one read(2) with a buffer of N bytes (TaskRead in the read pass, TaskDrain in readToEOF)
     check | dec | rearm       task: load of readEOF / decrement of readEvents / ResetPollerEvent at its exit
     close                     task: Conn.closed := true at the end of the stream
     delivered                 -> the delivered elements
   every action answers:  <enabled 0|1> r=<readEvents> t=<N|R|C|D|Z|X> sp=<spawning> e=<edge> f=<readEOF> c=<closed>
                           nd=<#delivered> na=<#in the socket> nt=<tasks alive> ar=<armed> re=<re-arm owed> h=<event held>  *)
let s : int st ref = ref init
let os = ref false
let b2i b = if b then 1 else 0
let phase s = match s.task with
  | None -> "N" | Some TReading -> "R" | Some TAtCheck -> "C" | Some TAtDec -> "D" | Some TDraining -> "Z" | Some TClosing -> "X"
let apply a =
  let en = enabled !os !s a in
  s := step !os !s a;
  let x = !s in
  Printf.printf "%d r=%d t=%s sp=%d e=%d f=%d c=%d nd=%d na=%d nt=%d ar=%d re=%d h=%d\n%!" (b2i en) x.r (phase x) (b2i x.spawning) (b2i x.edge)
    (b2i x.eofflag) (b2i x.closed) (List.length x.delivered) (List.length x.avail) x.ntasks (b2i x.armed) x.rearm (b2i x.held)
let () =
  try
    while true do
      let line = input_line stdin in
      match String.split_on_char ' ' (String.trim line) with
      | ["reset"; o] -> os := (o = "1"); s := init; Printf.printf "OK\n%!"
      | "arrive" :: b :: rest -> apply (Arrive (int_of_string b, List.map int_of_string rest))
      | ["eof"] -> apply PeerEOF
      | ["mod"] -> apply Mod
      | ["take"] -> apply PollTake
      | ["mark"] -> apply PollMarkEOF
      | ["gate"] -> apply PollGate
      | ["spawn"] -> apply PollSpawn
      | ["read"; n] ->
        let b = int_of_string n - 1 in
        (match !s.task with Some TDraining -> apply (TaskDrain b) | _ -> apply (TaskRead b))
      | ["check"] -> apply TaskCheck
      | ["dec"] -> apply TaskDec
      | ["rearm"] -> apply TaskRearm
      | ["close"] -> apply TaskClose
      | ["delivered"] -> Printf.printf "%s\n%!" (String.concat " " (List.map string_of_int !s.delivered))
      | _ -> failwith ("bad line " ^ line)
    done
  with End_of_file -> ()
