open Gatemodel
(* Line protocol of the gate model (coq/readpath/Gate.v, payload elements = small ints).
     reset                     -> OK
     arrive b1 b2 ...          the peer's bytes reach the socket
     eof                       the peer shuts down its sending side
     gate | spawn | mark       poller: gate step (successful CAS or the load that saw 2) / hand-over to IOExecute / store readEOF
     read N                    task: one read(2) with a buffer of N bytes (TaskRead in the read pass, TaskDrain in readToEOF)
     check | dec               task: load of readEOF / decrement of readEvents
     delivered                 -> the delivered elements
   every action answers:  <enabled 0|1> r=<readEvents> t=<N|R|C|D|Z> sp=<spawning> e=<edge> f=<readEOF> c=<closed>
                           nd=<#delivered> na=<#in the socket> nt=<tasks alive>                                          *)
let s : int st ref = ref init
let b2i b = if b then 1 else 0
let phase s = match s.task with
  | None -> "N" | Some TReading -> "R" | Some TAtCheck -> "C" | Some TAtDec -> "D" | Some TDraining -> "Z"
let apply a =
  let en = enabled !s a in
  s := step !s a;
  let x = !s in
  Printf.printf "%d r=%d t=%s sp=%d e=%d f=%d c=%d nd=%d na=%d nt=%d\n%!" (b2i en) x.r (phase x) (b2i x.spawning) (b2i x.edge)
    (b2i x.eofflag) (b2i x.closed) (List.length x.delivered) (List.length x.avail) x.ntasks
let () =
  try
    while true do
      let line = input_line stdin in
      match String.split_on_char ' ' (String.trim line) with
      | ["reset"] -> s := init; Printf.printf "OK\n%!"
      | "arrive" :: b :: rest -> apply (Arrive (int_of_string b, List.map int_of_string rest))
      | ["eof"] -> apply PeerEOF
      | ["gate"] -> apply PollGate
      | ["spawn"] -> apply PollSpawn
      | ["mark"] -> apply PollMarkEOF
      | ["read"; n] ->
        let b = int_of_string n - 1 in
        (match !s.task with Some TDraining -> apply (TaskDrain b) | _ -> apply (TaskRead b))
      | ["check"] -> apply TaskCheck
      | ["dec"] -> apply TaskDec
      | ["delivered"] -> Printf.printf "%s\n%!" (String.concat " " (List.map string_of_int !s.delivered))
      | _ -> failwith ("bad line " ^ line)
    done
  with End_of_file -> ()
