(* Line-protocol driver of the extracted write-side model of component `wsconc` (stdin -> stdout, one answer per line,
   flushed).
     init <d|q> <maxq>          new run: direct / queued mode, queue bound (0 = unbounded)          -> OK
     m <limit> <mid> <ctl 0|1> <raw> <z|->   begin_msg: a WriteMessage of raw bytes, deflated to z bytes when compression applies
                                (frames mid*100+j, as many as the bytes that go out need)  -> like b
     b <id,id,...>              Begin fs                       -> B <- | closed | full>   (refused as a whole, or the call goes on)
     f <ok 0|1>                 Frame ok                       -> F <- | ok | closed | full | err> <head 0|1>
     w <ok 0|1>                 DWrite ok                      -> W
     a                          DAdvance                       -> A <exit 0|1>
     c                          CloseClean                     -> C <first 0|1>
                                (X when the action is not enabled in the model)
     q                          -> Q <wire ids> ; <accepted ids> ; <dropped ids>
   every answer to an action ends with " | <hand: - or frame id> <drainer: - | W | L> <di> <len slots> <closed> <failed> <holder 0|1>". *)
open Sqmodel

let mode = ref Queued
let maxq = ref 0
let s = ref init

let b01 b = if b then 1 else 0
let ids l = if l = [] then "-" else String.concat "," (List.map string_of_int l)

let res_name = function ROk -> "ok" | RClosed -> "closed" | RFull -> "full" | RErr -> "err"

let summary () =
  let st = !s in
  let hand_s = match hand st.dr with [] -> "-" | f :: _ -> string_of_int f in
  let (d, i) = match st.dr with
    | None -> ("-", 0)
    | Some d -> ((match d.dph with Writing _ -> "W" | AtLock -> "L"), d.di) in
  Printf.sprintf "%s %s %d %d %d %d %d" hand_s d i (List.length st.slots) (b01 st.closed) (b01 st.failed)
    (match st.holder with None -> 0 | Some _ -> 1)

let act (a : action) : string =
  let o = observe !mode !maxq !s a in
  s := step !mode !maxq !s a;
  let head = match o with
    | OBegin r -> Printf.sprintf "B %s" (match r with None -> "-" | Some r -> res_name r)
    | OFrame (r, h) -> Printf.sprintf "F %s %d" (match r with None -> "-" | Some r -> res_name r) (b01 h)
    | ODWrite -> "W"
    | OAdv e -> Printf.sprintf "A %d" (b01 e)
    | OClose f -> Printf.sprintf "C %d" (b01 f)
    | OStuck -> "X" in
  Printf.sprintf "%s | %s" head (summary ())

let () =
  try
    while true do
      let line = input_line stdin in
      let ans =
        match String.split_on_char ' ' (String.trim line) with
        | ["init"; m; q] ->
            mode := (if m = "d" then Direct else Queued);
            maxq := int_of_string q;
            s := init;
            "OK"
        | ["b"; l] ->
            let fs = if l = "-" then [] else List.map int_of_string (String.split_on_char ',' l) in
            act (Begin fs)
        | ["m"; limit; mid; ctl; raw; z] ->
            let zz = if z = "-" then None else Some (int_of_string z) in
            act (begin_msg (int_of_string limit) (int_of_string mid) (ctl = "1") (int_of_string raw) zz)
        | ["f"; ok] -> act (Frame (ok = "1"))
        | ["w"; ok] -> act (DWrite (ok = "1"))
        | ["a"] -> act DAdvance
        | ["c"] -> act CloseClean
        | ["q"] ->
            Printf.sprintf "Q %s ; %s ; %s" (ids (wire !s)) (ids (accepted !s)) (ids !s.dropped)
        | _ -> "ERR " ^ line in
      print_string ans; print_newline (); flush stdout
    done
  with End_of_file -> ()
