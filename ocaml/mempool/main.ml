open Mmodel
(* nat is extracted to OCaml int (ExtrOcamlNatInt): sizes, ids, capacities. Bytes stay Coq N. *)
let rec pos_of_int n = if n = 1 then XH else if n land 1 = 1 then XI (pos_of_int (n lsr 1)) else XO (pos_of_int (n lsr 1))
let n_of_int n = if n = 0 then N0 else Npos (pos_of_int n)
let rec int_of_pos = function XH -> 1 | XO p -> 2 * int_of_pos p | XI p -> 2 * int_of_pos p + 1
let int_of_n = function N0 -> 0 | Npos p -> int_of_pos p
let hexdig c = match c with '0'..'9' -> Char.code c - 48 | 'a'..'f' -> Char.code c - 87 | _ -> failwith "hex"
let bytes_of_hex s = if s = "-" then [] else List.init (String.length s / 2) (fun i -> n_of_int (16 * hexdig s.[2*i] + hexdig s.[2*i+1]))
let hex_of_bytes l = if l = [] then "-" else String.concat "" (List.map (fun x -> Printf.sprintf "%02x" (int_of_n x)) l)
let rec firstn n l = if n = 0 then [] else match l with [] -> [] | x :: t -> x :: firstn (n-1) t
let choice s = if s = "f" then Fresh else Reuse (int_of_string (String.sub s 1 (String.length s - 1)))

let () =
  let st = ref (init 64 4096) in
  try
    while true do
      let line = input_line stdin in
      let toks = String.split_on_char ' ' line in
      let old_len p = match lookup p !st.live with Some b -> List.length b.data | None -> 0 in
      let (o, spec) = match toks with
        | ["init"; bs; fs] -> st := init (int_of_string bs) (int_of_string fs); (None, 0)
        | ["m"; size; g; nc] -> (Some (Malloc (int_of_string size, choice g, int_of_string nc)), 0)
        | ["fill"; p; h] -> (Some (Fill (int_of_string p, bytes_of_hex h)), 0)
        | ["a"; p; h; nc] -> let p = int_of_string p in let m = bytes_of_hex h in
                             (Some (Append (p, m, int_of_string nc)), old_len p + List.length m)
        | ["re"; p; size; g; nc] -> let p = int_of_string p and size = int_of_string size in
                             (Some (Realloc (p, size, choice g, int_of_string nc)), min (old_len p) size)
        | ["free"; p] -> (Some (Free (int_of_string p)), 0)
        | _ -> failwith ("bad line " ^ line) in
      match o with
      | None -> print_endline "OK"
      | Some o ->
        let (s', r) = step !st o in
        st := s';
        (match r with
         | RPtr (p, len) ->
           let d = match lookup p s'.live with Some b -> b.data | None -> [] in
           Printf.printf "P %d %d %d %s\n%!" p len spec (hex_of_bytes (firstn spec d))
         | RUnit -> Printf.printf "U\n%!"
         | RIllegal -> Printf.printf "ILLEGAL\n%!")
    done
  with End_of_file -> ()
