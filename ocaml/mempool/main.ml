open Mmodel
(* nat is extracted to OCaml int (ExtrOcamlNatInt): sizes, ids, capacities. Bytes stay Coq N. *)
let rec pos_of_int n = if n = 1 then XH else if n land 1 = 1 then XI (pos_of_int (n lsr 1)) else XO (pos_of_int (n lsr 1))
let n_of_int n = if n = 0 then N0 else Npos (pos_of_int n)
let rec int_of_pos = function XH -> 1 | XO p -> 2 * int_of_pos p | XI p -> 2 * int_of_pos p + 1
let int_of_n = function N0 -> 0 | Npos p -> int_of_pos p
let hexdig c = match c with '0'..'9' -> Char.code c - 48 | 'a'..'f' -> Char.code c - 87 | _ -> failwith "hex"
(* one shared N value per byte (less allocation), table-driven hex *)
let ntab = Array.init 256 n_of_int
let bytes_of_hex s = if s = "-" then [] else List.init (String.length s / 2) (fun i -> ntab.(16 * hexdig s.[2*i] + hexdig s.[2*i+1]))
let hexchars = "0123456789abcdef"
let hex_of_bytes l =
  if l = [] then "-" else begin
    let b = Buffer.create 256 in
    List.iter (fun x -> let v = int_of_n x in Buffer.add_char b hexchars.[v lsr 4]; Buffer.add_char b hexchars.[v land 15]) l;
    Buffer.contents b
  end
let rec firstn n l = if n = 0 then [] else match l with [] -> [] | x :: t -> x :: firstn (n-1) t
let choice s = if s = "f" then Fresh else Reuse (int_of_string (String.sub s 1 (String.length s - 1)))


(* ---- aligned / std allocator models (AllocBase.v, Aligned.v, Std.v) ----
   answers: "P <ptr id> <len> <cap> <array id> <fnv1a-32 of the visible bytes>" | "U" | "ILLEGAL" | "PANIC" *)
let pattern n a b = List.init n (fun i -> ntab.((a + i * b) land 255))
let fnv l = List.fold_left (fun h x -> ((h lxor (int_of_n x)) * 16777619) land 0xFFFFFFFF) 2166136261 l
let pick s = if s = "f" then PFresh else PReuse (int_of_string (String.sub s 1 (String.length s - 1)))
let answer (h : heap) (r : ares) =
  match r with
  | APtr (p, len, cap) ->
    (match hlookup p h.hlive with
     | Some b -> Printf.printf "P %d %d %d %d %d\n%!" p len cap b.sarr (fnv (sdata b))
     | None -> Printf.printf "P %d %d %d -1 0\n%!" p len cap)
  | AUnit -> Printf.printf "U\n%!"
  | AIllegal -> Printf.printf "ILLEGAL\n%!"
  | APanic -> Printf.printf "PANIC\n%!"

let ast = ref ainit
let sst = ref sinit
let ios = int_of_string
(* returns true when the line was a command of the aligned/std protocol *)
let alloc_line toks =
  let arun o = let (h, r) = astep !ast o in ast := h; answer h r in
  let srun o = let (h, r) = sstep !sst o in sst := h; answer h r in
  match toks with
  | ["ainit"] -> ast := ainit; print_endline "OK"; true
  | ["am"; size; g] -> arun (AMalloc (ios size, pick g)); true
  | ["afill"; p; h] -> arun (AFill (ios p, bytes_of_hex h)); true
  | ["afillp"; p; n; a; b] -> arun (AFill (ios p, pattern (ios n) (ios a) (ios b))); true
  | ["aa"; p; h; g] -> arun (AAppend (ios p, bytes_of_hex h, pick g)); true
  | ["aap"; p; n; a; b; g] -> arun (AAppend (ios p, pattern (ios n) (ios a) (ios b), pick g)); true
  | ["are"; p; size; g] -> arun (ARealloc (ios p, ios size, pick g)); true
  | ["afree"; p] -> arun (AFree (ios p)); true
  | ["aidx"; size] -> Printf.printf "%d\n%!" (aidx (ios size)); true
  | ["apool"; size] ->   (* how many pooled pointers rest in the bucket a Malloc(size) would ask, and that bucket's size *)
    let i = aidx (ios size) in
    let n = List.length (List.filter (fun (_, b) -> aidx b.scap = i) !ast.hpool) in
    Printf.printf "%d %d\n%!" n (bsize i); true
  | ["sinit"] -> sst := sinit; print_endline "OK"; true
  | ["sm"; size] -> srun (SMalloc (ios size)); true
  | ["sfill"; p; h] -> srun (SFill (ios p, bytes_of_hex h)); true
  | ["sfillp"; p; n; a; b] -> srun (SFill (ios p, pattern (ios n) (ios a) (ios b))); true
  | ["sa"; p; h; nc] -> srun (SAppend (ios p, bytes_of_hex h, ios nc)); true
  | ["sap"; p; n; a; b; nc] -> srun (SAppend (ios p, pattern (ios n) (ios a) (ios b), ios nc)); true
  | ["sre"; p; size] -> srun (SRealloc (ios p, ios size)); true
  | ["sfree"; p] -> srun (SFree (ios p)); true
  | _ -> false

let () =
  let st = ref (init 64 4096) in
  try
    while true do
      let line = input_line stdin in
      let toks = String.split_on_char ' ' line in
      if alloc_line toks then () else
      let old_len p = match lookup p !st.live with Some b -> List.length b.data | None -> 0 in
      let (o, spec) = match toks with
        | ["init"; bs; fs] -> st := init (int_of_string bs) (int_of_string fs); (None, 0)
        | ["m"; size; g; nc] -> (Some (Malloc (int_of_string size, choice g, int_of_string nc)), 0)
        | ["fill"; p; h] -> (Some (Fill (int_of_string p, bytes_of_hex h)), 0)
        | ["a"; p; h; nc] -> let p = int_of_string p in let m = bytes_of_hex h in
                             (Some (Append (p, m, int_of_string nc)), old_len p + List.length m)
        | ["re"; p; size; g; nc] -> let p = int_of_string p and size = int_of_string size in
                             (Some (Realloc (p, size, choice g, int_of_string nc)), min (old_len p) size)
        | ["free"; p] -> (Some (Free (int_of_string p)), 0)
        | _ -> failwith ("bad line " ^ line) in
      match o with
      | None -> print_endline "OK"
      | Some o ->
        let (s', r) = step !st o in
        st := s';
        (match r with
         | RPtr (p, len) ->
           let d = match lookup p s'.live with Some b -> b.data | None -> [] in
           Printf.printf "P %d %d %d %s\n%!" p len spec (hex_of_bytes (firstn spec d))
         | RUnit -> Printf.printf "U\n%!"
         | RIllegal -> Printf.printf "ILLEGAL\n%!")
    done
  with End_of_file -> ()
