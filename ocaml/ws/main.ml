open Wsmodel
(* line protocol, one program per line:
   run <client> <limit> <readlimit> <encomp> <wcomp> <framelimit> K=<hex,..|-> I=<script;..|-> D=<hex|!,..|-> op op ...
     ops: p:HEX  w:T:HEX  c          script: items joined by '.', item = c<HEX> | e<HEX> | f<HEX>
   answer: per op "E=<err> EV=<ev,ev> ST=<cache>,<msg>,<mt>,<compress>,<expecting>,<closed>,<cclosed>" joined by " | "
   utf8 HEX -> 0/1 ; cc N -> 0/1 ; mask KEYHEX HEX -> HEX *)
let rec pos_of_int n = if n = 1 then XH else if n land 1 = 1 then XI (pos_of_int (n lsr 1)) else XO (pos_of_int (n lsr 1))
let n_of_int n = if n = 0 then N0 else Npos (pos_of_int n)
let rec int_of_pos = function XH -> 1 | XO p -> 2 * int_of_pos p | XI p -> 2 * int_of_pos p + 1
let int_of_n = function N0 -> 0 | Npos p -> int_of_pos p
let hexdig c = match c with '0'..'9' -> Char.code c - 48 | 'a'..'f' -> Char.code c - 87 | _ -> failwith "hex"
let byte_tab = Array.init 256 n_of_int
let bytes_of_hex s =
  if s = "-" || s = "" then [] else begin
    let n = String.length s / 2 in
    let r = ref [] in
    for i = n - 1 downto 0 do r := byte_tab.(16 * hexdig s.[2*i] + hexdig s.[2*i+1]) :: !r done;
    !r end
let hexchars = "0123456789abcdef"
let hex_of_bytes l =
  match l with [] -> "-" | _ ->
  let b = Buffer.create 1024 in
  List.iter (fun x -> let v = int_of_n x land 255 in Buffer.add_char b hexchars.[v lsr 4]; Buffer.add_char b hexchars.[v land 15]) l;
  Buffer.contents b
let b s = s = "1"
let split c s = if s = "-" || s = "" then [] else String.split_on_char c s
let after_eq s = String.sub s 2 (String.length s - 2)
let item s =
  let h = String.sub s 1 (String.length s - 1) in
  match s.[0] with 'c' -> RChunk (bytes_of_hex h) | 'e' -> REof (bytes_of_hex h) | 'f' -> RFail (bytes_of_hex h) | _ -> failwith "item"
let parse_op tok =
  match String.split_on_char ':' tok with
  | ["p"; d] -> OpParse (bytes_of_hex d)
  | ["w"; t; d] -> OpWrite (n_of_int (int_of_string t), bytes_of_hex d)
  | ["c"] -> OpCloseClean
  | _ -> failwith ("bad op " ^ tok)
let err_name = function
  | EFrag -> "frag" | ETooLarge -> "toolarge" | ECtlBig -> "ctlbig" | ERsv -> "rsv" | EReservedOp -> "ropcode"
  | ECtlFrag -> "ctlfrag" | ENested -> "nested" | EPanic -> "panic" | EInflate -> "inflate" | ETooLong -> "toolong"
  | EClosed -> "closed" | EWriteErr -> "writeerr" | EFuel -> "FUEL"
let ev_str = function
  | EvMsg (t, p) -> Printf.sprintf "m:%d:%s" (int_of_n t) (hex_of_bytes p)
  | EvPing p -> "pi:" ^ hex_of_bytes p
  | EvPong p -> "po:" ^ hex_of_bytes p
  | EvClose (c, r) -> Printf.sprintf "cl:%d:%s" (int_of_n c) (hex_of_bytes r)
  | EvWrite w -> "w:" ^ hex_of_bytes w
  | EvWriteFail -> "wf"
  | EvConnClose -> "cc"
let bs x = if x then "1" else "0"
let st_str s =
  Printf.sprintf "%d,%s,%d,%s,%s,%s,%s" (List.length s.cache)
    (match s.message with None -> "-" | Some m -> string_of_int (List.length m))
    (int_of_n s.msg_type) (bs s.compress) (bs s.expecting) (bs s.closed) (bs s.cclosed)
let res_str r =
  Printf.sprintf "E=%s EV=%s ST=%s" (match r.r_err with None -> "-" | Some e -> err_name e)
    (match r.r_events with [] -> "-" | l -> String.concat "," (List.map ev_str l)) (st_str r.r_state)

let () =
  try
    while true do
      let line = input_line stdin in
      match List.filter (fun s -> s <> "") (String.split_on_char ' ' line) with
      | "run" :: cl :: lim :: rl :: ec :: wc :: fl :: k :: i :: d :: ops ->
        let cfg = { is_client = b cl; msg_limit = n_of_int (int_of_string lim); read_limit = n_of_int (int_of_string rl);
                    enable_compression = b ec; write_compress = b wc; frame_limit = n_of_int (int_of_string fl) } in
        let o = { o_keys = List.map bytes_of_hex (split ',' (after_eq k));
                  o_infl = List.map (fun s -> List.map item (split '.' s)) (split ';' (after_eq i));
                  o_defl = List.map (fun s -> if s = "!" then None else Some (bytes_of_hex s)) (split ',' (after_eq d)) } in
        let rs = run_ops cfg init_state o (List.map parse_op ops) in
        Printf.printf "%s\n%!" (String.concat " | " (List.map res_str rs))
      | ["utf8"; h] -> Printf.printf "%s\n%!" (bs (utf8_valid (bytes_of_hex h)))
      | ["cc"; n] -> Printf.printf "%s\n%!" (bs (valid_close_code (n_of_int (int_of_string n))))
      | ["mask"; k; h] -> Printf.printf "%s\n%!" (hex_of_bytes (mask_from 0 (bytes_of_hex k) (bytes_of_hex h)))
      | _ -> Printf.printf "BADLINE\n%!"
    done
  with End_of_file -> ()
