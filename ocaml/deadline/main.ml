open Dlmodel
(* Line protocol of the deadline model.  Two copies of the state are kept: one whose eager runtime prefers the
   read timer on a tie, one that prefers the write timer (a combined deadline arms both timers for the same instant;
   which callback wins is the runtime's choice).  Times are decimal integers (the harness uses microseconds).

     init T0                      -> OK
     at T                         time passes up to the absolute time T (due timers fire at their deadline)
     sd T | srd T | swd T         SetDeadline / SetReadDeadline / SetWriteDeadline, T = 0 is the zero time
     ka r|w D                     Set<x>Deadline(now + D)
     wsup D | wsmsg D             websocket upgrade / message with KeepaliveTime D (0 = disabled)
     cdo T P                      ClientConn.Do with Timeout T; P = 1: another request is already pending
     cresp I                      response arrived, nothing else pending, IdleConnTimeout I (0 = clear)
     cresppend T TN               response arrived, next pending request was sent at TN, Timeout T
     w 0|1                        Write; 1 = the kernel took everything that was offered
     drain | close
   every command but init answers   <projection, read preferred> | <projection, write preferred>
   projection = cause T rArmed wArmed backlog result    cause: open user rto wto   result: ok closed *)
let rec pos_of_int n = if n = 1 then XH else if n land 1 = 1 then XI (pos_of_int (n lsr 1)) else XO (pos_of_int (n lsr 1))
let n_of_int n = if n <= 0 then N0 else Npos (pos_of_int n)
let rec int_of_pos = function XH -> 1 | XO p -> 2 * int_of_pos p | XI p -> 2 * int_of_pos p + 1
let int_of_n = function N0 -> 0 | Npos p -> int_of_pos p
let num s = n_of_int (int_of_string s)
let dir s = if s = "r" then DR else DW

let proj s r =
  let (c, t) = match closed_by s with
    | None -> ("open", 0)
    | Some (None, t) -> ("user", int_of_n t)
    | Some (Some DR, t) -> ("rto", int_of_n t)
    | Some (Some DW, t) -> ("wto", int_of_n t) in
  Printf.sprintf "%s %d %d %d %d %s" c t (if armed DR s then 1 else 0) (if armed DW s then 1 else 0)
    (if s.backlog then 1 else 0) (match r with ROk -> "ok" | RClosed -> "closed")

let () =
  let sr = ref (init (n_of_int 1)) and sw = ref (init (n_of_int 1)) in
  let apply ops =
    let one s = List.fold_left (fun (s, _) o -> (step s o, result s o)) (s, ROk) ops in
    let (a, ra) = one !sr and (b, rb) = one !sw in
    sr := a; sw := b;
    Printf.printf "%s | %s\n%!" (proj a ra) (proj b rb) in
  try
    while true do
      let line = input_line stdin in
      match String.split_on_char ' ' line with
      | ["init"; t0] -> sr := init (num t0); sw := init (num t0); Printf.printf "OK\n%!"
      | ["at"; t] ->
        let t = int_of_string t in
        let adv pref s = let d = t - int_of_n s.now in elapse pref (n_of_int (if d < 0 then 0 else d)) s in
        sr := adv DR !sr; sw := adv DW !sw;
        Printf.printf "%s | %s\n%!" (proj !sr ROk) (proj !sw ROk)
      | ["sd"; t] -> apply [SetDeadline (num t)]
      | ["srd"; t] -> apply [SetReadDeadline (num t)]
      | ["swd"; t] -> apply [SetWriteDeadline (num t)]
      | ["ka"; x; d] -> apply [KeepAlive (dir x, num d)]
      | ["wsup"; d] -> apply (ws_upgrade (num d))
      | ["wsmsg"; d] -> apply (ws_message (num d))
      | ["cdo"; t; p] -> apply (client_do (num t) (p = "1"))
      | ["cresp"; i] -> apply (client_response (num i))
      | ["cresppend"; t; tn] -> apply (client_response_pending (num t) (num tn))
      | ["w"; f] -> apply [Write (f = "1")]
      | ["drain"] -> apply [Drain]
      | ["close"] -> apply [Close]
      | _ -> failwith ("bad line " ^ line)
    done
  with End_of_file -> ()
