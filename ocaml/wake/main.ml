open Wakemodel
(* Line-protocol driver of the extracted wake-up model (coq/wake/WakeModel.v), see harness/cmd/wake.
   new <mode 0=LT 1=ET 2=ETOS> <room>   fresh connection, send buffer with <room> free bytes
   w <n> | sf <n> | reg | dial | dialnow | peer <k> | deliver <rd 0|1> <spur 0|1> | hout | done | rdisp <co 0|1> | rearm | close
   every line is answered by the state after the action:
   q wadded closed room reg mout armed eout nospace pw owed sent dial prd dout
   (dout = deliverable_out with spur = false) *)
let () =
  let md = ref LT in
  let st = ref (init 0) in
  let b = function "1" -> true | _ -> false in
  try
    while true do
      let line = input_line stdin in
      let toks = List.filter (fun s -> s <> "") (String.split_on_char ' ' line) in
      let i = int_of_string in
      let act a = st := step !md !st a in
      (match toks with
       | ["new"; m; r] ->
           md := (match m with "0" -> LT | "1" -> ET | _ -> ETOS);
           st := init (i r)
       | ["w"; n] -> act (AppWrite (i n))
       | ["sf"; n] -> act (AppSendfile (i n))
       | ["reg"] -> act Register
       | ["dial"] -> act RegisterDial
       | ["dialnow"] -> act RegisterDialNow
       | ["peer"; k] -> act (PeerRead (i k))
       | ["deliver"; rd; sp] -> act (Deliver (b rd, b sp))
       | ["hout"] -> act HandleOut
       | ["done"] -> act ConnDone
       | ["rdisp"; co] -> act (ReadDispatch (b co))
       | ["rearm"] -> act Rearm
       | ["close"] -> act Close
       | _ -> ());
      let o = obs !st in
      Printf.printf "%s %d\n%!" (String.concat " " (List.map string_of_int o))
        (if deliverable_out !md !st false then 1 else 0)
    done
  with End_of_file -> ()
