(* Proofs about the processor model: the close decision equals the reference rule, the header map is the multimap of the
   header lines, and the fold over the events of a well-formed message delivers exactly one request / response. *)
From Coq Require Import List NArith ZArith Bool Lia.
From HttpC Require Import HttpParser C07Reqs C07Dec C07Body C07Chunk C07Msg.
From HttpProcC Require Import Processor.
Import ListNotations.
Open Scope N_scope.

(* ---------- byte-string equality ---------- *)
Lemma beq_refl a : beq a a = true.
Proof. induction a as [|x a IH]; cbn; [reflexivity|]. now rewrite N.eqb_refl, IH. Qed.
Lemma beq_eq a : forall b, beq a b = true -> a = b.
Proof.
  induction a as [|x a IH]; intros [|y b] H; cbn in H; try discriminate; [reflexivity|].
  apply andb_true_iff in H as [H1 H2]. apply N.eqb_eq in H1. subst. f_equal. now apply IH.
Qed.
Lemma beq_sym a b : beq a b = beq b a.
Proof.
  destruct (beq a b) eqn:E.
  - apply beq_eq in E. subst. symmetry. apply beq_refl.
  - destruct (beq b a) eqn:E'; [|reflexivity]. apply beq_eq in E'. subst. now rewrite beq_refl in E.
Qed.

(* ---------- the close decision ---------- *)
Definition is_tok (t : bytes) (p : bytes) : bool := beq (lower (trim_sp p)) t.

Lemma scan_pieces_close ps : forall ka, fst (scan_pieces ps ka) = existsb (is_tok s_close) ps.
Proof.
  induction ps as [|p t IH]; intros ka; cbn [scan_pieces existsb]; [reflexivity|].
  unfold is_tok at 1. destruct (beq (lower (trim_sp p)) s_close); [reflexivity|]. now rewrite IH.
Qed.
Lemma scan_pieces_ka ps : forall ka, existsb (is_tok s_close) ps = false ->
  snd (scan_pieces ps ka) = ka || existsb (is_tok s_keepalive) ps.
Proof.
  induction ps as [|p t IH]; intros ka H; cbn [scan_pieces existsb] in *; [now rewrite orb_false_r|].
  apply orb_false_iff in H as [H1 H2]. unfold is_tok in H1 at 1. rewrite H1.
  rewrite IH by assumption. unfold is_tok at 2. now rewrite orb_assoc.
Qed.

Definition pieces (vals : list bytes) : list bytes := flat_map (split_comma []) vals.

Lemma scan_vals_close vals : forall ka, fst (scan_vals vals ka) = existsb (is_tok s_close) (pieces vals).
Proof.
  induction vals as [|vv t IH]; intros ka; cbn [scan_vals pieces flat_map existsb]; [reflexivity|].
  rewrite existsb_app. pose proof (scan_pieces_close (split_comma [] vv) ka) as Hc.
  destruct (scan_pieces (split_comma [] vv) ka) as [c ka'] eqn:E. cbn [fst] in Hc. rewrite <- Hc.
  destruct c; [reflexivity|]. cbn [orb]. apply IH.
Qed.
Lemma scan_vals_ka vals : forall ka, existsb (is_tok s_close) (pieces vals) = false ->
  snd (scan_vals vals ka) = ka || existsb (is_tok s_keepalive) (pieces vals).
Proof.
  induction vals as [|vv t IH]; intros ka H; cbn [scan_vals pieces flat_map existsb] in *; [now rewrite orb_false_r|].
  rewrite existsb_app in H. apply orb_false_iff in H as [H1 H2]. rewrite existsb_app.
  pose proof (scan_pieces_close (split_comma [] vv) ka) as Hc.
  pose proof (scan_pieces_ka (split_comma [] vv) ka H1) as Hk.
  destruct (scan_pieces (split_comma [] vv) ka) as [c ka'] eqn:E. cbn [fst snd] in Hc, Hk.
  rewrite H1 in Hc. subst c. rewrite (IH ka' H2), Hk. now rewrite orb_assoc.
Qed.

Lemma has_tok_pieces t vals : has_tok t vals = existsb (is_tok t) (pieces vals).
Proof.
  unfold has_tok, tokens, pieces. induction vals as [|vv r IH]; cbn [flat_map]; [reflexivity|].
  rewrite !existsb_app, IH. f_equal.
  induction (split_comma [] vv) as [|p ps IHp]; cbn [map existsb]; [reflexivity|].
  rewrite IHp. unfold is_tok. now rewrite beq_sym.
Qed.

Lemma close_decision_ref ma mi vals : close_decision ma mi vals = ref_close ma mi vals.
Proof.
  unfold close_decision, ref_close. destruct (ma <? 1); [reflexivity|].
  rewrite !has_tok_pieces.
  pose proof (scan_vals_close vals false) as Hc. pose proof (scan_vals_ka vals false) as Hk.
  destruct (scan_vals vals false) as [c ka] eqn:E. cbn [fst snd] in Hc, Hk. rewrite <- Hc.
  destruct c.
  - destruct (N.eqb ma 1 && N.eqb mi 0); reflexivity.
  - rewrite (Hk (eq_sym Hc)). reflexivity.
Qed.

(* ---------- the header map is the multimap of the lines ---------- *)
Definition line := (bytes * bytes)%type.
Definition values_of (k : bytes) (ls : list line) : list bytes := map snd (filter (fun kv => beq k (fst kv)) ls).
Definition add_lines (ls : list line) (m : mmap) : mmap := fold_left (fun m kv => mm_add (fst kv) (snd kv) m) ls m.

Lemma mm_get_add_same k v m : mm_get k (mm_add k v m) = mm_get k m ++ [v].
Proof.
  induction m as [|[k' vs] t IH]; cbn [mm_add mm_get]; [now rewrite beq_refl|].
  destruct (beq k k') eqn:E; cbn [mm_get]; rewrite E; [reflexivity|apply IH].
Qed.
Lemma mm_get_add_other k k1 v m : beq k k1 = false -> mm_get k (mm_add k1 v m) = mm_get k m.
Proof.
  intros H. induction m as [|[k' vs] t IH]; cbn [mm_add mm_get]; [now rewrite H|].
  destruct (beq k1 k') eqn:E; cbn [mm_get].
  - apply beq_eq in E. subst k'. now rewrite H.
  - destruct (beq k k'); [reflexivity|apply IH].
Qed.
Lemma mm_get_add_lines k ls : forall m, mm_get k (add_lines ls m) = mm_get k m ++ values_of k ls.
Proof.
  induction ls as [|[k1 v] t IH]; intros m; cbn [add_lines fold_left values_of filter map fst snd]; [now rewrite app_nil_r|].
  fold (add_lines t (mm_add k1 v m)). rewrite IH. fold (values_of k t).
  destruct (beq k k1) eqn:E.
  - apply beq_eq in E. subst k1. rewrite mm_get_add_same, <- app_assoc. reflexivity.
  - now rewrite mm_get_add_other.
Qed.
Lemma values_of_app k a b : values_of k (a ++ b) = values_of k a ++ values_of k b.
Proof. unfold values_of. now rewrite filter_app, map_app. Qed.

(* ---------- running the server processor ---------- *)
Section Srv.
  Variable uhost : bytes -> option bytes.

  Lemma srun_app s e1 : forall e2 acc,
    srun uhost s (e1 ++ e2) acc =
    match srun uhost s e1 acc with Some (s', acc') => srun uhost s' e2 acc' | None => None end.
  Proof.
    revert s. induction e1 as [|e t IH]; intros s e2 acc; cbn [app srun]; [reflexivity|].
    destruct (sstep uhost s e) as [[s' out]|]; [apply IH|reflexivity].
  Qed.

  Definition with_hdrs (h : mmap) (q : request) : request :=
    mkreq (q_method q) (q_uri q) (q_proto q) (q_major q) (q_minor q) h (q_clen q) (q_body q) (q_trailer q) (q_host q) (q_te q) (q_close q).
  Definition with_body (b : bytes) (q : request) : request :=
    mkreq (q_method q) (q_uri q) (q_proto q) (q_major q) (q_minor q) (q_hdrs q) (q_clen q) b (q_trailer q) (q_host q) (q_te q) (q_close q).
  Definition with_clen (n : Z) (q : request) : request :=
    mkreq (q_method q) (q_uri q) (q_proto q) (q_major q) (q_minor q) (q_hdrs q) n (q_body q) (q_trailer q) (q_host q) (q_te q) (q_close q).

  Definition hdr_events (ls : list line) : list event := map (fun kv => EHeader (fst kv) (snd kv)) ls.

  Lemma srun_headers ls : forall q h acc,
    srun uhost (SReq q h) (hdr_events ls) acc = Some (SReq (with_hdrs (add_lines ls (q_hdrs q)) q) h, acc).
  Proof.
    induction ls as [|[k v] t IH]; intros q h acc; cbn [hdr_events map srun sstep fst snd add_lines fold_left].
    - destruct q; reflexivity.
    - rewrite app_nil_r. fold (hdr_events t). rewrite IH. reflexivity.
  Qed.

  Lemma srun_bodies cs : forall q h acc,
    srun uhost (SReq q h) (map EBody cs) acc = Some (SReq (with_body (q_body q ++ concat cs) q) h, acc).
  Proof.
    induction cs as [|c t IH]; intros q h acc; cbn [map srun sstep concat].
    - rewrite app_nil_r. destruct q; reflexivity.
    - rewrite app_nil_r, IH. cbn [with_body q_body]. now rewrite <- app_assoc.
  Qed.
End Srv.

(* ---------- what a well-formed message means for the handler (the reference's view) ---------- *)
Definition framing_lines (fr : framing) : list line :=
  match fr with
  | FNone => []
  | FLen b => [(k_CL, C07Dec.dec (N.of_nat (length b)))]
  | FChunked _ => [(k_TE, s_chunked)]
  end.
Definition lines_of (hs : list hdr) (fr : framing) : list line :=
  map (fun h => (canonical (hname h), hvalue h)) hs ++ framing_lines fr.
Definition clen_of (fr : framing) : Z :=
  match fr with FNone => (-1)%Z | FLen b => Z.of_nat (length b) | FChunked _ => (-1)%Z end.
Definition body_of (fr : framing) : bytes :=
  match fr with FNone => [] | FLen b => b | FChunked cs => concat cs end.
Definition first_or_empty (l : list bytes) : bytes := match l with v :: _ => v | [] => [] end.

(* the request the handler must see for message m, field by field; header maps through their lookups *)
Definition delivered_ok (m : msg) (ma mi : N) (uh : bytes) (q : request) : Prop :=
  let r := mreq m in
  let ls := lines_of (rhdrs r) (mbody m) in
  q_method q = rmethod r /\ q_uri q = rtarget r /\ q_proto q = rproto r /\ q_major q = ma /\ q_minor q = mi /\
  (forall k, mm_get k (q_hdrs q) = values_of k ls) /\
  q_clen q = clen_of (mbody m) /\
  q_body q = body_of (mbody m) /\
  q_trailer q = [] /\
  q_host q = (if isnil uh then first_or_empty (values_of k_Host ls) else uh) /\
  q_te q = values_of k_TE ls /\
  q_close q = ref_close ma mi (values_of k_Connection ls).

Lemma rest_events_shape hs fr :
  rest_events hs fr =
  hdr_events (lines_of hs fr) ++ [EContentLength (clen_of fr)] ++
  match fr with FNone => [] | FLen b => body_events b | FChunked cs => map EBody cs end ++ [EComplete].
Proof.
  unfold rest_events, lines_of, hdr_events. rewrite map_app, map_map. cbn [fst snd].
  destruct fr as [|b|cs]; cbn [framing_lines map app clen_of fst snd]; rewrite <- ?app_assoc; reflexivity.
Qed.

Lemma srun_body_events uhost b q h acc :
  srun uhost (SReq q h) (body_events b) acc = Some (SReq (with_body (q_body q ++ b) q) h, acc).
Proof.
  destruct b as [|c t]; cbn [body_events srun sstep].
  - rewrite app_nil_r. destruct q; reflexivity.
  - now rewrite app_nil_r.
Qed.

Ltac simp_q := cbn [q_method q_uri q_proto q_major q_minor q_hdrs q_clen q_body q_trailer q_host q_te q_close
                      empty_req with_hdrs with_body with_clen].

Theorem srun_message uhost (m : msg) ma mi uh :
  parse_version (rproto (mreq m)) = Some (ma, mi) ->
  uhost (rtarget (mreq m)) = Some uh ->
  forall acc, exists q, srun uhost SIdle (meaning_msg m) acc = Some (SIdle, acc ++ [q]) /\ delivered_ok m ma mi uh q.
Proof.
  intros Hv Hu acc. unfold meaning_msg. cbv zeta.
  cbn [app srun sstep]. rewrite Hu. cbn [srun sstep]. rewrite Hv. rewrite !app_nil_r. simp_q.
  rewrite rest_events_shape.
  set (ls := lines_of (rhdrs (mreq m)) (mbody m)).
  rewrite srun_app, srun_headers. simp_q. cbn [app srun sstep]. rewrite app_nil_r. simp_q.
  rewrite srun_app.
  match goal with |- context[srun uhost (SReq ?q uh) _ acc] => set (q1 := q) end.
  assert (Hb : srun uhost (SReq q1 uh)
            match mbody m with FNone => [] | FLen b => body_events b | FChunked cs => map EBody cs end acc
            = Some (SReq (with_body (body_of (mbody m)) q1) uh, acc)).
  { destruct (mbody m) as [|b|cs]; cbn [body_of].
    - reflexivity.
    - rewrite srun_body_events. reflexivity.
    - rewrite srun_bodies. reflexivity. }
  rewrite Hb. cbn [srun sstep].
  eexists. split; [reflexivity|].
  subst q1. unfold delivered_ok, finish_req. cbv zeta. simp_q.
  assert (G : forall k, mm_get k (add_lines ls []) = values_of k ls) by (intros k; now rewrite mm_get_add_lines).
  repeat split; try reflexivity.
  - exact G.
  - unfold mm_first. rewrite G. reflexivity.
  - apply G.
  - rewrite G. apply close_decision_ref.
Qed.

(* pipelined messages: one request per message, in order *)
Theorem srun_messages uhost (ms : list msg) :
  Forall (fun m => exists ma mi uh, parse_version (rproto (mreq m)) = Some (ma, mi) /\ uhost (rtarget (mreq m)) = Some uh) ms ->
  forall acc, exists qs, srun uhost SIdle (concat (map meaning_msg ms)) acc = Some (SIdle, acc ++ qs) /\
    Forall2 (fun m q => exists ma mi uh, parse_version (rproto (mreq m)) = Some (ma, mi) /\
                                          uhost (rtarget (mreq m)) = Some uh /\ delivered_ok m ma mi uh q) ms qs.
Proof.
  induction ms as [|m t IH]; intros H acc; cbn [map concat].
  - exists []. split; [now rewrite app_nil_r|constructor].
  - inversion H as [|? ? (ma & mi & uh & Hv & Hu) Ht]; subst.
    destruct (srun_message uhost m ma mi uh Hv Hu acc) as (q & Hr & Hq).
    destruct (IH Ht (acc ++ [q])) as (qs & Hrs & Hqs).
    exists (q :: qs). split.
    + rewrite srun_app, Hr, Hrs. now rewrite <- app_assoc.
    + constructor; [|exact Hqs]. exists ma, mi, uh. auto.
Qed.

(* ---------- client side ---------- *)
Lemma crun_app s e1 : forall e2 acc,
  crun s (e1 ++ e2) acc = match crun s e1 acc with Some (s', acc') => crun s' e2 acc' | None => None end.
Proof.
  revert s. induction e1 as [|e t IH]; intros s e2 acc; cbn [app crun]; [reflexivity|].
  destruct (cstep s e) as [[s' out]|]; [apply IH|reflexivity].
Qed.

Definition rwith_hdrs (h : mmap) (r : response) : response :=
  mkres (s_proto r) (s_major r) (s_minor r) (s_code r) (s_status r) h (s_clen r) (s_body r) (s_trailer r).
Definition rwith_body (b : bytes) (r : response) : response :=
  mkres (s_proto r) (s_major r) (s_minor r) (s_code r) (s_status r) (s_hdrs r) (s_clen r) b (s_trailer r).
Definition rwith_clen (n : Z) (r : response) : response :=
  mkres (s_proto r) (s_major r) (s_minor r) (s_code r) (s_status r) (s_hdrs r) n (s_body r) (s_trailer r).

Lemma crun_headers ls : forall r acc,
  crun (CRes r) (hdr_events ls) acc = Some (CRes (rwith_hdrs (add_lines ls (s_hdrs r)) r), acc).
Proof.
  induction ls as [|[k v] t IH]; intros r acc; cbn [hdr_events map crun cstep fst snd add_lines fold_left].
  - destruct r; reflexivity.
  - rewrite app_nil_r. fold (hdr_events t). rewrite IH. reflexivity.
Qed.
Lemma crun_bodies cs : forall r acc,
  crun (CRes r) (map EBody cs) acc = Some (CRes (rwith_body (s_body r ++ concat cs) r), acc).
Proof.
  induction cs as [|c t IH]; intros r acc; cbn [map crun cstep concat].
  - rewrite app_nil_r. destruct r; reflexivity.
  - rewrite app_nil_r, IH. cbn [rwith_body s_body]. now rewrite <- app_assoc.
Qed.
Lemma crun_body_events b r acc :
  crun (CRes r) (body_events b) acc = Some (CRes (rwith_body (s_body r ++ b) r), acc).
Proof.
  destruct b as [|c t]; cbn [body_events crun cstep].
  - rewrite app_nil_r. destruct r; reflexivity.
  - now rewrite app_nil_r.
Qed.

Definition response_ok (r : resp) (ma mi : N) (s : response) : Prop :=
  let ls := lines_of (shdrs r) (sbody r) in
  s_proto s = sproto r /\ s_major s = ma /\ s_minor s = mi /\ s_code s = Z.of_N (scode r) /\ s_status s = sword r /\
  (forall k, mm_get k (s_hdrs s) = values_of k ls) /\
  s_clen s = clen_of (sbody r) /\ s_body s = body_of (sbody r) /\ s_trailer s = [].

Ltac simp_r := cbn [s_proto s_major s_minor s_code s_status s_hdrs s_clen s_body s_trailer rwith_hdrs rwith_body rwith_clen].

Theorem crun_response (r : resp) ma mi :
  parse_version (sproto r) = Some (ma, mi) ->
  forall acc, exists s, crun CIdle (meaning_resp r) acc = Some (CIdle, acc ++ [s]) /\ response_ok r ma mi s.
Proof.
  intros Hv acc. unfold meaning_resp.
  cbn [app crun cstep]. rewrite Hv. cbn [crun cstep]. rewrite !app_nil_r. simp_r.
  rewrite rest_events_shape.
  set (ls := lines_of (shdrs r) (sbody r)).
  rewrite crun_app, crun_headers. simp_r. cbn [app crun cstep]. rewrite app_nil_r. simp_r.
  rewrite crun_app.
  match goal with |- context[crun (CRes ?q) _ acc] => set (q1 := q) end.
  assert (Hb : crun (CRes q1)
            match sbody r with FNone => [] | FLen b => body_events b | FChunked cs => map EBody cs end acc
            = Some (CRes (rwith_body (body_of (sbody r)) q1), acc)).
  { destruct (sbody r) as [|b|cs]; cbn [body_of].
    - reflexivity.
    - rewrite crun_body_events. reflexivity.
    - rewrite crun_bodies. reflexivity. }
  rewrite Hb. cbn [crun cstep].
  eexists. split; [reflexivity|].
  subst q1. unfold response_ok. cbv zeta. simp_r.
  repeat split; try reflexivity.
  intros k. now rewrite mm_get_add_lines.
Qed.

Theorem crun_responses (rs : list resp) :
  Forall (fun r => exists ma mi, parse_version (sproto r) = Some (ma, mi)) rs ->
  forall acc, exists ss, crun CIdle (concat (map meaning_resp rs)) acc = Some (CIdle, acc ++ ss) /\
    Forall2 (fun r s => exists ma mi, parse_version (sproto r) = Some (ma, mi) /\ response_ok r ma mi s) rs ss.
Proof.
  induction rs as [|r t IH]; intros H acc; cbn [map concat].
  - exists []. split; [now rewrite app_nil_r|constructor].
  - inversion H as [|? ? (ma & mi & Hv) Ht]; subst.
    destruct (crun_response r ma mi Hv acc) as (s & Hr & Hs).
    destruct (IH Ht (acc ++ [s])) as (ss & Hrs & Hss).
    exists (s :: ss). split.
    + rewrite crun_app, Hr, Hrs. now rewrite <- app_assoc.
    + constructor; [|exact Hss]. exists ma, mi. auto.
Qed.
