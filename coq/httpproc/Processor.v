(* Executable model of nbhttp's ServerProcessor and ClientProcessor (nbhttp/processor.go): the fold of the parser's
   callbacks (the `event`s of HttpParser.v) into the *http.Request the handler sees / the *http.Response the client
   callback sees.  What is shared with the reference by construction (url.ParseRequestURI, http.ParseHTTPVersion) is
   not re-implemented bit for bit: the request target's URL host is an oracle argument (`uhost`), the version parser is
   transcribed (it is a dozen lines of net/http).

   Header maps: Go's http.Header is an unordered map from key to the list of values in arrival order.  The model keeps
   an association list in first-arrival order of the keys; all statements about it go through `mm_get`.           *)
From Coq Require Import List NArith ZArith Bool.
From HttpC Require Import HttpParser.
Import ListNotations.
Open Scope N_scope.

Definition mmap := list (bytes * list bytes).

Fixpoint mm_add (k v : bytes) (m : mmap) : mmap :=
  match m with
  | [] => [(k, [v])]
  | (k', vs) :: t => if beq k k' then (k', vs ++ [v]) :: t else (k', vs) :: mm_add k v t
  end.
Fixpoint mm_get (k : bytes) (m : mmap) : list bytes :=
  match m with
  | [] => []
  | (k', vs) :: t => if beq k k' then vs else mm_get k t
  end.
(* Header.Get: the first value or "" *)
Definition mm_first (k : bytes) (m : mmap) : bytes := match mm_get k m with v :: _ => v | [] => [] end.

Definition k_Host := [72;111;115;116].
Definition k_Connection := [67;111;110;110;101;99;116;105;111;110].
Definition s_close := [99;108;111;115;101].
Definition s_keepalive := [107;101;101;112;45;97;108;105;118;101].
Definition s_HTTP := [72;84;84;80;47].   (* "HTTP/" *)
Definition DOT := 46.

(* http.ParseHTTPVersion: "HTTP/1.1" and "HTTP/1.0" directly, otherwise "HTTP/" digit "." digit, eight bytes *)
Definition parse_version (v : bytes) : option (N * N) :=
  match v with
  | [h; t1; t2; p; s; a; d; b] =>
      if beq [h; t1; t2; p; s] s_HTTP && N.eqb d DOT && is_num a && is_num b then Some (a - 48, b - 48) else None
  | _ => None
  end.

(* strings.Trim(v, " ") and strings.ToLower on ASCII *)
Definition trim_sp (l : bytes) : bytes := trim_with is_sp l.
Definition lower (l : bytes) : bytes := map to_lower l.

(* the CONNECTION_VALUES loop of ServerProcessor.OnComplete, with its `break` *)
Fixpoint scan_pieces (ps : list bytes) (ka : bool) : bool * bool :=   (* (hasClose, keepAlive) *)
  match ps with
  | [] => (false, ka)
  | p :: t => let w := lower (trim_sp p) in
              if beq w s_close then (true, ka) else scan_pieces t (ka || beq w s_keepalive)
  end.
Fixpoint scan_vals (vals : list bytes) (ka : bool) : bool * bool :=
  match vals with
  | [] => (false, ka)
  | vv :: t => let '(c, ka') := scan_pieces (split_comma [] vv) ka in
               if c then (true, ka') else scan_vals t ka'
  end.
Definition close_decision (major minor : N) (conn_vals : list bytes) : bool :=
  if major <? 1 then true
  else let '(hasClose, keepAlive) := scan_vals conn_vals false in
       if N.eqb major 1 && N.eqb minor 0 then hasClose || negb keepAlive else hasClose.

Record request := mkreq {
  q_method : bytes; q_uri : bytes; q_proto : bytes; q_major : N; q_minor : N;
  q_hdrs : mmap; q_clen : Z; q_body : bytes; q_trailer : mmap;
  q_host : bytes; q_te : list bytes; q_close : bool }.

Record response := mkres {
  s_proto : bytes; s_major : N; s_minor : N; s_code : Z; s_status : bytes;
  s_hdrs : mmap; s_clen : Z; s_body : bytes; s_trailer : mmap }.

(* ---------- server side ---------- *)
Inductive sstate := SIdle | SReq (q : request) (urlhost : bytes).

Definition empty_req (m : bytes) : request := mkreq m [] [] 0 0 [] 0%Z [] [] [] [] false.

Definition finish_req (q : request) (urlhost : bytes) : request :=
  let host := if isnil urlhost then mm_first k_Host (q_hdrs q) else urlhost in
  mkreq (q_method q) (q_uri q) (q_proto q) (q_major q) (q_minor q) (q_hdrs q) (q_clen q) (q_body q) (q_trailer q)
        host (mm_get k_TE (q_hdrs q)) (close_decision (q_major q) (q_minor q) (mm_get k_Connection (q_hdrs q))).

Section Server.
  (* url.ParseRequestURI(target).Host, None = the target does not parse (OnURL returns the error, Parse fails) *)
  Variable uhost : bytes -> option bytes.

  (* None = the processor made the parser fail (OnURL / OnProto error) *)
  Definition sstep (s : sstate) (e : event) : option (sstate * list request) :=
    match e, s with
    | EMethod m, SIdle => Some (SReq (empty_req m) [], [])
    | EMethod m, SReq q h => Some (SReq (mkreq m (q_uri q) (q_proto q) (q_major q) (q_minor q) (q_hdrs q) (q_clen q) (q_body q) (q_trailer q) (q_host q) (q_te q) (q_close q)) h, [])
    | EURL u, SReq q _ =>
        match uhost u with
        | Some h => Some (SReq (mkreq (q_method q) u (q_proto q) (q_major q) (q_minor q) (q_hdrs q) (q_clen q) (q_body q) (q_trailer q) (q_host q) (q_te q) (q_close q)) h, [])
        | None => None
        end
    | EProto v, SReq q h =>
        match parse_version v with
        | Some (ma, mi) => Some (SReq (mkreq (q_method q) (q_uri q) v ma mi (q_hdrs q) (q_clen q) (q_body q) (q_trailer q) (q_host q) (q_te q) (q_close q)) h, [])
        | None => None
        end
    | EHeader k v, SReq q h => Some (SReq (mkreq (q_method q) (q_uri q) (q_proto q) (q_major q) (q_minor q) (mm_add k v (q_hdrs q)) (q_clen q) (q_body q) (q_trailer q) (q_host q) (q_te q) (q_close q)) h, [])
    | EContentLength n, SReq q h => Some (SReq (mkreq (q_method q) (q_uri q) (q_proto q) (q_major q) (q_minor q) (q_hdrs q) n (q_body q) (q_trailer q) (q_host q) (q_te q) (q_close q)) h, [])
    | EBody b, SReq q h => Some (SReq (mkreq (q_method q) (q_uri q) (q_proto q) (q_major q) (q_minor q) (q_hdrs q) (q_clen q) (q_body q ++ b) (q_trailer q) (q_host q) (q_te q) (q_close q)) h, [])
    | ETrailer k v, SReq q h => Some (SReq (mkreq (q_method q) (q_uri q) (q_proto q) (q_major q) (q_minor q) (q_hdrs q) (q_clen q) (q_body q) (mm_add k v (q_trailer q)) (q_host q) (q_te q) (q_close q)) h, [])
    | EComplete, SReq q h => Some (SIdle, [finish_req q h])
    | EComplete, SIdle => Some (SIdle, [])          (* `if request == nil { return }` *)
    | EStatus _ _, _ => Some (s, [])                (* ServerProcessor.OnStatus is empty *)
    | _, SIdle => None                              (* a callback other than OnMethod with no request: nil dereference; never produced by the parser *)
    end.

  Fixpoint srun (s : sstate) (evs : list event) (acc : list request) : option (sstate * list request) :=
    match evs with
    | [] => Some (s, acc)
    | e :: t => match sstep s e with
                | Some (s', out) => srun s' t (acc ++ out)
                | None => None
                end
    end.
End Server.

(* ---------- client side ---------- *)
Inductive cstate := CIdle | CRes (r : response).

Definition cstep (s : cstate) (e : event) : option (cstate * list response) :=
  match e, s with
  | EMethod _, _ | EURL _, _ => Some (s, [])
  | EProto v, _ =>
      match parse_version v with
      | Some (ma, mi) =>
          match s with
          | CIdle => Some (CRes (mkres v ma mi 0%Z [] [] 0%Z [] []), [])
          | CRes r => Some (CRes (mkres v ma mi (s_code r) (s_status r) (s_hdrs r) (s_clen r) (s_body r) (s_trailer r)), [])
          end
      | None => None
      end
  | EStatus c t, CRes r => Some (CRes (mkres (s_proto r) (s_major r) (s_minor r) c t (s_hdrs r) (s_clen r) (s_body r) (s_trailer r)), [])
  | EHeader k v, CRes r => Some (CRes (mkres (s_proto r) (s_major r) (s_minor r) (s_code r) (s_status r) (mm_add k v (s_hdrs r)) (s_clen r) (s_body r) (s_trailer r)), [])
  | EContentLength n, CRes r => Some (CRes (mkres (s_proto r) (s_major r) (s_minor r) (s_code r) (s_status r) (s_hdrs r) n (s_body r) (s_trailer r)), [])
  | EBody b, CRes r => Some (CRes (mkres (s_proto r) (s_major r) (s_minor r) (s_code r) (s_status r) (s_hdrs r) (s_clen r) (s_body r ++ b) (s_trailer r)), [])
  | ETrailer k v, CRes r => Some (CRes (mkres (s_proto r) (s_major r) (s_minor r) (s_code r) (s_status r) (s_hdrs r) (s_clen r) (s_body r) (mm_add k v (s_trailer r))), [])
  | EComplete, CRes r => Some (CIdle, [r])
  | _, CIdle => None
  end.

Fixpoint crun (s : cstate) (evs : list event) (acc : list response) : option (cstate * list response) :=
  match evs with
  | [] => Some (s, acc)
  | e :: t => match cstep s e with
              | Some (s', out) => crun s' t (acc ++ out)
              | None => None
              end
  end.

(* ---------- the reference's rules, stated declaratively (net/http: shouldClose, httpguts.HeaderValuesContainsToken) ---------- *)
Definition tokens (vals : list bytes) : list bytes :=
  flat_map (fun vv => map (fun p => lower (trim_sp p)) (split_comma [] vv)) vals.
Definition has_tok (t : bytes) (vals : list bytes) : bool := existsb (beq t) (tokens vals).
Definition ref_close (major minor : N) (conn_vals : list bytes) : bool :=
  if major <? 1 then true
  else if N.eqb major 1 && N.eqb minor 0 then has_tok s_close conn_vals || negb (has_tok s_keepalive conn_vals)
  else has_tok s_close conn_vals.
