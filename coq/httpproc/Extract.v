(* Extraction of the parser model together with the processor model (trusted base: Extraction + ExtrOcamlBasic; N, Z stay Coq datatypes). *)
From Coq Require Import Extraction ExtrOcamlBasic.
From HttpC Require Import HttpParser.
From HttpProcC Require Import Processor.
Extraction "pmodel.ml" feed init srun crun SIdle CIdle.
