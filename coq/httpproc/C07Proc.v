(* Property C07, the part behind the parser: what the HANDLER sees.  The processor model (Processor.v: the fold of the
   parser callbacks into *http.Request, as nbhttp/processor.go does it) applied to the events that the parser model emits
   for a well-formed message delivers exactly one request, and that request is, field by field, what the reference
   (net/http) extracts: method, target, version, the header multimap (every lookup), Content-Length, body bytes, host,
   Transfer-Encoding and the connection-close decision by net/http's rule (shouldClose).  Nothing but statements here. *)
From Coq Require Import List NArith ZArith Bool.
From HttpC Require Import HttpParser C07Reqs C07Dec C07Body C07Chunk C07Msg C07.
From HttpProcC Require Import Processor ProcProofs.
Import ListNotations.
Open Scope N_scope.

(* the loop with its `break` in ServerProcessor.OnComplete computes net/http's shouldClose *)
Theorem c07_close_decision_is_reference ma mi conn_vals :
  close_decision ma mi conn_vals = ref_close ma mi conn_vals.
Proof. exact (close_decision_ref ma mi conn_vals). Qed.

(* the header map built by OnHeader is the multimap of the lines: every lookup returns the values of that key in arrival order *)
Theorem c07_header_map_is_multimap k lines m0 :
  mm_get k (add_lines lines m0) = mm_get k m0 ++ values_of k lines.
Proof. exact (mm_get_add_lines k lines m0). Qed.

(* one well-formed request (no body / Content-Length body of any bytes / chunked body), from any boundary state of the
   parser, followed by anything: the handler sees exactly one request, equal to the reference's view *)
Theorem c07_delivered_request_partial uhost m ma mi uh p rest :
  wf_msg m -> boundary p ->
  parse_version (rproto (mreq m)) = Some (ma, mi) -> uhost (rtarget (mreq m)) = Some uh ->
  exists p' evs q, boundary p' /\
    run_bytes p (render_msg m ++ rest) [] = run_bytes p' rest evs /\
    srun uhost SIdle evs [] = Some (SIdle, [q]) /\ delivered_ok m ma mi uh q.
Proof.
  intros Hw Hb Hv Hu.
  destruct (c07_roundtrip_msg_partial m p rest Hw Hb) as (p' & Hb' & Hr).
  destruct (srun_message uhost m ma mi uh Hv Hu []) as (q & Hs & Hq).
  exists p', (meaning_msg m), q. auto.
Qed.

(* pipelined requests: one delivered request per message, in order, each equal to the reference's view *)
Theorem c07_delivered_pipeline_partial uhost ms p rest :
  Forall wf_msg ms -> boundary p ->
  Forall (fun m => exists ma mi uh, parse_version (rproto (mreq m)) = Some (ma, mi) /\ uhost (rtarget (mreq m)) = Some uh) ms ->
  exists p' evs qs, boundary p' /\
    run_bytes p (concat (map render_msg ms) ++ rest) [] = run_bytes p' rest evs /\
    srun uhost SIdle evs [] = Some (SIdle, qs) /\
    Forall2 (fun m q => exists ma mi uh, parse_version (rproto (mreq m)) = Some (ma, mi) /\
                                          uhost (rtarget (mreq m)) = Some uh /\ delivered_ok m ma mi uh q) ms qs.
Proof.
  intros Hw Hb Hv.
  destruct (c07_pipelined_msg_partial ms p rest [] Hw Hb) as (p' & Hb' & Hr).
  destruct (srun_messages uhost ms Hv []) as (qs & Hs & Hq).
  exists p', (concat (map meaning_msg ms)), qs. auto.
Qed.


(* client side: one well-formed response (and a pipeline of them): the client callback sees exactly one response per message
   with the reference's status code, header multimap, Content-Length and body *)
Theorem c07_delivered_response_partial r ma mi p rest :
  wf_resp r -> boundaryc true p -> parse_version (sproto r) = Some (ma, mi) ->
  exists p' evs s, boundaryc true p' /\
    run_bytes p (render_resp r ++ rest) [] = run_bytes p' rest evs /\
    crun CIdle evs [] = Some (CIdle, [s]) /\ response_ok r ma mi s.
Proof.
  intros Hw Hb Hv.
  destruct (c07_roundtrip_resp_partial r p rest Hw Hb) as (p' & Hb' & Hr).
  destruct (crun_response r ma mi Hv []) as (s & Hs & Hq).
  exists p', (meaning_resp r), s. auto.
Qed.

Theorem c07_delivered_responses_partial rs p rest :
  Forall wf_resp rs -> boundaryc true p ->
  Forall (fun r => exists ma mi, parse_version (sproto r) = Some (ma, mi)) rs ->
  exists p' evs ss, boundaryc true p' /\
    run_bytes p (concat (map render_resp rs) ++ rest) [] = run_bytes p' rest evs /\
    crun CIdle evs [] = Some (CIdle, ss) /\
    Forall2 (fun r s => exists ma mi, parse_version (sproto r) = Some (ma, mi) /\ response_ok r ma mi s) rs ss.
Proof.
  intros Hw Hb Hv.
  destruct (c07_pipelined_resp_partial rs p rest [] Hw Hb) as (p' & Hb' & Hr).
  destruct (crun_responses rs Hv []) as (ss & Hs & Hq).
  exists p', (concat (map meaning_resp rs)), ss. auto.
Qed.

(* non-vacuity: "POST /a HTTP/1.0", Host, two Connection lines (the second one says Keep-Alive), 3-byte body: one request,
   host h, body abc, kept alive; with "x, CLOSE" instead it is closed *)
Definition ex_hdr (n v : bytes) : hdr := {| hname := n; hows := 1; hvalue := v |}.
Definition ex_msg (conn2 : bytes) : msg :=
  {| mreq := {| rmethod := m_POST; rtarget := [47; 97]; rproto := [72;84;84;80;47;49;46;48];
                rhdrs := [ex_hdr [104;111;115;116] [104]; ex_hdr k_Connection [120]; ex_hdr [99;111;110;110;101;99;116;105;111;110] conn2] |};
     mbody := FLen [97; 98; 99] |}.
Definition ex_run (conn2 : bytes) :=
  let '(_, evs, _) := run_bytes (init false) (render_msg (ex_msg conn2)) [] in
  match srun (fun _ => Some []) SIdle evs [] with
  | Some (SIdle, [q]) => Some (q_host q, q_body q, q_close q, mm_get k_Connection (q_hdrs q))
  | _ => None
  end.
Example c07_delivered_example :
  ex_run [75;101;101;112;45;65;108;105;118;101] = Some ([104], [97;98;99], false, [[120]; [75;101;101;112;45;65;108;105;118;101]]) /\
  ex_run [120;44;32;67;76;79;83;69] = Some ([104], [97;98;99], true, [[120]; [120;44;32;67;76;79;83;69]]) /\
  ex_run [120] = Some ([104], [97;98;99], true, [[120]; [120]]).
Proof. repeat split; vm_compute; reflexivity. Qed.

Print Assumptions c07_close_decision_is_reference.
Print Assumptions c07_header_map_is_multimap.
Print Assumptions c07_delivered_request_partial.
Print Assumptions c07_delivered_pipeline_partial.
Print Assumptions c07_delivered_response_partial.
Print Assumptions c07_delivered_responses_partial.
