(* every operation of the response writer preserves the ownership invariant I *)
From Coq Require Import List Arith NArith Bool Lia Permutation.
Import ListNotations.
Require Import BufOwner BufOwnerProofs RespAlloc RespAllocProofs.
Open Scope nat_scope.

Lemma I_same r r' : same r r' -> I r -> I r'.
Proof. intros (Ea & Eb & Ec). unfold I, owners. now rewrite Ea, Eb, Ec. Qed.

(* the owners, by cases *)
Lemma owners_eq r b bb : buffer r = b -> bodybuf r = bb -> owners r = oid b ++ oid bb.
Proof. intros <- <-. reflexivity. Qed.

Ltac inv_malloc E O :=
  let H := fresh "O" in let Eb := fresh "Eb" in let Ec := fresh "Ec" in
  destruct (malloc_inv _ _ _ _ E O) as (H & Eb & Ec).
Ltac inv_append E O :=
  let H := fresh "O" in let Eb := fresh "Eb" in let Ec := fresh "Ec" in
  destruct (append_inv _ _ _ _ _ E O) as (H & Eb & Ec).

Lemma I_encode_head r : I r -> I (encode_head r).
Proof.
  intros H. unfold encode_head. destruct (headEncoded r); [assumption|].
  destruct (malloc r) as [r1 id] eqn:E1. destruct (append r1 id) as [r2 id'] eqn:E2.
  assert (O0 : Own (al r) (oid (bodybuf r))).
  { apply (Own_weaken _ _ _ H).
    - destruct (bodybuf r) as [[? ?]|]; cbn; repeat constructor; cbn; tauto.
    - unfold owners. intros x Hx. apply in_or_app. now right. }
  destruct (malloc_inv _ _ _ _ E1 O0) as (O1 & Eb1 & Ec1).
  destruct (append_inv _ _ _ _ _ E2 O1) as (O2 & Eb2 & Ec2).
  unfold I, owners. cbn [al buffer bodybuf oid app]. now rewrite Ec2, Ec1.
Qed.

(* encode_head leaves the body buffer alone and always yields a head buffer ... unless it ran before *)
Lemma encode_head_bodybuf r : bodybuf (encode_head r) = bodybuf r.
Proof.
  unfold encode_head. destruct (headEncoded r); [reflexivity|].
  destruct (malloc r) as [r1 id] eqn:E1. destruct (append r1 id) as [r2 id'] eqn:E2. cbn [bodybuf].
  unfold malloc in E1. destruct (a_malloc (al r)). injection E1 as <- <-.
  unfold append in E2. destruct (a_append _ _). injection E2 as <- <-. reflexivity.
Qed.

(* bookkeeping after a primitive: rewrite the unchanged-field equations, normalise projections *)
Ltac norm :=
  cbn [fst snd al buffer bodybuf set_buffer set_bodybuf set_al free bump set_written oid app] in *.
Ltac use_malloc E O := let O' := fresh "O" in let Eb := fresh "Eb" in let Ec := fresh "Ec" in
  destruct (malloc_inv _ _ _ _ E O) as (O' & Eb & Ec); norm.
Ltac use_append E O := let O' := fresh "O" in let Eb := fresh "Eb" in let Ec := fresh "Ec" in
  destruct (append_inv _ _ _ _ _ E O) as (O' & Eb & Ec); norm.
Ltac use_cwrite E O := let O' := fresh "O" in let Eb := fresh "Eb" in let Ec := fresh "Ec" in
  destruct (cwrite_inv _ _ _ _ _ _ E O) as (O' & Eb & Ec); [try (intros ? [= <-]; cbn; tauto); try discriminate|norm].
Ltac fin := unfold I, owners; norm; repeat match goal with H : bodybuf _ = _ |- _ => rewrite H end;
            repeat match goal with H : buffer _ = _ |- _ => rewrite H end; norm; try assumption.

Lemma I_write_chunk r0 l : I r0 -> I (fst (write_chunk r0 l)).
Proof.
  intros H0. unfold write_chunk.
  assert (H := I_encode_head r0 H0).
  generalize dependent (encode_head r0). clear H0. intros r H.
  unfold I, owners in H.
  generalize (len (hex l)). intros ll.
  destruct (buffer r) as [[id b]|] eqn:Eb; norm; cbv beta iota zeta.
  - destruct (_ <? MAXP)%N.
    + destruct (append (set_buffer r None) id) as [r1 id1] eqn:E1. use_append E1 H. fin.
    + destruct (append (set_buffer r None) id) as [r1 id1] eqn:E1. use_append E1 H.
      destruct (cwrite r1 (Some id1) _) as [r2 ok] eqn:E2. use_cwrite E2 O.
      destruct ok.
      * destruct (append r2 id1) as [r3 id3] eqn:E3. use_append E3 O0.
        destruct (_ <? MAXP)%N; [fin|].
        destruct (cwrite r3 (Some id3) _) as [r4 ok4] eqn:E4. use_cwrite E4 O1.
        apply Own_free in O2. fin.
      * apply Own_free in O0. fin.
  - destruct (_ <? MAXP)%N.
    + destruct (malloc (set_buffer r None)) as [r1 id1] eqn:E1. use_malloc E1 H.
      destruct (append r1 id1) as [r2 id2] eqn:E2. use_append E2 O. fin.
    + destruct (malloc (set_buffer r None)) as [r1 id1] eqn:E1. use_malloc E1 H.
      destruct (append r1 id1) as [r2 id2] eqn:E2. use_append E2 O.
      destruct (append r2 id2) as [r3 id3] eqn:E3. use_append E3 O0.
      destruct (_ <? MAXP)%N; [fin|].
      destruct (cwrite r3 (Some id3) _) as [r4 ok4] eqn:E4. use_cwrite E4 O1.
      apply Own_free in O2. fin.
Qed.

(* reordering two owners *)
Lemma Own_swap a x y L : Own a (x :: y :: L) -> Own a (y :: x :: L).
Proof. apply Own_perm. apply perm_swap. Qed.

Lemma I_append_body r cl l : I r -> I (fst (append_body r cl l)).
Proof.
  intros H. unfold append_body. unfold I, owners in H.
  (* the common tail: append to the body buffer (id, bb) held as the first owner *)
  assert (Tail : forall r1 id bb, Own (al r1) (id :: oid (buffer r1)) ->
            I (fst (let r := bump r1 l in
                    let '(r, id) := append r id in
                    let nb := (bb + l)%N in
                    if (0 <? cl)%N && (MAXP <=? nb)%N then
                      let '(r, ok) := cwrite r (Some id) nb in
                      if ok then (set_bodybuf r (Some (id, 0%N)), WOk l)
                      else (set_bodybuf (free r id) None, WErr)
                    else (set_bodybuf r (Some (id, nb)), WOk l)))).
  { intros r1 id bb O1. cbv zeta.
    destruct (append (bump r1 l) id) as [r2 id2] eqn:E2. use_append E2 O1.
    assert (Fin : forall n, I (set_bodybuf r2 (Some (id2, n)))).
    { intros n. unfold I, owners. norm. rewrite Eb. apply (Own_perm _ (id2 :: oid (buffer r1))); [|assumption].
      change (id2 :: oid (buffer r1)) with ([id2] ++ oid (buffer r1)). apply Permutation_app_comm. }
    destruct ((0 <? cl)%N && (MAXP <=? bb + l)%N); [|apply Fin].
    destruct (cwrite r2 (Some id2) _) as [r3 ok] eqn:E3. use_cwrite E3 O.
    destruct ok.
    - unfold I, owners. norm. rewrite Eb0, Eb. apply (Own_perm _ (id2 :: oid (buffer r1))); [|assumption].
      change (id2 :: oid (buffer r1)) with ([id2] ++ oid (buffer r1)). apply Permutation_app_comm.
    - apply Own_free in O0. unfold I, owners. norm. rewrite Eb0, Eb, app_nil_r. assumption. }
  destruct (bodybuf r) as [[id bb]|] eqn:Ebb; norm; cbv beta iota zeta.
  - (* a body buffer exists; make it the first owner *)
    assert (H' : Own (al r) (id :: oid (buffer r))).
    { apply (Own_perm _ _ _ (Permutation_app_comm _ _)) in H. exact H. }
    destruct ((0 <? cl)%N && (MAXP <? bb + l)%N); [|apply Tail; assumption].
    destruct (0 <? bb)%N.
    + destruct (cwrite r (Some id) bb) as [r1 ok] eqn:E1. use_cwrite E1 H'.
      destruct ok.
      * destruct (MAXP <=? l)%N.
        -- destruct (cwrite _ None l) as [r2 ok2] eqn:E2.
           apply Own_free in O. use_cwrite E2 O. fin. rewrite app_nil_r. assumption.
        -- apply Tail. now rewrite Eb.
      * apply Own_free in O. fin. rewrite app_nil_r. assumption.
    + destruct (MAXP <=? l)%N; [|apply Tail; assumption].
      destruct (cwrite _ None l) as [r2 ok2] eqn:E2.
      apply Own_free in H'. use_cwrite E2 H'. fin. rewrite app_nil_r. assumption.
  - rewrite app_nil_r in H.
    destruct ((0 <? cl)%N && (MAXP <=? l)%N).
    + destruct (cwrite (bump r l) None l) as [r1 ok] eqn:E1. use_cwrite E1 H. fin. now rewrite app_nil_r.
    + destruct (malloc r) as [r1 id] eqn:E1. use_malloc E1 H. apply Tail. now rewrite Eb.
Qed.

Lemma I_op_write r l : I r -> I (fst (op_write r l)).
Proof.
  intros H. unfold op_write. destruct (l =? 0)%N; [assumption|].
  assert (H1 : I (set_hasbody (check_chunked (write_header r 200%N [79%N; 75%N])))).
  { eapply I_same; [|exact H].
    eapply same_trans; [apply same_write_header|]. eapply same_trans; [apply same_check_chunked|apply same_set_hasbody]. }
  generalize dependent (set_hasbody (check_chunked (write_header r 200%N [79%N; 75%N]))). clear H. intros r1 H1.
  destruct (chunked r1); [apply I_write_chunk; assumption|].
  cbv zeta.
  set (cl := if (0 <? contentLen r1)%N then contentLen r1 else match h_cl r1 with Some n => n | None => 0%N end).
  set (r1' := set_written r1 _ _).
  assert (H2 : I r1') by (eapply I_same; [apply same_set_written|exact H1]).
  clearbody r1' cl. clear H1 r1.
  destruct ((0 <? cl)%N && (cl <? bodyWritten r1' + l)%N); [assumption|].
  destruct (0 <? cl)%N; [|apply I_append_body; assumption].
  assert (H3 := I_encode_head _ H2).
  generalize dependent (encode_head r1'). clear H2. intros r2 H3.
  unfold I, owners in H3.
  destruct (buffer r2) as [[id h]|] eqn:Eb; norm.
  - destruct (h + l <? MAXP)%N.
    + (* the head becomes the body buffer (a body buffer that existed is dropped, not freed) *)
      apply I_append_body. unfold I, owners. norm.
      apply (Own_weaken _ _ _ H3); [repeat constructor; cbn; tauto|].
      intros x [<-|[]]. now left.
    + destruct (cwrite (set_buffer r2 None) (Some id) h) as [r3 ok] eqn:E3. use_cwrite E3 H3.
      apply Own_free in O.
      destruct ok.
      * apply I_append_body. fin.
      * cbn [fst]. fin.
  - apply I_append_body. fin.
Qed.

Lemma I_op_flush r : I r -> I (op_flush r).
Proof.
  intros H. unfold op_flush.
  assert (H1 : I (encode_head (check_chunked (write_header r 200%N [79%N; 75%N])))).
  { apply I_encode_head. eapply I_same; [|exact H]. eapply same_trans; [apply same_write_header|apply same_check_chunked]. }
  generalize dependent (encode_head (check_chunked (write_header r 200%N [79%N; 75%N]))). clear H. intros r1 H1.
  (* first the head buffer *)
  assert (H2 : I (match buffer r1 with
                  | Some (id, b) =>
                      if (0 <? b)%N then
                        let '(r', ok) := cwrite r1 (Some id) b in
                        if ok then set_buffer r' (Some (id, 0%N)) else set_buffer (free r' id) None
                      else r1
                  | None => r1
                  end)).
  { unfold I, owners in H1. destruct (buffer r1) as [[id b]|] eqn:Eb; [|unfold I, owners; now rewrite Eb]. norm.
    destruct (0 <? b)%N; [|unfold I, owners; now rewrite Eb].
    destruct (cwrite r1 (Some id) b) as [r2 ok] eqn:E2. use_cwrite E2 H1.
    destruct ok; [fin|]. apply Own_free in O. fin. }
  match goal with |- I (match bodybuf ?x with _ => _ end) => generalize dependent x end.
  clear H1. intros r2 H2. unfold I, owners in H2.
  destruct (bodybuf r2) as [[id b]|] eqn:Ebb; [|unfold I, owners; now rewrite Ebb]. norm.
  destruct (0 <? b)%N; [|unfold I, owners; now rewrite Ebb].
  assert (H' : Own (al r2) (id :: oid (buffer r2))).
  { apply (Own_perm _ _ _ (Permutation_app_comm _ _)) in H2. exact H2. }
  destruct (cwrite r2 (Some id) b) as [r3 ok] eqn:E3. use_cwrite E3 H'.
  destruct ok.
  - unfold I, owners. norm. rewrite Eb. apply (Own_perm _ (id :: oid (buffer r2))); [|assumption].
    change (id :: oid (buffer r2)) with ([id] ++ oid (buffer r2)). apply Permutation_app_comm.
  - apply Own_free in O. fin. now rewrite app_nil_r.
Qed.
