(* Soundness and completeness of the discipline checker (BufOwner.check_trace) w.r.t. the
   index-based specification BufOwner.disciplined. *)
From Coq Require Import List Arith Bool Lia.
Import ListNotations.
Require Import BufOwner.

Definition created (t : list event) (x : nat) : Prop := exists i e, nth_error t i = Some e /\ creates e x.
Definition killed (t : list event) (x : nat) : Prop := exists i e, nth_error t i = Some e /\ kills e x.

Lemma mem_In x l : mem x l = true <-> In x l.
Proof.
  unfold mem. rewrite existsb_exists. split.
  - intros (y & Hy & E). apply Nat.eqb_eq in E. now subst.
  - intros H. exists x. split; [assumption|apply Nat.eqb_refl].
Qed.

Lemma mem_false x l : mem x l = false <-> ~ In x l.
Proof. rewrite <- mem_In. destruct (mem x l); split; congruence. Qed.

Lemma del_In a x l : In x (del a l) <-> In x l /\ x <> a.
Proof.
  unfold del. rewrite filter_In. split; intros [H1 H2]; split; try assumption.
  - intros ->. rewrite Nat.eqb_refl in H2. discriminate.
  - apply negb_true_iff. apply Nat.eqb_neq. congruence.
Qed.

Lemma nth_error_snoc {A} (t : list A) e j e' :
  nth_error (t ++ [e]) j = Some e' <-> (j < length t /\ nth_error t j = Some e') \/ (j = length t /\ e' = e).
Proof.
  destruct (lt_dec j (length t)) as [L|L].
  - rewrite nth_error_app1 by assumption. split; [intros H; left; now split|].
    intros [[_ H]|[H _]]; [assumption|lia].
  - rewrite nth_error_app2 by lia. split.
    + intros H. right. destruct (j - length t) as [|k] eqn:E; cbn in H.
      * split; [lia|congruence].
      * destruct k; discriminate.
    + intros [[H _]|[-> ->]]; [lia|]. now rewrite Nat.sub_diag.
Qed.

Lemma nth_error_lt {A} (t : list A) j e : nth_error t j = Some e -> j < length t.
Proof. intros H. apply nth_error_Some. congruence. Qed.

Lemma kills_touches e x : kills e x -> touches e x.
Proof. destruct e; cbn; tauto. Qed.

Lemma created_snoc t e x : created (t ++ [e]) x <-> created t x \/ creates e x.
Proof.
  unfold created. split.
  - intros (i & e' & H & C). apply nth_error_snoc in H. destruct H as [[_ H]|[_ ->]]; [left; eauto|now right].
  - intros [(i & e' & H & C)|C].
    + exists i, e'. split; [|assumption]. apply nth_error_snoc. left. split; [eapply nth_error_lt; eassumption|assumption].
    + exists (length t), e. split; [|assumption]. apply nth_error_snoc. now right.
Qed.

Lemma killed_snoc t e x : killed (t ++ [e]) x <-> killed t x \/ kills e x.
Proof.
  unfold killed. split.
  - intros (i & e' & H & C). apply nth_error_snoc in H. destruct H as [[_ H]|[_ ->]]; [left; eauto|now right].
  - intros [(i & e' & H & C)|C].
    + exists i, e'. split; [|assumption]. apply nth_error_snoc. left. split; [eapply nth_error_lt; eassumption|assumption].
    + exists (length t), e. split; [|assumption]. apply nth_error_snoc. now right.
Qed.

(* the discipline, one event at a time *)
Lemma disciplined_snoc t e :
  disciplined (t ++ [e]) <->
  disciplined t /\ (forall x, creates e x -> ~ created t x) /\ (forall x, touches e x -> created t x /\ ~ killed t x).
Proof.
  split.
  - intros [U L]. split; [split|split].
    + intros i j e1 e2 x H1 H2 C1 C2. apply (U i j e1 e2 x); try assumption;
        apply nth_error_snoc; left; (split; [eapply nth_error_lt; eassumption|assumption]).
    + intros j e' x H T.
      assert (H' : nth_error (t ++ [e]) j = Some e').
      { apply nth_error_snoc. left. split; [eapply nth_error_lt; eassumption|assumption]. }
      destruct (L j e' x H' T) as [(i & e0 & Hi & H0 & C) K]. split.
      * exists i, e0. split; [assumption|]. split; [|assumption].
        apply nth_error_snoc in H0. destruct H0 as [[_ H0]|[E _]]; [assumption|].
        apply nth_error_lt in H. lia.
      * intros k e1 Hk H1. apply (K k e1 Hk). apply nth_error_snoc. left.
        split; [eapply nth_error_lt; eassumption|assumption].
    + intros x C (i & e0 & H0 & C0).
      assert (i = length t).
      { apply (U i (length t) e0 e x); try assumption; apply nth_error_snoc;
          [left; split; [eapply nth_error_lt; eassumption|assumption]|now right]. }
      apply nth_error_lt in H0. lia.
    + intros x T. split.
      * destruct (L (length t) e x) as [(i & e0 & Hi & H0 & C) _]; [apply nth_error_snoc; now right|assumption|].
        exists i, e0. split; [|assumption]. apply nth_error_snoc in H0. destruct H0 as [[_ H0]|[E _]]; [assumption|lia].
      * intros (k & e1 & H1 & K1).
        destruct (L (length t) e x) as [_ K]; [apply nth_error_snoc; now right|assumption|].
        apply (K k e1); [eapply nth_error_lt; eassumption| |assumption].
        apply nth_error_snoc. left. split; [eapply nth_error_lt; eassumption|assumption].
  - intros ([U L] & Fresh & Live). split.
    + intros i j e1 e2 x H1 H2 C1 C2. apply nth_error_snoc in H1, H2.
      destruct H1 as [[L1 H1]|[-> ->]], H2 as [[L2 H2]|[-> ->]].
      * eapply U; eassumption.
      * exfalso. apply (Fresh x C2). now exists i, e1.
      * exfalso. apply (Fresh x C1). now exists j, e2.
      * reflexivity.
    + intros j e' x H T. apply nth_error_snoc in H. destruct H as [[Lj H]|[-> ->]].
      * destruct (L j e' x H T) as [(i & e0 & Hi & H0 & C) K]. split.
        -- exists i, e0. split; [assumption|]. split; [|assumption]. apply nth_error_snoc. left. split; [lia|assumption].
        -- intros k e1 Hk H1. apply nth_error_snoc in H1. destruct H1 as [[_ H1]|[E _]]; [now apply (K k e1)|lia].
      * destruct (Live x T) as [(i & e0 & H0 & C) NK]. split.
        -- exists i, e0. split; [eapply nth_error_lt; eassumption|]. split; [|assumption].
           apply nth_error_snoc. left. split; [eapply nth_error_lt; eassumption|assumption].
        -- intros k e1 Hk H1 K1. apply NK. exists k, e1. split; [|assumption].
           apply nth_error_snoc in H1. destruct H1 as [[_ H1]|[E _]]; [assumption|lia].
Qed.

Lemma disciplined_nil : disciplined [].
Proof. split; intros; destruct j; discriminate. Qed.

Lemma disciplined_prefix t u : disciplined (t ++ u) -> disciplined t.
Proof.
  revert t. induction u as [|e u IH] using rev_ind; intros t H.
  - now rewrite app_nil_r in H.
  - rewrite app_assoc in H. apply disciplined_snoc in H. apply IH, H.
Qed.

(* what the automaton's state means *)
Definition Inv (t : list event) (s : st) : Prop :=
  (forall x, In x (live s) <-> created t x /\ ~ killed t x) /\
  (forall x, In x (dead s) <-> killed t x) /\
  disciplined t.

Lemma Inv_init : Inv [] init.
Proof.
  split; [|split; [|apply disciplined_nil]]; intros x; cbn; split; try tauto.
  - intros [(i & e & H & _) _]. destruct i; discriminate.
  - intros (i & e & H & _). destruct i; discriminate.
Qed.

Ltac inv_split := split; [intros x; split|split; [intros x; split|]].

(* a killed id was created (in a disciplined trace) *)
Lemma killed_created t x : disciplined t -> killed t x -> created t x.
Proof.
  intros [_ L] (k & e & H & K). destruct (L k e x H (kills_touches _ _ K)) as [(i & e0 & _ & H0 & C) _].
  now exists i, e0.
Qed.

Lemma known_spec t s x : Inv t s -> (known s x = true <-> created t x).
Proof.
  intros (HL & HD & D). unfold known. rewrite orb_true_iff, !mem_In, HL, HD. split.
  - intros [[C _]|K]; [assumption|now apply killed_created].
  - intros C. destruct (in_dec Nat.eq_dec x (dead s)) as [I|I].
    + right. now apply HD.
    + left. split; [assumption|]. intros K. apply I. now apply HD.
Qed.

Ltac memcases s a :=
  let E1 := fresh "Elive" in let E2 := fresh "Edead" in
  destruct (mem a (live s)) eqn:E1; [apply mem_In in E1|apply mem_false in E1;
    destruct (mem a (dead s)) eqn:E2; [apply mem_In in E2|apply mem_false in E2]].

(* grow events (Append / Realloc) share one proof *)
Definition is_grow (e : event) (a b : nat) : Prop := e = EAppend a b \/ e = ERealloc a b.

Lemma grow_creates e a b x : is_grow e a b -> (creates e x <-> b = x /\ a <> b).
Proof. intros [-> | ->]; reflexivity. Qed.
Lemma grow_kills e a b x : is_grow e a b -> (kills e x <-> a = x /\ a <> b).
Proof. intros [-> | ->]; reflexivity. Qed.
Lemma grow_touches e a b x : is_grow e a b -> (touches e x <-> a = x).
Proof. intros [-> | ->]; reflexivity. Qed.

Lemma grow_ok t s e a b s' :
  is_grow e a b -> Inv t s -> step_grow s a b = inl s' -> Inv (t ++ [e]) s'.
Proof.
  intros G I H. assert (I0 := I). destruct I as (HL & HD & D). unfold step_grow in H.
  destruct (mem a (live s)) eqn:Ea; [apply mem_In in Ea|destruct (mem a (dead s)); discriminate].
  destruct (Nat.eqb a b) eqn:Eab.
  - apply Nat.eqb_eq in Eab. subst b. injection H as <-.
    assert (NC : forall x, ~ creates e x) by (intros x C; apply (grow_creates e a a x G) in C; tauto).
    assert (NK : forall x, ~ kills e x) by (intros x C; apply (grow_kills e a a x G) in C; tauto).
    inv_split.
    + intros Hx. apply HL in Hx. destruct Hx as [C K]. split.
      * apply created_snoc. now left.
      * intros K'. apply killed_snoc in K'. destruct K' as [K'|K']; [tauto|eapply NK; eassumption].
    + intros [C K]. apply HL. apply created_snoc in C. destruct C as [C|C]; [|exfalso; eapply NC; eassumption].
      split; [assumption|]. intros K'. apply K. apply killed_snoc. now left.
    + intros Hx. apply killed_snoc. left. now apply HD.
    + intros K. apply killed_snoc in K. destruct K as [K|K]; [now apply HD|exfalso; eapply NK; eassumption].
    + apply disciplined_snoc. split; [assumption|]. split.
      * intros x C. exfalso. eapply NC; eassumption.
      * intros x T. apply (grow_touches e a a x G) in T. subst x. now apply HL.
  - apply Nat.eqb_neq in Eab.
    destruct (known s b) eqn:Kb; [discriminate|]. injection H as <-. cbn [live dead].
    assert (NCb : ~ created t b).
    { intros C. apply (known_spec t s b I0) in C. congruence. }
    inv_split.
    + intros [<-|Hx].
      * split.
        -- apply created_snoc. right. apply (grow_creates e a b b G). tauto.
        -- intros K. apply killed_snoc in K. destruct K as [K|K].
           ++ apply NCb. now apply killed_created.
           ++ apply (grow_kills e a b b G) in K. destruct K as [-> K]. congruence.
      * apply del_In in Hx. destruct Hx as [Hx Na]. apply HL in Hx. destruct Hx as [C K]. split.
        -- apply created_snoc. now left.
        -- intros K'. apply killed_snoc in K'. destruct K' as [K'|K']; [tauto|].
           apply (grow_kills e a b x G) in K'. destruct K' as [<- _]. congruence.
    + intros [C K]. apply created_snoc in C. destruct C as [C|C].
      * right. apply del_In. split.
        -- apply HL. split; [assumption|]. intros K'. apply K. apply killed_snoc. now left.
        -- intros ->. apply K. apply killed_snoc. right. apply (grow_kills e a b a G). tauto.
      * apply (grow_creates e a b x G) in C. destruct C as [-> _]. now left.
    + intros [<-|Hx]; apply killed_snoc.
      * right. apply (grow_kills e a b a G). tauto.
      * left. now apply HD.
    + intros K. apply killed_snoc in K. destruct K as [K|K].
      * right. now apply HD.
      * apply (grow_kills e a b x G) in K. destruct K as [-> _]. now left.
    + apply disciplined_snoc. split; [assumption|]. split.
      * intros x C. apply (grow_creates e a b x G) in C. destruct C as [<- _]. assumption.
      * intros x T. apply (grow_touches e a b x G) in T. subst x. now apply HL.
Qed.

Lemma grow_err t s e a b v :
  is_grow e a b -> Inv t s -> step_grow s a b = inr v -> ~ disciplined (t ++ [e]).
Proof.
  intros G I H D'. assert (I0 := I). destruct I as (HL & HD & D).
  apply disciplined_snoc in D'. destruct D' as (_ & Fresh & Live).
  destruct (Live a) as [C NK]; [now apply (grow_touches e a b a G)|].
  assert (La : In a (live s)) by (apply HL; tauto).
  unfold step_grow in H. apply mem_In in La. rewrite La in H.
  destruct (Nat.eqb a b) eqn:Eab; [discriminate|]. apply Nat.eqb_neq in Eab.
  destruct (known s b) eqn:Kb; [|discriminate].
  apply (known_spec t s b I0) in Kb. apply (Fresh b); [|assumption].
  apply (grow_creates e a b b G). tauto.
Qed.

Lemma step_ok t s e s' : Inv t s -> step s e = inl s' -> Inv (t ++ [e]) s'.
Proof.
  intros I H. destruct e as [a|a b|a b|a|a]; cbn [step] in H.
  - (* Malloc *)
    assert (I0 := I). destruct I as (HL & HD & D).
    destruct (known s a) eqn:Ka; [discriminate|]. injection H as <-. cbn [live dead].
    assert (NC : ~ created t a) by (intros C; apply (known_spec t s a I0) in C; congruence).
    inv_split.
    + intros [<-|Hx].
      * split; [apply created_snoc; right; reflexivity|].
        intros K. apply killed_snoc in K. destruct K as [K|K]; [|exact K].
        apply NC. now apply killed_created.
      * apply HL in Hx. destruct Hx as [C K]. split; [apply created_snoc; now left|].
        intros K'. apply killed_snoc in K'. destruct K' as [K'|K']; [tauto|exact K'].
    + intros [C K]. apply created_snoc in C. destruct C as [C|C]; [|left; exact C].
      right. apply HL. split; [assumption|]. intros K'. apply K. apply killed_snoc. now left.
    + intros Hx. apply killed_snoc. left. now apply HD.
    + intros K. apply killed_snoc in K. destruct K as [K|K]; [now apply HD|destruct K].
    + apply disciplined_snoc. split; [assumption|]. split.
      * intros x C. cbn in C. now subst x.
      * intros x T. destruct T.
  - eapply grow_ok; [left; reflexivity|eassumption|eassumption].
  - eapply grow_ok; [right; reflexivity|eassumption|eassumption].
  - (* Free *)
    destruct I as (HL & HD & D).
    destruct (mem a (live s)) eqn:Ea; [apply mem_In in Ea|destruct (mem a (dead s)); discriminate].
    injection H as <-. cbn [live dead]. inv_split.
    + intros Hx. apply del_In in Hx. destruct Hx as [Hx Na]. apply HL in Hx. destruct Hx as [C K]. split.
      * apply created_snoc. now left.
      * intros K'. apply killed_snoc in K'. destruct K' as [K'|K']; [tauto|]. cbn in K'. congruence.
    + intros [C K]. apply created_snoc in C. destruct C as [C|C]; [|destruct C].
      apply del_In. split.
      * apply HL. split; [assumption|]. intros K'. apply K. apply killed_snoc. now left.
      * intros ->. apply K. apply killed_snoc. right. reflexivity.
    + intros [<-|Hx]; apply killed_snoc; [right; reflexivity|left; now apply HD].
    + intros K. apply killed_snoc in K. destruct K as [K|K]; [right; now apply HD|left; exact K].
    + apply disciplined_snoc. split; [assumption|]. split.
      * intros x C. destruct C.
      * intros x T. cbn in T. subst x. now apply HL.
  - (* Use *)
    destruct I as (HL & HD & D).
    destruct (mem a (live s)) eqn:Ea; [apply mem_In in Ea|destruct (mem a (dead s)); discriminate].
    injection H as <-. inv_split.
    + intros Hx. apply HL in Hx. destruct Hx as [C K]. split.
      * apply created_snoc. now left.
      * intros K'. apply killed_snoc in K'. destruct K' as [K'|K']; [tauto|destruct K'].
    + intros [C K]. apply created_snoc in C. destruct C as [C|C]; [|destruct C].
      apply HL. split; [assumption|]. intros K'. apply K. apply killed_snoc. now left.
    + intros Hx. apply killed_snoc. left. now apply HD.
    + intros K. apply killed_snoc in K. destruct K as [K|K]; [now apply HD|destruct K].
    + apply disciplined_snoc. split; [assumption|]. split.
      * intros x C. destruct C.
      * intros x T. cbn in T. subst x. now apply HL.
Qed.

Lemma step_err t s e v : Inv t s -> step s e = inr v -> ~ disciplined (t ++ [e]).
Proof.
  intros I H D'. destruct e as [a|a b|a b|a|a]; cbn [step] in H.
  - destruct (known s a) eqn:Ka; [|discriminate].
    apply (known_spec t s a I) in Ka. apply disciplined_snoc in D'. destruct D' as (_ & Fresh & _).
    apply (Fresh a); [reflexivity|assumption].
  - eapply grow_err; [left; reflexivity|eassumption|eassumption|assumption].
  - eapply grow_err; [right; reflexivity|eassumption|eassumption|assumption].
  - destruct I as (HL & HD & D). apply disciplined_snoc in D'. destruct D' as (_ & _ & Live).
    destruct (Live a) as [C NK]; [reflexivity|].
    assert (La : In a (live s)) by (apply HL; tauto). apply mem_In in La. rewrite La in H. discriminate.
  - destruct I as (HL & HD & D). apply disciplined_snoc in D'. destruct D' as (_ & _ & Live).
    destruct (Live a) as [C NK]; [reflexivity|].
    assert (La : In a (live s)) by (apply HL; tauto). apply mem_In in La. rewrite La in H. discriminate.
Qed.

(* the whole run, from a state that stands for the prefix t1 *)
Lemma run_spec t2 : forall t1 s i, Inv t1 s ->
  match run s i t2 with
  | inl s' => Inv (t1 ++ t2) s'
  | inr (k, v) => exists n, k = i + n /\ n < length t2 /\
                            disciplined (t1 ++ firstn n t2) /\ ~ disciplined (t1 ++ firstn (S n) t2)
  end.
Proof.
  induction t2 as [|e t2 IH]; intros t1 s i I; cbn [run].
  - now rewrite app_nil_r.
  - destruct (step s e) as [s'|v] eqn:E.
    + assert (I' := step_ok _ _ _ _ I E). specialize (IH (t1 ++ [e]) s' (S i) I').
      destruct (run s' (S i) t2) as [s''|[k v]].
      * now rewrite <- app_assoc in IH.
      * destruct IH as (n & -> & Hn & D1 & D2). exists (S n). split; [lia|]. split; [cbn; lia|]. split.
        -- cbn [firstn]. now rewrite <- app_assoc in D1.
        -- cbn [firstn]. cbn [firstn] in D2. now rewrite <- app_assoc in D2.
    + exists 0. split; [lia|]. split; [cbn; lia|]. split.
      * cbn. rewrite app_nil_r. apply I.
      * cbn [firstn]. eapply step_err; eassumption.
Qed.

Lemma check_sound t : check_trace t = None -> disciplined t.
Proof.
  unfold check_trace. intros H. assert (R := run_spec t [] init 0 Inv_init).
  destruct (run init 0 t) as [s|[k v]]; [apply R|discriminate].
Qed.

Lemma check_complete t : disciplined t -> check_trace t = None.
Proof.
  unfold check_trace. intros D. assert (R := run_spec t [] init 0 Inv_init).
  destruct (run init 0 t) as [s|[k v]]; [reflexivity|].
  destruct R as (n & _ & _ & _ & ND). exfalso. apply ND. cbn [app].
  apply (disciplined_prefix _ (skipn (S n) t)). now rewrite firstn_skipn.
Qed.

(* the reported index is the first offending event *)
Lemma check_first t k v :
  check_trace t = Some (k, v) -> k < length t /\ disciplined (firstn k t) /\ ~ disciplined (firstn (S k) t).
Proof.
  unfold check_trace. intros H. assert (R := run_spec t [] init 0 Inv_init).
  destruct (run init 0 t) as [s|[k' v']]; [discriminate|]. injection H as -> ->.
  destruct R as (n & -> & Hn & D1 & D2). cbn in *. tauto.
Qed.

Lemma ok_trace_iff t : ok_trace t = true <-> disciplined t.
Proof.
  unfold ok_trace. split.
  - destruct (check_trace t) eqn:E; [discriminate|]. intros _. now apply check_sound.
  - intros D. now rewrite (check_complete t D).
Qed.

(* consequences of the discipline, in the words of the property *)
Lemma no_double_release t i j e1 e2 x :
  disciplined t -> nth_error t i = Some e1 -> nth_error t j = Some e2 -> kills e1 x -> kills e2 x -> i = j.
Proof.
  intros [_ L] H1 H2 K1 K2.
  destruct (L i e1 x H1 (kills_touches _ _ K1)) as [_ N1].
  destruct (L j e2 x H2 (kills_touches _ _ K2)) as [_ N2].
  destruct (lt_eq_lt_dec i j) as [[Lt|E]|Lt]; [|assumption|].
  - exfalso. eapply N2; eassumption.
  - exfalso. eapply N1; eassumption.
Qed.

Lemma nothing_after_release t i j e1 e2 x :
  disciplined t -> nth_error t i = Some e1 -> nth_error t j = Some e2 -> kills e1 x -> touches e2 x -> j <= i.
Proof.
  intros [_ L] H1 H2 K1 T2. destruct (L j e2 x H2 T2) as [_ N2].
  destruct (le_lt_dec j i) as [Le|Lt]; [assumption|]. exfalso. eapply N2; eassumption.
Qed.

(* the verdict names the kind of the first offending event *)
Lemma run_verdict t : forall s i k v, run s i t = inr (k, v) ->
  exists n e s', k = i + n /\ nth_error t n = Some e /\ step s' e = inr v.
Proof.
  induction t as [|e t IH]; intros s i k v H; cbn [run] in H; [discriminate|].
  destruct (step s e) as [s'|v'] eqn:E.
  - destruct (IH _ _ _ _ H) as (n & e' & s'' & -> & Hn & Hs). exists (S n), e', s''. split; [lia|]. split; assumption.
  - injection H as <- <-. exists 0, e, s. split; [lia|]. split; [reflexivity|assumption].
Qed.

Lemma step_verdict s e v : step s e = inr v ->
  match v with
  | VDoubleFree | VForeignFree => exists a, e = EFree a
  | VUseAfterFree | VForeignUse => exists a, e = EUse a
  | VAppendAfterFree | VForeignAppend => exists a b, e = EAppend a b \/ e = ERealloc a b
  | VShared => (exists a, e = EMalloc a) \/ (exists a b, a <> b /\ (e = EAppend a b \/ e = ERealloc a b))
  end.
Proof.
  destruct e as [a|a b|a b|a|a]; cbn [step]; unfold step_grow.
  - destruct (known s a); intros H; [injection H as <-|discriminate]. left. eauto.
  - destruct (mem a (live s)); [destruct (Nat.eqb a b) eqn:E; [discriminate|destruct (known s b); [|discriminate]]|destruct (mem a (dead s))];
      intros H; injection H as <-; eauto.
    right. exists a, b. apply Nat.eqb_neq in E. tauto.
  - destruct (mem a (live s)); [destruct (Nat.eqb a b) eqn:E; [discriminate|destruct (known s b); [|discriminate]]|destruct (mem a (dead s))];
      intros H; injection H as <-; eauto.
    right. exists a, b. apply Nat.eqb_neq in E. tauto.
  - destruct (mem a (live s)); [discriminate|destruct (mem a (dead s))]; intros H; injection H as <-; eauto.
  - destruct (mem a (live s)); [discriminate|destruct (mem a (dead s))]; intros H; injection H as <-; eauto.
Qed.
