(* C11: the ownership discipline of pooled buffers as an executable automaton over allocator events.
   Model only (no proofs here).  Ids are the identities of the *[]byte pointers handed out by the allocator.

   Events, as seen by an instrumented mempool.Allocator (and by the connection for EUse):
     EMalloc a      Malloc returned the pointer a
     EAppend a b    Append/AppendString of buffer a returned b: b = a (same pointer) or a new pointer b
                    (then the allocator released a: a is dead)
     ERealloc a b   Realloc, same convention
     EFree a        Free(a)
     EUse a         the content of a is read or written (observed: the slice handed to conn.Write / to a handler
                    lies in a's array) *)
From Coq Require Import List Arith Bool.
Import ListNotations.

Inductive event :=
| EMalloc (a : nat)
| EAppend (a b : nat)
| ERealloc (a b : nat)
| EFree (a : nat)
| EUse (a : nat).

(* why a trace is rejected *)
Inductive verdict :=
| VDoubleFree        (* Free of a dead id *)
| VUseAfterFree      (* Use of a dead id *)
| VAppendAfterFree   (* Append/Realloc of a dead id *)
| VForeignFree       (* Free of an id the allocator never handed out *)
| VForeignUse
| VForeignAppend
| VShared.           (* the allocator handed out an id that is live or was used before: two owners of one buffer *)

Record st := mkst { live : list nat; dead : list nat }.
Definition init : st := mkst [] [].

Definition mem (x : nat) (l : list nat) : bool := existsb (Nat.eqb x) l.
Definition del (x : nat) (l : list nat) : list nat := filter (fun y => negb (Nat.eqb x y)) l.

Definition known (s : st) (x : nat) : bool := mem x (live s) || mem x (dead s).

(* grow: Append / Realloc *)
Definition step_grow (s : st) (a b : nat) : st + verdict :=
  if mem a (live s) then
    if Nat.eqb a b then inl s
    else if known s b then inr VShared
    else inl (mkst (b :: del a (live s)) (a :: dead s))
  else if mem a (dead s) then inr VAppendAfterFree
  else inr VForeignAppend.

Definition step (s : st) (e : event) : st + verdict :=
  match e with
  | EMalloc a => if known s a then inr VShared else inl (mkst (a :: live s) (dead s))
  | EAppend a b => step_grow s a b
  | ERealloc a b => step_grow s a b
  | EFree a =>
      if mem a (live s) then inl (mkst (del a (live s)) (a :: dead s))
      else if mem a (dead s) then inr VDoubleFree else inr VForeignFree
  | EUse a =>
      if mem a (live s) then inl s
      else if mem a (dead s) then inr VUseAfterFree else inr VForeignUse
  end.

(* run from state s; on rejection: index of the first offending event (counted from i) and the reason *)
Fixpoint run (s : st) (i : nat) (t : list event) : st + (nat * verdict) :=
  match t with
  | [] => inl s
  | e :: t' => match step s e with
               | inl s' => run s' (S i) t'
               | inr v => inr (i, v)
               end
  end.

Definition check_trace (t : list event) : option (nat * verdict) :=
  match run init 0 t with inl _ => None | inr r => Some r end.

Definition ok_trace (t : list event) : bool :=
  match check_trace t with None => true | Some _ => false end.

(* ids still live at the end (leaks are not violations of C11; reported as a statistic) *)
Definition live_at_end (t : list event) : list nat :=
  match run init 0 t with inl s => live s | inr _ => [] end.

(* ---------------- the specification, independent of the automaton ---------------- *)
(* e brings x to life / e ends x's life / e operates on x (x has to be live) *)
Definition creates (e : event) (x : nat) : Prop :=
  match e with
  | EMalloc a => a = x
  | EAppend a b | ERealloc a b => b = x /\ a <> b
  | _ => False
  end.
Definition kills (e : event) (x : nat) : Prop :=
  match e with
  | EFree a => a = x
  | EAppend a b | ERealloc a b => a = x /\ a <> b
  | _ => False
  end.
Definition touches (e : event) (x : nat) : Prop :=
  match e with
  | EFree a | EUse a | EAppend a _ | ERealloc a _ => a = x
  | EMalloc _ => False
  end.

(* unique ids: an id is handed out at most once (no two owners);
   liveness: whatever is freed, used, appended to or reallocated was handed out before and not released before *)
Definition disciplined (t : list event) : Prop :=
  (forall i j e1 e2 x, nth_error t i = Some e1 -> nth_error t j = Some e2 ->
                       creates e1 x -> creates e2 x -> i = j)
  /\
  (forall j e x, nth_error t j = Some e -> touches e x ->
     (exists i e0, i < j /\ nth_error t i = Some e0 /\ creates e0 x) /\
     (forall k e1, k < j -> nth_error t k = Some e1 -> ~ kills e1 x)).
