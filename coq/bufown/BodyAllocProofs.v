(* C11 on the instrumented BodyReader: for ALL sequences of append / Read / Close and ALL capacities the allocator
   hands out, the reader's buffers are exactly the live buffers, each held once. *)
From Coq Require Import List Arith NArith Bool Lia Permutation.
Import ListNotations.
Require Import BufOwner BufOwnerProofs RespAlloc RespAllocProofs ExactOwn BodyAlloc.
Open Scope nat_scope.

Definition BI (b : body) : Prop := Exact (ba b) (bids (bufs b)).

Lemma bids_app l1 l2 : bids (l1 ++ l2) = bids l1 ++ bids l2.
Proof. apply map_app. Qed.

Lemma use_inv a id n L : Exact a L -> In id L -> Exact (use a id n) L.
Proof. intros X H. unfold use. apply Exact_write; [assumption|]. intros i [= <-]. assumption. Qed.

Lemma b_malloc_inv b size b1 nb L :
  b_malloc b size = (b1, nb) -> Exact (ba b) L -> Exact (ba b1) (bid nb :: L) /\ bufs b1 = bufs b.
Proof.
  unfold b_malloc. intros E X. assert (M := Exact_malloc _ _ X). destruct (a_malloc (ba b)) as [a i].
  destruct (bcaps b) as [|c cs]; injection E as <- <-; cbn in *; auto.
Qed.

(* push a new buffer at the end *)
Lemma BI_push b size L :
  Exact (ba b) L -> Permutation L (bids (bufs b)) ->
  let '(b1, nb) := b_malloc b size in
  BI (b_set b1 (bufs b1 ++ [nb]) (bindex b1) (bleft b1) (ba b1)).
Proof.
  intros X P. destruct (b_malloc b size) as [b1 nb] eqn:E.
  destruct (b_malloc_inv _ _ _ _ _ E X) as [X1 W1]. unfold BI. cbn [b_set ba bufs].
  rewrite W1, bids_app. cbn [bids map].
  eapply Exact_perm; [|exact X1]. change (bid nb :: L) with ([bid nb] ++ L).
  etransitivity; [apply Permutation_app_comm|]. now apply Permutation_app_tail.
Qed.

Lemma BI_append b l : BI b -> BI (fst (b_append b l)).
Proof.
  intros H. unfold b_append. destruct (l =? 0)%N; [assumption|].
  destruct ((0 <? bmax b)%N && (bmax b <? l + bleft b)%N); [assumption|].
  set (b' := b_set b (bufs b) (bindex b) (bleft b + l)%N (ba b)).
  assert (H' : BI b') by exact H. clearbody b'. clear H b.
  destruct (rev (bufs b')) as [|last rl] eqn:ER.
  - assert (P := BI_push b' l _ H' (Permutation_refl _)). destruct (b_malloc b' l) as [b1 nb]. exact P.
  - assert (EW : bufs b' = rev rl ++ [last]).
    { rewrite <- (rev_involutive (bufs b')), ER. reflexivity. }
    set (nc := N.min (bcap last - blen last) l).
    set (b1 := if (0 <? nc)%N then _ else b').
    assert (H1 : BI b1).
    { unfold b1. destruct (0 <? nc)%N; [|assumption]. unfold BI. cbn [b_set ba bufs].
      rewrite bids_app. cbn [bids map bid]. unfold BI in H'. rewrite EW, bids_app in H'. cbn [bids map] in H'.
      apply use_inv; [assumption|]. apply in_or_app. right. now left. }
    clearbody b1.
    destruct (0 <? l - nc)%N; [|assumption].
    assert (P := BI_push b1 (l - nc)%N _ H1 (Permutation_refl _)). destruct (b_malloc b1 (l - nc)%N) as [b2 nb]. exact P.
Qed.

Lemma X_read_loop l : forall ix need lf copied a,
  Exact a (bids l) ->
  let '(l', _, _, _, a') := read_loop l ix need lf copied a in Exact a' (bids l').
Proof.
  induction l as [|h rest IH]; intros ix need lf copied a X; cbn [read_loop].
  - destruct ((need =? 0)%N || (lf =? 0)%N); assumption.
  - destruct ((need =? 0)%N || (lf =? 0)%N); [assumption|]. cbn [bids map] in X.
    destruct (blen h <=? ix)%N.
    + apply IH. now apply Exact_free.
    + set (nc := N.min need (blen h - ix)).
      assert (X1 : Exact (use a (bid h) nc) (bid h :: bids rest)) by (apply use_inv; [assumption|now left]).
      destruct (blen h <=? nc + ix)%N.
      * apply IH. now apply Exact_free.
      * exact X1.
Qed.

Lemma BI_read b n : BI b -> BI (fst (b_read b n)).
Proof.
  intros H. unfold b_read. destruct (bclosed b); [assumption|]. destruct (bleft b =? 0)%N; [assumption|].
  assert (R := X_read_loop (bufs b) (bindex b) n (bleft b) 0%N (ba b) H).
  destruct (read_loop (bufs b) (bindex b) n (bleft b) 0%N (ba b)) as [[[[l ix] lf] copied] a]. exact R.
Qed.

Lemma X_free_all l : forall a R, Exact a (bids l ++ R) -> Exact (free_all a l) R.
Proof.
  induction l as [|h t IH]; intros a R X; cbn [free_all bids map app] in *; [assumption|].
  apply IH. now apply Exact_free.
Qed.

Lemma BI_close b : BI b -> BI (b_close b).
Proof.
  intros H. unfold b_close. destruct (bclosed b); [assumption|]. unfold BI. cbn [ba bufs bids map].
  apply X_free_all. unfold BI in H. now rewrite app_nil_r.
Qed.

Lemma close_empties b : bclosed b = false -> bufs (b_close b) = [].
Proof. intros C. unfold b_close. now rewrite C. Qed.

Lemma BI_step b o : BI b -> BI (fst (bstep b o)).
Proof.
  intros H. destruct o; cbn [bstep fst]; [now apply BI_append|now apply BI_read|now apply BI_close].
Qed.

Lemma BI_run ops : forall b, BI b -> BI (fst (brun b ops)).
Proof.
  induction ops as [|o ops IH]; intros b H; cbn [brun]; [assumption|].
  assert (H1 := BI_step b o H). destruct (bstep b o) as [b1 r]. cbn [fst] in H1.
  assert (H2 := IH b1 H1). destruct (brun b1 ops) as [b2 rs]. exact H2.
Qed.

Lemma BI_0 mx cs : BI (body0 mx cs).
Proof. apply Exact_init. Qed.

Lemma brun_app ops1 ops2 b : fst (brun b (ops1 ++ ops2)) = fst (brun (fst (brun b ops1)) ops2).
Proof.
  revert b. induction ops1 as [|o ops1 IH]; intros b; cbn [brun app]; [reflexivity|].
  destruct (bstep b o) as [b1 r]. specialize (IH b1).
  destruct (brun b1 (ops1 ++ ops2)) as [b2 rs]. destruct (brun b1 ops1) as [b3 rs3]. exact IH.
Qed.

Lemma body_ok mx cs ops : ok_trace (body_trace mx cs ops) = true.
Proof. unfold body_trace. eapply Exact_ok. apply (BI_run ops _ (BI_0 mx cs)). Qed.

Lemma body_exact mx cs ops x :
  let b := fst (brun (body0 mx cs) ops) in
  In x (live_at_end (trace (ba b))) <-> In x (bids (bufs b)).
Proof. cbv zeta. eapply Exact_live. apply (BI_run ops _ (BI_0 mx cs)). Qed.

Lemma body_nodup mx cs ops : NoDup (bids (bufs (fst (brun (body0 mx cs) ops)))).
Proof. apply (BI_run ops _ (BI_0 mx cs)). Qed.

(* Close of an open reader returns everything *)
Lemma body_close_returns_all mx cs ops :
  bclosed (fst (brun (body0 mx cs) ops)) = false ->
  live_at_end (body_trace mx cs (ops ++ [BClose])) = [].
Proof.
  intros C. unfold body_trace. rewrite brun_app. cbn [brun bstep fst].
  set (b := fst (brun (body0 mx cs) ops)) in *.
  assert (H : BI (b_close b)) by (apply BI_close, (BI_run ops _ (BI_0 mx cs))).
  unfold BI in H. rewrite (close_empties b C) in H. cbn [bids map] in H.
  destruct (live_at_end _) as [|x l] eqn:E; [reflexivity|].
  exfalso. apply (proj1 (Exact_live _ _ H x)). rewrite E. now left.
Qed.
