(* The connection write queue of package nbio (conn_unix.go: write, writev, newToWriteBuf, flush/writeBuffer/writeFile,
   releaseToWrite, closeWithErrorWithoutLock; sendfile_unix.go: Sendfile as far as it shapes the queue), INSTRUMENTED with
   the allocator events it performs (C11).  Same structure as the executable model coq/connio/ConnIO.v (which carries the
   byte contents and is the subject of C01/C17); here the contents are abstracted to lengths and every pooled buffer
   carries the id of its pointer, its length, the offset of its unsent part and its capacity:
     - appendBuffer: Malloc(len(buf)); copy                                    -> EMalloc
     - growing the tail buffer: cap too small => Malloc(tailLen+l); copy; Free(old) -> EMalloc, EFree; then Append -> EAppend
     - flush/writeBuffer: the kernel reads the head buffer (observed through OnWrittenSize when n > 0) -> EUse;
       releaseToWrite when its last byte was taken                              -> EFree
     - closeWithErrorWithoutLock (Close, a fatal errno, overflow): releaseToWrite of every queued item -> EFree ...
   Oracles (ANY stream is allowed): the kernel script of every operation (Took k / EAGAIN / EINTR / fatal errno; an
   exhausted script answers EAGAIN), for every Append whether the allocator returns a new pointer (moves of the [ast]),
   for every Malloc / moving Append how much spare capacity the allocator adds (caps).
   No proofs in this file. *)
From Coq Require Import List NArith ZArith Bool Arith.
Import ListNotations.
Require Import BufOwner RespAlloc.
Open Scope N_scope.

Inductive kres := Took (k : positive) | EAgain | EIntr | EFatal.

Definition maxcache : N := 65536.        (* maxWriteCacheOrFlushSize *)
Definition maxsend : N := 4194304.       (* maxSendfileSize *)

(* toWrite: a pooled buffer (id, len( *buf ), offset, cap( *buf )) or a file range with that many bytes left *)
Inductive item :=
| Buf (id : nat) (len off cap : N)
| File (rem : N).

Record wq := mkq {
  closed : bool;          (* Conn.closed *)
  wlist : list item;      (* Conn.writeList *)
  left : Z;               (* Conn.left *)
  maxbuf : Z;             (* Engine.MaxWriteBufferSize (<= 0: no limit) *)
  caps : list N;          (* oracle: spare capacity of the next buffer the allocator creates (exhausted = 0) *)
  qa : ast                (* allocator: ids, move oracle, trace; [out] lists what the kernel took from pooled buffers *)
}.

Definition q0 (mb : Z) (mv : list bool) (cs : list N) : wq := mkq false [] 0 mb cs (mka 0 mv [] [] []).

Definition set_wlist (q : wq) (l : list item) := mkq (closed q) l (left q) (maxbuf q) (caps q) (qa q).
Definition set_left (q : wq) (x : Z) := mkq (closed q) (wlist q) x (maxbuf q) (caps q) (qa q).
Definition set_qa (q : wq) (a : ast) := mkq (closed q) (wlist q) (left q) (maxbuf q) (caps q) a.
Definition push (q : wq) (it : item) := set_wlist q (wlist q ++ [it]).

(* the allocator's answer to "how much room beyond the requested size" *)
Definition next_cap (q : wq) : wq * N :=
  match caps q with
  | c :: cs => (mkq (closed q) (wlist q) (left q) (maxbuf q) cs (qa q), c)
  | [] => (q, 0)
  end.

Definition q_malloc (q : wq) (size : N) : wq * nat * N :=
  let '(a, id) := a_malloc (qa q) in
  let '(q1, c) := next_cap (set_qa q a) in
  (q1, id, size + c).

(* Append of l bytes to a buffer of length len and capacity cap >= len + l: same pointer (capacity unchanged) or a new one *)
Definition q_append (q : wq) (id : nat) (newlen cap : N) : wq * nat * N :=
  let '(a, id') := a_append (qa q) id in
  if Nat.eqb id id' then (set_qa q a, id', cap)
  else let '(q1, c) := next_cap (set_qa q a) in (q1, id', newlen + c).

Definition q_free (q : wq) (id : nat) : wq := set_qa q (a_free (qa q) id).
Definition q_use (q : wq) (id : nat) (n : N) : wq := set_qa q (fst (a_write (qa q) (Some id) n)).

(* newToWriteBuf.appendBuffer *)
Definition append_buffer (q : wq) (l : N) : wq :=
  let '(q1, id, cap) := q_malloc q l in push q1 (Buf id l 0 cap).

(* newToWriteBuf *)
Definition new_buf (q : wq) (l : N) : wq :=
  if l =? 0 then q else
  let q := set_left q (left q + Z.of_N l)%Z in
  match rev (wlist q) with
  | Buf id len off cap :: rl =>
      if maxcache <? len + l then append_buffer q l
      else
        let '(q1, id1, cap1) :=
          if cap <? len + l then
            let '(q', id', cap') := q_malloc q (len + l) in (q_free q' id, id', cap')
          else (q, id, cap) in
        let '(q2, id2, cap2) := q_append q1 id1 (len + l) cap1 in
        set_wlist q2 (rev rl ++ [Buf id2 (len + l) off cap2])
  | _ => append_buffer q l
  end.

Definition overflow (q : wq) (n : N) : bool :=
  (0 <? maxbuf q)%Z && (maxbuf q <? left q + Z.of_N n)%Z.

(* releaseToWrite of every item, in order; closed := true (left is not reset) *)
Fixpoint release_all (q : wq) (l : list item) : wq :=
  match l with
  | [] => q
  | Buf id _ _ _ :: t => release_all (q_free q id) t
  | File _ :: t => release_all q t
  end.

Definition close_with (q : wq) : wq :=
  let q1 := release_all q (wlist q) in
  mkq true [] (left q1) (maxbuf q1) (caps q1) (qa q1).

Inductive wres := ROk | RErr.     (* nil error / an error that closed the connection (or ErrClosed) *)

(* conn_unix.go write *)
Definition do_write (q : wq) (l : N) (ks : list kres) : wq * wres :=
  if l =? 0 then (q, ROk) else
  if overflow q l then (q, RErr) else
  match wlist q with
  | [] =>
      match ks with
      | Took k :: _ => let n := N.min (Npos k) l in (if n <? l then new_buf q (l - n) else q, ROk)
      | EFatal :: _ => (q, RErr)
      | _ => (new_buf q l, ROk)
      end
  | _ => (new_buf q l, ROk)
  end.

Definition total (ls : list N) : N := fold_right N.add 0 ls.

Fixpoint queue_all (q : wq) (ls : list N) : wq :=
  match ls with [] => q | l :: t => queue_all (new_buf q l) t end.

Fixpoint queue_rest (q : wq) (n : N) (ls : list N) : wq :=
  match ls with
  | [] => q
  | l :: t => if l <=? n then queue_rest q (n - l) t else queue_rest (new_buf q (l - n)) 0 t
  end.

(* conn_unix.go writev *)
Definition do_writev (q : wq) (ls : list N) (ks : list kres) : wq * wres :=
  let size := total ls in
  if overflow q size then (q, RErr) else
  match wlist q with
  | _ :: _ => (queue_all q ls, ROk)
  | [] =>
      if size =? 0 then (q, ROk)
      else match ks with
      | Took k :: _ => (queue_rest q (N.min (Npos k) size) ls, ROk)
      | EFatal :: _ => (q, RErr)
      | _ => (queue_rest q 0 ls, ROk)
      end
  end.

(* tail of Write / Writev: an error closes the connection and releases the queue *)
Definition finish (r : wq * wres) : wq * wres :=
  match snd r with ROk => r | RErr => (close_with (fst r), RErr) end.

Definition op_write (q : wq) (l : N) (ks : list kres) : wq * wres :=
  if closed q then (q, RErr) else finish (do_write q l ks).

Definition op_writev (q : wq) (ls : list N) (ks : list kres) : wq * wres :=
  if closed q then (q, RErr) else
  finish (match ls with [l] => do_write q l ks | _ => do_writev q ls ks end).

(* sendfile_unix.go, the inline loop: what is left when the kernel stops taking is queued as a file range *)
Fixpoint sf_loop (q : wq) (remain : N) (ks : list kres) : wq * wres :=
  if remain =? 0 then (q, ROk) else
  match ks with
  | [] | EAgain :: _ => (push q (File remain), ROk)
  | Took k :: ks' => sf_loop q (remain - N.min (Npos k) (N.min maxsend remain)) ks'
  | EIntr :: ks' => sf_loop q remain ks'
  | EFatal :: _ => (close_with q, RErr)
  end.

(* Sendfile of a file of flen bytes from its start, req bytes requested (0: all) *)
Definition op_sendfile (q : wq) (flen req : N) (ks : list kres) : wq * wres :=
  if closed q then (q, RErr) else
  let remain := if (req =? 0) || (flen <? req) then flen else req in
  if remain =? 0 then (q, ROk) else
  match wlist q with
  | _ :: _ => (push q (File remain), ROk)
  | [] => sf_loop q remain ks
  end.

(* conn_unix.go flush: head first, one syscall per script element *)
Fixpoint flush_loop (q : wq) (ks : list kres) : wq * wres :=
  match wlist q with
  | [] => (q, ROk)
  | Buf id len off cap :: rest =>
      if len <=? off then (q, ROk) else      (* never queued (C01); flush would spin *)
      match ks with
      | [] | EAgain :: _ => (q, ROk)
      | Took k :: ks' =>
          let avail := len - off in
          let n := N.min (Npos k) avail in
          let q1 := set_left (q_use q id n) (left q - Z.of_N n)%Z in
          if n =? avail then flush_loop (set_wlist (q_free q1 id) rest) ks'
          else flush_loop (set_wlist q1 (Buf id len (off + n) cap :: rest)) ks'
      | EIntr :: ks' => flush_loop q ks'
      | EFatal :: _ => (close_with q, RErr)
      end
  | File rem :: rest =>
      if rem =? 0 then (q, ROk) else
      match ks with
      | [] | EAgain :: _ => (q, ROk)
      | Took k :: ks' =>
          let n := N.min (Npos k) rem in
          flush_loop (set_wlist q (if n =? rem then rest else File (rem - n) :: rest)) ks'
      | EIntr :: ks' => flush_loop q ks'
      | EFatal :: _ => (close_with q, RErr)
      end
  end.

Definition op_flush (q : wq) (ks : list kres) : wq * wres :=
  if closed q then (q, RErr) else flush_loop q ks.

Definition op_close (q : wq) : wq * wres :=
  if closed q then (q, ROk) else (close_with q, ROk).

Inductive qop :=
| QWrite (l : N) (ks : list kres)
| QWritev (ls : list N) (ks : list kres)
| QSendfile (flen req : N) (ks : list kres)
| QFlush (ks : list kres)
| QClose.

Definition qstep (q : wq) (o : qop) : wq * wres :=
  match o with
  | QWrite l ks => op_write q l ks
  | QWritev ls ks => op_writev q ls ks
  | QSendfile flen req ks => op_sendfile q flen req ks
  | QFlush ks => op_flush q ks
  | QClose => op_close q
  end.

(* observation after every operation: closed, shape of the queue ('b' = true / 'f' = false), Conn.left *)
Definition shape (q : wq) : list bool := map (fun it => match it with Buf _ _ _ _ => true | File _ => false end) (wlist q).

Fixpoint qrun (q : wq) (ops : list qop) : wq * list (wres * bool * list bool * Z) :=
  match ops with
  | [] => (q, [])
  | o :: os => let '(q1, r) := qstep q o in
               let '(q2, rs) := qrun q1 os in (q2, (r, closed q1, shape q1, left q1) :: rs)
  end.

(* the ids of the queued buffers, head first *)
Fixpoint qids (l : list item) : list nat :=
  match l with
  | [] => []
  | Buf id _ _ _ :: t => id :: qids t
  | File _ :: t => qids t
  end.

Definition wq_trace (mb : Z) (mv : list bool) (cs : list N) (ops : list qop) : list event :=
  trace (qa (fst (qrun (q0 mb mv cs) ops))).
