(* C11 on the instrumented response writer: for ALL handler programs, ALL allocator behaviours (which Appends move)
   and ALL conn.Write failure patterns, the allocator events pass the checker, and the buffers the response holds
   (buffer, bodyBuffer) are distinct live buffers at every step. *)
From Coq Require Import List Arith NArith Bool Lia Permutation.
Import ListNotations.
Require Import BufOwner BufOwnerProofs RespAlloc.
Open Scope nat_scope.

Lemma run_snoc t : forall s i e,
  run s i (t ++ [e]) =
  match run s i t with
  | inl s' => match step s' e with inl s'' => inl s'' | inr v => inr (i + length t, v) end
  | inr r => inr r
  end.
Proof.
  induction t as [|e0 t IH]; intros s i e; cbn [run app length].
  - destruct (step s e); [reflexivity|]. now rewrite Nat.add_0_r.
  - destruct (step s e0) as [s'|v]; [|reflexivity].
    rewrite IH. destruct (run s' (S i) t); [|reflexivity].
    destruct (step s0 e); [reflexivity|]. f_equal. f_equal. lia.
Qed.

(* the allocator state [a] is sound and the ids in L are distinct live buffers *)
Definition Own (a : ast) (L : list nat) : Prop :=
  NoDup L /\
  exists s, run init 0 (trace a) = inl s /\
            (forall x, In x L -> In x (live s)) /\
            (forall x, known s x = true -> x < nextid a).

Lemma known_In s x : known s x = true <-> In x (live s) \/ In x (dead s).
Proof. unfold known. now rewrite orb_true_iff, !mem_In. Qed.

Lemma Own_weaken a L L' : Own a L -> NoDup L' -> incl L' L -> Own a L'.
Proof.
  intros (_ & s & R & HL & HK) ND I. split; [assumption|]. exists s. split; [assumption|]. split; [|assumption].
  intros x Hx. apply HL, I, Hx.
Qed.

Lemma Own_perm a L L' : Permutation L L' -> Own a L -> Own a L'.
Proof.
  intros P O. apply (Own_weaken a L L' O).
  - eapply Permutation_NoDup; [eassumption|apply O].
  - intros x Hx. eapply Permutation_in; [apply Permutation_sym; eassumption|assumption].
Qed.

Lemma Own_tail a x L : Own a (x :: L) -> Own a L.
Proof.
  intros O. apply (Own_weaken a (x :: L) L O).
  - destruct O as [ND _]. now inversion ND.
  - intros y Hy. now right.
Qed.

Lemma Own_malloc a L : Own a L -> Own (fst (a_malloc a)) (snd (a_malloc a) :: L).
Proof.
  intros (ND & s & R & HL & HK). cbn [a_malloc fst snd].
  assert (NK : known s (nextid a) = false).
  { destruct (known s (nextid a)) eqn:E; [|reflexivity]. apply HK in E. lia. }
  split.
  - constructor; [|assumption]. intros Hx. apply HL in Hx.
    assert (known s (nextid a) = true) by (apply known_In; now left). congruence.
  - exists (mkst (nextid a :: live s) (dead s)). cbn [trace nextid]. split; [|split].
    + rewrite run_snoc, R. cbn [step]. now rewrite NK.
    + intros x [<-|Hx]; [now left|right; now apply HL].
    + intros x Hx. apply known_In in Hx. cbn [live dead] in Hx.
      destruct Hx as [[<-|Hx]|Hx]; [lia| |]; (assert (x < nextid a); [apply HK, known_In; tauto|lia]).
Qed.

Lemma Own_append a id L : Own a (id :: L) -> Own (fst (a_append a id)) (snd (a_append a id) :: L).
Proof.
  intros (ND & s & R & HL & HK).
  assert (Lid : In id (live s)) by (apply HL; now left).
  assert (Hid : id < nextid a) by (apply HK, known_In; now left).
  assert (Same : forall m, Own (mka (nextid a) m (fails a) (trace a ++ [EAppend id id]) (out a)) (id :: L)).
  { intros m. split; [assumption|]. exists s. cbn [trace nextid]. split; [|split; assumption].
    rewrite run_snoc, R. cbn [step]. unfold step_grow.
    apply mem_In in Lid. now rewrite Lid, Nat.eqb_refl. }
  unfold a_append. destruct (moves a) as [|[|] m]; cbn [fst snd]; try apply Same.
  (* the allocator moved the buffer *)
  assert (NK : known s (nextid a) = false).
  { destruct (known s (nextid a)) eqn:E; [|reflexivity]. apply HK in E. lia. }
  inversion ND as [|? ? NI ND']; subst.
  split.
  - constructor; [|assumption]. intros Hx. assert (In (nextid a) (live s)) by (apply HL; now right).
    assert (known s (nextid a) = true) by (apply known_In; now left). congruence.
  - exists (mkst (nextid a :: del id (live s)) (id :: dead s)). cbn [trace nextid]. split; [|split].
    + rewrite run_snoc, R. cbn [step]. unfold step_grow.
      apply mem_In in Lid. rewrite Lid.
      destruct (Nat.eqb id (nextid a)) eqn:E; [apply Nat.eqb_eq in E; lia|]. now rewrite NK.
    + cbn [live]. intros x [<-|Hx]; [now left|]. right. apply del_In. split; [apply HL; now right|].
      intros ->. contradiction.
    + intros x Hx. apply known_In in Hx. cbn [live dead] in Hx.
      destruct Hx as [[<-|Hx]|[<-|Hx]]; [lia| |lia|].
      * apply del_In in Hx. assert (x < nextid a); [apply HK, known_In; tauto|lia].
      * assert (x < nextid a); [apply HK, known_In; tauto|lia].
Qed.

Lemma Own_free a id L : Own a (id :: L) -> Own (a_free a id) L.
Proof.
  intros (ND & s & R & HL & HK).
  assert (Lid : In id (live s)) by (apply HL; now left).
  inversion ND as [|? ? NI ND']; subst.
  split; [assumption|]. exists (mkst (del id (live s)) (id :: dead s)). cbn [a_free trace nextid]. split; [|split].
  - rewrite run_snoc, R. cbn [step]. apply mem_In in Lid. now rewrite Lid.
  - cbn [live]. intros x Hx. apply del_In. split; [apply HL; now right|]. intros ->. contradiction.
  - intros x Hx. apply HK. apply known_In in Hx. apply known_In. cbn [live dead] in Hx.
    destruct Hx as [Hx|[<-|Hx]]; [apply del_In in Hx; tauto|tauto|tauto].
Qed.

Lemma Own_write a src n L : Own a L -> (forall id, src = Some id -> In id L) -> Own (fst (a_write a src n)) L.
Proof.
  intros (ND & s & R & HL & HK) Hs. split; [assumption|]. exists s. cbn [a_write fst trace nextid].
  split; [|split; assumption].
  destruct src as [id|]; [|assumption].
  destruct (0 <? n)%N; [|assumption].
  rewrite run_snoc, R. cbn [step].
  assert (In id (live s)) by (apply HL, Hs; reflexivity).
  apply mem_In in H. now rewrite H.
Qed.

Lemma Own_ok a L : Own a L -> ok_trace (trace a) = true.
Proof. intros (_ & s & R & _). unfold ok_trace, check_trace. now rewrite R. Qed.

(* ---------------- lifted to the response ---------------- *)
Definition oid (o : option pbuf) : list nat := match o with Some (id, _) => [id] | None => [] end.
Definition owners (r : resp) : list nat := oid (buffer r) ++ oid (bodybuf r).

(* the invariant: the response's buffers are distinct, live, and the trace so far passes the checker *)
Definition I (r : resp) : Prop := Own (al r) (owners r).

(* r' differs from r in fields that own no memory *)
Definition same (r r' : resp) : Prop := al r' = al r /\ buffer r' = buffer r /\ bodybuf r' = bodybuf r.

Lemma same_refl r : same r r. Proof. repeat split. Qed.
Lemma same_trans r1 r2 r3 : same r1 r2 -> same r2 r3 -> same r1 r3.
Proof. unfold same. intuition congruence. Qed.

Lemma same_write_header r c t : same r (write_header r c t).
Proof. unfold write_header. destruct ((code r =? 0)%N && negb (c =? 0)%N); [destruct t|]; repeat split. Qed.
Lemma same_check_chunked r : same r (check_chunked r).
Proof. unfold check_chunked. destruct (chunkChecked r); repeat split. Qed.
Lemma same_set_hasbody r : same r (set_hasbody r). Proof. repeat split. Qed.
Lemma same_set_written r a b : same r (set_written r a b). Proof. repeat split. Qed.
Lemma same_bump r l : same r (bump r l). Proof. repeat split. Qed.
Lemma same_set_hdrs r a b c : same r (set_hdrs r a b c). Proof. repeat split. Qed.

Lemma malloc_inv r r' id L :
  malloc r = (r', id) -> Own (al r) L -> Own (al r') (id :: L) /\ buffer r' = buffer r /\ bodybuf r' = bodybuf r.
Proof.
  unfold malloc. intros E O. assert (M := Own_malloc _ _ O). destruct (a_malloc (al r)) as [a i].
  injection E as <- <-. cbn in *. auto.
Qed.

Lemma append_inv r i r' id' L :
  append r i = (r', id') -> Own (al r) (i :: L) -> Own (al r') (id' :: L) /\ buffer r' = buffer r /\ bodybuf r' = bodybuf r.
Proof.
  unfold append. intros E O. assert (M := Own_append _ _ _ O). destruct (a_append (al r) i) as [a j].
  injection E as <- <-. cbn in *. auto.
Qed.

Lemma free_inv r i L : Own (al r) (i :: L) -> Own (al (free r i)) L.
Proof. intros O. cbn. now apply Own_free. Qed.

Lemma cwrite_inv r src n r' ok L :
  cwrite r src n = (r', ok) -> Own (al r) L -> (forall i, src = Some i -> In i L) ->
  Own (al r') L /\ buffer r' = buffer r /\ bodybuf r' = bodybuf r.
Proof.
  unfold cwrite. intros E O Hs. assert (M := Own_write _ src n _ O Hs). destruct (a_write (al r) src n) as [a k].
  injection E as <- <-. cbn in *. auto.
Qed.
