(* on_data: one data frame under the lock *)
From Coq Require Import List Arith NArith Bool Lia Permutation.
Import ListNotations.
Require Import BufOwner BufOwnerProofs RespAlloc RespAllocProofs ExactOwn WsRecvAlloc WsRecvProofs.
Open Scope nat_scope.

Lemma Exact_append_mid a id l1 l2 :
  Exact a (l1 ++ id :: l2) -> Exact (fst (a_append a id)) (l1 ++ snd (a_append a id) :: l2).
Proof.
  intros X. apply (Exact_perm _ _ _ (Permutation_sym (Permutation_middle l1 l2 id))) in X.
  apply Exact_append in X. eapply Exact_perm; [|exact X]. apply Permutation_middle.
Qed.

(* what a step leaves alone *)
Definition keeps (w w1 : wst) : Prop :=
  cache w1 = cache w /\ given w1 = given w /\ wclosed w1 = wclosed w.

Lemma keeps_refl w : keeps w w. Proof. repeat split. Qed.
Lemma keeps_trans a b c : keeps a b -> keeps b c -> keeps a c.
Proof. unfold keeps. intuition congruence. Qed.

Lemma hot_take_frame c w pl w1 fr L :
  take_frame c w pl = (w1, fr) -> Hot w L ->
  Hot w1 (woid fr ++ L) /\ keeps w w1 /\ msg w1 = msg w /\ (fr <> None -> (0 <? pl)%N = true).
Proof.
  unfold take_frame. intros E X. destruct ((0 <? pl)%N && wfh c) eqn:B.
  - destruct (w_malloc w) as [w2 id] eqn:E2. injection E as <- <-.
    destruct (hot_malloc _ _ _ _ E2 X) as (X2 & A & Bm & C & D). cbn [woid app].
    split; [assumption|]. split; [repeat split; assumption|]. split; [assumption|].
    intros _. now apply andb_true_iff in B.
  - injection E as <- <-. cbn [woid app]. split; [assumption|]. split; [apply keeps_refl|]. split; [reflexivity|congruence].
Qed.

Lemma hot_add_payload w pl L :
  Hot w L ->
  Hot (add_payload w pl) L /\ keeps w (add_payload w pl) /\ ((0 <? pl)%N = true -> msg (add_payload w pl) <> None)
  /\ ((0 <? pl)%N = false -> msg (add_payload w pl) = msg w).
Proof.
  intros X. unfold add_payload. destruct (0 <? pl)%N.
  2:{ split; [assumption|]. split; [apply keeps_refl|]. split; [discriminate|reflexivity]. }
  destruct (msg w) as [[id l]|] eqn:EM.
  - unfold w_append. destruct (a_append (wa w) id) as [a id'] eqn:EA.
    split; [|split; [repeat split|split; [cbn; discriminate|discriminate]]].
    unfold Hot in *. cbn [set_msg set_wa wa cache msg given woid app]. rewrite EM in X. cbn [woid app] in X.
    rewrite !app_assoc in X. assert (H := Exact_append_mid _ _ _ _ X). rewrite EA in H. cbn [fst snd] in H.
    now rewrite !app_assoc.
  - destruct (w_malloc w) as [w1 id] eqn:E1. destruct (hot_malloc _ _ _ _ E1 X) as (X1 & A & B & C & D).
    split; [|split; [repeat split; cbn; assumption|split; [cbn; discriminate|discriminate]]].
    apply msg_in; [congruence|assumption].
Qed.

Lemma hot_recover w L : Hot w L -> Hot (recover w) L.
Proof.
  intros X. unfold recover. destruct (cache w) as [[id n]|] eqn:E; [|assumption].
  assert (H := cache_out w id n L E X). apply hot_free in H. exact H.
Qed.

Lemma hot_escape w fr : Hot w (woid fr) -> Hot (escape w fr) [].
Proof.
  intros X. unfold escape. apply hot_recover in X. destruct fr as [[id n]|]; [|exact X].
  cbn [woid] in X. now apply hot_give.
Qed.

Lemma hot_free_opt w fr L : Hot w (woid fr ++ L) -> Hot (match fr with Some (id, _) => w_free w id | None => w end) L.
Proof. destruct fr as [[id n]|]; cbn [woid app]; [apply hot_free|trivial]. Qed.

Lemma hot_inflate_msg w f mid fr :
  Hot w (mid :: woid fr) ->
  let '(w1, (got, m), fr1, e) := inflate_msg w f mid fr in
  (e = 0%N /\ Hot w1 (woid m ++ woid fr1) /\ (got = false -> m = None)) \/ ((e = 1%N \/ e = 2%N) /\ Hot w1 []).
Proof.
  intros X. unfold inflate_msg.
  destruct (w_malloc w) as [w1 pb] eqn:E1. destruct (hot_malloc _ _ _ _ E1 X) as (X1 & _).
  destruct (w_grow w1 pb (f_grow f)) as [w2 pb2] eqn:E2. destruct (hot_grow _ _ _ _ _ _ E2 X1) as (X2 & _).
  destruct (f_infl f).
  - left. split; [reflexivity|]. split; [|discriminate]. cbn [woid app]. apply hot_flags.
    apply (Hot_perm _ _ _ (perm_swap _ _ _)) in X2. now apply hot_free in X2.
  - right. split; [now right|]. apply hot_free in X2. apply hot_free in X2.
    rewrite <- (app_nil_r (woid fr)) in X2. now apply hot_free_opt in X2.
  - right. split; [now left|].
    apply (Hot_perm _ _ _ (perm_swap _ _ _)) in X2. apply hot_free in X2.
    assert (X3 : Hot (w_free w2 mid) (woid fr ++ [pb2])).
    { eapply Hot_perm; [|exact X2]. change (pb2 :: woid fr) with ([pb2] ++ woid fr). apply Permutation_app_comm. }
    apply hot_free_opt in X3. now apply hot_free in X3.
Qed.

Lemma hot_on_data c w f :
  Hot w [] ->
  let '(w1, (got, m), fr, e) := on_data c w f in
  (e = 0%N /\ Hot w1 (woid m ++ woid fr) /\ (got = false -> m = None)) \/ ((e = 1%N \/ e = 2%N) /\ Hot w1 []).
Proof.
  intros X. unfold on_data.
  set (w0 := if typed w then w else set_flags w true (f_rsv1 f) (expecting w)).
  assert (X0 : Hot w0 []) by (unfold w0; destruct (typed w); exact X). clearbody w0. clear X w.
  destruct (take_frame c w0 (f_plen f)) as [w1 fr] eqn:E1.
  destruct (hot_take_frame _ _ _ _ _ _ E1 X0) as (X1 & K1 & M1 & P1). rewrite app_nil_r in X1.
  destruct (negb (wmh c)).
  { left. split; [reflexivity|]. split; [|reflexivity]. cbn [woid app]. now apply hot_flags. }
  destruct (hot_add_payload w1 (f_plen f) _ X1) as (X2 & K2 & P2 & P2').
  set (w2 := add_payload w1 (f_plen f)) in *. clearbody w2.
  destruct (negb (f_fin f)).
  { left. split; [reflexivity|]. split; [|reflexivity]. cbn [woid app]. now apply hot_flags. }
  destruct (msg w2) as [[mid ml]|] eqn:EM.
  - assert (X3 := msg_out w2 mid ml _ EM X2).
    destruct (ccomp (set_msg w2 None)).
    + apply hot_inflate_msg. exact X3.
    + left. split; [reflexivity|]. split; [|discriminate]. cbn [woid app]. now apply hot_flags.
  - assert (X3 : Hot (set_msg w2 None) (woid fr)).
    { unfold Hot in *. cbn [set_msg wa cache msg given]. now rewrite EM in X2. }
    destruct (ccomp (set_msg w2 None)).
    + right. split; [now left|]. apply hot_recover.
      (* no payload at all: no frame copy *)
      destruct fr as [[fid fn]|]; [|exact X3].
      exfalso. destruct (0 <? f_plen f)%N eqn:PL; [now apply P2|]. assert (H := P1 ltac:(discriminate)). discriminate.
    + left. split; [reflexivity|]. split; [|discriminate]. cbn [woid app]. now apply hot_flags.
Qed.
