(* The WebSocket receive path (nbhttp/websocket/conn.go: Parse, nextFrame as far as it decides what happens to buffers,
   readAll, handleMessage / handleDataFrame / handleProtocolMessage with ReleasePayload on or off, the recover path,
   CloseAndClean; writeFrame in direct mode for the frames the receive path itself sends), INSTRUMENTED with its allocator
   events (C11).  Contents are abstracted to lengths; the frame stream is a list of frame descriptors (what the codec
   model of coq/ws decodes); validation is reduced to the decisions that matter for buffers.
     cache (bytesCached): Malloc on the first bytes, Append for more, Free when a frame consumes it entirely (else shifted
                          in place), Free in CloseAndClean and in the recover path
     message (c.message): Malloc on the first non-empty fragment, Append for the next ones, taken on FIN;
                          compressed: readAll's output buffer (Malloc, Appends, Free when too large), Free of the compressed one
     frame / control payload copies: Malloc when non-empty
     releaseBuf on a failed inflate; after the locked section each buffer is handed to its handler (EUse when the handler
     runs and the payload is non-empty) and then freed (ReleasePayload) or left to the application (ghost list [given])
     frames sent by the receive path (close 1009 on a size violation, close 1002 on an invalid close code): Malloc, the
     connection reads it (EUse), Free
   Oracles: per compressed message the outcome of inflate and how often readAll grew its buffer (ANY values); the moves of
   the allocator (ast).  No proofs in this file. *)
From Coq Require Import List NArith Bool Arith.
Import ListNotations.
Require Import BufOwner RespAlloc.
Open Scope N_scope.

Inductive fop := ODataFirst | OCont | OCtl | OBad.    (* text/binary, continuation, ping/pong/close, reserved opcode *)
Inductive inflate := IOk | ITooLarge | IBad.

Record frame := mkf {
  f_op : fop; f_fin : bool; f_rsv1 : bool; f_rsvx : bool;
  f_lk : N;            (* bytes needed before the payload length is known: 2, 4 or 10 *)
  f_mask : bool;
  f_plen : N;          (* payload length on the wire *)
  f_neg : bool;        (* 64-bit length with the top bit set *)
  f_reply : bool;      (* control frame whose handling sends one frame (close with an invalid code) *)
  f_clean : bool;      (* final data frame: the message handler calls CloseAndClean *)
  f_mpanic : bool;     (* the handler of this frame's message / control payload panics *)
  f_fpanic : bool;     (* the data frame handler panics on this frame *)
  f_infl : inflate;    (* compressed final frame: outcome of the inflate *)
  f_ilen : N;          (* ... length of the inflated message *)
  f_grow : nat         (* ... how often readAll appended to its buffer *)
}.

Record wcfg := mkcfg {
  wrelease : bool;      (* Conn.releasePayload *)
  wmh : bool;           (* a message handler is installed *)
  wfh : bool;           (* a data frame handler is installed *)
  wzip : bool;          (* enableCompression: RSV1 allowed *)
  wlimit : N;           (* MessageLengthLimit (0: none) *)
  wrlimit : N;          (* Engine.ReadLimit (0: none) *)
  wrecov : bool         (* the executor that runs the handlers (Engine.SyncCall / Conn.Execute) recovers their panics *)
}.

Definition obuf := option (nat * N).

Record wst := mkw {
  cache : obuf;          (* Conn.bytesCached *)
  msg : obuf;            (* Conn.message *)
  typed : bool;          (* Conn.msgType <> 0 *)
  ccomp : bool;          (* Conn.compress *)
  expecting : bool;      (* Conn.expectingFragments *)
  wclosed : bool;        (* Conn.closed *)
  pending : list frame;  (* the frames whose bytes are not consumed yet; the cache holds a prefix of their bytes *)
  given : list nat;      (* ghost: buffers the library does not hold any more and did not free: left to the application
                            (ReleasePayload off), or dropped when a handler's panic escaped into Parse's recover *)
  wa : ast
}.

Definition w0 (mv : list bool) (frames : list frame) : wst := mkw None None false false false false frames [] (mka 0 mv [] [] []).

Definition set_cache (w : wst) (c : obuf) := mkw c (msg w) (typed w) (ccomp w) (expecting w) (wclosed w) (pending w) (given w) (wa w).
Definition set_msg (w : wst) (m : obuf) := mkw (cache w) m (typed w) (ccomp w) (expecting w) (wclosed w) (pending w) (given w) (wa w).
Definition set_flags (w : wst) (t c e : bool) := mkw (cache w) (msg w) t c e (wclosed w) (pending w) (given w) (wa w).
Definition set_pending (w : wst) (p : list frame) := mkw (cache w) (msg w) (typed w) (ccomp w) (expecting w) (wclosed w) p (given w) (wa w).
Definition set_wa (w : wst) (a : ast) := mkw (cache w) (msg w) (typed w) (ccomp w) (expecting w) (wclosed w) (pending w) (given w) a.
Definition give (w : wst) (id : nat) := mkw (cache w) (msg w) (typed w) (ccomp w) (expecting w) (wclosed w) (pending w) (id :: given w) (wa w).

Definition w_malloc (w : wst) : wst * nat := let '(a, id) := a_malloc (wa w) in (set_wa w a, id).
Definition w_append (w : wst) (id : nat) : wst * nat := let '(a, id') := a_append (wa w) id in (set_wa w a, id').
Definition w_free (w : wst) (id : nat) : wst := set_wa w (a_free (wa w) id).
Definition w_use (w : wst) (id : nat) (n : N) : wst := set_wa w (fst (a_write (wa w) (Some id) n)).

Fixpoint w_grow (w : wst) (id : nat) (k : nat) : wst * nat :=
  match k with O => (w, id) | S k' => let '(w1, id1) := w_append w id in w_grow w1 id1 k' end.

(* writeFrame, direct mode: Malloc, conn.Write reads it, Free; WriteMessage refuses on a closed connection *)
Definition send_frame (w : wst) : wst :=
  if wclosed w then w else
  let '(w1, id) := w_malloc w in w_free (w_use w1 id 2) id.

(* CloseAndClean *)
Definition close_clean (w : wst) : wst :=
  if wclosed w then w else
  let w := mkw (cache w) (msg w) (typed w) (ccomp w) (expecting w) true (pending w) (given w) (wa w) in
  let w := match cache w with Some (id, _) => set_cache (w_free w id) None | None => w end in
  match msg w with Some (id, _) => set_msg (w_free w id) None | None => w end.

(* after the handler: Free with ReleasePayload, else the application keeps the buffer *)
Definition dispose (c : wcfg) (w : wst) (id : nat) : wst := if wrelease c then w_free w id else give w id.

(* handleMessage for a data message (b = None: empty message, nothing to release).  A panic of the handler is either
   swallowed by the executor (then everything goes on as if the handler had returned) or escapes into Parse's recover
   (second component); the deferred release of the payload happens in both cases. *)
Definition deliver_msg (c : wcfg) (w : wst) (b : obuf) (clean pan : bool) : wst * bool :=
  let called := negb (wclosed w) in
  let w1 := match b with Some (id, n) => if called then w_use w id n else w | None => w end in
  let w2 := if called && clean && negb pan then close_clean w1 else w1 in
  (match b with Some (id, _) => dispose c w2 id | None => w2 end, called && pan && negb (wrecov c)).

Definition deliver_frame (c : wcfg) (w : wst) (b : obuf) (pan : bool) : wst * bool :=
  match b with
  | Some (id, n) => (dispose c (if wclosed w then w else w_use w id n) id, negb (wclosed w) && pan && negb (wrecov c))
  | None => (w, false)
  end.

(* a close frame with an invalid code is answered and its handler is not called *)
Definition deliver_ctl (c : wcfg) (w : wst) (b : obuf) (reply pan : bool) : wst * bool :=
  let w := if reply then send_frame w else w in
  (match b with Some (id, _) => dispose c w id | None => w end, pan && negb reply && negb (wrecov c)).

Inductive pres := POk | PErr | PClosed | PTooLong.

Definition is_data (o : fop) : bool := match o with ODataFirst | OCont => true | _ => false end.

(* validFrame and the opcode switch, as far as they reject *)
Definition invalid (c : wcfg) (w : wst) (f : frame) : bool :=
  (f_rsv1 f && negb (wzip c)) || f_rsvx f
  || (match f_op f with OBad => true | _ => false end)
  || (negb (f_fin f) && negb (is_data (f_op f)))
  || (expecting w && match f_op f with ODataFirst => true | _ => false end)
  || (negb (expecting w) && match f_op f with OCont => true | _ => false end).

Definition olen (b : obuf) : N := match b with Some (_, n) => n | None => 0 end.

(* consume the frame from the cache: Free when it was all of it, else shift in place *)
Definition consume (w : wst) (total : N) : wst :=
  match cache w with
  | Some (id, l) => if l =? total then set_cache (w_free w id) None else set_cache w (Some (id, l - total))
  | None => w
  end.

(* the copy of the payload for the data frame handler *)
Definition take_frame (c : wcfg) (w : wst) (pl : N) : wst * obuf :=
  if (0 <? pl) && wfh c then let '(w1, id) := w_malloc w in (w1, Some (id, pl)) else (w, None).

(* the payload joins the message buffer *)
Definition add_payload (w : wst) (pl : N) : wst :=
  if 0 <? pl then
    match msg w with
    | None => let '(w1, id) := w_malloc w in set_msg w1 (Some (id, pl))
    | Some (id, l) => let '(w1, id') := w_append w id in set_msg w1 (Some (id', l + pl))
    end
  else w.

(* the recover path of Parse: the cache is released *)
Definition recover (w : wst) : wst :=
  match cache w with Some (id, _) => set_cache (w_free w id) None | None => w end.

(* a handler's panic escaped: Parse's recover frees the cache; a frame copy not handed over yet is dropped *)
Definition escape (w : wst) (fr : obuf) : wst :=
  let w := recover w in match fr with Some (id, _) => give w id | None => w end.

(* inflate of the taken message mid (c.message is nil by now); fr is the frame copy.
   error flag: 0 = fine, 1 = error, 2 = error after which the receive path sends a close frame *)
Definition inflate_msg (w : wst) (f : frame) (mid : nat) (fr : obuf) : wst * (bool * obuf) * obuf * N :=
  let '(w, pb) := w_malloc w in
  let '(w, pb) := w_grow w pb (f_grow f) in
  match f_infl f with
  | IOk =>
      let w := w_free w mid in
      (set_flags w false false false, (true, Some (pb, f_ilen f)), fr, 0)
  | ITooLarge =>
      let w := w_free (w_free w pb) mid in
      let w := match fr with Some (id, _) => w_free w id | None => w end in
      (w, (false, None), None, 2)
  | IBad =>
      let w := w_free w mid in
      let w := match fr with Some (id, _) => w_free w id | None => w end in
      (w_free w pb, (false, None), None, 1)
  end.

(* one data frame under the lock; returns the state, the taken message (if FIN), the frame copy, and the error flag *)
Definition on_data (c : wcfg) (w : wst) (f : frame) : wst * (bool * obuf) * obuf * N :=
  let w := if typed w then w else set_flags w true (f_rsv1 f) (expecting w) in
  let '(w, fr) := take_frame c w (f_plen f) in
  if negb (wmh c) then
    (set_flags w (negb (f_fin f) && typed w) (negb (f_fin f) && ccomp w) (negb (f_fin f)), (false, None), fr, 0)
  else
    let w := add_payload w (f_plen f) in
    if negb (f_fin f) then (set_flags w (typed w) (ccomp w) true, (false, None), fr, 0)
    else
      let m := msg w in
      let w := set_msg w None in
      if ccomp w then
        match m with
        | None =>
            (* bytes.NewBuffer( *message ) with message == nil panics; the recover path frees the cache.
               (No payload byte was ever received for this message, so no frame copy exists either.) *)
            (recover w, (false, None), None, 1)
        | Some (mid, _) => inflate_msg w f mid fr
        end
      else (set_flags w false false false, (true, m), fr, 0).

(* the loop of Parse: one frame per iteration; structural on the list of frames not consumed yet *)
Fixpoint parse_loop (c : wcfg) (w : wst) (fs : list frame) : wst * pres :=
  if wclosed w then (w, POk) else
  match fs with
  | [] => (w, POk)
  | f :: rest =>
      let L := olen (cache w) in
      if L <? 2 then (w, POk) else
      if L <? f_lk f then (w, POk) else
      if f_neg f then (w, PErr) else
      if is_data (f_op f) && (0 <? wlimit c) && (wlimit c <? olen (msg w) + f_plen f) then (send_frame w, PErr) else
      if (match f_op f with OCtl => true | _ => false end) && (125 <? f_plen f) then (send_frame w, PErr) else
      let total := f_lk f + (if f_mask f then 4 else 0) + f_plen f in
      if L <? total then (w, POk) else
      if invalid c w f then (w, PErr) else
      if is_data (f_op f) then
        let '(w1, (got, m), fr, e) := on_data c w f in
        if e =? 1 then (w1, PErr) else
        if e =? 2 then (send_frame w1, PErr) else
        let w2 := set_pending (consume w1 total) rest in
        let '(w3, esc1) := if got then deliver_msg c w2 m (f_clean f) (f_mpanic f) else (w2, false) in
        if esc1 then (escape w3 fr, PErr) else
        let '(w4, esc2) := deliver_frame c w3 fr (f_fpanic f) in
        if esc2 then (recover w4, PErr) else
        parse_loop c w4 rest
      else
        let '(w1, pm) := if 0 <? f_plen f then let '(w', id) := w_malloc w in (w', Some (id, f_plen f)) else (w, None) in
        let w2 := set_pending (consume w1 total) rest in
        let '(w3, esc) := deliver_ctl c w2 pm (f_reply f) (f_mpanic f) in
        if esc then (recover w3, PErr) else
        parse_loop c w3 rest
  end.

(* Parse(data), len(data) = n *)
Definition w_parse (c : wcfg) (w : wst) (n : N) : wst * pres :=
  if n =? 0 then (w, POk) else
  if wclosed w then (w, PClosed) else
  if (0 <? wrlimit c) && (match cache w with Some (_, l) => wrlimit c <? l + n | None => false end) then (w, PTooLong) else
  let w := match cache w with
           | None => let '(w1, id) := w_malloc w in set_cache w1 (Some (id, n))
           | Some (id, l) => let '(w1, id') := w_append w id in set_cache w1 (Some (id', l + n))
           end in
  parse_loop c w (pending w).

Inductive wop := WParse (n : N) | WClose.

Definition wstep (c : wcfg) (w : wst) (o : wop) : wst * pres :=
  match o with
  | WParse n => w_parse c w n
  | WClose => (close_clean w, POk)
  end.

(* observation after every operation: result, cache length, message length, closed *)
Fixpoint wrun (c : wcfg) (w : wst) (ops : list wop) : wst * list (pres * N * N * bool) :=
  match ops with
  | [] => (w, [])
  | o :: os => let '(w1, r) := wstep c w o in
               let '(w2, rs) := wrun c w1 os in (w2, (r, olen (cache w1), olen (msg w1), wclosed w1) :: rs)
  end.

Definition woid (b : obuf) : list nat := match b with Some (id, _) => [id] | None => [] end.
Definition wowners (w : wst) : list nat := woid (cache w) ++ woid (msg w) ++ given w.

Definition ws_trace (c : wcfg) (mv : list bool) (frames : list frame) (ops : list wop) : list event :=
  trace (wa (fst (wrun c (w0 mv frames) ops))).
