(* flushResponse / releaseResponse preserve the ownership invariant and give everything back *)
From Coq Require Import List Arith NArith Bool Lia Permutation.
Import ListNotations.
Require Import BufOwner BufOwnerProofs RespAlloc RespAllocProofs RespAllocOps.
Open Scope nat_scope.

Lemma body_pending_some r bid b : body_pending r = Some (bid, b) -> exists b', bodybuf r = Some (bid, b').
Proof.
  unfold body_pending. destruct (bodybuf r) as [[i n]|]; [|discriminate].
  destruct (0 <? n)%N; [|discriminate]. intros [= <- <-]. eauto.
Qed.

Lemma I_flush_identity r : I r -> I (fst (flush_identity r)).
Proof.
  intros H. unfold flush_identity.
  (* second half: a pending body buffer on its own *)
  assert (Second : forall r1, I r1 ->
            I (fst (match body_pending r1 with
                    | Some (bid, b) => let '(r, ok) := cwrite r1 (Some bid) b in (set_bodybuf (free r bid) None, ok)
                    | None => (r1, true)
                    end))).
  { intros r1 H1. destruct (body_pending r1) as [[bid b]|] eqn:Ep; [|assumption].
    destruct (body_pending_some _ _ _ Ep) as [b' Ebb]. unfold I, owners in H1. rewrite Ebb in H1. norm.
    assert (H' : Own (al r1) (bid :: oid (buffer r1))).
    { apply (Own_perm _ _ _ (Permutation_app_comm _ _)) in H1. exact H1. }
    destruct (cwrite r1 (Some bid) b) as [r2 ok] eqn:E2. use_cwrite E2 H'.
    apply Own_free in O. fin. now rewrite app_nil_r. }
  unfold I, owners in H.
  destruct (buffer r) as [[hid h]|] eqn:Eb; norm.
  2:{ apply Second. unfold I, owners. now rewrite Eb. }
  destruct (body_pending r) as [[bid b]|] eqn:Ep.
  - destruct (body_pending_some _ _ _ Ep) as [b' Ebb]. rewrite Ebb in H. norm.
    destruct (MAXP <? h + b)%N.
    + destruct (cwrite r (Some hid) h) as [r1 ok] eqn:E1. use_cwrite E1 H.
      apply Own_free in O.
      destruct ok.
      * (* the body buffer becomes the buffer to send *)
        cbv beta iota zeta.
        destruct (cwrite _ (Some bid) b) as [r2 ok2] eqn:E2. use_cwrite E2 O.
        apply Own_free in O0.
        destruct ok2.
        -- apply Second. fin.
        -- cbn [fst]. fin.
      * apply Own_free in O. cbn [fst]. fin.
    + destruct (append r hid) as [r1 hid'] eqn:E1. use_append E1 H.
      apply Own_swap in O. apply Own_free in O.
      cbv beta iota zeta.
      destruct (cwrite _ (Some hid') _) as [r2 ok2] eqn:E2. use_cwrite E2 O.
      apply Own_free in O0.
      destruct ok2.
      * apply Second. fin.
      * cbn [fst]. fin.
  - cbv beta iota zeta.
    destruct (cwrite r (Some hid) h) as [r1 ok] eqn:E1. use_cwrite E1 H.
    apply Own_free in O.
    destruct ok.
    + apply Second. fin.
    + cbn [fst]. fin.
Qed.

Lemma I_flush_chunked r : I r -> I (fst (flush_chunked r)).
Proof.
  intros H. unfold flush_chunked. unfold I, owners in H.
  destruct (buffer r) as [[id b]|] eqn:Eb; norm; cbv beta iota zeta.
  - destruct (append (set_buffer r None) id) as [r1 id1] eqn:E1. use_append E1 H.
    destruct (cwrite r1 (Some id1) _) as [r2 ok] eqn:E2. use_cwrite E2 O.
    apply Own_free in O0. fin.
  - destruct (malloc (set_buffer r None)) as [r0 id0] eqn:E0. use_malloc E0 H.
    destruct (append r0 id0) as [r1 id1] eqn:E1. use_append E1 O.
    destruct (cwrite r1 (Some id1) _) as [r2 ok] eqn:E2. use_cwrite E2 O0.
    apply Own_free in O1. fin.
Qed.

Lemma I_release r : I r -> I (release r) /\ owners (release r) = [].
Proof.
  intros H. split; [|reflexivity]. unfold release. unfold I, owners in H.
  destruct (buffer r) as [[id b]|] eqn:Eb; norm.
  - apply Own_free in H. destruct (bodybuf r) as [[bid bb]|] eqn:Ebb; norm.
    + apply Own_free in H. fin.
    + fin.
  - destruct (bodybuf r) as [[bid bb]|] eqn:Ebb; norm.
    + apply Own_free in H. fin.
    + fin.
Qed.

Lemma I_op_finish r : I r -> I (op_finish r) /\ owners (op_finish r) = [].
Proof.
  intros H. unfold op_finish.
  assert (H1 : I (encode_head (check_chunked (write_header r 200%N [79%N; 75%N])))).
  { apply I_encode_head. eapply I_same; [|exact H]. eapply same_trans; [apply same_write_header|apply same_check_chunked]. }
  generalize dependent (encode_head (check_chunked (write_header r 200%N [79%N; 75%N]))). clear H. intros r1 H1.
  destruct (chunked r1).
  - assert (H2 := I_flush_chunked _ H1). destruct (flush_chunked r1) as [r2 ok]. now apply I_release.
  - assert (H2 := I_flush_identity _ H1). destruct (flush_identity r1) as [r2 ok]. now apply I_release.
Qed.

Lemma I_run_op r o : I r -> I (fst (run_op r o)).
Proof.
  intros H. destruct o; cbn [run_op fst].
  - eapply I_same; [apply same_set_hdrs|exact H].
  - eapply I_same; [apply same_set_hdrs|exact H].
  - eapply I_same; [apply same_set_hdrs|exact H].
  - eapply I_same; [apply same_set_hdrs|exact H].
  - eapply I_same; [apply same_write_header|exact H].
  - assert (W := I_op_write r l H). destruct (op_write r l). exact W.
  - now apply I_op_flush.
Qed.

Lemma I_run_ops ops : forall r acc, I r -> I (fst (run_ops r ops acc)).
Proof.
  induction ops as [|o ops IH]; intros r acc H; cbn [run_ops]; [assumption|].
  assert (H1 := I_run_op r o H). destruct (run_op r o) as [r' w]. now apply IH.
Qed.

Lemma I_new q mv fl : I (new_resp q mv fl).
Proof.
  unfold I, owners, new_resp. cbn. split; [constructor|]. exists init. split; [reflexivity|].
  split; [intros x []|]. intros x Hx. discriminate.
Qed.

(* every prefix of an exchange: after any number of handler operations the invariant holds *)
Lemma I_exchange q mv fl ops : I (fst (run_exchange q mv fl ops)) /\ owners (fst (run_exchange q mv fl ops)) = [].
Proof.
  unfold run_exchange.
  assert (H := I_run_ops ops (new_resp q mv fl) [] (I_new q mv fl)).
  destruct (run_ops (new_resp q mv fl) ops []) as [r ws]. cbn [fst] in *. now apply I_op_finish.
Qed.

Lemma exchange_ok q mv fl ops : ok_trace (exchange_trace q mv fl ops) = true.
Proof. unfold exchange_trace. eapply Own_ok. apply I_exchange. Qed.

Lemma prefix_ok q mv fl ops : ok_trace (trace (al (fst (run_ops (new_resp q mv fl) ops [])))) = true.
Proof. eapply Own_ok. apply (I_run_ops ops _ [] (I_new q mv fl)). Qed.

(* the two buffers of a response are never the same buffer *)
Lemma owners_distinct r i1 n1 i2 n2 : I r -> buffer r = Some (i1, n1) -> bodybuf r = Some (i2, n2) -> i1 <> i2.
Proof.
  intros [ND _] E1 E2. unfold owners in ND. rewrite E1, E2 in ND. cbn in ND.
  inversion ND as [|? ? NI _]. intros ->. apply NI. now left.
Qed.

(* the buffers a response holds are live in the allocator's eyes *)
Lemma owners_live r x : I r -> In x (owners r) -> In x (live_at_end (trace (al r))).
Proof.
  intros (_ & s & R & HL & _) Hx. unfold live_at_end. rewrite R. now apply HL.
Qed.
