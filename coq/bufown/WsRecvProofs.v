(* C11 on the instrumented WebSocket receive path: ownership lemmas for the primitives and the hand-overs between local
   variables, the connection's fields (cache, message) and the application. *)
From Coq Require Import List Arith NArith Bool Lia Permutation.
Import ListNotations.
Require Import BufOwner BufOwnerProofs RespAlloc RespAllocProofs ExactOwn WsRecvAlloc.
Open Scope nat_scope.

(* L: buffers held in local variables of Parse; then the connection's fields; then what the application was given.
   Exactly these are live, each once. *)
Definition Hot (w : wst) (L : list nat) : Prop :=
  Exact (wa w) (L ++ woid (cache w) ++ woid (msg w) ++ given w).

Definition WI (w : wst) : Prop := Hot w [].

Lemma Hot_perm w L L' : Permutation L L' -> Hot w L -> Hot w L'.
Proof. intros P. unfold Hot. apply Exact_perm. now apply Permutation_app_tail. Qed.

(* primitives: only the allocator state changes *)
Lemma hot_malloc w w1 id L :
  w_malloc w = (w1, id) -> Hot w L ->
  Hot w1 (id :: L) /\ cache w1 = cache w /\ msg w1 = msg w /\ given w1 = given w /\ wclosed w1 = wclosed w.
Proof.
  unfold w_malloc, Hot. intros E X. assert (M := Exact_malloc _ _ X). destruct (a_malloc (wa w)) as [a i].
  injection E as <- <-. cbn in *. auto.
Qed.

Lemma hot_append w w1 id id' L :
  w_append w id = (w1, id') -> Hot w (id :: L) ->
  Hot w1 (id' :: L) /\ cache w1 = cache w /\ msg w1 = msg w /\ given w1 = given w /\ wclosed w1 = wclosed w.
Proof.
  unfold w_append, Hot. intros E X. assert (M := Exact_append _ _ _ X). destruct (a_append (wa w) id) as [a i].
  injection E as <- <-. cbn in *. auto.
Qed.

Lemma hot_free w id L : Hot w (id :: L) -> Hot (w_free w id) L.
Proof. unfold Hot, w_free. cbn [wa set_wa cache msg given]. apply Exact_free. Qed.

Lemma hot_use w id n L : Hot w L -> In id (L ++ woid (cache w) ++ woid (msg w) ++ given w) -> Hot (w_use w id n) L.
Proof.
  unfold Hot, w_use. cbn [wa set_wa cache msg given]. intros X H. apply Exact_write; [assumption|].
  intros i [= <-]. assumption.
Qed.

Lemma hot_use_local w id n L : Hot w (id :: L) -> Hot (w_use w id n) (id :: L).
Proof. intros X. apply hot_use; [assumption|]. now left. Qed.

Lemma hot_give w id L : Hot w (id :: L) -> Hot (give w id) L.
Proof.
  unfold Hot, give. cbn [wa cache msg given]. apply Exact_perm.
  cbn [app]. rewrite !app_assoc. apply Permutation_middle.
Qed.

Lemma hot_grow k : forall w w1 id id' L,
  w_grow w id k = (w1, id') -> Hot w (id :: L) ->
  Hot w1 (id' :: L) /\ cache w1 = cache w /\ msg w1 = msg w /\ given w1 = given w /\ wclosed w1 = wclosed w.
Proof.
  induction k as [|k IH]; intros w w1 id id' L E X; cbn [w_grow] in E.
  - injection E as <- <-. auto.
  - destruct (w_append w id) as [w2 id2] eqn:E2.
    destruct (hot_append _ _ _ _ _ E2 X) as (X2 & A & B & C & D).
    destruct (IH _ _ _ _ _ E X2) as (X3 & A' & B' & C' & D'). split; [exact X3|]. repeat split; congruence.
Qed.

(* hand-overs between a local variable and a field *)
Lemma cache_out w id n L : cache w = Some (id, n) -> Hot w L -> Hot (set_cache w None) (id :: L).
Proof.
  unfold Hot. cbn [wa set_cache cache msg given]. intros -> . apply Exact_perm. cbn [woid app].
  apply Permutation_sym, Permutation_middle.
Qed.

Lemma cache_in w id n L : cache w = None -> Hot w (id :: L) -> Hot (set_cache w (Some (id, n))) L.
Proof.
  unfold Hot. cbn [wa set_cache cache msg given]. intros -> . apply Exact_perm. cbn [woid app].
  apply Permutation_middle.
Qed.

Lemma cache_len w id n n' L : cache w = Some (id, n) -> Hot w L -> Hot (set_cache w (Some (id, n'))) L.
Proof. unfold Hot. cbn [wa set_cache cache msg given]. now intros ->. Qed.

Lemma msg_out w id n L : msg w = Some (id, n) -> Hot w L -> Hot (set_msg w None) (id :: L).
Proof.
  unfold Hot. cbn [wa set_msg cache msg given]. intros -> . apply Exact_perm. cbn [woid app].
  rewrite (app_assoc L). apply Permutation_sym. etransitivity; [|apply Permutation_middle].
  cbn [app]. now rewrite <- app_assoc.
Qed.

Lemma msg_in w id n L : msg w = None -> Hot w (id :: L) -> Hot (set_msg w (Some (id, n))) L.
Proof.
  unfold Hot. cbn [wa set_msg cache msg given]. intros -> . apply Exact_perm. cbn [woid app].
  rewrite !app_assoc. apply Permutation_middle.
Qed.

Lemma msg_len w id n n' L : msg w = Some (id, n) -> Hot w L -> Hot (set_msg w (Some (id, n'))) L.
Proof. unfold Hot. cbn [wa set_msg cache msg given]. now intros ->. Qed.

(* fields that own nothing *)
Lemma hot_flags w t c e L : Hot w L -> Hot (set_flags w t c e) L.
Proof. exact (fun H => H). Qed.
Lemma hot_pending w p L : Hot w L -> Hot (set_pending w p) L.
Proof. exact (fun H => H). Qed.

(* ---- the building blocks of Parse ---- *)
Lemma hot_send_frame w L : Hot w L -> Hot (send_frame w) L.
Proof.
  intros X. unfold send_frame. destruct (wclosed w); [assumption|].
  destruct (w_malloc w) as [w1 id] eqn:E. destruct (hot_malloc _ _ _ _ E X) as (X1 & _).
  apply hot_free. now apply hot_use_local.
Qed.

Lemma send_frame_fields w :
  cache (send_frame w) = cache w /\ msg (send_frame w) = msg w /\ given (send_frame w) = given w /\ wclosed (send_frame w) = wclosed w.
Proof.
  unfold send_frame. destruct (wclosed w) eqn:C; [auto|].
  unfold w_malloc. destruct (a_malloc (wa w)). cbn. auto.
Qed.

Lemma hot_close_clean w L : Hot w L -> Hot (close_clean w) L.
Proof.
  intros X. unfold close_clean. destruct (wclosed w); [assumption|].
  set (w1 := mkw _ _ _ _ _ true _ _ _). assert (X1 : Hot w1 L) by exact X. clearbody w1. clear X w.
  assert (X2 : Hot (match cache w1 with Some (id, _) => set_cache (w_free w1 id) None | None => w1 end) L).
  { destruct (cache w1) as [[id n]|] eqn:E; [|assumption].
    assert (H := cache_out w1 id n L E X1). apply hot_free in H. exact H. }
  set (w2 := match cache w1 with Some _ => _ | None => _ end) in *. clearbody w2.
  destruct (msg w2) as [[id n]|] eqn:E; [|assumption].
  assert (H := msg_out w2 id n L E X2). apply hot_free in H. exact H.
Qed.

Lemma close_clean_given w : given (close_clean w) = given w.
Proof.
  unfold close_clean. destruct (wclosed w); [reflexivity|]. cbn [cache msg].
  destruct (cache w) as [[id n]|]; cbn; destruct (msg w) as [[id' n']|]; reflexivity.
Qed.

Lemma close_clean_fields w : wclosed w = false ->
  cache (close_clean w) = None /\ msg (close_clean w) = None /\ wclosed (close_clean w) = true.
Proof.
  intros C. unfold close_clean. rewrite C. cbn [cache msg].
  destruct (cache w) as [[id n]|]; cbn; destruct (msg w) as [[id' n']|]; cbn; auto.
Qed.

Lemma hot_dispose c w id L : Hot w (id :: L) -> Hot (dispose c w id) L.
Proof. intros X. unfold dispose. destruct (wrelease c); [now apply hot_free|now apply hot_give]. Qed.

Lemma dispose_given c w id : wrelease c = true -> given (dispose c w id) = given w.
Proof. intros R. unfold dispose. now rewrite R. Qed.

Lemma hot_deliver_msg c w b clean pan L : Hot w (woid b ++ L) -> Hot (fst (deliver_msg c w b clean pan)) L.
Proof.
  intros X. unfold deliver_msg. cbn [fst].
  set (w1 := match b with Some (id, n) => if negb (wclosed w) then w_use w id n else w | None => w end).
  assert (X1 : Hot w1 (woid b ++ L)).
  { unfold w1. destruct b as [[id n]|]; [|assumption]. destruct (negb (wclosed w)); [|assumption].
    cbn [woid app] in *. now apply hot_use_local. }
  clearbody w1. clear X.
  set (w2 := if negb (wclosed w) && clean && negb pan then close_clean w1 else w1).
  assert (X2 : Hot w2 (woid b ++ L)).
  { unfold w2. destruct (negb (wclosed w) && clean && negb pan); [now apply hot_close_clean|assumption]. }
  clearbody w2. destruct b as [[id n]|]; [|assumption]. cbn [woid app] in X2. now apply hot_dispose.
Qed.

Lemma hot_deliver_frame c w b pan L : Hot w (woid b ++ L) -> Hot (fst (deliver_frame c w b pan)) L.
Proof.
  intros X. unfold deliver_frame. destruct b as [[id n]|]; [|assumption]. cbn [woid app fst] in *.
  apply hot_dispose. destruct (wclosed w); [assumption|now apply hot_use_local].
Qed.

Lemma hot_deliver_ctl c w b reply pan L : Hot w (woid b ++ L) -> Hot (fst (deliver_ctl c w b reply pan)) L.
Proof.
  intros X. unfold deliver_ctl. cbn [fst].
  assert (X1 : Hot (if reply then send_frame w else w) (woid b ++ L)) by (destruct reply; [now apply hot_send_frame|assumption]).
  destruct b as [[id n]|]; [|assumption]. cbn [woid app] in X1. now apply hot_dispose.
Qed.

Lemma hot_consume w total L : Hot w L -> Hot (consume w total) L.
Proof.
  intros X. unfold consume. destruct (cache w) as [[id l]|] eqn:E; [|assumption].
  destruct (l =? total)%N.
  - assert (H := cache_out w id l L E X). apply hot_free in H. exact H.
  - eapply cache_len; eassumption.
Qed.
