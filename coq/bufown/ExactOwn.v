(* Exact ownership: the ids in L are distinct and are EXACTLY the buffers that are live in the allocator's eyes
   (nothing is held twice, nothing is leaked).  Lemmas for the allocator primitives of RespAlloc.ast. *)
From Coq Require Import List Arith NArith Bool Lia Permutation.
Import ListNotations.
Require Import BufOwner BufOwnerProofs RespAlloc RespAllocProofs.
Open Scope nat_scope.

Definition Exact (a : ast) (L : list nat) : Prop :=
  NoDup L /\
  exists s, run init 0 (trace a) = inl s /\
            (forall x, In x L <-> In x (live s)) /\
            (forall x, known s x = true -> x < nextid a).

Lemma Exact_Own a L : Exact a L -> Own a L.
Proof.
  intros (ND & s & R & HL & HK). split; [assumption|]. exists s. split; [assumption|]. split; [|assumption].
  intros x Hx. now apply HL.
Qed.

Lemma Exact_live a L : Exact a L -> forall x, In x (live_at_end (trace a)) <-> In x L.
Proof. intros (_ & s & R & HL & _) x. unfold live_at_end. rewrite R. symmetry. apply HL. Qed.

Lemma Exact_ok a L : Exact a L -> ok_trace (trace a) = true.
Proof. intros H. eapply Own_ok, Exact_Own, H. Qed.

Lemma Exact_perm a L L' : Permutation L L' -> Exact a L -> Exact a L'.
Proof.
  intros P (ND & s & R & HL & HK). split; [eapply Permutation_NoDup; eassumption|].
  exists s. split; [assumption|]. split; [|assumption].
  intros x. rewrite <- HL. split; apply Permutation_in; [apply Permutation_sym|]; assumption.
Qed.

Lemma Exact_malloc a L : Exact a L -> Exact (fst (a_malloc a)) (snd (a_malloc a) :: L).
Proof.
  intros (ND & s & R & HL & HK). cbn [a_malloc fst snd].
  assert (NK : known s (nextid a) = false).
  { destruct (known s (nextid a)) eqn:E; [|reflexivity]. apply HK in E. lia. }
  split.
  - constructor; [|assumption]. intros Hx. apply HL in Hx.
    assert (known s (nextid a) = true) by (apply known_In; now left). congruence.
  - exists (mkst (nextid a :: live s) (dead s)). cbn [trace nextid]. split; [|split].
    + rewrite run_snoc, R. cbn [step]. now rewrite NK.
    + cbn [live]. intros x. cbn [In]. now rewrite HL.
    + intros x Hx. apply known_In in Hx. cbn [live dead] in Hx.
      destruct Hx as [[<-|Hx]|Hx]; [lia| |]; (assert (x < nextid a); [apply HK, known_In; tauto|lia]).
Qed.

Lemma Exact_append a id L : Exact a (id :: L) -> Exact (fst (a_append a id)) (snd (a_append a id) :: L).
Proof.
  intros (ND & s & R & HL & HK).
  assert (Lid : In id (live s)) by (apply HL; now left).
  assert (Hid : id < nextid a) by (apply HK, known_In; now left).
  assert (Same : forall m, Exact (mka (nextid a) m (fails a) (trace a ++ [EAppend id id]) (out a)) (id :: L)).
  { intros m. split; [assumption|]. exists s. cbn [trace nextid]. split; [|split; assumption].
    rewrite run_snoc, R. cbn [step]. unfold step_grow.
    apply mem_In in Lid. now rewrite Lid, Nat.eqb_refl. }
  unfold a_append. destruct (moves a) as [|[|] m]; cbn [fst snd]; try apply Same.
  assert (NK : known s (nextid a) = false).
  { destruct (known s (nextid a)) eqn:E; [|reflexivity]. apply HK in E. lia. }
  inversion ND as [|? ? NI ND']; subst.
  split.
  - constructor; [|assumption]. intros Hx. assert (In (nextid a) (live s)) by (apply HL; now right).
    assert (known s (nextid a) = true) by (apply known_In; now left). congruence.
  - exists (mkst (nextid a :: del id (live s)) (id :: dead s)). cbn [trace nextid]. split; [|split].
    + rewrite run_snoc, R. cbn [step]. unfold step_grow.
      apply mem_In in Lid. rewrite Lid.
      destruct (Nat.eqb id (nextid a)) eqn:E; [apply Nat.eqb_eq in E; lia|]. now rewrite NK.
    + cbn [live]. intros x. cbn [In]. rewrite del_In. split.
      * intros [<-|Hx]; [now left|]. right. split; [apply HL; now right|]. intros ->. contradiction.
      * intros [<-|[Hx Nx]]; [now left|]. apply HL in Hx. destruct Hx as [<-|Hx]; [congruence|now right].
    + intros x Hx. apply known_In in Hx. cbn [live dead] in Hx.
      destruct Hx as [[<-|Hx]|[<-|Hx]]; [lia| |lia|].
      * apply del_In in Hx. assert (x < nextid a); [apply HK, known_In; tauto|lia].
      * assert (x < nextid a); [apply HK, known_In; tauto|lia].
Qed.

Lemma Exact_free a id L : Exact a (id :: L) -> Exact (a_free a id) L.
Proof.
  intros (ND & s & R & HL & HK).
  assert (Lid : In id (live s)) by (apply HL; now left).
  inversion ND as [|? ? NI ND']; subst.
  split; [assumption|]. exists (mkst (del id (live s)) (id :: dead s)). cbn [a_free trace nextid]. split; [|split].
  - rewrite run_snoc, R. cbn [step]. apply mem_In in Lid. now rewrite Lid.
  - cbn [live]. intros x. rewrite del_In. split.
    + intros Hx. split; [apply HL; now right|]. intros ->. contradiction.
    + intros [Hx Nx]. apply HL in Hx. destruct Hx as [<-|Hx]; [congruence|assumption].
  - intros x Hx. apply HK. apply known_In in Hx. apply known_In. cbn [live dead] in Hx.
    destruct Hx as [Hx|[<-|Hx]]; [apply del_In in Hx; tauto|tauto|tauto].
Qed.

Lemma Exact_write a src n L : Exact a L -> (forall id, src = Some id -> In id L) -> Exact (fst (a_write a src n)) L.
Proof.
  intros (ND & s & R & HL & HK) Hs. split; [assumption|]. exists s. cbn [a_write fst trace nextid].
  split; [|split; assumption].
  destruct src as [id|]; [|assumption].
  destruct (0 <? n)%N; [|assumption].
  rewrite run_snoc, R. cbn [step].
  assert (In id (live s)) by (apply HL, Hs; reflexivity).
  apply mem_In in H. now rewrite H.
Qed.

Lemma Exact_init mv fl : Exact (mka 0 mv fl [] []) [].
Proof.
  split; [constructor|]. exists init. split; [reflexivity|]. split; [cbn; tauto|]. intros x Hx. discriminate.
Qed.
