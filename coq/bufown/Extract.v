(* Extraction of the verified trace checker and of the instrumented response model
   (trusted base: Extraction + ExtrOcamlBasic + ExtrOcamlNatInt: nat -> OCaml int, used for buffer ids and
   trace indices only; sizes and bytes stay Coq N). *)
From Coq Require Import Extraction ExtrOcamlBasic ExtrOcamlNatInt.
From BufOwnC Require Import BufOwner RespAlloc WqAlloc BodyAlloc WsRecvAlloc.
Extraction "bomodel.ml" check_trace live_at_end run_exchange qrun q0 brun body0 wrun w0.
