(* nbhttp/body.go: BodyReader (append of body chunks by the parser, Read by the handler, Close by the handler or by
   releaseRequest; with RetainHTTPBody the library never closes: the handler has taken the body over), INSTRUMENTED with
   its allocator events (C11).  Contents are abstracted to lengths.
     append: no buffer -> Malloc(len(data)); else the spare capacity of the last buffer is filled in place (a write into
             the buffer: EUse) and the rest goes into a new Malloc
     Read:   copies out of the head buffer (EUse), Free of every buffer that is exhausted
     Close:  Free of every buffer still held
   Oracle: the spare capacity the allocator adds to each Malloc (caps; ANY stream).  No proofs in this file. *)
From Coq Require Import List NArith Bool Arith.
Import ListNotations.
Require Import BufOwner RespAlloc.
Open Scope N_scope.

Record bbuf := mkb { bid : nat; blen : N; bcap : N }.

Record body := mkbody {
  bufs : list bbuf;       (* BodyReader.buffers *)
  bindex : N;             (* BodyReader.index *)
  bleft : N;              (* BodyReader.left *)
  bclosed : bool;         (* BodyReader.closed *)
  bmax : N;               (* Engine.MaxHTTPBodySize (0: no limit) *)
  bcaps : list N;         (* oracle: spare capacity of the next Malloc (exhausted = 0) *)
  ba : ast
}.

Definition body0 (mx : N) (cs : list N) : body := mkbody [] 0 0 false mx cs (mka 0 [] [] [] []).

Definition b_malloc (b : body) (size : N) : body * bbuf :=
  let '(a, id) := a_malloc (ba b) in
  let '(c, cs) := match bcaps b with c :: cs => (c, cs) | [] => (0, []) end in
  (mkbody (bufs b) (bindex b) (bleft b) (bclosed b) (bmax b) cs a, mkb id size (size + c)).

Definition b_set (b : body) (l : list bbuf) (ix lf : N) (a : ast) : body :=
  mkbody l ix lf (bclosed b) (bmax b) (bcaps b) a.

Definition use (a : ast) (id : nat) (n : N) : ast := fst (a_write a (Some id) n).

Inductive bres := BOk (n : N) | BEOF | BTooLong.

(* append(data), len(data) = l *)
Definition b_append (b : body) (l : N) : body * bres :=
  if l =? 0 then (b, BOk 0) else
  if (0 <? bmax b) && (bmax b <? l + bleft b) then (b, BTooLong) else
  let b := b_set b (bufs b) (bindex b) (bleft b + l) (ba b) in
  match rev (bufs b) with
  | [] => let '(b1, nb) := b_malloc b l in (b_set b1 (bufs b1 ++ [nb]) (bindex b1) (bleft b1) (ba b1), BOk l)
  | last :: rl =>
      let room := bcap last - blen last in
      let nc := N.min room l in
      let b1 := if 0 <? nc
                then b_set b (rev rl ++ [mkb (bid last) (blen last + nc) (bcap last)]) (bindex b) (bleft b) (use (ba b) (bid last) nc)
                else b in
      if 0 <? l - nc then
        let '(b2, nb) := b_malloc b1 (l - nc) in (b_set b2 (bufs b2 ++ [nb]) (bindex b2) (bleft b2) (ba b2), BOk l)
      else (b1, BOk l)
  end.

(* the loop of Read: need = bytes still wanted, returns the number copied *)
Fixpoint read_loop (l : list bbuf) (ix need lf copied : N) (a : ast) : list bbuf * N * N * N * ast :=
  if (need =? 0) || (lf =? 0) then (l, ix, lf, copied, a) else
  match l with
  | [] => ([], ix, 0, copied, a)                      (* left and buffers diverged: left := 0 *)
  | h :: rest =>
      if blen h <=? ix then read_loop rest 0 need lf copied (a_free a (bid h))
      else
        let nc := N.min need (blen h - ix) in
        let a1 := use a (bid h) nc in
        if blen h <=? nc + ix then read_loop rest 0 (need - nc) (lf - nc) (copied + nc) (a_free a1 (bid h))
        else (l, ix + nc, lf - nc, copied + nc, a1)
  end.

(* Read(p), len(p) = n *)
Definition b_read (b : body) (n : N) : body * bres :=
  if bclosed b then (b, BEOF) else
  if bleft b =? 0 then (b, BEOF) else
  let '(l, ix, lf, copied, a) := read_loop (bufs b) (bindex b) n (bleft b) 0 (ba b) in
  (b_set b l ix lf a, if (copied =? 0) && (0 <? n) then BEOF else BOk copied).

Fixpoint free_all (a : ast) (l : list bbuf) : ast :=
  match l with [] => a | h :: t => free_all (a_free a (bid h)) t end.

Definition b_close (b : body) : body :=
  if bclosed b then b else mkbody [] 0 0 true (bmax b) (bcaps b) (free_all (ba b) (bufs b)).

Inductive bop := BAppend (l : N) | BRead (n : N) | BClose.

Definition bstep (b : body) (o : bop) : body * bres :=
  match o with
  | BAppend l => b_append b l
  | BRead n => b_read b n
  | BClose => (b_close b, BOk 0)
  end.

Fixpoint brun (b : body) (ops : list bop) : body * list bres :=
  match ops with
  | [] => (b, [])
  | o :: os => let '(b1, r) := bstep b o in let '(b2, rs) := brun b1 os in (b2, r :: rs)
  end.

Definition bids (l : list bbuf) : list nat := map bid l.

Definition body_trace (mx : N) (cs : list N) (ops : list bop) : list event := trace (ba (fst (brun (body0 mx cs) ops))).
