(* nbhttp/response.go + processor.go:releaseResponse as a state machine over handler operations, INSTRUMENTED with
   the allocator events it performs (C11).  Derived from coq/httpresp/Response.v (same head rendering, same decisions);
   added here:
     - every pooled buffer carries the id of its *[]byte (buffer, bodyBuffer, writeChunk's pbuf, flush's pdata),
     - mempool.Malloc / Append / AppendString / Free emit EMalloc / EAppend / EFree,
       conn.Write( *pbuf ) emits EUse (the connection reads the buffer),
     - an oracle stream [moves] decides for every Append whether the allocator returns the same pointer
       (mempool.MemPool) or a new one and releases the old (aligned allocator); ANY stream is allowed,
     - an oracle stream [fails] decides for every conn.Write whether it fails; ANY stream is allowed
       (the k-th write fails, transient failures, everything fails, ...), and the error branches of
       Write / writeChunk / Flush / flush / flushResponse are modelled.
   Buffer CONTENTS are abstracted to their lengths (every decision of the writer depends on lengths only; the
   contents are the subject of C09 / coq/httpresp); the response head is rendered to obtain its exact length.
   No proofs in this file. *)
From Coq Require Import List NArith Bool Arith.
Import ListNotations.
Require Import BufOwner.
Open Scope N_scope.

Notation byte := N (only parsing).
Notation bytes := (list N) (only parsing).

Definition MAXP : N := 65536.     (* maxPacketSize *)

Definition len (b : bytes) : N := N.of_nat (length b).

Definition digit (d : N) : N := if d <? 10 then 48 + d else 87 + d.
Fixpoint render_base (fuel : nat) (base n : N) (acc : bytes) : bytes :=
  match fuel with
  | O => acc
  | S f => let acc' := digit (n mod base) :: acc in
           if n / base =? 0 then acc' else render_base f base (n / base) acc'
  end.
Definition dec (n : N) : bytes := render_base 40 10 n [].
Definition hex (n : N) : bytes := render_base 40 16 n [].

Fixpoint beq (a b : bytes) : bool :=
  match a, b with
  | [], [] => true
  | x :: a', y :: b' => N.eqb x y && beq a' b'
  | _, _ => false
  end.
Definition CRLF : bytes := [13; 10].
Definition s_ct : bytes :=
  [67;111;110;116;101;110;116;45;84;121;112;101;58;32;116;101;120;116;47;112;108;97;105;110;59;32;99;104;97;114;115;101;116;61;117;116;102;45;56;13;10].
Definition s_cl : bytes := [67;111;110;116;101;110;116;45;76;101;110;103;116;104;58;32].
Definition s_conn_close : bytes := [67;111;110;110;101;99;116;105;111;110;58;32;99;108;111;115;101;13;10].
Definition s_date : bytes := [68;97;116;101;58;32] ++ repeat 68 29 ++ CRLF.
Definition s_te : bytes :=
  [84;114;97;110;115;102;101;114;45;69;110;99;111;100;105;110;103;58;32;99;104;117;110;107;101;100;13;10].
Definition s_trailer : bytes := [84;114;97;105;108;101;114;58;32].

Record req := { proto : bytes; minor11 : bool; rclose : bool }.

(* ---------------- the instrumented allocator / connection ---------------- *)
Record ast := mka {
  nextid : nat;                  (* ids handed out so far: 0 .. nextid-1 *)
  moves : list bool;             (* oracle: does the next Append return a new pointer? (exhausted = no) *)
  fails : list bool;             (* oracle: does the next conn.Write fail? (exhausted = no) *)
  trace : list event;            (* allocator events, oldest first *)
  out : list (N * bool)          (* conn.Write attempts: payload length, success *)
}.

Definition a_malloc (a : ast) : ast * nat :=
  (mka (S (nextid a)) (moves a) (fails a) (trace a ++ [EMalloc (nextid a)]) (out a), nextid a).

Definition a_append (a : ast) (id : nat) : ast * nat :=
  match moves a with
  | true :: m => (mka (S (nextid a)) m (fails a) (trace a ++ [EAppend id (nextid a)]) (out a), nextid a)
  | _ :: m => (mka (nextid a) m (fails a) (trace a ++ [EAppend id id]) (out a), id)
  | [] => (mka (nextid a) [] (fails a) (trace a ++ [EAppend id id]) (out a), id)
  end.

Definition a_free (a : ast) (id : nat) : ast :=
  mka (nextid a) (moves a) (fails a) (trace a ++ [EFree id]) (out a).

(* conn.Write of a payload that lies in pooled buffer [src] (None: the handler's own slice) *)
Definition a_write (a : ast) (src : option nat) (n : N) : ast * bool :=
  let ok := match fails a with true :: _ => false | _ => true end in
  let tr := match src with
            | Some id => if 0 <? n then trace a ++ [EUse id] else trace a   (* an empty slice reads nothing *)
            | None => trace a
            end in
  (mka (nextid a) (moves a) (tl (fails a)) tr (out a ++ [(n, ok)]), ok).

(* ---------------- the response ---------------- *)
Definition pbuf := (nat * N)%type.     (* pooled buffer: id of the *[]byte, length of its content *)

Record resp := mk {
  rq : req;
  code : N; text : bytes;
  h_cl : option N;
  h_custom : list (bytes * bytes);
  h_trailers : list (bytes * bytes);
  te_hdr : bool;
  buffer : option pbuf; bodybuf : option pbuf;
  contentLen : N; bodyWritten : N;
  chunked : bool; chunkChecked : bool; headEncoded : bool; hasBody : bool;
  captured : list (bytes * bytes);
  al : ast
}.

Definition set_al (r : resp) (a : ast) : resp :=
  mk (rq r) (code r) (text r) (h_cl r) (h_custom r) (h_trailers r) (te_hdr r) (buffer r) (bodybuf r)
     (contentLen r) (bodyWritten r) (chunked r) (chunkChecked r) (headEncoded r) (hasBody r) (captured r) a.
Definition set_buffer (r : resp) (b : option pbuf) : resp :=
  mk (rq r) (code r) (text r) (h_cl r) (h_custom r) (h_trailers r) (te_hdr r) b (bodybuf r)
     (contentLen r) (bodyWritten r) (chunked r) (chunkChecked r) (headEncoded r) (hasBody r) (captured r) (al r).
Definition set_bodybuf (r : resp) (bb : option pbuf) : resp :=
  mk (rq r) (code r) (text r) (h_cl r) (h_custom r) (h_trailers r) (te_hdr r) (buffer r) bb
     (contentLen r) (bodyWritten r) (chunked r) (chunkChecked r) (headEncoded r) (hasBody r) (captured r) (al r).
Definition set_hasbody (r : resp) : resp :=
  mk (rq r) (code r) (text r) (h_cl r) (h_custom r) (h_trailers r) (te_hdr r) (buffer r) (bodybuf r)
     (contentLen r) (bodyWritten r) (chunked r) (chunkChecked r) (headEncoded r) true (captured r) (al r).
Definition set_written (r : resp) (cl w : N) : resp :=
  mk (rq r) (code r) (text r) (h_cl r) (h_custom r) (h_trailers r) (te_hdr r) (buffer r) (bodybuf r)
     cl w (chunked r) (chunkChecked r) (headEncoded r) (hasBody r) (captured r) (al r).
Definition set_hdrs (r : resp) (cl : option N) (cu tr : list (bytes * bytes)) : resp :=
  mk (rq r) (code r) (text r) cl cu tr (te_hdr r) (buffer r) (bodybuf r)
     (contentLen r) (bodyWritten r) (chunked r) (chunkChecked r) (headEncoded r) (hasBody r) (captured r) (al r).

(* allocator primitives lifted to the response *)
Definition malloc (r : resp) : resp * nat := let '(a, id) := a_malloc (al r) in (set_al r a, id).
Definition append (r : resp) (id : nat) : resp * nat := let '(a, id') := a_append (al r) id in (set_al r a, id').
Definition free (r : resp) (id : nat) : resp := set_al r (a_free (al r) id).
Definition cwrite (r : resp) (src : option nat) (n : N) : resp * bool :=
  let '(a, ok) := a_write (al r) src n in (set_al r a, ok).

Definition write_header (r : resp) (c : N) (t : bytes) : resp :=
  if (code r =? 0) && negb (c =? 0) then
    match t with
    | [] => r
    | _ => mk (rq r) c t (h_cl r) (h_custom r) (h_trailers r) (te_hdr r) (buffer r) (bodybuf r)
              (contentLen r) (bodyWritten r) (chunked r) (chunkChecked r) (headEncoded r) (hasBody r) (captured r) (al r)
    end
  else r.

Definition check_chunked (r : resp) : resp :=
  if chunkChecked r then r else
  let ch :=
    if te_hdr r then true
    else if minor11 (rq r) && (match h_cl r with None => true | Some _ => false end)
                           && negb ((code r =? 204) || (code r =? 304)) then true
    else negb (match h_trailers r with [] => true | _ => false end) in
  mk (rq r) (code r) (text r) (if ch then None else h_cl r) (h_custom r) (h_trailers r) (te_hdr r || ch)
     (buffer r) (bodybuf r) (contentLen r) (bodyWritten r) ch true (headEncoded r) (hasBody r) (captured r) (al r).

Definition render_hdr (kv : bytes * bytes) : bytes := fst kv ++ [58; 32] ++ snd kv ++ CRLF.

Definition status_line (r : resp) : bytes :=
  proto (rq r) ++ [32; 48 + code r / 100; 48 + (code r mod 100) / 10; 48 + code r mod 10; 32] ++ text r ++ CRLF.

Definition head_bytes (r : resp) : bytes :=
  let h0 := status_line r in
  let h1 := if hasBody r then s_ct else [] in
  let h2 := if negb (chunked r) && (match h_cl r with None => true | Some _ => false end)
            then s_cl ++ dec (if hasBody r then match bodybuf r with Some b => snd b | None => 0 end else 0) ++ CRLF
            else [] in
  let h3 := if rclose (rq r) then s_conn_close else [] in
  let m1 := match h_cl r with Some n => s_cl ++ dec n ++ CRLF | None => [] end in
  let m2 := concat (map (fun kv => s_trailer ++ fst kv ++ CRLF) (h_trailers r)) in
  let m3 := if te_hdr r then s_te else [] in
  let m4 := concat (map render_hdr (h_custom r)) in
  h0 ++ h1 ++ h2 ++ h3 ++ s_date ++ m1 ++ m2 ++ m3 ++ m4 ++ CRLF.

(* eoncodeHead: pdata := Malloc(1024)[0:0]; Append...; res.buffer = pdata *)
Definition encode_head (r : resp) : resp :=
  if headEncoded r then r else
  let hl := len (head_bytes r) in
  let '(r1, id) := malloc r in
  let '(r2, id') := append r1 id in
  mk (rq r2) (code r2) (text r2) (h_cl r2) (h_custom r2) (h_trailers r2) (te_hdr r2) (Some (id', hl)) (bodybuf r2)
     (contentLen r2) (bodyWritten r2) (chunked r2) (chunkChecked r2) true (hasBody r2) (h_trailers r2) (al r2).

Inductive wres := WOk (n : N) | WErrContentLength | WErr.

(* writeChunk; l = len(data) > 0 *)
Definition write_chunk (r0 : resp) (l : N) : resp * wres :=
  let r := encode_head r0 in
  let pb := buffer r in
  let r := set_buffer r None in
  let ll := len (hex l) in
  let total := ll + l + 4 + match pb with Some b => snd b | None => 0 end in
  if total <? MAXP then
    let '(r, id, b) := match pb with
                       | Some (id, b) => (r, id, b)
                       | None => let '(r', id) := malloc r in (r', id, 0)
                       end in
    let '(r, id) := append r id in
    (set_buffer r (Some (id, b + ll + 2 + l + 2)), WOk l)
  else
    (* 1. a cached buffer: send it with the length line, keep using it; 2. else a new buffer with the length line *)
    let '(r, st) :=
      match pb with
      | Some (id, b) =>
          let '(r, id) := append r id in
          let '(r, ok) := cwrite r (Some id) (b + ll + 2) in
          if ok then (r, Some (id, 0)) else (free r id, None)
      | None =>
          let '(r, id) := malloc r in
          let '(r, id) := append r id in
          (r, Some (id, ll + 2))
      end in
    match st with
    | None => (r, WErr)
    | Some (id, b) =>
        (* 3. data and CRLF *)
        let '(r, id) := append r id in
        let b := b + l + 2 in
        if b <? MAXP then (set_buffer r (Some (id, b)), WOk l)
        else
          let '(r, ok) := cwrite r (Some id) b in
          let r := free r id in
          (r, if ok then WOk l else WErr)
    end.

Definition bump (r : resp) (l : N) : resp := set_written r (contentLen r) (bodyWritten r + l).

(* Write, from the label APPEND_BODY on *)
Definition append_body (r2 : resp) (cl l : N) : resp * wres :=
  (* make sure there is a body buffer to append to (inl), or finish by writing directly / failing (inr) *)
  let pre : (resp * pbuf) + (resp * wres) :=
    match bodybuf r2 with
    | None =>
        if (0 <? cl) && (MAXP <=? l) then
          let r := bump r2 l in
          let '(r, ok) := cwrite r None l in
          inr (r, if ok then WOk l else WErr)
        else
          let '(r, id) := malloc r2 in inl (r, (id, 0))
    | Some (id, bb) =>
        if (0 <? cl) && (MAXP <? bb + l) then
          let st : (resp * pbuf) + resp :=            (* inr: sending the cached body failed *)
            if 0 <? bb then
              let '(r, ok) := cwrite r2 (Some id) bb in
              if ok then inl (r, (id, 0)) else inr (set_bodybuf (free r id) None)
            else inl (r2, (id, bb)) in
          match st with
          | inr r => inr (r, WErr)
          | inl (r, (id, bb)) =>
              if MAXP <=? l then
                let r := bump r l in
                let r := set_bodybuf (free r id) None in
                let '(r, ok) := cwrite r None l in
                inr (r, if ok then WOk l else WErr)
              else inl (r, (id, bb))
          end
        else inl (r2, (id, bb))
    end in
  match pre with
  | inr res => res
  | inl (r, (id, bb)) =>
      let r := bump r l in
      let '(r, id) := append r id in
      let nb := bb + l in
      if (0 <? cl) && (MAXP <=? nb) then
        let '(r, ok) := cwrite r (Some id) nb in
        if ok then (set_bodybuf r (Some (id, 0)), WOk l)
        else (set_bodybuf (free r id) None, WErr)
      else (set_bodybuf r (Some (id, nb)), WOk l)
  end.

(* Write of l bytes *)
Definition op_write (r0 : resp) (l : N) : resp * wres :=
  if l =? 0 then (r0, WOk 0) else
    let r1 := set_hasbody (check_chunked (write_header r0 200 [79;75])) in
    if chunked r1 then write_chunk r1 l else
    let cl := if 0 <? contentLen r1 then contentLen r1 else match h_cl r1 with Some n => n | None => 0 end in
    let r1 := set_written r1 (if 0 <? contentLen r1 then contentLen r1 else cl) (bodyWritten r1) in
    if (0 <? cl) && (cl <? bodyWritten r1 + l) then (r1, WErrContentLength) else
    (* the head, when a length is declared: inl = go on at APPEND_BODY, inr = the write of the head failed *)
    let hd : resp + resp :=
      if 0 <? cl then
        let r := encode_head r1 in
        let pb := buffer r in
        let r := set_buffer r None in
        match pb with
        | None => inl r
        | Some (id, h) =>
            if h + l <? MAXP then inl (set_bodybuf r (Some (id, h)))
            else
              let '(r, ok) := cwrite r (Some id) h in
              let r := free r id in
              if ok then inl r else inr r
        end
      else inl r1 in
    match hd with
    | inr r => (r, WErr)
    | inl r2 => append_body r2 cl l
    end.

(* Flush *)
Definition op_flush (r0 : resp) : resp :=
  let r := encode_head (check_chunked (write_header r0 200 [79;75])) in
  let r :=
    match buffer r with
    | Some (id, b) =>
        if 0 <? b then
          let '(r', ok) := cwrite r (Some id) b in
          if ok then set_buffer r' (Some (id, 0)) else set_buffer (free r' id) None
        else r
    | None => r
    end in
  match bodybuf r with
  | Some (id, b) =>
      if 0 <? b then
        let '(r', ok) := cwrite r (Some id) b in
        if ok then set_bodybuf r' (Some (id, 0)) else set_bodybuf (free r' id) None
      else r
  | None => r
  end.

(* has the response a non-empty body buffer? *)
Definition body_pending (r : resp) : option pbuf :=
  match bodybuf r with
  | Some (bid, b) => if 0 <? b then Some (bid, b) else None
  | None => None
  end.

(* flush, identity framing; the boolean is "no error" *)
Definition flush_identity (r : resp) : resp * bool :=
  let '(r, ok) :=
    match buffer r with
    | Some (hid, h) =>
        let st : (resp * pbuf) + resp :=              (* inl: the buffer to send next; inr: failed *)
          match body_pending r with
          | Some (bid, b) =>
              if MAXP <? h + b then
                let '(r, ok) := cwrite r (Some hid) h in
                let r := set_buffer (free r hid) None in
                if ok then inl (set_bodybuf (set_buffer r (Some (bid, b))) None, (bid, b))
                else inr (set_bodybuf (free r bid) None)
              else
                let '(r, hid') := append r hid in
                let r := set_bodybuf (free r bid) None in
                inl (set_buffer r (Some (hid', h + b)), (hid', h + b))
          | None => inl (r, (hid, h))
          end in
        match st with
        | inr r => (r, false)
        | inl (r, (id, b)) =>
            let '(r, ok) := cwrite r (Some id) b in
            (set_buffer (free r id) None, ok)
        end
    | None => (r, true)
    end in
  if ok then
    match body_pending r with
    | Some (bid, b) =>
        let '(r, ok) := cwrite r (Some bid) b in
        (set_bodybuf (free r bid) None, ok)
    | None => (r, true)
    end
  else (r, false).

(* flush, chunked framing: last chunk and trailers *)
Definition flush_chunked (r : resp) : resp * bool :=
  let pb := buffer r in
  let r := set_buffer r None in
  let '(r, id, b) := match pb with
                     | Some (id, b) => (r, id, b)
                     | None => let '(r', id) := malloc r in (r', id, 0)
                     end in
  let '(r, id) := append r id in
  let tr := concat (map (fun kv =>
               let cur := match find (fun kv' => beq (fst kv') (fst kv)) (h_trailers r) with
                          | Some (_, v) => v | None => [] end in
               let v := match cur with [] => snd kv | _ => cur end in
               fst kv ++ [58; 32] ++ v ++ CRLF) (captured r)) in
  let b := b + 3 + len tr + 2 in
  let '(r, ok) := cwrite r (Some id) b in
  (free r id, ok).

(* releaseResponse *)
Definition release (r : resp) : resp :=
  let r := match buffer r with Some (id, _) => free r id | None => r end in
  let r := match bodybuf r with Some (id, _) => free r id | None => r end in
  set_bodybuf (set_buffer r None) None.

(* flushResponse: WriteHeader(200); checkChunked; eoncodeHead; flush; (close on error); releaseResponse *)
Definition op_finish (r0 : resp) : resp :=
  let r := encode_head (check_chunked (write_header r0 200 [79;75])) in
  let '(r, _) := if chunked r then flush_chunked r else flush_identity r in
  release r.

(* ---- handler programs ---- *)
Inductive hop :=
| HSetCL (n : N) | HCustom (k v : bytes) | HDeclTrailer (k : bytes) | HSetTrailer (k v : bytes)
| HWriteHeader (c : N) (t : bytes) | HWrite (l : N) | HFlush.

Definition run_op (r : resp) (o : hop) : resp * list wres :=
  match o with
  | HSetCL n => (set_hdrs r (Some n) (h_custom r) (h_trailers r), [])
  | HCustom k v => (set_hdrs r (h_cl r) (h_custom r ++ [(k, v)]) (h_trailers r), [])
  | HDeclTrailer k => (set_hdrs r (h_cl r) (h_custom r) (h_trailers r ++ [(k, [])]), [])
  | HSetTrailer k v =>
      (set_hdrs r (h_cl r) (h_custom r)
         (map (fun kv => if beq (fst kv) k then (k, v) else kv) (h_trailers r)), [])
  | HWriteHeader c t => (write_header r c t, [])
  | HWrite l => let '(r', w) := op_write r l in (r', [w])
  | HFlush => (op_flush r, [])
  end.

Fixpoint run_ops (r : resp) (ops : list hop) (acc : list wres) : resp * list wres :=
  match ops with
  | [] => (r, acc)
  | o :: t => let '(r', w) := run_op r o in run_ops r' t (acc ++ w)
  end.

Definition new_resp (q : req) (mv fl : list bool) : resp :=
  mk q 0 [] None [] [] false None None 0 0 false false false false [] (mka 0 mv fl [] []).

(* one exchange: the handler program, then flushResponse (which releases the response) *)
Definition run_exchange (q : req) (mv fl : list bool) (ops : list hop) : resp * list wres :=
  let '(r, ws) := run_ops (new_resp q mv fl) ops [] in (op_finish r, ws).

Definition exchange_trace (q : req) (mv fl : list bool) (ops : list hop) : list event :=
  trace (al (fst (run_exchange q mv fl ops))).
