(* Property C11 (pooled-buffer ownership: freed at most once, never used after free, never shared).
   Only statements, each closed by [exact]; proofs live in BufOwnerProofs / RespAlloc*.v.

   Part 1: the trace checker that the harness runs on the allocator events of the REAL code is sound and complete
           for the discipline, for EVERY trace.
   Part 2: the instrumented model of the response writer (nbhttp/response.go + releaseResponse) obeys the discipline
           for ALL handler programs, ALL allocator behaviours and ALL conn.Write failure patterns.
   Part 3: the instrumented model of the connection write queue (conn_unix.go: Write, Writev, Sendfile, flush, Close)
           for ALL operation sequences, ALL kernel scripts (short writes, EAGAIN, EINTR, fatal errno), ALL allocator
           answers (moving Appends, capacities), close at any point: the queued buffers are EXACTLY the live buffers,
           each held once; a closed connection has returned everything.
   Part 4: the instrumented model of the WebSocket receive path (Parse, readAll, the handlers' hand-over with
           ReleasePayload on or off, the recover path, CloseAndClean) for ALL frame streams, ALL segmentations, ALL
           inflate outcomes: cache, message and what the application was given are exactly the live buffers; after
           close only what the application was given is live, with ReleasePayload nothing.
   Part 5: the instrumented model of the HTTP BodyReader for ALL sequences of append / Read / Close.
   What is NOT proved here (decided by the differential run of harness/cmd/bufown only): the HTTP parser's cache, the
   WebSocket send path (writeFrame's send queue, WriteMessage's compression buffer) and the upgrader (c11_discipline for
   those is oracle-only); the correspondence of every model with the code is tested (event trace and per-operation
   observations of the real code on the same programs), not proved. *)
From Coq Require Import List Arith NArith ZArith Bool.
Import ListNotations.
Require Import BufOwner BufOwnerProofs RespAlloc RespAllocProofs RespAllocOps RespAllocFinish.
Require Import ExactOwn WqAlloc WqAllocProofs BodyAlloc BodyAllocProofs WsRecvAlloc WsRecvProofs WsRecvData WsRecvLoop WsRecvSide.
Open Scope nat_scope.

(* ---- Part 1: the checker ---- *)
Theorem c11_checker_sound t : ok_trace t = true -> disciplined t.
Proof. exact (proj1 (ok_trace_iff t)). Qed.

Theorem c11_checker_complete t : disciplined t -> ok_trace t = true.
Proof. exact (proj2 (ok_trace_iff t)). Qed.

(* the reported index is the first offending event *)
Theorem c11_checker_first_offence t k v :
  check_trace t = Some (k, v) -> k < length t /\ disciplined (firstn k t) /\ ~ disciplined (firstn (S k) t).
Proof. exact (check_first t k v). Qed.

(* the discipline in the words of the property: no buffer is released twice ... *)
Theorem c11_no_double_free t i j e1 e2 x :
  disciplined t -> nth_error t i = Some e1 -> nth_error t j = Some e2 -> kills e1 x -> kills e2 x -> i = j.
Proof. exact (no_double_release t i j e1 e2 x). Qed.

(* ... and nothing (use, append, realloc, free) happens to it after its release *)
Theorem c11_nothing_after_free t i j e1 e2 x :
  disciplined t -> nth_error t i = Some e1 -> nth_error t j = Some e2 -> kills e1 x -> touches e2 x -> j <= i.
Proof. exact (nothing_after_release t i j e1 e2 x). Qed.

(* ---- Part 2: the response writer ---- *)
(* q: the request (protocol, keep-alive), mv: which Appends return a new pointer, fl: which conn.Writes fail,
   ops: the handler's program. The whole exchange (handler, flushResponse, releaseResponse): *)
Theorem c11_response_discipline q mv fl ops : disciplined (exchange_trace q mv fl ops).
Proof. exact (proj1 (ok_trace_iff _) (exchange_ok q mv fl ops)). Qed.

(* ... and at every point in between (after any number of handler operations) *)
Theorem c11_response_discipline_prefix q mv fl ops :
  disciplined (trace (al (fst (run_ops (new_resp q mv fl) ops [])))).
Proof. exact (proj1 (ok_trace_iff _) (prefix_ok q mv fl ops)). Qed.

(* never shared: buffer and bodyBuffer are never the same buffer, and both are live *)
Theorem c11_response_buffers_distinct q mv fl ops i1 n1 i2 n2 :
  let r := fst (run_ops (new_resp q mv fl) ops []) in
  buffer r = Some (i1, n1) -> bodybuf r = Some (i2, n2) -> i1 <> i2.
Proof. exact (owners_distinct _ i1 n1 i2 n2 (I_run_ops ops _ [] (I_new q mv fl))). Qed.

Theorem c11_response_buffers_live q mv fl ops x :
  let r := fst (run_ops (new_resp q mv fl) ops []) in
  In x (owners r) -> In x (live_at_end (trace (al r))).
Proof. exact (fun H => owners_live _ x (I_run_ops ops _ [] (I_new q mv fl)) H). Qed.

(* after flushResponse the response holds no buffer *)
Theorem c11_response_released q mv fl ops : owners (fst (run_exchange q mv fl ops)) = [].
Proof. exact (proj2 (I_exchange q mv fl ops)). Qed.

(* ---- Part 3: the connection write queue ---- *)
(* mb: Engine.MaxWriteBufferSize, mv: which Appends return a new pointer, cs: the capacities the allocator hands out,
   ops: Write / Writev / Sendfile / flush / Close, each with its kernel script *)
Theorem c11_wq_discipline mb mv cs ops : disciplined (wq_trace mb mv cs ops).
Proof. exact (proj1 (ok_trace_iff _) (wq_ok mb mv cs ops)). Qed.

(* at every point: what the allocator considers live is exactly what the queue holds (nothing leaked, nothing stale) *)
Theorem c11_wq_queue_exactly_live mb mv cs ops x :
  let q := fst (qrun (q0 mb mv cs) ops) in
  In x (live_at_end (trace (qa q))) <-> In x (qids (wlist q)).
Proof. exact (wq_queue_exact mb mv cs ops x). Qed.

Theorem c11_wq_buffers_distinct mb mv cs ops : NoDup (qids (wlist (fst (qrun (q0 mb mv cs) ops)))).
Proof. exact (wq_queue_nodup mb mv cs ops). Qed.

(* quiescence after close (Close, a fatal errno, overflow): everything taken was returned *)
Theorem c11_wq_closed_all_returned mb mv cs ops :
  let q := fst (qrun (q0 mb mv cs) ops) in
  WqAlloc.closed q = true -> live_at_end (trace (qa q)) = [].
Proof. exact (wq_closed_all_returned mb mv cs ops). Qed.

(* ---- Part 4: the WebSocket receive path ---- *)
(* c: ReleasePayload, handlers, compression, limits; frames: the stream; ops: Parse of the next n bytes / CloseAndClean *)
Theorem c11_ws_discipline c mv frames ops : disciplined (ws_trace c mv frames ops).
Proof. exact (proj1 (ok_trace_iff _) (ws_ok c mv frames ops)). Qed.

Theorem c11_ws_owners_exactly_live c mv frames ops x :
  let w := fst (wrun c (w0 mv frames) ops) in
  In x (live_at_end (trace (wa w))) <-> In x (wowners w).
Proof. exact (ws_exact c mv frames ops x). Qed.

Theorem c11_ws_owners_distinct c mv frames ops : NoDup (wowners (fst (wrun c (w0 mv frames) ops))).
Proof. exact (ws_nodup c mv frames ops). Qed.

Theorem c11_ws_closed_only_given c mv frames ops x :
  let w := fst (wrun c (w0 mv frames) ops) in
  wclosed w = true -> (In x (live_at_end (trace (wa w))) <-> In x (given w)).
Proof. exact (ws_closed_only_given c mv frames ops x). Qed.

Theorem c11_ws_closed_release_all_returned c mv frames ops :
  let w := fst (wrun c (w0 mv frames) ops) in
  wrelease c = true -> wrecov c = true -> wclosed w = true -> live_at_end (trace (wa w)) = [].
Proof. exact (ws_closed_release_all_returned c mv frames ops). Qed.
(* (wrecov: the executor that runs the handlers recovers their panics.  When a handler's panic escapes into Parse's
   recover - blocking mode or a plain Execute, see f_mpanic / f_fpanic - the payload handed to that handler is still
   released exactly once, by the handler step (c11_ws_discipline covers those runs); a frame copy that was waiting for
   its own handler is dropped without being returned: it is accounted for in [given], which is why the statement above
   asks for wrecov.) *)

(* ---- Part 5: the HTTP BodyReader ---- *)
Theorem c11_body_discipline mx cs ops : disciplined (body_trace mx cs ops).
Proof. exact (proj1 (ok_trace_iff _) (body_ok mx cs ops)). Qed.

Theorem c11_body_buffers_exactly_live mx cs ops x :
  let b := fst (brun (body0 mx cs) ops) in
  In x (live_at_end (trace (ba b))) <-> In x (bids (bufs b)).
Proof. exact (body_exact mx cs ops x). Qed.

Theorem c11_body_buffers_distinct mx cs ops : NoDup (bids (bufs (fst (brun (body0 mx cs) ops)))).
Proof. exact (body_nodup mx cs ops). Qed.

(* Close of an open reader (by the handler, or by releaseRequest) returns everything *)
Theorem c11_body_close_returns_all mx cs ops :
  bclosed (fst (brun (body0 mx cs) ops)) = false -> live_at_end (body_trace mx cs (ops ++ [BClose])) = [].
Proof. exact (body_close_returns_all mx cs ops). Qed.

(* partial: DESIGN.md's c11_discipline ("one theorem per component") is proved for the response writer, the write
   queue, the WebSocket receive path and the BodyReader; the HTTP parser cache, the WebSocket send path and the
   upgrader have no instrumented model. *)

(* non-vacuity: a chunked response whose second conn.Write fails performs and passes Malloc/Append/Use/Free events;
   the pattern of the repaired defect D8 (free, keep appending, free again) is rejected at the Append;
   a write queue that coalesces, re-allocates, is flushed piecewise and closed with a backlog; a fragmented compressed
   WebSocket message with a frame handler whose message handler panics into Parse's recover (released once, frame copy dropped); a body read across two buffers *)
Example c11_nonvacuous :
  let q := Build_req [72;84;84;80;47;49;46;49]%N true false in
  let t := exchange_trace q [true] [false; true] [HWrite 10; HFlush; HWrite 70000] in
  length t = 11 /\ nth_error t 6 = Some (EFree 1) /\ ok_trace t = true /\
  check_trace [EMalloc 0; EAppend 0 0; EUse 0; EFree 0; EAppend 0 0; EFree 0] = Some (4, VAppendAfterFree) /\
  wq_trace 0%Z [true] [64%N] [QWrite 100000 [Took 40]; QWrite 10 []; QWrite 100 []; QFlush [Took 70000; EIntr]; QClose]
    = [EMalloc 0; EMalloc 1; EMalloc 2; EFree 1; EAppend 2 3; EUse 0; EFree 0; EFree 3] /\
  ws_trace (mkcfg true true true true 0 0 false) [] 
     [mkf ODataFirst false true false 2 true 10 false false false false false IOk 0 0; mkf OCont true false false 2 true 5 false false false true false IOk 40 1]
     [WParse 16; WParse 11; WClose]
    = [EMalloc 0; EMalloc 1; EMalloc 2; EFree 0; EUse 1; EFree 1; EMalloc 3; EMalloc 4; EAppend 2 2; EMalloc 5; EAppend 5 5; EFree 2;
       EFree 3; EUse 5; EFree 5] /\
  body_trace 0 [] [BAppend 10; BAppend 5; BRead 12; BClose] = [EMalloc 0; EMalloc 1; EUse 0; EFree 0; EUse 1; EFree 1].
Proof. vm_compute. repeat split. Qed.

Print Assumptions c11_checker_sound.
Print Assumptions c11_checker_complete.
Print Assumptions c11_checker_first_offence.
Print Assumptions c11_no_double_free.
Print Assumptions c11_nothing_after_free.
Print Assumptions c11_response_discipline.
Print Assumptions c11_response_discipline_prefix.
Print Assumptions c11_response_buffers_distinct.
Print Assumptions c11_response_buffers_live.
Print Assumptions c11_response_released.
Print Assumptions c11_wq_discipline.
Print Assumptions c11_wq_queue_exactly_live.
Print Assumptions c11_wq_buffers_distinct.
Print Assumptions c11_wq_closed_all_returned.
Print Assumptions c11_ws_discipline.
Print Assumptions c11_ws_owners_exactly_live.
Print Assumptions c11_ws_owners_distinct.
Print Assumptions c11_ws_closed_only_given.
Print Assumptions c11_ws_closed_release_all_returned.
Print Assumptions c11_body_discipline.
Print Assumptions c11_body_buffers_exactly_live.
Print Assumptions c11_body_buffers_distinct.
Print Assumptions c11_body_close_returns_all.
