(* Property C11 (pooled-buffer ownership: freed at most once, never used after free, never shared).
   Only statements, each closed by [exact]; proofs live in BufOwnerProofs / RespAlloc*.v.

   Part 1: the trace checker that the harness runs on the allocator events of the REAL code is sound and complete
           for the discipline, for EVERY trace.
   Part 2: the instrumented model of the response writer (nbhttp/response.go + releaseResponse) obeys the discipline
           for ALL handler programs, ALL allocator behaviours and ALL conn.Write failure patterns.
   What is NOT proved here (decided by the differential run of harness/cmd/bufown only): that the real parser,
   body reader, websocket connection and nbio write queue obey the discipline (c11_discipline for those components);
   the correspondence of RespAlloc.v with response.go is tested, not proved. *)
From Coq Require Import List Arith NArith Bool.
Import ListNotations.
Require Import BufOwner BufOwnerProofs RespAlloc RespAllocProofs RespAllocOps RespAllocFinish.
Open Scope nat_scope.

(* ---- Part 1: the checker ---- *)
Theorem c11_checker_sound t : ok_trace t = true -> disciplined t.
Proof. exact (proj1 (ok_trace_iff t)). Qed.

Theorem c11_checker_complete t : disciplined t -> ok_trace t = true.
Proof. exact (proj2 (ok_trace_iff t)). Qed.

(* the reported index is the first offending event *)
Theorem c11_checker_first_offence t k v :
  check_trace t = Some (k, v) -> k < length t /\ disciplined (firstn k t) /\ ~ disciplined (firstn (S k) t).
Proof. exact (check_first t k v). Qed.

(* the discipline in the words of the property: no buffer is released twice ... *)
Theorem c11_no_double_free t i j e1 e2 x :
  disciplined t -> nth_error t i = Some e1 -> nth_error t j = Some e2 -> kills e1 x -> kills e2 x -> i = j.
Proof. exact (no_double_release t i j e1 e2 x). Qed.

(* ... and nothing (use, append, realloc, free) happens to it after its release *)
Theorem c11_nothing_after_free t i j e1 e2 x :
  disciplined t -> nth_error t i = Some e1 -> nth_error t j = Some e2 -> kills e1 x -> touches e2 x -> j <= i.
Proof. exact (nothing_after_release t i j e1 e2 x). Qed.

(* ---- Part 2: the response writer ---- *)
(* q: the request (protocol, keep-alive), mv: which Appends return a new pointer, fl: which conn.Writes fail,
   ops: the handler's program. The whole exchange (handler, flushResponse, releaseResponse): *)
Theorem c11_response_discipline q mv fl ops : disciplined (exchange_trace q mv fl ops).
Proof. exact (proj1 (ok_trace_iff _) (exchange_ok q mv fl ops)). Qed.

(* ... and at every point in between (after any number of handler operations) *)
Theorem c11_response_discipline_prefix q mv fl ops :
  disciplined (trace (al (fst (run_ops (new_resp q mv fl) ops [])))).
Proof. exact (proj1 (ok_trace_iff _) (prefix_ok q mv fl ops)). Qed.

(* never shared: buffer and bodyBuffer are never the same buffer, and both are live *)
Theorem c11_response_buffers_distinct q mv fl ops i1 n1 i2 n2 :
  let r := fst (run_ops (new_resp q mv fl) ops []) in
  buffer r = Some (i1, n1) -> bodybuf r = Some (i2, n2) -> i1 <> i2.
Proof. exact (owners_distinct _ i1 n1 i2 n2 (I_run_ops ops _ [] (I_new q mv fl))). Qed.

Theorem c11_response_buffers_live q mv fl ops x :
  let r := fst (run_ops (new_resp q mv fl) ops []) in
  In x (owners r) -> In x (live_at_end (trace (al r))).
Proof. exact (fun H => owners_live _ x (I_run_ops ops _ [] (I_new q mv fl)) H). Qed.

(* after flushResponse the response holds no buffer *)
Theorem c11_response_released q mv fl ops : owners (fst (run_exchange q mv fl ops)) = [].
Proof. exact (proj2 (I_exchange q mv fl ops)). Qed.

(* partial: the statement of DESIGN.md (c11_discipline for every component) is proved for the response writer only;
   HttpParser, BodyReader, WsCodec and ConnIO have no instrumented model yet. *)

(* non-vacuity: a chunked response whose second conn.Write fails performs and passes Malloc/Append/Use/Free events;
   the pattern of the repaired defect D8 (free, keep appending, free again) is rejected at the Append *)
Example c11_nonvacuous :
  let q := Build_req [72;84;84;80;47;49;46;49]%N true false in
  let t := exchange_trace q [true] [false; true] [HWrite 10; HFlush; HWrite 70000] in
  length t = 11 /\ nth_error t 6 = Some (EFree 1) /\ ok_trace t = true /\
  check_trace [EMalloc 0; EAppend 0 0; EUse 0; EFree 0; EAppend 0 0; EFree 0] = Some (4, VAppendAfterFree).
Proof. vm_compute. repeat split. Qed.

Print Assumptions c11_checker_sound.
Print Assumptions c11_checker_complete.
Print Assumptions c11_checker_first_offence.
Print Assumptions c11_no_double_free.
Print Assumptions c11_nothing_after_free.
Print Assumptions c11_response_discipline.
Print Assumptions c11_response_discipline_prefix.
Print Assumptions c11_response_buffers_distinct.
Print Assumptions c11_response_buffers_live.
Print Assumptions c11_response_released.
