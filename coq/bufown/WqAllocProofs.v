(* C11 on the instrumented connection write queue: for ALL operation sequences (Write, Writev, Sendfile, flush, Close),
   ALL kernel scripts, ALL allocator answers (moves, capacities), the queued buffers are exactly the live buffers. *)
From Coq Require Import List Arith NArith ZArith Bool Lia Permutation.
Import ListNotations.
Require Import BufOwner BufOwnerProofs RespAlloc RespAllocProofs ExactOwn WqAlloc.
Open Scope nat_scope.

Lemma qids_app l1 l2 : qids (l1 ++ l2) = qids l1 ++ qids l2.
Proof. induction l1 as [|[id len off cap|rem] l1 IH]; cbn; [reflexivity| |]; now rewrite IH. Qed.

(* the invariant: the queue holds exactly the live buffers, each once; a closed connection holds nothing *)
Definition QI (q : wq) : Prop := Exact (qa q) (qids (wlist q)) /\ (closed q = true -> wlist q = []).

(* r differs from q in fields that own no memory *)
Definition qsame (q r : wq) : Prop := qa r = qa q /\ wlist r = wlist q /\ closed r = closed q.

Lemma next_cap_same q : qsame q (fst (next_cap q)).
Proof. unfold next_cap. destruct (caps q); repeat split. Qed.

Lemma q_malloc_inv q size q' id c L :
  q_malloc q size = (q', id, c) -> Exact (qa q) L ->
  Exact (qa q') (id :: L) /\ wlist q' = wlist q /\ closed q' = closed q.
Proof.
  unfold q_malloc. intros E X. assert (M := Exact_malloc _ _ X). destruct (a_malloc (qa q)) as [a i].
  assert (S := next_cap_same (set_qa q a)). destruct (next_cap (set_qa q a)) as [q1 c1].
  injection E as <- <- _. destruct S as (S1 & S2 & S3). cbn in *. rewrite S1, S2, S3. auto.
Qed.

Lemma q_append_inv q id nl cap q' id' c L :
  q_append q id nl cap = (q', id', c) -> Exact (qa q) (id :: L) ->
  Exact (qa q') (id' :: L) /\ wlist q' = wlist q /\ closed q' = closed q.
Proof.
  unfold q_append. intros E X. assert (M := Exact_append _ _ _ X). destruct (a_append (qa q) id) as [a i].
  destruct (Nat.eqb id i).
  - injection E as <- <- _. cbn in *. auto.
  - assert (S := next_cap_same (set_qa q a)). destruct (next_cap (set_qa q a)) as [q1 c1].
    injection E as <- <- _. destruct S as (S1 & S2 & S3). cbn in *. rewrite S1, S2, S3. auto.
Qed.

Lemma q_free_inv q id L : Exact (qa q) (id :: L) -> Exact (qa (q_free q id)) L.
Proof. intros X. unfold q_free. cbn [qa set_qa]. now apply Exact_free. Qed.

Lemma q_use_inv q id n L : Exact (qa q) L -> In id L -> Exact (qa (q_use q id n)) L.
Proof. intros X H. unfold q_use. cbn [qa set_qa]. apply Exact_write; [assumption|]. intros i [= <-]. assumption. Qed.

Lemma X_append_buffer q l L :
  Exact (qa q) L -> Permutation L (qids (wlist q)) ->
  Exact (qa (append_buffer q l)) (qids (wlist (append_buffer q l))) /\ closed (append_buffer q l) = closed q.
Proof.
  intros X P. unfold append_buffer. destruct (q_malloc q l) as [[q1 id] cap] eqn:E.
  destruct (q_malloc_inv _ _ _ _ _ _ E X) as (X1 & W1 & C1). cbn [push set_wlist wlist qa closed].
  split; [|assumption]. rewrite W1, qids_app. cbn [qids].
  eapply Exact_perm; [|exact X1].
  change (id :: L) with ([id] ++ L). etransitivity; [apply Permutation_app_comm|]. now apply Permutation_app_tail.
Qed.

Lemma X_new_buf q l :
  Exact (qa q) (qids (wlist q)) ->
  Exact (qa (new_buf q l)) (qids (wlist (new_buf q l))) /\ closed (new_buf q l) = closed q.
Proof.
  intros X. unfold new_buf. destruct (l =? 0)%N; [now split|].
  set (q1 := set_left q _).
  assert (X1 : Exact (qa q1) (qids (wlist q1))) by exact X.
  assert (C1 : closed q1 = closed q) by reflexivity.
  rewrite <- C1. clearbody q1. clear X C1 q.
  destruct (rev (wlist q1)) as [|[id len off cap|rem] rl] eqn:ER; cbv beta iota;
    try (apply (X_append_buffer q1 l _ X1); reflexivity).
  destruct (maxcache <? len + l)%N; [apply (X_append_buffer q1 l _ X1); reflexivity|].
  assert (EW : wlist q1 = rev rl ++ [Buf id len off cap]).
  { rewrite <- (rev_involutive (wlist q1)), ER. reflexivity. }
  rewrite EW, qids_app in X1. cbn [qids] in X1.
  assert (X2 : Exact (qa q1) (id :: qids (rev rl))).
  { eapply Exact_perm; [|exact X1]. change (id :: qids (rev rl)) with ([id] ++ qids (rev rl)). apply Permutation_app_comm. }
  (* after the optional re-allocation: some buffer id1 heads the owners *)
  pose (F := fun (q2 : wq) (id1 : nat) (cap1 : N) =>
              let '(q3, id2, cap2) := q_append q2 id1 (len + l)%N cap1 in
              set_wlist q3 (rev rl ++ [Buf id2 (len + l)%N off cap2])).
  assert (Step : forall q2 id1 cap1, Exact (qa q2) (id1 :: qids (rev rl)) -> closed q2 = closed q1 ->
            Exact (qa (F q2 id1 cap1)) (qids (wlist (F q2 id1 cap1))) /\ closed (F q2 id1 cap1) = closed q1).
  { intros q2 id1 cap1 X3 C3. unfold F. destruct (q_append q2 id1 (len + l)%N cap1) as [[q3 id2] cap2] eqn:E.
    destruct (q_append_inv _ _ _ _ _ _ _ _ E X3) as (X4 & W4 & C4). cbn [set_wlist wlist qa closed].
    split; [|congruence]. rewrite qids_app. cbn [qids].
    eapply Exact_perm; [|exact X4]. change (id2 :: qids (rev rl)) with ([id2] ++ qids (rev rl)). apply Permutation_app_comm. }
  destruct (cap <? len + l)%N.
  - destruct (q_malloc q1 (len + l)%N) as [[q' id'] cap'] eqn:E.
    destruct (q_malloc_inv _ _ _ _ _ _ E X2) as (X3 & W3 & C3).
    apply (Exact_perm _ _ _ (perm_swap _ _ _)) in X3. apply q_free_inv in X3.
    apply (Step (q_free q' id) id' cap' X3). cbn. assumption.
  - apply (Step q1 id cap X2). reflexivity.
Qed.

Lemma X_release_all l : forall q R,
  Exact (qa q) (qids l ++ R) -> Exact (qa (release_all q l)) R /\ closed (release_all q l) = closed q.
Proof.
  induction l as [|[id len off cap|rem] l IH]; intros q R X; cbn [release_all qids app] in *.
  - now split.
  - destruct (IH (q_free q id) R (q_free_inv _ _ _ X)) as [H1 H2]. now split.
  - now apply IH.
Qed.

Lemma QI_close_with q : Exact (qa q) (qids (wlist q)) -> QI (close_with q).
Proof.
  intros X. unfold close_with. rewrite <- (app_nil_r (qids (wlist q))) in X.
  destruct (X_release_all _ _ _ X) as [H _]. split; [exact H|reflexivity].
Qed.

Lemma QI_qsame q r : qsame q r -> QI q -> QI r.
Proof. intros (A & B & C) [X H]. unfold QI. now rewrite A, B, C. Qed.

Lemma QI_new_buf q l : QI q -> closed q = false -> QI (new_buf q l) /\ closed (new_buf q l) = false.
Proof.
  intros [X _] C. destruct (X_new_buf q l X) as [X' C']. rewrite C in C'. split; [|assumption].
  split; [assumption|]. rewrite C'. discriminate.
Qed.

Lemma QI_open q : Exact (qa q) (qids (wlist q)) -> closed q = false -> QI q.
Proof. intros X C. split; [assumption|]. rewrite C. discriminate. Qed.

Lemma QI_queue_all ls : forall q, QI q -> closed q = false -> QI (queue_all q ls) /\ closed (queue_all q ls) = false.
Proof.
  induction ls as [|l ls IH]; intros q H C; cbn [queue_all]; [now split|].
  destruct (QI_new_buf q l H C) as [H1 C1]. now apply IH.
Qed.

Lemma QI_queue_rest ls : forall q n, QI q -> closed q = false -> QI (queue_rest q n ls) /\ closed (queue_rest q n ls) = false.
Proof.
  induction ls as [|l ls IH]; intros q n H C; cbn [queue_rest]; [now split|].
  destruct (l <=? n)%N; [now apply IH|].
  destruct (QI_new_buf q (l - n)%N H C) as [H1 C1]. now apply IH.
Qed.

(* do_write / do_writev keep the connection open and the invariant *)
Lemma QI_do_write q l ks : QI q -> closed q = false -> QI (fst (do_write q l ks)) /\ closed (fst (do_write q l ks)) = false.
Proof.
  intros H C. unfold do_write. destruct (l =? 0)%N; [now split|]. destruct (overflow q l); [now split|].
  destruct (wlist q) eqn:EW.
  - destruct ks as [|[k| | |] ks]; cbn [fst]; try (now apply QI_new_buf); [|now split].
    destruct (N.min (N.pos k) l <? l)%N; [now apply QI_new_buf|now split].
  - cbn [fst]. now apply QI_new_buf.
Qed.

Lemma QI_do_writev q ls ks : QI q -> closed q = false -> QI (fst (do_writev q ls ks)) /\ closed (fst (do_writev q ls ks)) = false.
Proof.
  intros H C. unfold do_writev. destruct (overflow q (total ls)); [now split|].
  destruct (wlist q) eqn:EW.
  - destruct (total ls =? 0)%N; [now split|].
    destruct ks as [|[k| | |] ks]; cbn [fst]; try (now apply QI_queue_rest). now split.
  - cbn [fst]. now apply QI_queue_all.
Qed.

Lemma QI_finish r : QI (fst r) -> QI (fst (finish r)).
Proof.
  intros H. unfold finish. destruct (snd r); [assumption|]. cbn [fst]. apply QI_close_with, H.
Qed.

Lemma QI_sf_loop ks : forall q remain, QI q -> closed q = false -> wlist q = [] -> QI (fst (sf_loop q remain ks)).
Proof.
  induction ks as [|k ks IH]; intros q remain H C W; cbn [sf_loop]; destruct (remain =? 0)%N; try assumption.
  - cbn [fst]. apply QI_open; [|assumption]. cbn. rewrite W. cbn. destruct H as [X _]. now rewrite W in X.
  - destruct k; cbn [fst].
    + now apply IH.
    + apply QI_open; [|assumption]. cbn. rewrite W. cbn. destruct H as [X _]. now rewrite W in X.
    + now apply IH.
    + apply QI_close_with, H.
Qed.

Lemma QI_flush_loop ks : forall q, QI q -> closed q = false -> QI (fst (flush_loop q ks)).
Proof.
  induction ks as [|k ks IH]; intros q H C.
  - cbn [flush_loop]. destruct (wlist q) as [|[id len off cap|rem] rest]; [assumption| |].
    + destruct (len <=? off)%N; assumption.
    + destruct (rem =? 0)%N; assumption.
  - cbn [flush_loop]. destruct (wlist q) as [|[id len off cap|rem] rest] eqn:EW; [assumption| |].
    + destruct (len <=? off)%N; [assumption|].
      destruct H as [X HC]. rewrite EW in X. cbn [qids] in X.
      destruct k as [k| | |]; cbn [fst]; try assumption.
      * (* the kernel took n bytes of the head buffer *)
        set (n := N.min (N.pos k) (len - off)).
        assert (X1 : Exact (qa (q_use q id n)) (id :: qids rest)) by (apply q_use_inv; [assumption|now left]).
        destruct (n =? len - off)%N.
        -- apply IH; [|exact C]. apply QI_open; [|exact C]. cbn [set_wlist wlist qa].
           apply (q_free_inv (set_left (q_use q id n) (left q - Z.of_N n)%Z) id (qids rest)). exact X1.
        -- apply IH; [|exact C]. apply QI_open; [|exact C]. cbn [set_wlist wlist qa qids]. exact X1.
      * split; [now rewrite EW|assumption].
      * apply IH; [|assumption]. split; [now rewrite EW|assumption].
      * apply QI_close_with. now rewrite EW.
    + destruct (rem =? 0)%N; [assumption|].
      destruct H as [X HC]. rewrite EW in X. cbn [qids] in X.
      destruct k as [k| | |]; cbn [fst].
      * apply IH; [|exact C]. apply QI_open; [|exact C]. cbn [set_wlist wlist qa].
        destruct (N.min (N.pos k) rem =? rem)%N; exact X.
      * split; [now rewrite EW|assumption].
      * apply IH; [|assumption]. split; [now rewrite EW|assumption].
      * apply QI_close_with. now rewrite EW.
Qed.

Lemma QI_qstep q o : QI q -> QI (fst (qstep q o)).
Proof.
  intros H. destruct o as [l ks|ls ks|flen req ks|ks|]; cbn [qstep].
  - unfold op_write. destruct (closed q) eqn:C; [assumption|]. apply QI_finish. now apply QI_do_write.
  - unfold op_writev. destruct (closed q) eqn:C; [assumption|]. apply QI_finish.
    destruct ls as [|l [|l2 ls]]; [now apply QI_do_writev|now apply QI_do_write|now apply QI_do_writev].
  - unfold op_sendfile. destruct (closed q) eqn:C; [assumption|].
    destruct ((if (req =? 0)%N || (flen <? req)%N then flen else req) =? 0)%N; [assumption|].
    destruct (wlist q) eqn:EW.
    + now apply QI_sf_loop.
    + cbn [fst]. apply QI_open; [|assumption]. cbn [push set_wlist wlist qa]. rewrite qids_app. cbn [qids].
      rewrite app_nil_r. apply H.
  - unfold op_flush. destruct (closed q) eqn:C; [assumption|]. now apply QI_flush_loop.
  - unfold op_close. destruct (closed q) eqn:C; [assumption|]. cbn [fst]. apply QI_close_with, H.
Qed.

Lemma QI_qrun ops : forall q, QI q -> QI (fst (qrun q ops)).
Proof.
  induction ops as [|o ops IH]; intros q H; cbn [qrun]; [assumption|].
  assert (H1 := QI_qstep q o H). destruct (qstep q o) as [q1 r]. cbn [fst] in H1.
  assert (H2 := IH q1 H1). destruct (qrun q1 ops) as [q2 rs]. exact H2.
Qed.

Lemma QI_q0 mb mv cs : QI (q0 mb mv cs).
Proof. split; [apply Exact_init|reflexivity]. Qed.

(* ---- consequences ---- *)
Lemma wq_ok mb mv cs ops : ok_trace (wq_trace mb mv cs ops) = true.
Proof. unfold wq_trace. eapply Exact_ok. apply (QI_qrun ops _ (QI_q0 mb mv cs)). Qed.

Lemma wq_queue_exact mb mv cs ops x :
  let q := fst (qrun (q0 mb mv cs) ops) in
  In x (live_at_end (trace (qa q))) <-> In x (qids (wlist q)).
Proof. cbv zeta. eapply Exact_live. apply (QI_qrun ops _ (QI_q0 mb mv cs)). Qed.

Lemma wq_queue_nodup mb mv cs ops : NoDup (qids (wlist (fst (qrun (q0 mb mv cs) ops)))).
Proof. apply (QI_qrun ops _ (QI_q0 mb mv cs)). Qed.

Lemma wq_closed_all_returned mb mv cs ops :
  let q := fst (qrun (q0 mb mv cs) ops) in
  closed q = true -> live_at_end (trace (qa q)) = [].
Proof.
  cbv zeta. intros C. destruct (QI_qrun ops _ (QI_q0 mb mv cs)) as [X HC]. rewrite (HC C) in X.
  destruct (live_at_end _) as [|x l] eqn:E; [reflexivity|].
  exfalso. apply (proj1 (Exact_live _ _ X x)). rewrite E. now left.
Qed.
