(* the loop of Parse, Parse, CloseAndClean: the ownership invariant over all runs *)
From Coq Require Import List Arith NArith Bool Lia Permutation.
Import ListNotations.
Require Import BufOwner BufOwnerProofs RespAlloc RespAllocProofs ExactOwn WsRecvAlloc WsRecvProofs WsRecvData.
Open Scope nat_scope.

Lemma WI_parse_loop c fs : forall w, WI w -> WI (fst (parse_loop c w fs)).
Proof.
  induction fs as [|f rest IH]; intros w X; cbn [parse_loop].
  - destruct (wclosed w); exact X.
  - destruct (wclosed w); [exact X|].
    destruct (olen (cache w) <? 2)%N; [exact X|].
    destruct (olen (cache w) <? f_lk f)%N; [exact X|].
    destruct (f_neg f); [exact X|].
    destruct (is_data (f_op f) && (0 <? wlimit c)%N && (wlimit c <? olen (msg w) + f_plen f)%N);
      [cbn [fst]; now apply hot_send_frame|].
    destruct ((match f_op f with OCtl => true | _ => false end) && (125 <? f_plen f)%N);
      [cbn [fst]; now apply hot_send_frame|].
    set (total := (f_lk f + (if f_mask f then 4 else 0) + f_plen f)%N).
    destruct (olen (cache w) <? total)%N; [exact X|].
    destruct (invalid c w f); [exact X|].
    destruct (is_data (f_op f)).
    + assert (D := hot_on_data c w f X).
      destruct (on_data c w f) as [[[w1 [got m]] fr] e].
      destruct D as [(-> & X1 & GM)|([-> | ->] & X1)]; cbn [N.eqb Pos.eqb fst].
      * assert (X2 : Hot (set_pending (consume w1 total) rest) (woid m ++ woid fr)) by (apply hot_pending, hot_consume, X1).
        set (r3 := if got then deliver_msg c (set_pending (consume w1 total) rest) m (f_clean f) (f_mpanic f)
                   else (set_pending (consume w1 total) rest, false)).
        assert (X3 : Hot (fst r3) (woid fr)).
        { unfold r3. destruct got; [now apply hot_deliver_msg|]. cbn [fst]. rewrite (GM eq_refl) in X2. exact X2. }
        destruct r3 as [w3 esc1]. cbn [fst] in X3.
        destruct esc1; [cbn [fst]; now apply hot_escape|].
        assert (X4 : Hot (fst (deliver_frame c w3 fr (f_fpanic f))) []).
        { apply hot_deliver_frame. now rewrite app_nil_r. }
        destruct (deliver_frame c w3 fr (f_fpanic f)) as [w4 esc2]. cbn [fst] in X4.
        destruct esc2; [cbn [fst]; now apply hot_recover|].
        now apply IH.
      * exact X1.
      * now apply hot_send_frame.
    + set (r := if (0 <? f_plen f)%N then let '(w', id) := w_malloc w in (w', Some (id, f_plen f)) else (w, None)).
      assert (X1 : Hot (fst r) (woid (snd r))).
      { unfold r. destruct (0 <? f_plen f)%N; [|exact X].
        destruct (w_malloc w) as [w' id] eqn:E. destruct (hot_malloc _ _ _ _ E X) as (X' & _). exact X'. }
      destruct r as [w1 pm]. cbn [fst snd] in X1.
      assert (X3 : Hot (fst (deliver_ctl c (set_pending (consume w1 total) rest) pm (f_reply f) (f_mpanic f))) []).
      { apply hot_deliver_ctl. rewrite app_nil_r. apply hot_pending, hot_consume, X1. }
      destruct (deliver_ctl c (set_pending (consume w1 total) rest) pm (f_reply f) (f_mpanic f)) as [w3 esc]. cbn [fst] in X3.
      destruct esc; [cbn [fst]; now apply hot_recover|].
      now apply IH.
Qed.

Lemma WI_parse c w n : WI w -> WI (fst (w_parse c w n)).
Proof.
  intros X. unfold w_parse. destruct (n =? 0)%N; [exact X|]. destruct (wclosed w); [exact X|].
  destruct ((0 <? wrlimit c)%N && _); [exact X|].
  apply WI_parse_loop.
  destruct (cache w) as [[id l]|] eqn:E.
  - unfold w_append. destruct (a_append (wa w) id) as [a id'] eqn:EA.
    unfold WI, Hot in *. cbn [set_cache set_wa wa cache msg given woid app]. rewrite E in X. cbn [woid app] in X.
    assert (H := Exact_append _ _ _ X). rewrite EA in H. exact H.
  - destruct (w_malloc w) as [w1 id] eqn:E1. destruct (hot_malloc _ _ _ _ E1 X) as (X1 & A & _).
    apply cache_in; [congruence|exact X1].
Qed.

Lemma WI_step c w o : WI w -> WI (fst (wstep c w o)).
Proof. intros X. destruct o; cbn [wstep fst]; [now apply WI_parse|now apply hot_close_clean]. Qed.

Lemma WI_run c ops : forall w, WI w -> WI (fst (wrun c w ops)).
Proof.
  induction ops as [|o ops IH]; intros w X; cbn [wrun]; [exact X|].
  assert (X1 := WI_step c w o X). destruct (wstep c w o) as [w1 r]. cbn [fst] in X1.
  assert (X2 := IH w1 X1). destruct (wrun c w1 ops) as [w2 rs]. exact X2.
Qed.

Lemma WI_w0 mv frames : WI (w0 mv frames).
Proof. unfold WI, Hot, w0. cbn. apply Exact_init. Qed.

Lemma ws_ok c mv frames ops : ok_trace (ws_trace c mv frames ops) = true.
Proof. unfold ws_trace. eapply Exact_ok. apply (WI_run c ops _ (WI_w0 mv frames)). Qed.

Lemma ws_exact c mv frames ops x :
  let w := fst (wrun c (w0 mv frames) ops) in
  In x (live_at_end (trace (wa w))) <-> In x (wowners w).
Proof. cbv zeta. eapply Exact_live. apply (WI_run c ops _ (WI_w0 mv frames)). Qed.

Lemma ws_nodup c mv frames ops : NoDup (wowners (fst (wrun c (w0 mv frames) ops))).
Proof. apply (WI_run c ops _ (WI_w0 mv frames)). Qed.
