(* side invariants of the receive path: with ReleasePayload nothing is left to the application; a closed connection
   holds neither a cache nor a message buffer *)
From Coq Require Import List Arith NArith Bool Lia.
Import ListNotations.
Require Import BufOwner BufOwnerProofs RespAlloc RespAllocProofs ExactOwn WsRecvAlloc WsRecvProofs WsRecvData WsRecvLoop.
Open Scope nat_scope.

(* gc w w1: given and closed unchanged *)
Definition gc (w w1 : wst) : Prop := given w1 = given w /\ wclosed w1 = wclosed w.
Lemma gc_refl w : gc w w. Proof. split; reflexivity. Qed.
Lemma gc_trans a b c : gc a b -> gc b c -> gc a c. Proof. unfold gc. intuition congruence. Qed.

Lemma gc_malloc w : gc w (fst (w_malloc w)).
Proof. unfold w_malloc. destruct (a_malloc (wa w)). split; reflexivity. Qed.
Lemma gc_append w id : gc w (fst (w_append w id)).
Proof. unfold w_append. destruct (a_append (wa w) id). split; reflexivity. Qed.
Lemma gc_free w id : gc w (w_free w id). Proof. split; reflexivity. Qed.
Lemma gc_use w id n : gc w (w_use w id n). Proof. split; reflexivity. Qed.
Lemma gc_grow k : forall w id, gc w (fst (w_grow w id k)).
Proof.
  induction k as [|k IH]; intros w id; cbn [w_grow]; [apply gc_refl|].
  assert (A := gc_append w id). destruct (w_append w id) as [w1 id1]. cbn [fst] in A.
  eapply gc_trans; [exact A|apply IH].
Qed.
Lemma gc_free_opt w (fr : obuf) : gc w (match fr with Some (id, _) => w_free w id | None => w end).
Proof. destruct fr as [[id n]|]; split; reflexivity. Qed.
Lemma gc_recover w : gc w (recover w).
Proof. unfold recover. destruct (cache w) as [[id n]|]; split; reflexivity. Qed.
Lemma gc_send_frame w : gc w (send_frame w).
Proof. destruct (send_frame_fields w) as (_ & _ & A & B). now split. Qed.
Lemma gc_consume w t : gc w (consume w t).
Proof. unfold consume. destruct (cache w) as [[id l]|]; [destruct (l =? t)%N|]; split; reflexivity. Qed.

Lemma gc_take_frame c w pl : gc w (fst (take_frame c w pl)).
Proof.
  unfold take_frame. destruct ((0 <? pl)%N && wfh c); [|apply gc_refl].
  assert (A := gc_malloc w). destruct (w_malloc w). exact A.
Qed.

Lemma gc_add_payload w pl : gc w (add_payload w pl).
Proof.
  unfold add_payload. destruct (0 <? pl)%N; [|apply gc_refl]. destruct (msg w) as [[id l]|].
  - assert (A := gc_append w id). destruct (w_append w id). exact A.
  - assert (A := gc_malloc w). destruct (w_malloc w). exact A.
Qed.

Lemma gc_inflate_msg w f mid fr : gc w (fst (fst (fst (inflate_msg w f mid fr)))).
Proof.
  unfold inflate_msg.
  assert (A := gc_malloc w). destruct (w_malloc w) as [w1 pb]. cbn [fst] in A.
  assert (B := gc_grow (f_grow f) w1 pb). destruct (w_grow w1 pb (f_grow f)) as [w2 pb2]. cbn [fst] in B.
  assert (AB := gc_trans _ _ _ A B).
  destruct (f_infl f); cbn [fst].
  - exact AB.
  - eapply gc_trans; [exact AB|]. apply (gc_free_opt (w_free (w_free w2 pb2) mid) fr).
  - eapply gc_trans; [exact AB|].
    eapply gc_trans; [apply (gc_free_opt (w_free w2 mid) fr)|apply gc_free].
Qed.

Lemma gc_on_data c w f : gc w (fst (fst (fst (on_data c w f)))).
Proof.
  unfold on_data.
  set (w0 := if typed w then w else set_flags w true (f_rsv1 f) (expecting w)).
  assert (A0 : gc w w0) by (unfold w0; destruct (typed w); split; reflexivity). clearbody w0.
  assert (A1 := gc_take_frame c w0 (f_plen f)). destruct (take_frame c w0 (f_plen f)) as [w1 fr]. cbn [fst] in A1.
  assert (A01 := gc_trans _ _ _ A0 A1).
  destruct (negb (wmh c)); [exact A01|].
  assert (A2 := gc_trans _ _ _ A01 (gc_add_payload w1 (f_plen f))).
  destruct (negb (f_fin f)); [exact A2|].
  destruct (ccomp (set_msg (add_payload w1 (f_plen f)) None)); [|exact A2].
  destruct (msg (add_payload w1 (f_plen f))) as [[mid ml]|].
  - eapply gc_trans; [exact A2|]. apply (gc_inflate_msg (set_msg (add_payload w1 (f_plen f)) None)).
  - cbn [fst]. eapply gc_trans; [exact A2|]. apply (gc_recover (set_msg (add_payload w1 (f_plen f)) None)).
Qed.

(* the side invariant *)
Definition Side (c : wcfg) (w : wst) : Prop :=
  (wrelease c = true -> wrecov c = true -> given w = []) /\ (wclosed w = true -> cache w = None /\ msg w = None).

(* steps that change neither given, closed, cache nor msg *)
Definition same4 (w w1 : wst) : Prop := gc w w1 /\ cache w1 = cache w /\ msg w1 = msg w.

Lemma Side_same4 c w w1 : same4 w w1 -> Side c w -> Side c w1.
Proof. intros ((G & C) & A & B) [S1 S2]. unfold Side. now rewrite G, C, A, B. Qed.

Lemma Side_dispose c w id : Side c w -> Side c (dispose c w id).
Proof.
  intros [S1 S2]. unfold dispose. destruct (wrelease c) eqn:R.
  - split; [intros _; now apply S1|exact S2].
  - unfold Side. rewrite R. split; [discriminate|exact S2].
Qed.

Lemma Side_close_clean c w : Side c w -> Side c (close_clean w).
Proof.
  intros [S1 S2]. destruct (wclosed w) eqn:C.
  - unfold close_clean. rewrite C. split; [exact S1|intros _; now apply S2].
  - destruct (close_clean_fields w C) as (A & B & D). split.
    + rewrite close_clean_given. exact S1.
    + intros _. now split.
Qed.

Lemma Side_use c w id n : Side c w -> Side c (w_use w id n).
Proof. apply Side_same4. repeat split. Qed.

Lemma Side_send_frame c w : Side c w -> Side c (send_frame w).
Proof. apply Side_same4. destruct (send_frame_fields w) as (A & B & C & D). repeat split; assumption. Qed.

Lemma Side_deliver_msg c w b clean pan : Side c w -> Side c (fst (deliver_msg c w b clean pan)).
Proof.
  intros S. unfold deliver_msg. cbn [fst].
  set (w1 := match b with Some (id, n) => if negb (wclosed w) then w_use w id n else w | None => w end).
  assert (S1 : Side c w1).
  { unfold w1. destruct b as [[id n]|]; [|exact S]. destruct (negb (wclosed w)); [now apply Side_use|exact S]. }
  clearbody w1.
  assert (S2 : Side c (if negb (wclosed w) && clean && negb pan then close_clean w1 else w1)).
  { destruct (negb (wclosed w) && clean && negb pan); [now apply Side_close_clean|exact S1]. }
  destruct b as [[id n]|]; [now apply Side_dispose|exact S2].
Qed.

Lemma Side_deliver_frame c w b pan : Side c w -> Side c (fst (deliver_frame c w b pan)).
Proof.
  intros S. unfold deliver_frame. destruct b as [[id n]|]; [|exact S]. cbn [fst].
  apply Side_dispose. destruct (wclosed w); [exact S|now apply Side_use].
Qed.

Lemma Side_deliver_ctl c w b reply pan : Side c w -> Side c (fst (deliver_ctl c w b reply pan)).
Proof.
  intros S. unfold deliver_ctl. cbn [fst].
  assert (S1 : Side c (if reply then send_frame w else w)) by (destruct reply; [now apply Side_send_frame|exact S]).
  destruct b as [[id n]|]; [now apply Side_dispose|exact S1].
Qed.

(* the escape of a handler's panic: only possible when the executor does not recover *)
Lemma esc_msg_norecov c w b clean pan : snd (deliver_msg c w b clean pan) = true -> wrecov c = false.
Proof. unfold deliver_msg. cbn [snd]. destruct (wrecov c); [|reflexivity]. now rewrite !andb_false_r. Qed.
Lemma esc_frame_norecov c w b pan : snd (deliver_frame c w b pan) = true -> wrecov c = false.
Proof. unfold deliver_frame. destruct b as [[id n]|]; cbn [snd]; [|discriminate]. destruct (wrecov c); [|reflexivity]. now rewrite !andb_false_r. Qed.
Lemma esc_ctl_norecov c w b reply pan : snd (deliver_ctl c w b reply pan) = true -> wrecov c = false.
Proof. unfold deliver_ctl. cbn [snd]. destruct (wrecov c); [|reflexivity]. now rewrite !andb_false_r. Qed.

Lemma Side_recover c w : Side c w -> Side c (recover w).
Proof.
  intros S. unfold recover. destruct (cache w) as [[id n]|] eqn:E; [|exact S].
  destruct S as [S1 S2]. split; [exact S1|]. cbn [wclosed set_cache w_free set_wa cache msg]. intros C. destruct (S2 C) as [A B]. congruence.
Qed.

Lemma Side_escape c w fr : wrecov c = false -> Side c w -> Side c (escape w fr).
Proof.
  intros R S. unfold escape. apply Side_recover in S. destruct fr as [[id n]|]; [|exact S].
  destruct S as [S1 S2]. split; [rewrite R; discriminate|exact S2].
Qed.

(* an open connection after a step that keeps given and closed *)
Lemma Side_open c w w1 : gc w w1 -> wclosed w = false -> Side c w -> Side c w1.
Proof.
  intros [G C] O [S1 S2]. split; [now rewrite G|]. rewrite C, O. discriminate.
Qed.

Lemma Side_parse_loop c fs : forall w, Side c w -> Side c (fst (parse_loop c w fs)).
Proof.
  induction fs as [|f rest IH]; intros w S; cbn [parse_loop].
  - destruct (wclosed w); exact S.
  - destruct (wclosed w) eqn:O; [exact S|].
    destruct (olen (cache w) <? 2)%N; [exact S|].
    destruct (olen (cache w) <? f_lk f)%N; [exact S|].
    destruct (f_neg f); [exact S|].
    destruct (is_data (f_op f) && (0 <? wlimit c)%N && (wlimit c <? olen (msg w) + f_plen f)%N);
      [cbn [fst]; now apply Side_send_frame|].
    destruct ((match f_op f with OCtl => true | _ => false end) && (125 <? f_plen f)%N);
      [cbn [fst]; now apply Side_send_frame|].
    set (total := (f_lk f + (if f_mask f then 4 else 0) + f_plen f)%N).
    destruct (olen (cache w) <? total)%N; [exact S|].
    destruct (invalid c w f); [exact S|].
    destruct (is_data (f_op f)).
    + assert (G := gc_on_data c w f).
      destruct (on_data c w f) as [[[w1 [got m]] fr] e]. cbn [fst] in G.
      assert (S1 : Side c w1) by (apply (Side_open c w); assumption).
      destruct (e =? 1)%N; [exact S1|]. destruct (e =? 2)%N; [cbn [fst]; now apply Side_send_frame|].
      assert (S2 : Side c (set_pending (consume w1 total) rest)).
      { apply (Side_open c w); [|exact O|exact S].
        destruct G as [G1 G2]. destruct (gc_consume w1 total) as [H1 H2]. split; cbn; congruence. }
      set (r3 := if got then deliver_msg c (set_pending (consume w1 total) rest) m (f_clean f) (f_mpanic f)
                 else (set_pending (consume w1 total) rest, false)).
      assert (S3 : Side c (fst r3)) by (unfold r3; destruct got; [now apply Side_deliver_msg|exact S2]).
      assert (E3 : snd r3 = true -> wrecov c = false).
      { unfold r3. destruct got; [apply esc_msg_norecov|discriminate]. }
      destruct r3 as [w3 esc1]. cbn [fst snd] in S3, E3.
      destruct esc1; [cbn [fst]; apply Side_escape; [now apply E3|exact S3]|].
      assert (S4 := Side_deliver_frame c w3 fr (f_fpanic f) S3).
      destruct (deliver_frame c w3 fr (f_fpanic f)) as [w4 esc2]. cbn [fst] in S4.
      destruct esc2; [cbn [fst]; now apply Side_recover|].
      now apply IH.
    + set (r := if (0 <? f_plen f)%N then let '(w', id) := w_malloc w in (w', Some (id, f_plen f)) else (w, None)).
      assert (G : gc w (fst r)).
      { unfold r. destruct (0 <? f_plen f)%N; [|apply gc_refl].
        assert (A := gc_malloc w). destruct (w_malloc w). exact A. }
      destruct r as [w1 pm]. cbn [fst] in G.
      assert (S2 : Side c (set_pending (consume w1 total) rest)).
      { apply (Side_open c w); [|exact O|exact S].
        destruct G as [G1 G2]. destruct (gc_consume w1 total) as [H1 H2]. split; cbn; congruence. }
      assert (S3 := Side_deliver_ctl c _ pm (f_reply f) (f_mpanic f) S2).
      destruct (deliver_ctl c (set_pending (consume w1 total) rest) pm (f_reply f) (f_mpanic f)) as [w3 esc]. cbn [fst] in S3.
      destruct esc; [cbn [fst]; now apply Side_recover|].
      now apply IH.
Qed.

Lemma Side_parse c w n : Side c w -> Side c (fst (w_parse c w n)).
Proof.
  intros S. unfold w_parse. destruct (n =? 0)%N; [exact S|]. destruct (wclosed w) eqn:O; [exact S|].
  destruct ((0 <? wrlimit c)%N && _); [exact S|].
  apply Side_parse_loop. apply (Side_open c w); [|exact O|exact S].
  destruct (cache w) as [[id l]|].
  - assert (A := gc_append w id). destruct (w_append w id). exact A.
  - assert (A := gc_malloc w). destruct (w_malloc w). exact A.
Qed.

Lemma Side_run c ops : forall w, Side c w -> Side c (fst (wrun c w ops)).
Proof.
  induction ops as [|o ops IH]; intros w S; cbn [wrun]; [exact S|].
  assert (S1 : Side c (fst (wstep c w o))) by (destruct o; cbn [wstep fst]; [now apply Side_parse|now apply Side_close_clean]).
  destruct (wstep c w o) as [w1 r]. cbn [fst] in S1.
  assert (S2 := IH w1 S1). destruct (wrun c w1 ops) as [w2 rs]. exact S2.
Qed.

Lemma Side_w0 c mv frames : Side c (w0 mv frames).
Proof. split; [reflexivity|discriminate]. Qed.

(* after the connection is closed, what is still live is exactly what the application was given *)
Lemma ws_closed_only_given c mv frames ops x :
  let w := fst (wrun c (w0 mv frames) ops) in
  wclosed w = true -> (In x (live_at_end (trace (wa w))) <-> In x (given w)).
Proof.
  cbv zeta. intros C. rewrite (ws_exact c mv frames ops x). unfold wowners.
  destruct (Side_run c ops _ (Side_w0 c mv frames)) as [_ S2]. destruct (S2 C) as [-> ->]. cbn. tauto.
Qed.

(* ... and with ReleasePayload, when no handler panic can escape its executor, that is nothing *)
Lemma ws_closed_release_all_returned c mv frames ops :
  let w := fst (wrun c (w0 mv frames) ops) in
  wrelease c = true -> wrecov c = true -> wclosed w = true -> live_at_end (trace (wa w)) = [].
Proof.
  cbv zeta. intros R RC C.
  destruct (Side_run c ops _ (Side_w0 c mv frames)) as [S1 _].
  destruct (live_at_end _) as [|x l] eqn:E; [reflexivity|].
  exfalso. assert (H := proj1 (ws_closed_only_given c mv frames ops x C)). rewrite E, (S1 R RC) in H. apply H. now left.
Qed.
