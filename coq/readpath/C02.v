(* Property C02 - inbound delivery integrity in every poller configuration, UDP demultiplexing, idle readers.

   Two labelled transition systems cover the configuration matrix (A is any payload type: no byte is inspected or altered):
     ReadLoop.v  the per-event read loop against the kernel receive buffer and epoll, for every configuration
                 cfg = (LT | ET | ET+ONESHOT, read buffer size > 0, read limit, ...): synchronous reading in the poller
                 (LT with AsyncReadInPoller reads synchronously too);
     Gate.v      AsyncRead (ET with AsyncReadInPoller, with and without ONESHOT): the readEvents gate, the read task, the
                 end-of-stream hand-over, and in one-shot mode disarming, re-arming by the task and by the write side.
   Every theorem quantifies over ALL action sequences (= all arrival patterns with bursts, pauses and half-close, all
   interleavings of poller, task and peer), all buffer sizes and all read limits.  Udp.v: the address key and the session map.
   Kernel behaviour (K2: read returns min(available, buffer) bytes in order; K3: LT / ET / ONESHOT readiness reporting) is
   the model's environment, not proved; the executor is assumed to run a task it was given (custom IOExecute included). *)
From Coq Require Import List Arith NArith ZArith Bool Lia.
Import ListNotations.
Require Gate GateProofs GateMeasure GateIdle ReadLoop ReadLoopProofs Udp UdpProofs OldGate.

(* ================= the read loop: LT, ET, ONESHOT, synchronous reading ================= *)
Section Loop.
Variable A : Type.
Variable c : ReadLoop.cfg.
Notation run := (@ReadLoop.run A c).
Hypothesis oneshot_rearms : ReadLoop.md c = ReadLoop.OS -> ReadLoop.rearms c = true.   (* Engine.Start settles isOneshot first (47bebc7) *)

(* exactly once, in order: what the callback got is a prefix of what the peer sent *)
Theorem c02_prefix l : exists rest, ReadLoop.sent (run l) = ReadLoop.delivered (run l) ++ rest.
Proof. exact (ReadLoopProofs.prefix A c l). Qed.

(* no lost edge, per epoll discipline: while the poller sleeps, unread data or an unprocessed end of stream always has a
   deliverable event *)
Theorem c02_no_lost_edge_lt l : ReadLoop.md c = ReadLoop.LT ->
  ReadLoop.ph (run l) = ReadLoop.Idle -> ReadLoop.closed (run l) = false ->
  ReadLoop.avail (run l) <> [] \/ ReadLoop.eofsent (run l) = true -> ReadLoop.deliverable c (run l) = true.
Proof.
  intros _ Hp Hc Hpe. apply (ReadLoopProofs.no_lost_edge A c l oneshot_rearms Hp Hc).
  unfold ReadLoopProofs.pending. destruct Hpe as [H|H]; [destruct (ReadLoop.avail (run l)); [contradiction|reflexivity]|].
  rewrite H. apply orb_true_r.
Qed.

Theorem c02_no_lost_edge_et l : ReadLoop.md c = ReadLoop.ET ->
  ReadLoop.ph (run l) = ReadLoop.Idle -> ReadLoop.closed (run l) = false ->
  ReadLoop.avail (run l) <> [] \/ ReadLoop.eofsent (run l) = true -> ReadLoop.edge (run l) = true.
Proof.
  intros Hm Hp Hc Hpe.
  assert (Hd : ReadLoop.deliverable c (run l) = true).
  { apply (ReadLoopProofs.no_lost_edge A c l oneshot_rearms Hp Hc).
    unfold ReadLoopProofs.pending. destruct Hpe as [H|H]; [destruct (ReadLoop.avail (run l)); [contradiction|reflexivity]|].
    rewrite H. apply orb_true_r. }
  unfold ReadLoop.deliverable in Hd. rewrite Hm in Hd. apply andb_true_iff in Hd as [_ Hd]. exact Hd.
Qed.

Theorem c02_no_lost_edge_oneshot l : ReadLoop.md c = ReadLoop.OS ->
  ReadLoop.ph (run l) = ReadLoop.Idle -> ReadLoop.closed (run l) = false ->
  ReadLoop.avail (run l) <> [] \/ ReadLoop.eofsent (run l) = true ->
  ReadLoop.armed (run l) = true /\ ReadLoop.edge (run l) = true.
Proof.
  intros Hm Hp Hc Hpe.
  assert (Hd : ReadLoop.deliverable c (run l) = true).
  { apply (ReadLoopProofs.no_lost_edge A c l oneshot_rearms Hp Hc).
    unfold ReadLoopProofs.pending. destruct Hpe as [H|H]; [destruct (ReadLoop.avail (run l)); [contradiction|reflexivity]|].
    rewrite H. apply orb_true_r. }
  unfold ReadLoop.deliverable in Hd. rewrite Hm in Hd. apply andb_true_iff in Hd as [_ Hd].
  apply andb_true_iff in Hd. exact Hd.
Qed.

(* completeness: when nothing can happen any more unless the peer sends, everything sent has been delivered *)
Theorem c02_complete l : ReadLoop.quiescent c (run l) -> ReadLoop.delivered (run l) = ReadLoop.sent (run l).
Proof. exact (ReadLoopProofs.complete A c l oneshot_rearms). Qed.

(* half-close: the connection is closed only after everything the peer sent was delivered, and the close is not forgotten *)
Theorem c02_eof l :
  (ReadLoop.closed (run l) = true -> ReadLoop.delivered (run l) = ReadLoop.sent (run l)) /\
  (ReadLoop.quiescent c (run l) -> ReadLoop.eofsent (run l) = true -> ReadLoop.closed (run l) = true).
Proof.
  split.
  - intros H. exact (proj1 (ReadLoopProofs.closed_complete A c l H)).
  - exact (ReadLoopProofs.eof_closes A c l oneshot_rearms).
Qed.

End Loop.

(* idle readers: without new input at most `measure` steps are possible from ANY state, whatever the configuration:
   nobody spins on an empty socket.  (Holds for a read buffer of at least one byte, which the configuration type enforces;
   a zero-length buffer - finding D5 - makes the loop spin.) *)
Theorem c02_idle (A : Type) (c : ReadLoop.cfg) (s : ReadLoop.st A) (l : list (ReadLoop.action A)) :
  forallb (fun a => negb (ReadLoopProofs.is_input A a)) l = true ->
  ReadLoopProofs.steps_taken A c s l <= ReadLoopProofs.measure A c s.
Proof.
  intros H. pose proof (ReadLoopProofs.bounded_work A c l s H). lia.
Qed.

(* D28 (fixed in 47bebc7): a poller that does not re-arm leaves unread data without any deliverable event *)
Theorem c02_d28_refuted :
  exists l, let s := @ReadLoop.run nat (ReadLoop.mkcfg ReadLoop.OS 3 0 false) l in
  ReadLoop.ph s = ReadLoop.Idle /\ ReadLoop.avail s <> [] /\ ReadLoop.closed s = false /\
  ReadLoop.deliverable (ReadLoop.mkcfg ReadLoop.OS 3 0 false) s = false.
Proof.
  exists [ReadLoop.Arrive 1 [2]; ReadLoop.Wake; ReadLoop.Read; ReadLoop.Arrive 3 []].
  vm_compute. repeat split; try reflexivity. discriminate.
Qed.

(* ================= the gate: ET + AsyncReadInPoller, with (oneshot = true) and without EPOLLONESHOT ================= *)
Section Gate.
Variable A : Type.
Variable oneshot : bool.
Notation run := (@Gate.run A oneshot).

Theorem c02_prefix_async l : exists rest, Gate.sent (run l) = Gate.delivered (run l) ++ rest.
Proof. exact (GateProofs.prefix A oneshot l). Qed.

(* never two read tasks of one connection - in one-shot mode too, whatever re-arms the descriptor (270b003) *)
Theorem c02_one_reader l : Gate.ntasks (run l) <= 1.
Proof. exact (GateProofs.one_reader A oneshot l). Qed.

(* readEvents stays in {0,1,2}; while the connection is open it is 0 exactly when no task is alive or being started *)
Theorem c02_counter_range l :
  Gate.r (run l) <= 2 /\
  (Gate.closed (run l) = false -> (Gate.r (run l) = 0 <-> Gate.task (run l) = None /\ Gate.spawning (run l) = false)).
Proof. split; [exact (GateProofs.counter_range A oneshot l) | exact (GateProofs.counter_tracks_task A oneshot l)]. Qed.

(* no lost edge: unread data always is somebody's job - a queued or reported event, a task about to start, a live task, or
   (one-shot) a re-arm that is about to queue it *)
Theorem c02_no_lost_edge_async l : Gate.closed (run l) = false -> Gate.avail (run l) <> [] ->
  Gate.edge (run l) = true \/ Gate.held (run l) = true \/ Gate.spawning (run l) = true \/ 0 < Gate.rearm (run l) \/
  Gate.task (run l) <> None.
Proof. exact (GateProofs.no_lost_edge A oneshot l). Qed.

Theorem c02_complete_async l : Gate.quiescent (run l) -> Gate.delivered (run l) = Gate.sent (run l).
Proof. exact (GateProofs.complete A oneshot l). Qed.

Theorem c02_eof_async l :
  (Gate.closed (run l) = true -> Gate.delivered (run l) = Gate.sent (run l)) /\
  (Gate.quiescent (run l) -> Gate.eofsent (run l) = true -> Gate.closed (run l) = true).
Proof.
  split.
  - intros H. exact (proj1 (GateProofs.closed_complete A oneshot l H)).
  - exact (GateProofs.eof_closes A oneshot l).
Qed.

(* idle readers: from every reachable state, without new input, at most `measure` steps: the task terminates *)
Theorem c02_idle_async l (more : list (Gate.action A)) :
  forallb (fun a => negb (GateMeasure.is_input A a)) more = true ->
  GateIdle.steps_taken A oneshot (run l) more <= GateMeasure.measure A (run l).
Proof.
  intros H. pose proof (GateIdle.bounded_work A oneshot more (run l) (proj2 (GateProofs.run_inv A oneshot l)) H). lia.
Qed.

End Gate.

(* D22 (fixed in 0a74eed): the gate that raises first and lowers afterwards reaches a negative counter and two live tasks *)
Theorem c02_old_gate_refuted :
  exists l, (OldGate.omin (OldGate.orun l) < 0)%Z /\ OldGate.otasks (OldGate.orun l) = 2.
Proof.
  exists [OldGate.OEvent; OldGate.OEvent; OldGate.OEvent; OldGate.ODec; OldGate.ODec; OldGate.ODec; OldGate.OLower;
          OldGate.OEvent; OldGate.ODec; OldGate.OEvent].
  vm_compute. split; reflexivity.
Qed.

(* ================= UDP ================= *)
(* the 22-byte key is injective within an address family *)
Theorem c02_udp_key_inj x y : Udp.wf x -> Udp.wf y -> Udp.same_family x y -> Udp.key x = Udp.key y -> x = y.
Proof. exact (UdpProofs.key_inj x y). Qed.

Section UdpS.
Variable A : Type.
Variable buflen : nat.
Notation urun := (@Udp.urun A buflen).
Notation ustep := (@Udp.ustep A buflen).

(* same remote => same connection while its session is live; different remotes (of the listener's family) => different
   connections, in every reachable state of the session map *)
Theorem c02_udp_session :
  (forall ops from d more, forallb (fun op => negb (Udp.closes from op)) more = true ->
     Udp.session_of (fold_left ustep more (ustep (urun ops) (Udp.Recv from d))) from = Udp.session_of (urun ops) from) /\
  (forall ops x y, Udp.wf x -> Udp.wf y -> Udp.same_family x y -> x <> y ->
     Udp.lookup (Udp.key x) (Udp.tbl (urun ops)) <> None ->
     Udp.session_of (urun ops) x <> Udp.session_of (urun ops) y).
Proof.
  split.
  - intros ops from d more H. exact (UdpProofs.same_remote_same_session A buflen (urun ops) from d more H).
  - intros ops x y Hx Hy Hf Hne Hl. apply (UdpProofs.session_of_distinct A (urun ops) x y (UdpProofs.urun_inv A buflen ops)); [|exact Hl].
    intros Hk. apply Hne. exact (UdpProofs.key_inj x y Hx Hy Hf Hk).
Qed.

(* every datagram is handed over exactly once, in arrival order, to the connection of its remote, with its boundaries
   (cut only by a read buffer shorter than the datagram, which is the kernel's doing) *)
Theorem c02_udp_boundaries ops :
  map snd (Udp.out (urun ops)) = map (firstn buflen) (Udp.payloads ops) /\
  (Forall (fun d => length d <= buflen) (Udp.payloads ops) -> map snd (Udp.out (urun ops)) = Udp.payloads ops).
Proof. split; [exact (UdpProofs.boundaries A buflen ops) | exact (UdpProofs.boundaries_whole A buflen ops)]. Qed.

Theorem c02_udp_attribution s from d :
  Udp.out (ustep s (Udp.Recv from d)) = Udp.out s ++ [(Udp.session_of s from, firstn buflen d)].
Proof. destruct (UdpProofs.recv_attributes A buflen s from d) as [pre [H ->]]. exact H. Qed.

End UdpS.

(* ================= non-vacuity ================= *)
(* the gate (ET): two bursts, the second arriving while the task is alive (counter 2), then half-close: everything is
   delivered in order, the task closes the connection, nobody is left running *)
Example c02_example_async :
  let s := @Gate.run nat false [Gate.Arrive 1 [2;3]; Gate.PollTake; Gate.PollGate; Gate.PollSpawn; Gate.TaskRead 1; Gate.Arrive 4 [5]; Gate.PollTake; Gate.PollGate;
                          Gate.TaskRead 1; Gate.TaskCheck; Gate.TaskDec; Gate.TaskRead 1; Gate.TaskRead 1; Gate.PeerEOF;
                          Gate.PollTake; Gate.PollMarkEOF; Gate.PollGate; Gate.TaskCheck; Gate.TaskDrain 1; Gate.TaskClose] in
  Gate.delivered s = [1;2;3;4;5] /\ Gate.closed s = true /\ Gate.task s = None /\ Gate.edge s = false.
Proof. vm_compute. repeat split; reflexivity. Qed.

(* the gate (one-shot): bytes that arrive while the descriptor is disarmed are not queued; a Write's EPOLL_CTL_MOD re-arms
   it under the running task and the event only raises the counter; the task's own re-arm at its exit queues the rest *)
Example c02_example_oneshot :
  let s := @Gate.run nat true [Gate.Arrive 1 [2]; Gate.PollTake; Gate.PollGate; Gate.PollSpawn; Gate.TaskRead 3; Gate.Arrive 3 []; Gate.Mod; Gate.PollTake; Gate.PollGate;
                         Gate.TaskCheck; Gate.TaskDec; Gate.TaskRead 3; Gate.TaskCheck; Gate.TaskDec; Gate.Arrive 4 []; Gate.TaskRearm;
                         Gate.PollTake; Gate.PollGate; Gate.PollSpawn; Gate.TaskRead 3; Gate.TaskCheck; Gate.TaskDec; Gate.TaskRearm] in
  Gate.delivered s = [1;2;3;4] /\ Gate.task s = None /\ Gate.armed s = true /\ Gate.edge s = false /\ Gate.r s = 0.
Proof. vm_compute. repeat split; reflexivity. Qed.

(* the loop: LT with a 2-byte buffer and a limit of 1 read per event needs three events for 5 bytes *)
Example c02_example_lt :
  let c := ReadLoop.mkcfg ReadLoop.LT 1 0 true in
  let s := @ReadLoop.run nat c [ReadLoop.Arrive 1 [2;3;4;5]; ReadLoop.Wake; ReadLoop.Read; ReadLoop.Wake; ReadLoop.Read;
                                ReadLoop.Wake; ReadLoop.Read] in
  ReadLoop.delivered s = [1;2;3;4;5] /\ ReadLoop.ph s = ReadLoop.Idle /\ ReadLoop.deliverable c s = false.
Proof. vm_compute. repeat split; reflexivity. Qed.

Print Assumptions c02_prefix.
Print Assumptions c02_no_lost_edge_lt.
Print Assumptions c02_no_lost_edge_et.
Print Assumptions c02_no_lost_edge_oneshot.
Print Assumptions c02_complete.
Print Assumptions c02_eof.
Print Assumptions c02_idle.
Print Assumptions c02_d28_refuted.
Print Assumptions c02_prefix_async.
Print Assumptions c02_one_reader.
Print Assumptions c02_counter_range.
Print Assumptions c02_no_lost_edge_async.
Print Assumptions c02_complete_async.
Print Assumptions c02_eof_async.
Print Assumptions c02_idle_async.
Print Assumptions c02_old_gate_refuted.
Print Assumptions c02_udp_key_inj.
Print Assumptions c02_udp_session.
Print Assumptions c02_udp_boundaries.
Print Assumptions c02_udp_attribution.
