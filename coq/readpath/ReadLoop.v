(* Model of the per-event read loop of poller_epoll.go readWriteLoop (synchronous reading: LT, ET, ET+ONESHOT; also LT with
   AsyncReadInPoller, which reads synchronously) against a kernel receive buffer and the three epoll disciplines, as the
   code is after commits d9301f7, 47bebc7, 15e9d4b, 55f84ef, 2333828 (asynchronous reading under ET, with or without
   ONESHOT, is Gate.v since 270b003):

     on an event with IN:   for i := 0; i < Max; i++ { n := read(buf); if n > 0 deliver buf[:n];
                                                        EAGAIN -> break; n < len(buf) -> break }
                            (ET: Max is 2^31-1, modelled as "no limit"; EINTR retries are not modelled)
     event also has RDHUP:  read until n <= 0, delivering every read (readToEOF); close
     else, ONESHOT:         ResetPollerEvent (EPOLL_CTL_MOD re-arms the descriptor)

   Epoll (assumption K3), read side of one descriptor:
     LT       an event is deliverable iff there is unread data or the peer has shut down
     ET       the descriptor is put on the ready list by every arrival (and by the shutdown) and taken off when reported
     ONESHOT  as ET while armed; reporting disarms; arrivals while disarmed are not queued; re-arming (MOD) queues the
              descriptor iff it is readable at that moment (the poller's ResetPollerEvent, and - action Mod - any
              modWrite / resetRead caused by a Write, a flush or a dial completion)
   `rearms` = false is the poller that copied isOneshot before Engine.Start had set it (finding D28, fixed in 47bebc7).
   No proofs in this file. *)
From Coq Require Import List Arith Bool.
Import ListNotations.

Inductive mode := LT | ET | OS.
Inductive phase :=
| Idle                              (* the poller is in epoll_wait / no task runs *)
| Loop (i : nat) (hup : bool)       (* i reads of the loop done; hup: the event carried RDHUP *)
| Drain                             (* readToEOF *)
| Rearm.                            (* about to call ResetPollerEvent *)

Record cfg := mkcfg {
  md : mode;
  bufm1 : nat;       (* len(buf) - 1: the read buffer is not empty (Engine.Start, NewEngine; finding D5) *)
  maxm1 : nat;       (* MaxConnReadTimesPerEventLoop - 1 (used in LT only) *)
  rearms : bool
}.

Section ReadLoop.
Variable A : Type.

Record st := mk {
  ph : phase;
  avail : list A;        (* receive buffer *)
  edge : bool;           (* ET / ONESHOT: the descriptor is on the ready list *)
  armed : bool;          (* ONESHOT: the registration is enabled *)
  eofsent : bool;        (* the peer has shut down its sending side *)
  closed : bool;         (* the engine has closed the connection at the end of the stream *)
  sent : list A;         (* ghost *)
  delivered : list A     (* ghost: concatenation of the data callback's arguments *)
}.

Inductive action :=
| Arrive (a : A) (d : list A)
| PeerEOF
| Mod             (* ONESHOT: an EPOLL_CTL_MOD from the write side re-arms the descriptor *)
| Wake            (* epoll_wait reports the descriptor; the loop starts *)
| Read            (* one read(2) of the loop with its callback *)
| DrainRead       (* one read(2) of readToEOF; n <= 0 ends it and the connection is closed *)
| DoRearm.        (* ResetPollerEvent *)

Definition nonempty (l : list A) : bool := match l with [] => false | _ => true end.

Definition raise (c : cfg) (s : st) : bool :=
  match md c with LT => edge s | ET => true | OS => armed s || edge s end.

Definition deliverable (c : cfg) (s : st) : bool :=
  negb (closed s) &&
  match md c with
  | LT => nonempty (avail s) || eofsent s
  | ET => edge s
  | OS => armed s && edge s
  end.

Definition after_loop (c : cfg) (hup : bool) : phase :=
  if hup then Drain else
  match md c with OS => if rearms c then Rearm else Idle | _ => Idle end.

Definition step (c : cfg) (s : st) (a : action) : st :=
  match a with
  | Arrive x d =>
      if eofsent s then s else
      mk (ph s) (avail s ++ x :: d) (raise c s) (armed s) (eofsent s) (closed s) (sent s ++ x :: d) (delivered s)
  | PeerEOF =>
      if eofsent s then s else
      mk (ph s) (avail s) (raise c s) (armed s) true (closed s) (sent s) (delivered s)
  | Mod =>
      match md c with
      | OS => if closed s then s else
              mk (ph s) (avail s) (edge s || nonempty (avail s) || eofsent s) true (eofsent s) (closed s) (sent s) (delivered s)
      | _ => s
      end
  | Wake =>
      match ph s with
      | Idle =>
          if deliverable c s then
            mk (Loop 0 (eofsent s)) (avail s)
               (match md c with LT => edge s | _ => false end)
               (match md c with OS => false | _ => armed s end)
               (eofsent s) (closed s) (sent s) (delivered s)
          else s
      | _ => s
      end
  | Read =>
      match ph s with
      | Loop i hup =>
          let chunk := firstn (S (bufm1 c)) (avail s) in
          let short := length chunk <? S (bufm1 c) in
          let limit := match md c with LT => maxm1 c <=? i | _ => false end in
          mk (if short || limit then after_loop c hup else Loop (S i) hup)
             (skipn (S (bufm1 c)) (avail s)) (edge s) (armed s) (eofsent s) (closed s) (sent s) (delivered s ++ chunk)
      | _ => s
      end
  | DrainRead =>
      match ph s with
      | Drain =>
          match avail s with
          | [] => mk Idle [] (edge s) (armed s) (eofsent s) true (sent s) (delivered s)
          | _ => mk Drain (skipn (S (bufm1 c)) (avail s)) (edge s) (armed s) (eofsent s) (closed s) (sent s)
                    (delivered s ++ firstn (S (bufm1 c)) (avail s))
          end
      | _ => s
      end
  | DoRearm =>
      match ph s with
      | Rearm => mk Idle (avail s) (nonempty (avail s) || eofsent s) true (eofsent s) (closed s) (sent s) (delivered s)
      | _ => s
      end
  end.

Definition enabled (c : cfg) (s : st) (a : action) : bool :=
  match a with
  | Arrive _ _ | PeerEOF => negb (eofsent s)
  | Mod => match md c with OS => negb (closed s) | _ => false end
  | Wake => match ph s with Idle => deliverable c s | _ => false end
  | Read => match ph s with Loop _ _ => true | _ => false end
  | DrainRead => match ph s with Drain => true | _ => false end
  | DoRearm => match ph s with Rearm => true | _ => false end
  end.

(* a registered connection: armed, nothing pending *)
Definition init : st := mk Idle [] false true false false [] [].
Definition run (c : cfg) (l : list action) : st := fold_left (step c) l init.

(* nothing can happen unless the peer sends: the poller sleeps in epoll_wait and no event is deliverable *)
Definition quiescent (c : cfg) (s : st) : Prop := ph s = Idle /\ deliverable c s = false.

End ReadLoop.

Arguments mk {A}. Arguments ph {A}. Arguments avail {A}. Arguments edge {A}. Arguments armed {A}.
Arguments eofsent {A}. Arguments closed {A}. Arguments sent {A}. Arguments delivered {A}.
Arguments Arrive {A}. Arguments PeerEOF {A}. Arguments Mod {A}. Arguments Wake {A}. Arguments Read {A}. Arguments DrainRead {A}. Arguments DoRearm {A}.
Arguments nonempty {A}. Arguments raise {A}. Arguments deliverable {A}. Arguments step {A}. Arguments enabled {A}.
Arguments init {A}. Arguments run {A}. Arguments quiescent {A}.
