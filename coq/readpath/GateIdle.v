(* Termination of the gate LTS (Gate.v): without new input only finitely many steps are possible - nobody spins. *)
From Coq Require Import List Arith Lia Bool.
Import ListNotations.
Require Import Gate GateProofs GateMeasure GateIdleA GateIdleB.

Section P.
Variable A : Type.
Variable oneshot : bool.
Notation st := (st A).
Notation action := (action A).
Notation step := (@step A oneshot).
Notation run := (@run A oneshot).
Notation enabled := (@enabled A oneshot).
Notation Ctl := (Ctl A oneshot).
Notation measure := (@measure A).
Notation is_input := (@is_input A).

Lemma step_decreases s a : Ctl s -> is_input a = false -> enabled s a = true -> measure (step s a) < measure s.
Proof.
  intros HC Ha He.
  destruct a as [x d| | | | | | |buf| | |buf| |]; try discriminate.
  - apply dec_take; assumption.
  - apply dec_mark; assumption.
  - apply dec_gate; assumption.
  - apply dec_spawn; assumption.
  - apply dec_read; assumption.
  - apply dec_check; assumption.
  - apply dec_dec; assumption.
  - apply dec_drain; assumption.
  - apply dec_close; assumption.
  - apply dec_rearm; assumption.
Qed.

Fixpoint steps_taken (s : st) (l : list action) : nat :=
  match l with
  | [] => 0
  | a :: l' => (if enabled s a then 1 else 0) + steps_taken (step s a) l'
  end.

Lemma disabled_noop (s : st) (a : action) : enabled s a = false -> step s a = s.
Proof.
  destruct a as [x d| | | | | | |buf| | |buf| |]; cbn [Gate.enabled Gate.step]; intros H.
  - apply negb_false_iff in H. rewrite H. reflexivity.
  - apply negb_false_iff in H. rewrite H. reflexivity.
  - rewrite H. reflexivity.
  - rewrite H. reflexivity.
  - rewrite H. reflexivity.
  - rewrite H. reflexivity.
  - rewrite H. reflexivity.
  - destruct (task s) as [[]|]; try discriminate; reflexivity.
  - destruct (task s) as [[]|]; try discriminate; reflexivity.
  - destruct (task s) as [[]|]; try discriminate; reflexivity.
  - destruct (task s) as [[]|]; try discriminate; reflexivity.
  - destruct (task s) as [[]|]; try discriminate; reflexivity.
  - rewrite H. reflexivity.
Qed.

Lemma bounded_work : forall (l : list action) (s : st), Ctl s -> forallb (fun a => negb (is_input a)) l = true ->
  steps_taken s l + measure (fold_left step l s) <= measure s.
Proof.
  induction l as [|a l IH]; intros s HC Hl; cbn [steps_taken fold_left]; [lia|].
  cbn [forallb] in Hl. apply andb_true_iff in Hl as [Ha Hl]. apply negb_true_iff in Ha.
  specialize (IH (step s a) (step_ctl A oneshot s a HC) Hl).
  destruct (enabled s a) eqn:E.
  - pose proof (step_decreases s a HC Ha E). lia.
  - rewrite (disabled_noop s a E) in *. lia.
Qed.

End P.
