(* Proofs about the UDP key and the session map (Udp.v). *)
From Coq Require Import List NArith Arith Bool Lia.
Import ListNotations.
Require Import Udp.

(* ---- the key ---- *)
Lemma app_inj_len {X} (a c b d : list X) : length a = length c -> a ++ b = c ++ d -> a = c /\ b = d.
Proof.
  revert c. induction a as [|x a IH]; intros [|y c] Hl H; cbn in *; try discriminate.
  - split; [reflexivity|exact H].
  - injection H as Hx H. destruct (IH c ltac:(lia) H) as [-> ->]. subst. split; reflexivity.
Qed.

Lemma le16_inj p q : (p < 65536)%N -> (q < 65536)%N -> le16 p = le16 q -> p = q.
Proof.
  unfold le16. intros Hp Hq H. injection H as H0 H1.
  rewrite (N.div_mod p 256), (N.div_mod q 256) by discriminate.
  rewrite (N.mod_small (p / 256) 256) in H1 by (apply N.div_lt_upper_bound; [discriminate|exact Hp]).
  rewrite (N.mod_small (q / 256) 256) in H1 by (apply N.div_lt_upper_bound; [discriminate|exact Hq]).
  congruence.
Qed.

Lemma le32_inj p q : (p < 4294967296)%N -> (q < 4294967296)%N -> le32 p = le32 q -> p = q.
Proof.
  unfold le32. intros Hp Hq H. injection H as H0 H1 H2 H3.
  assert (D : forall z, (z < 4294967296)%N ->
     z = (z mod 256 + 256 * ((z / 256) mod 256) + 65536 * ((z / 65536) mod 256) + 16777216 * ((z / 16777216) mod 256))%N).
  { intros z Hz.
    assert (E3 : ((z / 16777216) mod 256 = z / 16777216)%N).
    { apply N.mod_small. apply N.div_lt_upper_bound; [discriminate|exact Hz]. }
    rewrite E3.
    replace (z / 65536)%N with (z / 256 / 256)%N by (rewrite N.div_div by discriminate; reflexivity).
    replace (z / 16777216)%N with (z / 256 / 256 / 256)%N by (rewrite !N.div_div by discriminate; reflexivity).
    pose proof (N.div_mod z 256 ltac:(discriminate)) as A0.
    pose proof (N.div_mod (z / 256) 256 ltac:(discriminate)) as A1.
    pose proof (N.div_mod (z / 256 / 256) 256 ltac:(discriminate)) as A2.
    lia. }
  rewrite (D p Hp), (D q Hq). congruence.
Qed.

Lemma key_length sa : wf sa -> length (key sa) = 22%nat.
Proof.
  destruct sa as [a p|a p z]; cbn [wf key]; intros H.
  - destruct H as [Ha _]. rewrite !app_length, Ha. reflexivity.
  - destruct H as [Ha _]. rewrite !app_length, Ha. reflexivity.
Qed.

(* the key is injective within an address family *)
Lemma key_inj x y : wf x -> wf y -> same_family x y -> key x = key y -> x = y.
Proof.
  destruct x as [a p|a p z], y as [b q|b q w]; cbn [wf same_family key]; intros Hx Hy Hf H; try contradiction.
  - destruct Hx as [La Hp], Hy as [Lb Hq].
    destruct (app_inj_len a b _ _ ltac:(congruence) H) as [-> H1].
    destruct (app_inj_len (zeros 12) (zeros 12) _ _ eq_refl H1) as [_ H2].
    destruct (app_inj_len (le16 p) (le16 q) _ _ eq_refl H2) as [H3 _].
    rewrite (le16_inj p q Hp Hq H3). reflexivity.
  - destruct Hx as (La & Hp & Hz), Hy as (Lb & Hq & Hw).
    destruct (app_inj_len a b _ _ ltac:(congruence) H) as [-> H1].
    destruct (app_inj_len (le16 p) (le16 q) _ _ eq_refl H1) as [H3 H4].
    rewrite (le16_inj p q Hp Hq H3), (le32_inj z w Hz Hw H4). reflexivity.
Qed.

(* across families the key is NOT injective: an IPv4 remote and the IPv6 remote whose address starts with the same four
   bytes followed by zeros, same port, zone 0, share a key (a listener socket only ever sees one family) *)
Lemma key_collides_across_families :
  key (In4 [127; 0; 0; 1]%N 4660) = key (In6 [127; 0; 0; 1; 0; 0; 0; 0; 0; 0; 0; 0; 0; 0; 0; 0]%N 4660 0).
Proof. reflexivity. Qed.

Lemma keyeqb_eq x y : keyeqb x y = true <-> x = y.
Proof.
  revert y. induction x as [|a x IH]; intros [|b y]; cbn; split; intros H; try discriminate; try reflexivity.
  - apply andb_true_iff in H as [H1 H2]. apply N.eqb_eq in H1. apply IH in H2. congruence.
  - injection H as -> ->. rewrite N.eqb_refl. apply IH. reflexivity.
Qed.

Lemma keyeqb_refl x : keyeqb x x = true.
Proof. apply keyeqb_eq. reflexivity. Qed.

(* ---- the session map ---- *)
Local Open Scope nat_scope.
Section S.
Variable A : Type.
Variable buflen : nat.
Notation ust := (ust A).
Notation uop := (uop A).
Notation ustep := (ustep buflen).
Notation urun := (urun buflen).

Definition UInv (s : ust) : Prop :=
  NoDup (map snd (tbl s)) /\ Forall (fun e => snd e < next s) (tbl s).

Lemma lookup_in k t i : lookup k t = Some i -> In (k, i) t.
Proof.
  induction t as [|[k' j] t IH]; cbn; [discriminate|].
  destruct (keyeqb k k') eqn:E.
  - intros H. injection H as ->. apply keyeqb_eq in E. subst. left; reflexivity.
  - intros H. right. apply IH. exact H.
Qed.

Lemma remove_incl k t e : In e (remove_key k t) -> In e t.
Proof.
  induction t as [|[k' j] t IH]; cbn; [tauto|].
  destruct (keyeqb k k'); cbn; intros H; [right; apply IH; exact H|].
  destruct H as [H|H]; [left; exact H|right; apply IH; exact H].
Qed.

Lemma remove_nodup k t : NoDup (map snd t) -> NoDup (map snd (remove_key k t)).
Proof.
  induction t as [|[k' j] t IH]; cbn; intros H; [constructor|].
  inversion H as [|? ? Hn Hd]; subst.
  destruct (keyeqb k k'); [apply IH; exact Hd|]. cbn. constructor; [|apply IH; exact Hd].
  intros Hi. apply Hn. apply in_map_iff in Hi as [e [He Hi]]. apply in_map_iff. exists e. split; [exact He|].
  apply (remove_incl k). exact Hi.
Qed.

Lemma remove_other k k' t : keyeqb k' k = false -> lookup k' (remove_key k t) = lookup k' t.
Proof.
  intros Hne. induction t as [|[k2 j] t IH]; cbn; [reflexivity|].
  destruct (keyeqb k k2) eqn:E.
  - apply keyeqb_eq in E. subst k2. rewrite Hne. exact IH.
  - cbn. destruct (keyeqb k' k2); [reflexivity|exact IH].
Qed.

Lemma ustep_inv (s : ust) (op : uop) : UInv s -> UInv (ustep s op).
Proof.
  intros [Hn Hb]. destruct op as [from d|from]; cbn [Udp.ustep].
  - destruct (lookup (key from) (tbl s)) eqn:El; unfold UInv; cbn [tbl next]; [split; assumption|].
    split.
    + cbn. constructor; [|exact Hn]. intros Hi. apply in_map_iff in Hi as [e [He Hi]].
      rewrite Forall_forall in Hb. specialize (Hb e Hi). cbn beta in Hb. lia.
    + constructor; [cbn; lia|]. eapply Forall_impl; [|exact Hb]. cbn. intros; lia.
  - unfold UInv; cbn [tbl next]. split; [apply remove_nodup; exact Hn|].
    rewrite Forall_forall in *. intros e He. apply Hb. apply (remove_incl (key from)). exact He.
Qed.

Lemma urun_inv (ops : list uop) : UInv (urun ops).
Proof.
  unfold Udp.urun. assert (H : UInv (@uinit A)) by (split; cbn; constructor).
  revert H. generalize (@uinit A). induction ops as [|op ops IH]; intros s H; cbn; [exact H|].
  apply IH, ustep_inv, H.
Qed.

(* different keys never share a live session; a fresh session differs from all live ones *)
Lemma sessions_distinct (s : ust) k1 k2 i j : UInv s -> lookup k1 (tbl s) = Some i -> lookup k2 (tbl s) = Some j -> k1 <> k2 -> i <> j.
Proof.
  intros [Hn _] H1 H2 Hne Heq. subst j. apply lookup_in in H1. apply lookup_in in H2.
  revert Hn H1 H2. generalize (tbl s). induction l as [|[k v] l IH]; cbn; intros Hn H1 H2; [contradiction|].
  inversion Hn as [|? ? Hni Hd]; subst.
  destruct H1 as [H1|H1], H2 as [H2|H2].
  - congruence.
  - injection H1 as -> ->. apply Hni. apply in_map_iff. exists (k2, i). split; [reflexivity|exact H2].
  - injection H2 as -> ->. apply Hni. apply in_map_iff. exists (k1, i). split; [reflexivity|exact H1].
  - apply IH; assumption.
Qed.

Lemma session_of_distinct (s : ust) x y : UInv s -> key x <> key y ->
  lookup (key x) (tbl s) <> None -> session_of s x <> session_of s y.
Proof.
  intros HI Hne Hx. unfold session_of.
  destruct (lookup (key x) (tbl s)) as [i|] eqn:E1; [|contradiction].
  destruct (lookup (key y) (tbl s)) as [j|] eqn:E2.
  - apply (sessions_distinct s (key x) (key y)); assumption.
  - destruct HI as [_ Hb]. apply lookup_in in E1. rewrite Forall_forall in Hb. specialize (Hb _ E1). cbn in Hb. lia.
Qed.

(* a datagram is attributed to session_of; afterwards the remote has a live session with that identity *)
Lemma recv_attributes (s : ust) from (d : list A) :
  exists pre, out (ustep s (Recv from d)) = pre ++ [(session_of s from, firstn buflen d)] /\ pre = out s.
Proof.
  exists (out s). cbn [Udp.ustep]. unfold session_of. destruct (lookup (key from) (tbl s)); cbn [out]; split; reflexivity.
Qed.

Lemma recv_establishes (s : ust) from (d : list A) : lookup (key from) (tbl (ustep s (Recv from d))) = Some (session_of s from).
Proof.
  cbn [Udp.ustep]. unfold session_of. destruct (lookup (key from) (tbl s)) eqn:E; cbn [tbl]; [exact E|].
  cbn. rewrite keyeqb_refl. reflexivity.
Qed.

(* a live session survives every operation that does not close it *)
Lemma live_stable (s : ust) from i (op : uop) : lookup (key from) (tbl s) = Some i -> closes from op = false ->
  lookup (key from) (tbl (ustep s op)) = Some i.
Proof.
  intros Hl Hc. destruct op as [x d|x]; cbn [Udp.ustep].
  - destruct (lookup (key x) (tbl s)) eqn:E; cbn [tbl]; [exact Hl|].
    cbn. destruct (keyeqb (key from) (key x)) eqn:Ek; [|exact Hl].
    apply keyeqb_eq in Ek. rewrite Ek in Hl. congruence.
  - cbn [tbl]. cbn [closes] in Hc. rewrite remove_other; [exact Hl|exact Hc].
Qed.

Lemma live_stable_run (ops : list uop) (s : ust) from i : lookup (key from) (tbl s) = Some i ->
  forallb (fun op => negb (closes from op)) ops = true ->
  lookup (key from) (tbl (fold_left ustep ops s)) = Some i.
Proof.
  revert s. induction ops as [|op ops IH]; intros s Hl Hc; cbn [fold_left]; [exact Hl|].
  cbn [forallb] in Hc. apply andb_true_iff in Hc as [H1 H2]. apply negb_true_iff in H1.
  apply IH; [|exact H2]. apply live_stable; assumption.
Qed.

(* same remote => same connection while the session is live *)
Lemma same_remote_same_session (s : ust) from (d : list A) (ops : list uop) :
  forallb (fun op => negb (closes from op)) ops = true ->
  session_of (fold_left ustep ops (ustep s (Recv from d))) from = session_of s from.
Proof.
  intros Hc. unfold session_of at 1.
  rewrite (live_stable_run ops _ from _ (recv_establishes s from d) Hc). reflexivity.
Qed.

(* boundaries: one callback per datagram, in arrival order, each the datagram cut to the read buffer *)
Lemma out_payloads (ops : list uop) (s : ust) :
  map snd (out (fold_left ustep ops s)) = map snd (out s) ++ map (firstn buflen) (payloads ops).
Proof.
  revert s. induction ops as [|op ops IH]; intros s; cbn [fold_left payloads]; [rewrite app_nil_r; reflexivity|].
  rewrite IH. destruct op as [x d|x]; cbn [Udp.ustep].
  - destruct (lookup (key x) (tbl s)); cbn [out]; rewrite map_app, <- app_assoc; reflexivity.
  - reflexivity.
Qed.

Lemma boundaries (ops : list uop) : map snd (out (urun ops)) = map (firstn buflen) (payloads ops).
Proof. unfold Udp.urun. rewrite out_payloads. reflexivity. Qed.

Lemma boundaries_whole (ops : list uop) : Forall (fun d => length d <= buflen) (payloads ops) ->
  map snd (out (urun ops)) = payloads ops.
Proof.
  intros H. rewrite boundaries. induction (payloads ops) as [|d l IH]; [reflexivity|].
  inversion H; subst. cbn. rewrite firstn_all2 by assumption. f_equal. apply IH. assumption.
Qed.

End S.
