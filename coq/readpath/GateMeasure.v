(* Termination measure of the gate LTS (Gate.v): the measure itself. The per-action decrease lemmas are in GateIdleA.v and
   GateIdleB.v, the theorem in GateIdle.v. No proofs in this file. *)
From Coq Require Import List Arith Bool.
Import ListNotations.
Require Import Gate.

Section M.
Variable A : Type.
Notation st := (st A).
Notation action := (action A).

Definition b2n (b : bool) : nat := if b then 1 else 0.

Definition measure (s : st) : nat :=
  let p := b2n (nonempty (avail s)) in
  let e := b2n (eofsent s && negb (eofflag s) && negb (closed s)) in    (* a shutdown the poller has not marked yet *)
  let f := b2n (eofflag s && negb (closed s)) in                        (* a marked shutdown, connection still open *)
  4 * length (avail s) + 6 * r s +
  (if edge s then 13 + 22 * p else 0) +
  (if held s then 12 + 21 * p else 0) +
  (if spawning s then 5 + 10 * p + 31 * e else 0) +
  rearm s * (2 + 40 * p + 20 * e + 12 * f) +
  (if eofflag s then 0 else 40) +
  match task s with
  | Some TReading => 4 + 30 * e
  | Some TAtCheck => 3 + 50 * p + 29 * e
  | Some TAtDec => 1 + 50 * p + 28 * e + 13 * f
  | Some TDraining => 2
  | Some TClosing => 1
  | None => 0
  end.

Definition is_input (a : action) : bool := match a with Arrive _ _ | PeerEOF | Mod => true | _ => false end.

End M.
