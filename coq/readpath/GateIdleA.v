(* Termination measure of the gate LTS: every enabled step that is not an input lowers the measure (part). *)
From Coq Require Import List Arith Lia Bool.
Import ListNotations.
Require Import Gate GateProofs GateMeasure.
Ltac fields := cbn [r task held spawning rearm avail edge armed eofsent eofflag closed sent delivered ntasks upd_kernel].
Ltac boolprop :=
  repeat match goal with
  | H : (_ <=? _) = true |- _ => apply Nat.leb_le in H
  | H : (_ <=? _) = false |- _ => apply Nat.leb_gt in H
  | H : (_ <? _) = true |- _ => apply Nat.ltb_lt in H
  | H : (_ <? _) = false |- _ => apply Nat.ltb_ge in H
  | H : (_ =? _) = true |- _ => apply Nat.eqb_eq in H
  | H : (_ =? _) = false |- _ => apply Nat.eqb_neq in H
  end.

Section P.
Variable A : Type.
Variable oneshot : bool.
Notation st := (st A).
Notation action := (action A).
Notation step := (@step A oneshot).
Notation enabled := (@enabled A oneshot).
Notation Ctl := (Ctl A oneshot).
Notation measure := (@measure A).

Lemma dec_take s : Ctl s -> enabled s PollTake = true -> measure (step s PollTake) < measure s.
Proof.
  intros HC He. cbn [Gate.enabled] in He; cbn [Gate.step].
    rewrite He. apply andb_true_iff in He as [E Esf]. apply andb_true_iff in E as [Eed Eh].
    apply negb_true_iff in Esf. apply negb_true_iff in Eh.
    unfold measure; fields. rewrite Eed, Eh, Esf.
    destruct (rearm s), (eofsent s), (eofflag s), (closed s), (nonempty (avail s)), (task s) as [[]|]; cbn [andb negb orb b2n]; lia.
Qed.

Lemma dec_mark s : Ctl s -> enabled s PollMarkEOF = true -> measure (step s PollMarkEOF) < measure s.
Proof.
  intros HC He. cbn [Gate.enabled] in He; cbn [Gate.step].
    rewrite He. apply andb_true_iff in He as [E Esf]. apply andb_true_iff in E as [E Eef]. apply andb_true_iff in E as [Eed Ees].
    apply negb_true_iff in Esf. apply negb_true_iff in Eef.
    unfold measure; fields. rewrite Eed, Ees, Eef, Esf.
    destruct (edge s), (rearm s), (closed s), (nonempty (avail s)), (task s) as [[]|]; cbn [andb negb orb b2n]; lia.
Qed.

Lemma dec_gate s : Ctl s -> enabled s PollGate = true -> measure (step s PollGate) < measure s.
Proof.
  intros HC He. cbn [Gate.enabled] in He; cbn [Gate.step].
    rewrite He. apply andb_true_iff in He as [E Egu]. apply andb_true_iff in E as [Eed Esf]. apply negb_true_iff in Esf.
    assert (Hup : eofsent s && negb (eofflag s) = false).
    { destruct (eofsent s), (eofflag s); cbn in *; try reflexivity; discriminate. }
    destruct (2 <=? r s) eqn:E2; boolprop; unfold measure; fields; rewrite Eed, Esf; rewrite ?Hup; cbn [andb b2n].
    + destruct (edge s), (rearm s), (eofflag s), (closed s), (nonempty (avail s)), (task s) as [[]|]; cbn [andb negb orb b2n]; lia.
    + destruct (r s =? 0); destruct (edge s), (rearm s), (eofflag s), (closed s), (nonempty (avail s)), (task s) as [[]|]; cbn [andb negb orb b2n]; lia.
Qed.

Lemma dec_spawn s : Ctl s -> enabled s PollSpawn = true -> measure (step s PollSpawn) < measure s.
Proof.
  intros HC He. cbn [Gate.enabled] in He; cbn [Gate.step].
    rewrite He. destruct (c_spawn A oneshot s HC He) as (Hta & Hr & Hc). unfold measure; fields. rewrite He, Hta, Hc.
    destruct (edge s), (held s), (rearm s), (eofsent s), (eofflag s), (nonempty (avail s)); cbn [andb negb orb b2n]; lia.
Qed.

Lemma dec_check s : Ctl s -> enabled s TaskCheck = true -> measure (step s TaskCheck) < measure s.
Proof.
  intros HC He. cbn [Gate.enabled] in He; cbn [Gate.step].
    destruct (task s) as [[]|] eqn:Et; try discriminate.
    assert (Hx : task s <> None) by (rewrite Et; discriminate).
    pose proof (spawning_no_task A oneshot s HC Hx) as Hsf.
    unfold measure; fields. rewrite Et, Hsf.
    destruct (edge s), (held s), (rearm s), (eofsent s), (eofflag s), (closed s), (nonempty (avail s)); cbn [andb negb orb b2n]; lia.
Qed.

Lemma dec_close s : Ctl s -> enabled s TaskClose = true -> measure (step s TaskClose) < measure s.
Proof.
  intros HC He. cbn [Gate.enabled] in He; cbn [Gate.step].
    destruct (task s) as [[]|] eqn:Et; try discriminate.
    assert (Hx : task s <> None) by (rewrite Et; discriminate). destruct (c_task A oneshot s HC Hx) as [Hr Hc].
    pose proof (spawning_no_task A oneshot s HC Hx) as Hsf.
    unfold measure; fields; rewrite ?Et, ?Hsf, ?Hc.
    destruct (edge s), (held s), (rearm s), (eofsent s), (eofflag s), (nonempty (avail s)); cbn [andb negb orb b2n]; lia.
Qed.

End P.
