(* Model of the async-read gate of conn_unix.go (Conn.AsyncRead, not ONESHOT) as it is after commits 0a74eed (one atomic
   conditional increment), 15e9d4b (every read uses the whole buffer), 55f84ef and 2333828 (end of stream is handled by
   the task; a half-close event stores the flag first and calls AsyncRead once):

     poller, per readiness event:  loop { cnt := load readEvents; if cnt >= 2 return;
                                          if CAS(readEvents, cnt, cnt+1) { if cnt >= 1 return; break } }
                                   IOExecute(task)
     poller, event with RDHUP only: store readEOF := 1; then the above, once
                                   (the model also admits the older order: an AsyncRead call for the IN part before the store)
     task:  loop { read pass: read until EAGAIN or a short read, every read handed to the data callback;
                   if load readEOF != 0 { read until n <= 0, handing every read to the callback; close; return }
                   if add(readEvents, -1) = 0 return }

   One step of the model is one linearisation point of the code: the successful CAS (or the load that saw 2), the
   hand-over to the executor, the store of readEOF, one read(2) with its callback, the load of readEOF, the decrement.
   The kernel side: a receive buffer (list of payload elements, any type A), the peer's shutdown of its sending side, and
   the edge-triggered readiness flag of epoll (set by every arrival and by the shutdown, taken by the poller when it
   reports the event; assumption K3; the flag also stands for "the poller owes one AsyncRead call" after the store).
   No proofs in this file. *)
From Coq Require Import List Arith Bool.
Import ListNotations.

Inductive tphase := TReading | TAtCheck | TAtDec | TDraining.

Section Gate.
Variable A : Type.

Record st := mk {
  r : nat;                  (* Conn.readEvents *)
  task : option tphase;     (* the read task, if alive *)
  spawning : bool;          (* the poller has raised 0 -> 1 and has not yet handed the task to the executor *)
  avail : list A;           (* the socket's receive buffer *)
  edge : bool;              (* a readiness edge not yet reported by epoll_wait / an AsyncRead call owed by the poller *)
  eofsent : bool;           (* the peer has shut down its sending side *)
  eofflag : bool;           (* Conn.readEOF *)
  closed : bool;            (* the read task has closed the connection at the end of the stream *)
  sent : list A;            (* ghost: everything the peer has sent *)
  delivered : list A;       (* ghost: concatenation of the data callback's arguments *)
  ntasks : nat              (* ghost: read tasks alive *)
}.

Inductive action :=
| Arrive (a : A) (d : list A)   (* the peer's bytes a :: d reach the socket: raises an edge *)
| PeerEOF                       (* the peer shuts down its sending side: raises an edge (RDHUP) *)
| PollGate                      (* the poller takes the edge and performs the gate step *)
| PollSpawn                     (* the poller hands the task to IOExecute (after raising 0 -> 1) *)
| PollMarkEOF                   (* the poller stores readEOF := 1 (it has seen RDHUP) and owes one more AsyncRead *)
| TaskRead (buf : nat)          (* one read(2) of the read pass with a buffer of buf+1 bytes, result handed to the callback *)
| TaskCheck                     (* the load of readEOF after the read pass *)
| TaskDec                       (* the decrement at the end of a read pass *)
| TaskDrain (buf : nat).        (* one read(2) of readToEOF; n <= 0 ends it and the task closes the connection *)

Definition set_task (s : st) (t : option tphase) (n : nat) : st :=
  mk (r s) t (spawning s) (avail s) (edge s) (eofsent s) (eofflag s) (closed s) (sent s) (delivered s) n.

Definition step (s : st) (a : action) : st :=
  match a with
  | Arrive x d =>
      if eofsent s then s else
      mk (r s) (task s) (spawning s) (avail s ++ x :: d) true (eofsent s) (eofflag s) (closed s)
         (sent s ++ x :: d) (delivered s) (ntasks s)
  | PeerEOF =>
      if eofsent s then s else
      mk (r s) (task s) (spawning s) (avail s) true true (eofflag s) (closed s) (sent s) (delivered s) (ntasks s)
  | PollGate =>
      if edge s && negb (spawning s) then
        if 2 <=? r s then mk (r s) (task s) false (avail s) false (eofsent s) (eofflag s) (closed s) (sent s) (delivered s) (ntasks s)
        else mk (S (r s)) (task s) (r s =? 0) (avail s) false (eofsent s) (eofflag s) (closed s) (sent s) (delivered s) (ntasks s)
      else s
  | PollSpawn =>
      if spawning s then
        mk (r s) (Some TReading) false (avail s) (edge s) (eofsent s) (eofflag s) (closed s) (sent s) (delivered s) (S (ntasks s))
      else s
  | PollMarkEOF =>
      if eofsent s && negb (eofflag s) && negb (spawning s) then
        mk (r s) (task s) (spawning s) (avail s) true (eofsent s) true (closed s) (sent s) (delivered s) (ntasks s)
      else s
  | TaskRead buf =>
      match task s with
      | Some TReading =>
          let chunk := firstn (S buf) (avail s) in
          mk (r s) (Some (if length chunk <? S buf then TAtCheck else TReading)) (spawning s)
             (skipn (S buf) (avail s)) (edge s) (eofsent s) (eofflag s) (closed s) (sent s) (delivered s ++ chunk) (ntasks s)
      | _ => s
      end
  | TaskCheck =>
      match task s with
      | Some TAtCheck => set_task s (Some (if eofflag s then TDraining else TAtDec)) (ntasks s)
      | _ => s
      end
  | TaskDec =>
      match task s with
      | Some TAtDec =>
          if r s =? 1 then mk 0 None (spawning s) (avail s) (edge s) (eofsent s) (eofflag s) (closed s) (sent s) (delivered s) (pred (ntasks s))
          else mk (pred (r s)) (Some TReading) (spawning s) (avail s) (edge s) (eofsent s) (eofflag s) (closed s) (sent s) (delivered s) (ntasks s)
      | _ => s
      end
  | TaskDrain buf =>
      match task s with
      | Some TDraining =>
          match avail s with
          | [] => mk (r s) None (spawning s) [] (edge s) (eofsent s) (eofflag s) true (sent s) (delivered s) (pred (ntasks s))
          | _ => mk (r s) (Some TDraining) (spawning s) (skipn (S buf) (avail s)) (edge s) (eofsent s) (eofflag s) (closed s)
                    (sent s) (delivered s ++ firstn (S buf) (avail s)) (ntasks s)
          end
      | _ => s
      end
  end.

Definition init : st := mk 0 None false [] false false false false [] [] 0.
Definition run (l : list action) : st := fold_left step l init.

(* is the action enabled (does it correspond to a step the code / the environment can take in this state)? *)
Definition enabled (s : st) (a : action) : bool :=
  match a with
  | Arrive _ _ => negb (eofsent s)
  | PeerEOF => negb (eofsent s)
  | PollGate => edge s && negb (spawning s)
  | PollSpawn => spawning s
  | PollMarkEOF => eofsent s && negb (eofflag s) && negb (spawning s)
  | TaskRead _ => match task s with Some TReading => true | _ => false end
  | TaskCheck => match task s with Some TAtCheck => true | _ => false end
  | TaskDec => match task s with Some TAtDec => true | _ => false end
  | TaskDrain _ => match task s with Some TDraining => true | _ => false end
  end.

(* nobody can act on the connection any more (only the peer can): no unreported edge, no task, no hand-over in
   progress, and the poller has dealt with the peer's shutdown if there was one *)
Definition quiescent (s : st) : Prop :=
  edge s = false /\ spawning s = false /\ task s = None /\ (eofsent s = true -> eofflag s = true).

End Gate.

Arguments mk {A}.
Arguments r {A}. Arguments task {A}. Arguments spawning {A}. Arguments avail {A}. Arguments edge {A}.
Arguments eofsent {A}. Arguments eofflag {A}. Arguments closed {A}.
Arguments sent {A}. Arguments delivered {A}. Arguments ntasks {A}.
Arguments Arrive {A}. Arguments PeerEOF {A}. Arguments PollGate {A}. Arguments PollSpawn {A}. Arguments PollMarkEOF {A}.
Arguments TaskRead {A}. Arguments TaskCheck {A}. Arguments TaskDec {A}. Arguments TaskDrain {A}.
Arguments set_task {A}. Arguments step {A}. Arguments init {A}. Arguments run {A}. Arguments quiescent {A}. Arguments enabled {A}.
