(* Model of the asynchronous read path of conn_unix.go (Conn.AsyncRead) for edge-triggered epoll with and without
   EPOLLONESHOT, as it is after commits 0a74eed (one atomic conditional increment), 15e9d4b (every read uses the whole
   buffer), 55f84ef / 2333828 (the end of the stream is handled by the task; a half-close event stores the flag first and
   calls AsyncRead once) and 270b003 (one gate for every mode; in one-shot mode the task re-arms when it exits):

     poller, per readiness event:  [event carries RDHUP only: store readEOF := 1]
                                   loop { cnt := load readEvents; if cnt >= 2 return;
                                          if CAS(readEvents, cnt, cnt+1) { if cnt >= 1 return; break } }
                                   IOExecute(task)
     task:  loop { read pass: read until EAGAIN or a short read, every read handed to the data callback;
                   if load readEOF != 0 { read until n <= 0, handing every read to the callback; close; return }
                   if add(readEvents, -1) = 0 { if oneshot { ResetPollerEvent }; return } }

   One step of the model is one linearisation point of the code: epoll_wait reporting the descriptor, the store of
   readEOF, the successful CAS (or the load that saw 2), the hand-over to the executor, the critical section of
   closeWithError that sets Conn.closed, one read(2) with its callback, the load of readEOF, the decrement, the
   EPOLL_CTL_MOD of the re-arm.
   The kernel side (assumptions K2, K3): a receive buffer (list of payload elements, any type A), the peer's shutdown of
   its sending side, and the readiness flag `edge` of epoll: the descriptor is on the ready list.
     ET:       set by every arrival and by the shutdown, cleared when the poller takes the event.
     ONESHOT:  as ET while the registration is armed; taking the event disarms; arrivals while disarmed are not queued;
               every EPOLL_CTL_MOD arms and queues the descriptor iff it is readable at that moment - the task's
               re-arm, and (action Mod) any modWrite / resetRead caused by a Write, a flush or a dial completion.
   An event that is reported while the peer has shut down carries RDHUP: the poller marks before it enters the gate (a
   shutdown that lands between the report and the gate step is ordered behind the gate step: the two commute).
   No proofs in this file. *)
From Coq Require Import List Arith Bool.
Import ListNotations.

Inductive tphase := TReading | TAtCheck | TAtDec | TDraining | TClosing.

Section Gate.
Variable A : Type.
Variable oneshot : bool.      (* Engine.isOneshot *)

Record st := mk {
  r : nat;                  (* Conn.readEvents *)
  task : option tphase;     (* the read task, if alive *)
  held : bool;              (* epoll_wait has reported the descriptor and the poller has not yet done its gate step *)
  spawning : bool;          (* the poller has raised 0 -> 1 and has not yet handed the task to the executor *)
  rearm : nat;              (* one-shot: tasks that have lowered the counter to 0 and have not yet re-armed the descriptor *)
  avail : list A;           (* the socket's receive buffer *)
  edge : bool;              (* the descriptor is on epoll's ready list *)
  armed : bool;             (* one-shot: the registration is enabled *)
  eofsent : bool;           (* the peer has shut down its sending side *)
  eofflag : bool;           (* Conn.readEOF *)
  closed : bool;            (* the read task has closed the connection at the end of the stream *)
  sent : list A;            (* ghost: everything the peer has sent *)
  delivered : list A;       (* ghost: concatenation of the data callback's arguments *)
  ntasks : nat              (* ghost: read tasks that may still read *)
}.

Inductive action :=
| Arrive (a : A) (d : list A)   (* the peer's bytes a :: d reach the socket *)
| PeerEOF                       (* the peer shuts down its sending side (RDHUP) *)
| Mod                           (* one-shot: an EPOLL_CTL_MOD from the write side re-arms the descriptor *)
| PollTake                      (* epoll_wait reports the descriptor to the poller (one-shot: this disarms it) *)
| PollMarkEOF                   (* the reported event carries RDHUP: the poller stores readEOF := 1 *)
| PollGate                      (* the poller's gate step for the event it holds *)
| PollSpawn                     (* the poller hands the task to IOExecute (after raising 0 -> 1) *)
| TaskRead (buf : nat)          (* one read(2) of the read pass with a buffer of buf+1 bytes, result handed to the callback *)
| TaskCheck                     (* the load of readEOF after the read pass *)
| TaskDec                       (* the decrement at the end of a read pass *)
| TaskDrain (buf : nat)         (* one read(2) of readToEOF; n <= 0 ends it *)
| TaskClose                     (* the task closes the connection (Conn.closed := true under Conn.mux) *)
| TaskRearm.                    (* one-shot: ResetPollerEvent of the task that lowered the counter to 0 *)

Definition nonempty (l : list A) : bool := match l with [] => false | _ => true end.

(* readable: what EPOLL_CTL_MOD finds when it polls the descriptor *)
Definition readable (s : st) : bool := nonempty (avail s) || eofsent s.

(* a new arrival / the shutdown puts the descriptor on the ready list (one-shot: only while armed) *)
Definition raise (s : st) : bool := if oneshot then armed s || edge s else true.

Definition upd_kernel (s : st) (av : list A) (e ar es : bool) (sn : list A) : st :=
  mk (r s) (task s) (held s) (spawning s) (rearm s) av e ar es (eofflag s) (closed s) sn (delivered s) (ntasks s).

Definition step (s : st) (a : action) : st :=
  match a with
  | Arrive x d =>
      if eofsent s then s else upd_kernel s (avail s ++ x :: d) (raise s) (armed s) false (sent s ++ x :: d)
  | PeerEOF =>
      if eofsent s then s else upd_kernel s (avail s) (raise s) (armed s) true (sent s)
  | Mod =>
      if oneshot && negb (closed s) then upd_kernel s (avail s) (edge s || readable s) true (eofsent s) (sent s) else s
  | PollTake =>
      if edge s && negb (held s) && negb (spawning s) then
        mk (r s) (task s) true (spawning s) (rearm s) (avail s) false (if oneshot then false else armed s) (eofsent s) (eofflag s)
           (closed s) (sent s) (delivered s) (ntasks s)
      else s
  | PollMarkEOF =>
      if held s && eofsent s && negb (eofflag s) && negb (spawning s) then
        mk (r s) (task s) (held s) (spawning s) (rearm s) (avail s) (edge s) (armed s) (eofsent s) true (closed s) (sent s) (delivered s) (ntasks s)
      else s
  | PollGate =>
      if held s && negb (spawning s) && (negb (eofsent s) || eofflag s) then
        if 2 <=? r s then mk (r s) (task s) false false (rearm s) (avail s) (edge s) (armed s) (eofsent s) (eofflag s) (closed s) (sent s) (delivered s) (ntasks s)
        else mk (S (r s)) (task s) false (r s =? 0) (rearm s) (avail s) (edge s) (armed s) (eofsent s) (eofflag s) (closed s) (sent s) (delivered s) (ntasks s)
      else s
  | PollSpawn =>
      if spawning s then
        mk (r s) (Some TReading) (held s) false (rearm s) (avail s) (edge s) (armed s) (eofsent s) (eofflag s) (closed s) (sent s) (delivered s) (S (ntasks s))
      else s
  | TaskRead buf =>
      match task s with
      | Some TReading =>
          let chunk := firstn (S buf) (avail s) in
          mk (r s) (Some (if length chunk <? S buf then TAtCheck else TReading)) (held s) (spawning s) (rearm s)
             (skipn (S buf) (avail s)) (edge s) (armed s) (eofsent s) (eofflag s) (closed s) (sent s) (delivered s ++ chunk) (ntasks s)
      | _ => s
      end
  | TaskCheck =>
      match task s with
      | Some TAtCheck =>
          mk (r s) (Some (if eofflag s then TDraining else TAtDec)) (held s) (spawning s) (rearm s) (avail s) (edge s) (armed s)
             (eofsent s) (eofflag s) (closed s) (sent s) (delivered s) (ntasks s)
      | _ => s
      end
  | TaskDec =>
      match task s with
      | Some TAtDec =>
          if r s =? 1 then
            mk 0 None (held s) (spawning s) (if oneshot then S (rearm s) else rearm s) (avail s) (edge s) (armed s) (eofsent s) (eofflag s) (closed s) (sent s) (delivered s) (pred (ntasks s))
          else
            mk (pred (r s)) (Some TReading) (held s) (spawning s) (rearm s) (avail s) (edge s) (armed s) (eofsent s) (eofflag s) (closed s) (sent s) (delivered s) (ntasks s)
      | _ => s
      end
  | TaskDrain buf =>
      match task s with
      | Some TDraining =>
          match avail s with
          | [] => mk (r s) (Some TClosing) (held s) (spawning s) (rearm s) [] (edge s) (armed s) (eofsent s) (eofflag s) (closed s) (sent s) (delivered s) (ntasks s)
          | _ => mk (r s) (Some TDraining) (held s) (spawning s) (rearm s) (skipn (S buf) (avail s)) (edge s) (armed s) (eofsent s) (eofflag s) (closed s)
                    (sent s) (delivered s ++ firstn (S buf) (avail s)) (ntasks s)
          end
      | _ => s
      end
  | TaskClose =>
      match task s with
      | Some TClosing =>
          mk (r s) None (held s) (spawning s) (rearm s) (avail s) (edge s) (armed s) (eofsent s) (eofflag s) true (sent s) (delivered s) (pred (ntasks s))
      | _ => s
      end
  | TaskRearm =>
      if 0 <? rearm s then
        if closed s then
          mk (r s) (task s) (held s) (spawning s) (pred (rearm s)) (avail s) (edge s) (armed s) (eofsent s) (eofflag s) (closed s) (sent s) (delivered s) (ntasks s)
        else
          mk (r s) (task s) (held s) (spawning s) (pred (rearm s)) (avail s) (edge s || readable s) true (eofsent s) (eofflag s) (closed s) (sent s) (delivered s) (ntasks s)
      else s
  end.

(* a registered connection: armed, nothing pending *)
Definition init : st := mk 0 None false false 0 [] false true false false false [] [] 0.
Definition run (l : list action) : st := fold_left step l init.

(* is the action enabled (does it correspond to a step the code / the environment can take in this state)? *)
Definition enabled (s : st) (a : action) : bool :=
  match a with
  | Arrive _ _ => negb (eofsent s)
  | PeerEOF => negb (eofsent s)
  | Mod => oneshot && negb (closed s)
  | PollTake => edge s && negb (held s) && negb (spawning s)
  | PollMarkEOF => held s && eofsent s && negb (eofflag s) && negb (spawning s)
  | PollGate => held s && negb (spawning s) && (negb (eofsent s) || eofflag s)
  | PollSpawn => spawning s
  | TaskRead _ => match task s with Some TReading => true | _ => false end
  | TaskCheck => match task s with Some TAtCheck => true | _ => false end
  | TaskDec => match task s with Some TAtDec => true | _ => false end
  | TaskDrain _ => match task s with Some TDraining => true | _ => false end
  | TaskClose => match task s with Some TClosing => true | _ => false end
  | TaskRearm => 0 <? rearm s
  end.

(* nobody can act on the connection any more (only the peer and the write side can): no event to take, no task, no
   hand-over and no re-arm in progress *)
Definition quiescent (s : st) : Prop :=
  edge s = false /\ held s = false /\ spawning s = false /\ task s = None /\ rearm s = 0.

End Gate.

Arguments mk {A}.
Arguments r {A}. Arguments task {A}. Arguments held {A}. Arguments spawning {A}. Arguments rearm {A}. Arguments avail {A}. Arguments edge {A}.
Arguments armed {A}. Arguments eofsent {A}. Arguments eofflag {A}. Arguments closed {A}.
Arguments sent {A}. Arguments delivered {A}. Arguments ntasks {A}.
Arguments Arrive {A}. Arguments PeerEOF {A}. Arguments Mod {A}. Arguments PollTake {A}. Arguments PollGate {A}. Arguments PollSpawn {A}. Arguments PollMarkEOF {A}.
Arguments TaskRead {A}. Arguments TaskCheck {A}. Arguments TaskDec {A}. Arguments TaskDrain {A}. Arguments TaskClose {A}. Arguments TaskRearm {A}.
Arguments nonempty {A}. Arguments readable {A}. Arguments raise {A}. Arguments upd_kernel {A}.
Arguments step {A}. Arguments init {A}. Arguments run {A}. Arguments quiescent {A}. Arguments enabled {A}.
