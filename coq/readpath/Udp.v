(* Model of the UDP demultiplexing of conn_unix.go: getUDPNetAddrKey (the 22-byte key of a remote address), the
   per-remote session map of a UDP listener (udpConn.getConn / udpConn.Close of a session), and readUDP (one datagram per
   read, cut to the read buffer by the kernel).  No proofs in this file. *)
From Coq Require Import List NArith Bool.
Import ListNotations.
Open Scope N_scope.
Notation byte := N (only parsing).

(* syscall.SockaddrInet4{Addr [4]byte, Port} / SockaddrInet6{Addr [16]byte, Port, ZoneId uint32} *)
Inductive sockaddr :=
| In4 (a : list byte) (port : N)
| In6 (a : list byte) (port : N) (zone : N).

Definition le16 (p : N) : list byte := [p mod 256; (p / 256) mod 256].                     (* PutUint16(uint16(port)) *)
Definition le32 (z : N) : list byte :=
  [z mod 256; (z / 256) mod 256; (z / 65536) mod 256; (z / 16777216) mod 256].           (* PutUint32(zone) *)
Definition zeros (n : nat) : list byte := repeat 0 n.

(* var ret [22]byte; copy(ret[:], addr[:]); PutUint16(ret[16:], port); (v6) PutUint32(ret[18:], zone) *)
Definition key (sa : sockaddr) : list byte :=
  match sa with
  | In4 a p => a ++ zeros 12 ++ le16 p ++ zeros 4
  | In6 a p z => a ++ le16 p ++ le32 z
  end.

Definition wf (sa : sockaddr) : Prop :=
  match sa with
  | In4 a p => length a = 4%nat /\ p < 65536
  | In6 a p z => length a = 16%nat /\ p < 65536 /\ z < 4294967296
  end.

Definition same_family (x y : sockaddr) : Prop :=
  match x, y with In4 _ _, In4 _ _ => True | In6 _ _ _, In6 _ _ _ => True | _, _ => False end.

Fixpoint keyeqb (x y : list byte) : bool :=
  match x, y with
  | [], [] => true
  | a :: x', b :: y' => (a =? b) && keyeqb x' y'
  | _, _ => false
  end.

Notation sid := nat (only parsing).      (* identity of a logical connection (a Conn pointer) *)

Section Sessions.
Variable A : Type.

Record ust := mku {
  tbl : list (list byte * sid);    (* udpConn.conns of the listener *)
  next : sid;                      (* ghost: allocation counter of fresh identities *)
  opened : list sid;               (* ghost: OnOpen notifications, in order *)
  out : list (sid * list A)        (* ghost: data callbacks (connection, datagram payload), in order *)
}.

Fixpoint lookup (k : list byte) (t : list (list byte * sid)) : option sid :=
  match t with
  | [] => None
  | (k', i) :: t' => if keyeqb k k' then Some i else lookup k t'
  end.

Fixpoint remove_key (k : list byte) (t : list (list byte * sid)) : list (list byte * sid) :=
  match t with
  | [] => []
  | (k', i) :: t' => if keyeqb k k' then remove_key k t' else (k', i) :: remove_key k t'
  end.

Inductive uop :=
| Recv (from : sockaddr) (d : list A)    (* one datagram read from the listener's socket *)
| CloseSess (from : sockaddr).           (* the session of this remote is closed (Close, read timeout) *)

(* readUDP with a read buffer of buflen bytes *)
Definition ustep (buflen : nat) (s : ust) (op : uop) : ust :=
  match op with
  | Recv from d =>
      let k := key from in
      match lookup k (tbl s) with
      | Some i => mku (tbl s) (next s) (opened s) (out s ++ [(i, firstn buflen d)])
      | None => mku ((k, next s) :: tbl s) (S (next s)) (opened s ++ [next s]) (out s ++ [(next s, firstn buflen d)])
      end
  | CloseSess from => mku (remove_key (key from) (tbl s)) (next s) (opened s) (out s)
  end.

Definition uinit : ust := mku [] 0%nat [] [].
Definition urun (buflen : nat) (ops : list uop) : ust := fold_left (ustep buflen) ops uinit.

(* the connection a datagram from this remote would be attributed to now *)
Definition session_of (s : ust) (from : sockaddr) : sid :=
  match lookup (key from) (tbl s) with Some i => i | None => next s end.

Definition closes (from : sockaddr) (op : uop) : bool :=
  match op with CloseSess x => keyeqb (key from) (key x) | Recv _ _ => false end.

Fixpoint payloads (ops : list uop) : list (list A) :=
  match ops with
  | [] => []
  | Recv _ d :: r => d :: payloads r
  | CloseSess _ :: r => payloads r
  end.

End Sessions.

Arguments mku {A}. Arguments tbl {A}. Arguments next {A}. Arguments opened {A}. Arguments out {A}.
Arguments Recv {A}. Arguments CloseSess {A}. Arguments ustep {A}. Arguments uinit {A}. Arguments urun {A}.
Arguments session_of {A}. Arguments closes {A}. Arguments payloads {A}.
