(* The gate as it was before commit 0a74eed (finding D22), for the refutation example in C02.v:
     poller: cnt := add(readEvents, +1); if cnt > 2 { add(readEvents, -1); return }; if cnt > 1 { return }; IOExecute(task)
     task:   loop { read pass; if add(readEvents, -1) = 0 return }
   Only the counter and the number of live tasks are modelled.  No proofs in this file. *)
From Coq Require Import List ZArith Bool.
Import ListNotations.
Open Scope Z_scope.

Record ost := omk {
  oreg : Z;          (* readEvents *)
  olower : bool;     (* the poller has raised the counter above 2 and not yet lowered it again *)
  otasks : nat;      (* live read tasks *)
  omin : Z           (* ghost: the smallest value the counter has had *)
}.

Inductive oaction :=
| OEvent     (* the poller's add(+1) and the decision that follows *)
| OLower     (* the poller's add(-1) after it saw a value above 2 *)
| ODec.      (* a task's add(-1) at the end of a read pass *)

Definition ostep (s : ost) (a : oaction) : ost :=
  match a with
  | OEvent =>
      if olower s then s else
      let c := oreg s + 1 in
      if 2 <? c then omk c true (otasks s) (omin s)
      else if 1 <? c then omk c false (otasks s) (omin s)
      else omk c false (S (otasks s)) (omin s)
  | OLower =>
      if olower s then omk (oreg s - 1) false (otasks s) (Z.min (omin s) (oreg s - 1)) else s
  | ODec =>
      match otasks s with
      | O => s
      | S n => let c := oreg s - 1 in
               omk c (olower s) (if c =? 0 then n else S n) (Z.min (omin s) c)
      end
  end.

Definition oinit : ost := omk 0 false 0 0.
Definition orun (l : list oaction) : ost := fold_left ostep l oinit.
