(* Extraction of the executable gate LTS (trusted base: Extraction, ExtrOcamlBasic, ExtrOcamlNatInt: the counter, buffer
   lengths and payload elements are small naturals). *)
From Coq Require Import Extraction ExtrOcamlBasic ExtrOcamlNatInt.
From ReadPathC Require Import Gate.
Extraction "gatemodel.ml" step init enabled.
