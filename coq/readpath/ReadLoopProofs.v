(* Invariants of the read-loop LTS (ReadLoop.v), for every configuration and every action sequence. *)
From Coq Require Import List Arith Lia Bool.
Import ListNotations.
Require Import ReadLoop.

Section P.
Variable A : Type.
Variable c : cfg.
Notation st := (st A).
Notation action := (action A).
Notation step := (step c).
Notation run := (run c).

Definition Acc (s : st) : Prop := delivered s ++ avail s = sent s.

Definition in_hup (p : phase) : bool := match p with Loop _ true | Drain => true | _ => false end.
Definition is_idle (p : phase) : bool := match p with Idle => true | _ => false end.
Definition pending (s : st) : bool := nonempty (avail s) || eofsent s.

Record Ctl (s : st) : Prop := {
  c_hup : in_hup (ph s) = true -> eofsent s = true;
  c_closed : closed s = true -> ph s = Idle /\ avail s = [] /\ eofsent s = true;
  (* ET: whatever is pending while the poller sleeps has its edge; an end of stream that came during the loop too *)
  c_et_idle : md c = ET -> ph s = Idle -> closed s = false -> pending s = true -> edge s = true;
  c_et_loop : md c = ET -> (exists i, ph s = Loop i false) -> eofsent s = true -> edge s = true;
  (* ONESHOT: armed while the poller sleeps; re-arming queues what is pending *)
  c_os_idle : md c = OS -> rearms c = true -> ph s = Idle -> closed s = false ->
              armed s = true /\ (pending s = true -> edge s = true)
}.

Lemma short_read_drains (n : nat) (l : list A) : length (firstn n l) < n -> skipn n l = [].
Proof. intros H. rewrite firstn_length in H. apply skipn_all2. lia. Qed.

Lemma nonempty_app (l : list A) x d : nonempty (l ++ x :: d) = true.
Proof. destruct l; reflexivity. Qed.

Lemma nonempty_false (l : list A) : nonempty l = false -> l = [].
Proof. destruct l; [reflexivity|discriminate]. Qed.

Ltac fields := cbn [ph avail edge armed eofsent closed sent delivered].

Lemma step_acc s a : Acc s -> Acc (step s a).
Proof.
  unfold Acc. intros H. destruct a as [x d| | | | | |]; cbn [ReadLoop.step].
  - destruct (eofsent s); [exact H|]. fields. rewrite app_assoc, H. reflexivity.
  - destruct (eofsent s); exact H.
  - destruct (md c); try exact H. destruct (closed s); exact H.
  - destruct (ph s); try exact H. destruct (deliverable c s); exact H.
  - destruct (ph s); try exact H. fields. rewrite <- app_assoc, firstn_skipn. exact H.
  - destruct (ph s); try exact H. destruct (avail s) eqn:Ea; fields.
    + rewrite app_nil_r in *. exact H.
    + rewrite <- app_assoc, firstn_skipn. exact H.
  - destruct (ph s); exact H.
Qed.

Ltac fin :=
  intros;
  repeat match goal with
  | H : _ /\ _ |- _ => destruct H
  | H : exists _, _ |- _ => destruct H
  | H : ?x = ?x -> _ |- _ => specialize (H eq_refl)
  | H : ?P -> _, H' : ?P |- _ => specialize (H H')
  end;
  try discriminate; try contradiction; try congruence; auto;
  try (repeat split; try discriminate; try congruence; auto).

Lemma ctl_arrive s x d : Ctl s -> Ctl (step s (Arrive x d)).
Proof.
  intros HC. cbn [ReadLoop.step]. destruct (eofsent s) eqn:Ee; [exact HC|].
  destruct HC. constructor; fields; try solve [fin].
  - intros Hm _ _ _. unfold raise. rewrite Hm. reflexivity.
  - intros Hm Hr Hp Hc. destruct (c_os_idle0 Hm Hr Hp Hc) as [Har _]. split; [exact Har|].
    intros _. unfold raise. rewrite Hm, Har. reflexivity.
Qed.

Lemma ctl_peereof s : Ctl s -> Ctl (step s PeerEOF).
Proof.
  intros HC. cbn [ReadLoop.step]. destruct (eofsent s) eqn:Ee; [exact HC|].
  destruct HC. constructor; fields; try solve [fin].
  - intros Hm _ _ _. unfold raise. rewrite Hm. reflexivity.
  - intros Hm _ _. unfold raise. rewrite Hm. reflexivity.
  - intros Hm Hr Hp Hc. destruct (c_os_idle0 Hm Hr Hp Hc) as [Har _]. split; [exact Har|].
    intros _. unfold raise. rewrite Hm, Har. reflexivity.
Qed.

Lemma ctl_mod s : Ctl s -> Ctl (step s Mod).
Proof.
  intros HC. cbn [ReadLoop.step]. destruct (md c) eqn:Em; try exact HC. destruct (closed s) eqn:Ec; [exact HC|].
  destruct HC. constructor; fields; try solve [fin].
  intros _ Hr Hp _. split; [reflexivity|]. intros Hpe. unfold pending in Hpe; fields.
  destruct (edge s); [reflexivity|]. cbn. exact Hpe.
Qed.

Lemma ctl_wake s : Ctl s -> Ctl (step s Wake).
Proof.
  intros HC. cbn [ReadLoop.step]. destruct (ph s) eqn:Ep; try exact HC.
  destruct (deliverable c s) eqn:Ed; [|exact HC].
  unfold deliverable in Ed. apply andb_true_iff in Ed as [Ec Ed]. apply negb_true_iff in Ec.
  destruct HC. constructor; fields; try solve [fin].
  destruct (eofsent s); fin.
Qed.

Lemma ctl_read s : Ctl s -> Ctl (step s Read).
Proof.
  intros HC. cbn [ReadLoop.step]. destruct (ph s) as [|i hup| |] eqn:Ep; try exact HC.
  assert (Hc : closed s = false).
  { destruct (closed s) eqn:E; [|reflexivity]. destruct (c_closed s HC E) as (H&_). congruence. }
  set (chunk := firstn (S (bufm1 c)) (avail s)).
  destruct (length chunk <? S (bufm1 c)) eqn:Es.
  - (* short read: the buffer is drained, the loop ends *)
    apply Nat.ltb_lt in Es. pose proof (short_read_drains _ _ Es) as Hd. cbn [orb].
    unfold after_loop. destruct hup.
    + destruct HC. constructor; fields; rewrite ?Ep in *; try solve [fin].
    + destruct (md c) eqn:Em.
      * destruct HC. constructor; fields; rewrite ?Ep in *; try solve [fin].
      * destruct HC. constructor; fields; rewrite ?Ep in *; try solve [fin].
        intros _ _ _ Hp. unfold pending in Hp; fields. rewrite Hd in Hp. cbn in Hp.
        apply c_et_loop0; auto. exists i; reflexivity.
      * destruct (rearms c) eqn:Er; destruct HC; constructor; fields; rewrite ?Ep in *; try solve [fin].
  - cbn [orb]. destruct (match md c with LT => maxm1 c <=? i | _ => false end) eqn:El.
    + (* the read limit (LT only) *)
      destruct (md c) eqn:Em; try discriminate. unfold after_loop. rewrite Em.
      destruct hup; destruct HC; constructor; fields; rewrite ?Ep in *; try solve [fin].
    + destruct HC; constructor; fields; rewrite ?Ep in *; try solve [fin].
      intros Hm [j Hj] He. injection Hj as _ Hx. subst hup. apply c_et_loop0; auto. exists i; reflexivity.
Qed.

Lemma ctl_drain s : Ctl s -> Ctl (step s DrainRead).
Proof.
  intros HC. cbn [ReadLoop.step]. destruct (ph s) eqn:Ep; try exact HC.
  assert (He : eofsent s = true) by (apply (c_hup s HC); rewrite Ep; reflexivity).
  destruct (avail s) eqn:Ea; destruct HC; constructor; fields; rewrite ?Ep in *; try solve [fin].
Qed.

Lemma ctl_rearm s : Ctl s -> Ctl (step s DoRearm).
Proof.
  intros HC. cbn [ReadLoop.step]. destruct (ph s) eqn:Ep; try exact HC.
  assert (Hc : closed s = false).
  { destruct (closed s) eqn:E; [|reflexivity]. destruct (c_closed s HC E) as (H&_). congruence. }
  destruct HC. constructor; fields; rewrite ?Ep in *; try solve [fin].
Qed.

Lemma step_ctl s a : Ctl s -> Ctl (step s a).
Proof.
  destruct a; [apply ctl_arrive | apply ctl_peereof | apply ctl_mod | apply ctl_wake | apply ctl_read | apply ctl_drain | apply ctl_rearm].
Qed.

Lemma init_acc : Acc (@init A). Proof. reflexivity. Qed.
Lemma init_ctl : Ctl (@init A).
Proof. constructor; cbn; fin. Qed.

Lemma run_inv (l : list action) : Acc (run l) /\ Ctl (run l).
Proof.
  unfold ReadLoop.run. generalize init_acc init_ctl. generalize (@init A).
  induction l as [|a l IH]; intros s Ha Hc; cbn; [split; assumption|].
  apply IH; [apply step_acc | apply step_ctl]; assumption.
Qed.

(* ---- consequences ---- *)
Lemma prefix (l : list action) : exists rest, sent (run l) = delivered (run l) ++ rest.
Proof. destruct (run_inv l) as [Ha _]. exists (avail (run l)). symmetry. exact Ha. Qed.

(* no lost edge: while the poller sleeps, whatever is pending (unread data, an unprocessed end of stream) has a
   deliverable event - in each of the three epoll disciplines *)
Lemma no_lost_edge (l : list action) : (md c = OS -> rearms c = true) ->
  ph (run l) = Idle -> closed (run l) = false -> pending (run l) = true -> deliverable c (run l) = true.
Proof.
  intros Hos Hp Hc Hpe. destruct (run_inv l) as [_ HC]. unfold deliverable. rewrite Hc. cbn [negb andb].
  destruct (md c) eqn:Em.
  - exact Hpe.
  - apply (c_et_idle _ HC); auto.
  - destruct (c_os_idle _ HC Em (Hos eq_refl) Hp Hc) as [Har He]. rewrite Har, (He Hpe). reflexivity.
Qed.

Lemma quiescent_nothing_pending (l : list action) : (md c = OS -> rearms c = true) ->
  quiescent c (run l) -> closed (run l) = true \/ pending (run l) = false.
Proof.
  intros Hos [Hp Hd]. destruct (closed (run l)) eqn:Ec; [left; reflexivity|right].
  destruct (pending (run l)) eqn:Epe; [|reflexivity].
  rewrite (no_lost_edge l Hos Hp Ec Epe) in Hd. discriminate.
Qed.

Lemma complete (l : list action) : (md c = OS -> rearms c = true) ->
  quiescent c (run l) -> delivered (run l) = sent (run l).
Proof.
  intros Hos Hq. destruct (run_inv l) as [Ha HC]. unfold Acc in Ha.
  assert (Hav : avail (run l) = []).
  { destruct (quiescent_nothing_pending l Hos Hq) as [Hc|Hp].
    - destruct (c_closed _ HC Hc) as (_&H&_). exact H.
    - unfold pending in Hp. apply orb_false_iff in Hp as [Hp _]. apply nonempty_false. exact Hp. }
  rewrite Hav, app_nil_r in Ha. exact Ha.
Qed.

Lemma eof_closes (l : list action) : (md c = OS -> rearms c = true) ->
  quiescent c (run l) -> eofsent (run l) = true -> closed (run l) = true.
Proof.
  intros Hos Hq He. destruct (quiescent_nothing_pending l Hos Hq) as [Hc|Hp]; [exact Hc|].
  unfold pending in Hp. rewrite He, orb_true_r in Hp. discriminate.
Qed.

Lemma closed_complete (l : list action) : closed (run l) = true -> delivered (run l) = sent (run l) /\ eofsent (run l) = true.
Proof.
  intros Hc. destruct (run_inv l) as [Ha HC]. destruct (c_closed _ HC Hc) as (_&Hav&He).
  unfold Acc in Ha. rewrite Hav, app_nil_r in Ha. split; assumption.
Qed.

(* ---- nobody spins ---- *)
Definition tok (s : st) : nat :=
  match md c with LT => 0 | ET => if edge s then 1 else 0 | OS => if armed s && edge s then 1 else 0 end.

Definition weight (s : st) : nat :=
  match ph s with
  | Idle => match md c with LT => if deliverable c s then 4 else 0 | _ => 0 end
  | Loop _ true => 3
  | Loop _ false => 3 + (if eofsent s then 6 else 0)
  | Drain => 1
  | Rearm => 1 + (if nonempty (avail s) || eofsent s then 6 else 0)
  end.

Definition measure (s : st) : nat := 8 * length (avail s) + 6 * tok s + weight s.

Definition is_input (a : action) : bool := match a with Arrive _ _ | PeerEOF | Mod => true | _ => false end.

Lemma step_decreases s a : is_input a = false -> enabled c s a = true -> measure (step s a) < measure s.
Proof.
  intros Ha He. destruct a as [x d| | | | | |]; try discriminate; cbn [enabled] in He; cbn [ReadLoop.step].
  - (* Wake *)
    destruct (ph s) eqn:Ep; try discriminate. rewrite He.
    unfold measure, tok, weight, deliverable in *; fields. rewrite Ep.
    destruct (md c) eqn:Em.
    + rewrite He. destruct (eofsent s); lia.
    + apply andb_true_iff in He as [_ He]. rewrite He. destruct (eofsent s); lia.
    + apply andb_true_iff in He as [_ He]. rewrite He. cbn [andb]. destruct (eofsent s); lia.
  - (* Read *)
    destruct (ph s) as [|i hup| |] eqn:Ep; try discriminate.
    set (chunk := firstn (S (bufm1 c)) (avail s)).
    assert (Hlen : length (skipn (S (bufm1 c)) (avail s)) = length (avail s) - S (bufm1 c)) by apply skipn_length.
    destruct (length chunk <? S (bufm1 c)) eqn:Es.
    + apply Nat.ltb_lt in Es. pose proof (short_read_drains _ _ Es) as Hd. cbn [orb].
      unfold measure, tok, weight, deliverable, after_loop; fields. rewrite Ep, Hd. cbn [length nonempty orb].
      destruct hup; [destruct (md c), (edge s), (armed s); cbn; lia|].
      destruct (md c) eqn:Em.
      * destruct (closed s), (eofsent s); cbn; lia.
      * destruct (edge s), (eofsent s); lia.
      * destruct (rearms c), (armed s), (edge s), (eofsent s); cbn; lia.
    + apply Nat.ltb_ge in Es. unfold chunk in Es. rewrite firstn_length in Es.
      assert (Hge : S (bufm1 c) <= length (avail s)) by lia. cbn [orb].
      destruct (match md c with LT => maxm1 c <=? i | _ => false end) eqn:El.
      * destruct (md c) eqn:Em; try discriminate.
        unfold measure, tok, weight, deliverable, after_loop; fields. rewrite Ep, Em, Hlen.
        destruct hup; [lia|].
        destruct (negb (closed s) && (nonempty (skipn (S (bufm1 c)) (avail s)) || eofsent s)); destruct (eofsent s); lia.
      * unfold measure, tok, weight; fields. rewrite Ep, Hlen.
        destruct hup; destruct (md c), (edge s), (armed s), (eofsent s); cbn; lia.
  - (* DrainRead *)
    destruct (ph s) eqn:Ep; try discriminate.
    destruct (avail s) eqn:Ea; unfold measure, tok, weight, deliverable; fields; rewrite ?Ep, ?Ea.
    + cbn [negb andb length]. destruct (md c), (edge s), (armed s); cbn; lia.
    + rewrite skipn_length. cbn [length]. destruct (md c), (edge s), (armed s); cbn; lia.
  - (* DoRearm *)
    destruct (ph s) eqn:Ep; try discriminate.
    unfold measure, tok, weight, deliverable; fields. rewrite Ep.
    destruct (md c), (nonempty (avail s) || eofsent s), (closed s), (edge s), (armed s); cbn; lia.
Qed.

Fixpoint steps_taken (s : st) (l : list action) : nat :=
  match l with
  | [] => 0
  | a :: l' => (if enabled c s a then 1 else 0) + steps_taken (step s a) l'
  end.

Lemma disabled_noop (s : st) (a : action) : enabled c s a = false -> step s a = s.
Proof.
  destruct a as [x d| | | | | |]; cbn [enabled ReadLoop.step]; intros H.
  - apply negb_false_iff in H. rewrite H. reflexivity.
  - apply negb_false_iff in H. rewrite H. reflexivity.
  - destruct (md c); try reflexivity. apply negb_false_iff in H. rewrite H. reflexivity.
  - destruct (ph s); try reflexivity. rewrite H. reflexivity.
  - destruct (ph s); try discriminate; reflexivity.
  - destruct (ph s); try discriminate; reflexivity.
  - destruct (ph s); try discriminate; reflexivity.
Qed.

Lemma bounded_work : forall (l : list action) (s : st), forallb (fun a => negb (is_input a)) l = true ->
  steps_taken s l + measure (fold_left step l s) <= measure s.
Proof.
  induction l as [|a l IH]; intros s Hl; cbn [steps_taken fold_left]; [lia|].
  cbn [forallb] in Hl. apply andb_true_iff in Hl as [Ha Hl]. apply negb_true_iff in Ha.
  specialize (IH (step s a) Hl).
  destruct (enabled c s a) eqn:E.
  - pose proof (step_decreases s a Ha E). lia.
  - rewrite (disabled_noop s a E) in *. lia.
Qed.

End P.
