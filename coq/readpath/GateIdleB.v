(* Termination measure of the gate LTS: every enabled step that is not an input lowers the measure (part). *)
From Coq Require Import List Arith Lia Bool.
Import ListNotations.
Require Import Gate GateProofs GateMeasure.
Ltac fields := cbn [r task held spawning rearm avail edge armed eofsent eofflag closed sent delivered ntasks upd_kernel].
Ltac boolprop :=
  repeat match goal with
  | H : (_ <=? _) = true |- _ => apply Nat.leb_le in H
  | H : (_ <=? _) = false |- _ => apply Nat.leb_gt in H
  | H : (_ <? _) = true |- _ => apply Nat.ltb_lt in H
  | H : (_ <? _) = false |- _ => apply Nat.ltb_ge in H
  | H : (_ =? _) = true |- _ => apply Nat.eqb_eq in H
  | H : (_ =? _) = false |- _ => apply Nat.eqb_neq in H
  end.

Section P.
Variable A : Type.
Variable oneshot : bool.
Notation st := (st A).
Notation action := (action A).
Notation step := (@step A oneshot).
Notation enabled := (@enabled A oneshot).
Notation Ctl := (Ctl A oneshot).
Notation measure := (@measure A).

Lemma dec_read s buf : Ctl s -> enabled s (TaskRead buf) = true -> measure (step s (TaskRead buf)) < measure s.
Proof.
  intros HC He. cbn [Gate.enabled] in He; cbn [Gate.step].
    destruct (task s) as [[]|] eqn:Et; try discriminate.
    assert (Hx : task s <> None) by (rewrite Et; discriminate).
    pose proof (spawning_no_task A oneshot s HC Hx) as Hsf.
    unfold measure; fields. rewrite Et, Hsf, skipn_length.
    destruct (length (firstn (S buf) (avail s)) <? S buf) eqn:El; boolprop.
    + rewrite (short_read_drains A _ _ El). cbn [nonempty b2n length].
      destruct (edge s), (held s), (rearm s), (eofsent s), (eofflag s), (closed s), (nonempty (avail s)); cbn [andb negb orb b2n]; lia.
    + rewrite firstn_length in El.
      assert (Hp : nonempty (avail s) = true) by (destruct (avail s); [cbn in El; lia|reflexivity]).
      rewrite Hp.
      destruct (edge s), (held s), (rearm s), (eofsent s), (eofflag s), (closed s), (nonempty (skipn (S buf) (avail s))); cbn [andb negb orb b2n]; lia.
Qed.

Lemma dec_dec s : Ctl s -> enabled s TaskDec = true -> measure (step s TaskDec) < measure s.
Proof.
  intros HC He. cbn [Gate.enabled] in He; cbn [Gate.step].
    destruct (task s) as [[]|] eqn:Et; try discriminate.
    assert (Hx : task s <> None) by (rewrite Et; discriminate). destruct (c_task A oneshot s HC Hx) as [Hr Hc].
    pose proof (spawning_no_task A oneshot s HC Hx) as Hsf.
    destruct (r s =? 1) eqn:E1; boolprop; unfold measure; fields; rewrite Et, Hsf, Hc.
    + rewrite E1. destruct oneshot, (edge s), (held s), (rearm s), (eofsent s), (eofflag s), (nonempty (avail s)); cbn [andb negb orb b2n]; lia.
    + destruct (edge s), (held s), (rearm s), (eofsent s), (eofflag s), (nonempty (avail s)); cbn [andb negb orb b2n]; lia.
Qed.

Lemma dec_drain s buf : Ctl s -> enabled s (TaskDrain buf) = true -> measure (step s (TaskDrain buf)) < measure s.
Proof.
  intros HC He. cbn [Gate.enabled] in He; cbn [Gate.step].
    destruct (task s) as [[]|] eqn:Et; try discriminate.
    assert (Hx : task s <> None) by (rewrite Et; discriminate). destruct (c_task A oneshot s HC Hx) as [Hr Hc].
    pose proof (spawning_no_task A oneshot s HC Hx) as Hsf.
    destruct (avail s) eqn:Ea; unfold measure; fields; rewrite ?Et, ?Ea, ?Hsf, ?Hc.
    + cbn [nonempty length b2n]. destruct (edge s), (held s), (rearm s), (eofsent s), (eofflag s); cbn [andb negb orb b2n]; lia.
    + rewrite skipn_length. cbn [nonempty length b2n].
      destruct (edge s), (held s), (rearm s), (eofsent s), (eofflag s), (nonempty (skipn (S buf) (a :: l))); cbn [andb negb orb b2n]; lia.
Qed.

Lemma dec_rearm s : Ctl s -> enabled s TaskRearm = true -> measure (step s TaskRearm) < measure s.
Proof.
  intros HC He. cbn [Gate.enabled] in He; cbn [Gate.step].
    rewrite He. apply Nat.ltb_lt in He. destruct (rearm s) as [|k] eqn:Ek; [lia|]. cbn [pred].
    destruct (closed s) eqn:Ec; unfold measure, readable; fields; rewrite ?Ek, ?Ec.
    + destruct (edge s), (held s), (spawning s), (eofsent s), (eofflag s), (nonempty (avail s)), (task s) as [[]|]; cbn [andb negb orb b2n]; lia.
    + pose proof (c_flag A oneshot s HC) as Hfl.
      destruct (edge s), (held s), (spawning s), (eofsent s), (eofflag s), (nonempty (avail s)), (task s) as [[]|]; cbn [andb negb orb b2n] in *;
        try lia; try (specialize (Hfl eq_refl); discriminate).
Qed.

End P.
