(* Invariants of the gate LTS (Gate.v), for every action sequence. *)
From Coq Require Import List Arith Lia Bool.
Import ListNotations.
Require Import Gate.

Section P.
Variable A : Type.
Notation st := (st A).
Notation action := (action A).

(* accounting: nothing is lost, duplicated or reordered between the socket and the callback *)
Definition Acc (s : st) : Prop := delivered s ++ avail s = sent s.

(* somebody is going to read the socket again *)
Definition will_read (s : st) : bool :=
  edge s || spawning s ||
  match task s with
  | Some TReading | Some TDraining => true
  | Some TAtCheck => eofflag s || (r s =? 2)
  | Some TAtDec => r s =? 2
  | None => false
  end.

(* somebody is going to load readEOF again *)
Definition will_check (s : st) : bool :=
  edge s || spawning s ||
  match task s with
  | Some TReading | Some TAtCheck | Some TDraining => true
  | Some TAtDec => r s =? 2
  | None => false
  end.

Record Ctl (s : st) : Prop := {
  c_idle : closed s = false -> task s = None -> spawning s = false -> r s = 0;
  c_spawn : spawning s = true -> task s = None /\ r s = 1 /\ closed s = false;
  c_task : task s <> None -> 1 <= r s /\ closed s = false;
  c_range : r s <= 2;
  c_ntasks : ntasks s = match task s with Some _ => 1 | None => 0 end;
  c_data : closed s = false -> avail s <> [] -> will_read s = true;      (* no lost edge *)
  c_eof : closed s = false -> eofflag s = true -> will_check s = true;   (* no lost end of stream *)
  c_flag : eofflag s = true -> eofsent s = true;
  c_drain : task s = Some TDraining -> eofflag s = true;
  c_closed : closed s = true -> 1 <= r s /\ task s = None /\ spawning s = false /\ avail s = [] /\ eofsent s = true
}.

Lemma short_read_drains (n : nat) (l : list A) : length (firstn n l) < n -> skipn n l = [].
Proof.
  intros H. rewrite firstn_length in H. apply skipn_all2. lia.
Qed.

Lemma step_acc s a : Acc s -> Acc (step s a).
Proof.
  unfold Acc. intros H. destruct a as [x d| | | | |buf| | |buf]; cbn [step].
  - destruct (eofsent s); [exact H|]. cbn [delivered avail sent]. rewrite app_assoc, H. reflexivity.
  - destruct (eofsent s); exact H.
  - destruct (edge s && negb (spawning s)); [destruct (2 <=? r s)|]; exact H.
  - destruct (spawning s); exact H.
  - destruct (eofsent s && negb (eofflag s) && negb (spawning s)); exact H.
  - destruct (task s) as [[]|]; cbn [delivered avail sent]; try exact H.
    rewrite <- app_assoc, firstn_skipn. exact H.
  - destruct (task s) as [[]|]; exact H.
  - destruct (task s) as [[]|]; try exact H. destruct (r s =? 1); exact H.
  - destruct (task s) as [[]|]; try exact H. destruct (avail s) eqn:Ea; cbn [delivered avail sent].
    + rewrite app_nil_r in *. exact H.
    + rewrite <- app_assoc, firstn_skipn. exact H.
Qed.

Ltac boolprop :=
  repeat match goal with
  | H : (_ <=? _) = true |- _ => apply Nat.leb_le in H
  | H : (_ <=? _) = false |- _ => apply Nat.leb_gt in H
  | H : (_ <? _) = true |- _ => apply Nat.ltb_lt in H
  | H : (_ <? _) = false |- _ => apply Nat.ltb_ge in H
  | H : (_ =? _) = true |- _ => apply Nat.eqb_eq in H
  | H : (_ =? _) = false |- _ => apply Nat.eqb_neq in H
  end.

Lemma app_cons_not_nil (l : list A) x d : l ++ x :: d <> [].
Proof. destruct l; discriminate. Qed.

(* a finishing tactic for the simple clauses *)
Ltac fin :=
  intros;
  repeat match goal with
  | H : _ /\ _ |- _ => destruct H
  | H : ?x = ?x -> _ |- _ => specialize (H eq_refl)
  | H : Some _ <> None -> _ |- _ => specialize (H ltac:(discriminate))
  | H : ?P -> _, H' : ?P |- _ => specialize (H H')
  end;
  try discriminate; try contradiction; try congruence; try lia; auto;
  try (repeat split; try discriminate; try congruence; try lia; auto);
  try (unfold will_read, will_check; cbn [r task spawning avail edge eofsent eofflag closed sent delivered ntasks set_task];
       repeat rewrite orb_true_r; reflexivity).

Ltac fields := cbn [r task spawning avail edge eofsent eofflag closed sent delivered ntasks set_task].

Lemma spawning_no_task s : Ctl s -> task s <> None -> spawning s = false.
Proof.
  intros HC Ht. destruct (spawning s) eqn:E; [|reflexivity]. destruct (c_spawn s HC E) as [H _]. contradiction.
Qed.

Lemma ctl_arrive s x d : Ctl s -> Ctl (step s (Arrive x d)).
Proof.
  intros HC. cbn [step]. destruct (eofsent s) eqn:Ee; [exact HC|].
  destruct HC. constructor; fields; try solve [fin].
Qed.

Lemma ctl_peereof s : Ctl s -> Ctl (step s PeerEOF).
Proof.
  intros HC. cbn [step]. destruct (eofsent s) eqn:Ee; [exact HC|].
  destruct HC. constructor; fields; try solve [fin].
Qed.

Lemma ctl_gate s : Ctl s -> Ctl (step s PollGate).
Proof.
  intros HC. cbn [step]. destruct (edge s && negb (spawning s)) eqn:E; [|exact HC].
  apply andb_true_iff in E as [Eed Esf]. apply negb_true_iff in Esf.
  destruct (2 <=? r s) eqn:E2; boolprop.
  - (* counter already 2: the event is dropped; either the connection is closed or a task is alive and owes one more pass *)
    assert (Hr2 : r s = 2) by (pose proof (c_range s HC); lia).
    destruct (closed s) eqn:Ec.
    + destruct (c_closed s HC Ec) as (Hr & Hta & _ & Hav & Hes).
      destruct HC. constructor; fields; rewrite ?Ec, ?Hta in *; fin.
    + assert (Hta : task s <> None).
      { intros Hnone. pose proof (c_idle s HC Ec Hnone Esf). lia. }
      destruct HC. constructor; fields; rewrite ?Ec in *; try solve [fin].
      * intros _ _. unfold will_read; fields. rewrite Hr2. destruct (task s) as [[]|]; try reflexivity; try contradiction. cbn. apply orb_true_r.
      * intros _ _. unfold will_check; fields. rewrite Hr2. destruct (task s) as [[]|]; try reflexivity; contradiction.
  - destruct (closed s) eqn:Ec.
    + (* closed: the counter only moves from 1 to 2 *)
      destruct (c_closed s HC Ec) as (Hr & Hta & _ & Hav & Hes).
      assert (Hr1 : r s = 1) by lia. rewrite Hr1; cbn [Nat.eqb].
      destruct HC. constructor; fields; rewrite ?Ec, ?Hta in *; fin.
    + destruct (r s) as [|[|n]] eqn:Er; [| |lia]; cbn [Nat.eqb].
      * (* 0 -> 1: the poller will spawn *)
        assert (Hta : task s = None).
        { destruct (task s) eqn:Et; [|reflexivity]. assert (Hx : task s <> None) by (rewrite Et; discriminate).
          destruct (c_task s HC Hx). lia. }
        destruct HC. constructor; fields; rewrite ?Ec, ?Hta in *; try solve [fin].
      * (* 1 -> 2: a task is alive, it will make another pass *)
        assert (Hta : task s <> None).
        { intros Hnone. pose proof (c_idle s HC Ec Hnone Esf). lia. }
        destruct HC. constructor; fields; rewrite ?Ec in *; try solve [fin].
        -- intros _ _. unfold will_read; fields. destruct (task s) as [[]|]; try reflexivity; try contradiction. cbn. apply orb_true_r.
        -- intros _ _. unfold will_check; fields. destruct (task s) as [[]|]; try reflexivity; contradiction.
Qed.

Lemma ctl_spawn s : Ctl s -> Ctl (step s PollSpawn).
Proof.
  intros HC. cbn [step]. destruct (spawning s) eqn:E; [|exact HC].
  destruct (c_spawn s HC E) as (Hta & Hr & Hc).
  destruct HC. constructor; fields; rewrite ?Hc, ?Hta in *; try solve [fin].
Qed.

Lemma ctl_markeof s : Ctl s -> Ctl (step s PollMarkEOF).
Proof.
  intros HC. cbn [step]. destruct (eofsent s && negb (eofflag s) && negb (spawning s)) eqn:E; [|exact HC].
  apply andb_true_iff in E as [E Esf]. apply andb_true_iff in E as [Ees Eef].
  apply negb_true_iff in Esf. apply negb_true_iff in Eef.
  destruct HC. constructor; fields; try solve [fin].
Qed.

Lemma ctl_read s buf : Ctl s -> Ctl (step s (TaskRead buf)).
Proof.
  intros HC. cbn [step]. destruct (task s) as [[]|] eqn:Et; try exact HC.
  assert (Hx : task s <> None) by (rewrite Et; discriminate).
  destruct (c_task s HC Hx) as [Hr Hc]. pose proof (spawning_no_task s HC Hx) as Hsf.
  destruct (length (firstn (S buf) (avail s)) <? S buf) eqn:El; boolprop;
    destruct HC; constructor; fields; rewrite ?Hc, ?Hsf, ?Et in *; try solve [fin].
  - intros _ Hav. exfalso. apply Hav. apply short_read_drains. exact El.
Qed.

Lemma ctl_check s : Ctl s -> Ctl (step s TaskCheck).
Proof.
  intros HC. cbn [step]. destruct (task s) as [[]|] eqn:Et; try exact HC.
  assert (Hx : task s <> None) by (rewrite Et; discriminate).
  destruct (c_task s HC Hx) as [Hr Hc]. pose proof (spawning_no_task s HC Hx) as Hsf.
  destruct (eofflag s) eqn:Ef; destruct HC; constructor; fields; rewrite ?Hc, ?Hsf, ?Et, ?Ef in *; try solve [fin].
  - intros _ Hav. specialize (c_data0 eq_refl Hav). unfold will_read in *; fields. rewrite ?Et, ?Ef, ?Hsf in c_data0. rewrite ?Hsf. cbn in c_data0. exact c_data0.
Qed.

Lemma ctl_dec s : Ctl s -> Ctl (step s TaskDec).
Proof.
  intros HC. cbn [step]. destruct (task s) as [[]|] eqn:Et; try exact HC.
  assert (Hx : task s <> None) by (rewrite Et; discriminate).
  destruct (c_task s HC Hx) as [Hr Hc]. pose proof (spawning_no_task s HC Hx) as Hsf. pose proof (c_range s HC) as Hr2.
  destruct (r s =? 1) eqn:E1; boolprop; destruct HC; constructor; fields; rewrite ?Hc, ?Hsf, ?Et in *; try solve [fin].
  - (* the task ends: unread data must have an edge *)
    intros _ Hav. specialize (c_data0 eq_refl Hav). destruct (edge s) eqn:Ee; [fin|].
    exfalso. unfold will_read in c_data0. rewrite Ee, Hsf, Et, E1 in c_data0. discriminate.
  - intros _ Hf. specialize (c_eof0 eq_refl Hf). destruct (edge s) eqn:Ee; [fin|].
    exfalso. unfold will_check in c_eof0. rewrite Ee, Hsf, Et, E1 in c_eof0. discriminate.
Qed.

Lemma ctl_drain s buf : Ctl s -> Ctl (step s (TaskDrain buf)).
Proof.
  intros HC. cbn [step]. destruct (task s) as [[]|] eqn:Et; try exact HC.
  assert (Hx : task s <> None) by (rewrite Et; discriminate).
  destruct (c_task s HC Hx) as [Hr Hc]. pose proof (spawning_no_task s HC Hx) as Hsf.
  pose proof (c_drain s HC Et) as Hf. pose proof (c_flag s HC Hf) as Hes.
  destruct (avail s) eqn:Ea; destruct HC; constructor; fields; rewrite ?Hc, ?Hsf, ?Et in *; try solve [fin].
Qed.

Lemma step_ctl s a : Ctl s -> Ctl (step s a).
Proof.
  destruct a; [apply ctl_arrive | apply ctl_peereof | apply ctl_gate | apply ctl_spawn | apply ctl_markeof
              | apply ctl_read | apply ctl_check | apply ctl_dec | apply ctl_drain].
Qed.

Lemma init_acc : Acc (@init A). Proof. reflexivity. Qed.
Lemma init_ctl : Ctl (@init A).
Proof. constructor; cbn; fin. Qed.

Lemma run_inv (l : list action) : Acc (run l) /\ Ctl (run l).
Proof.
  unfold run. generalize init_acc init_ctl. generalize (@init A).
  induction l as [|a l IH]; intros s Ha Hc; cbn; [split; assumption|].
  apply IH; [apply step_acc | apply step_ctl]; assumption.
Qed.

(* ---- consequences ---- *)
Lemma one_reader (l : list action) : ntasks (run l) <= 1.
Proof. destruct (run_inv l) as [_ HC]. rewrite (c_ntasks _ HC). destruct (task _); lia. Qed.

Lemma prefix (l : list action) : exists rest, sent (run l) = delivered (run l) ++ rest.
Proof. destruct (run_inv l) as [Ha _]. exists (avail (run l)). symmetry. exact Ha. Qed.

Lemma no_lost_edge (l : list action) :
  closed (run l) = false -> avail (run l) <> [] -> edge (run l) = true \/ spawning (run l) = true \/ task (run l) <> None.
Proof.
  destruct (run_inv l) as [_ HC]. intros Hc H. pose proof (c_data _ HC Hc H) as W. unfold will_read in W.
  destruct (edge (run l)); [left; reflexivity|]. destruct (spawning (run l)); [right; left; reflexivity|].
  right; right. destruct (task (run l)); [discriminate|discriminate].
Qed.

Lemma complete (l : list action) : quiescent (run l) -> delivered (run l) = sent (run l).
Proof.
  intros (Q1 & Q2 & Q3 & Q4). destruct (run_inv l) as [Ha HC]. unfold Acc in Ha.
  assert (Hav : avail (run l) = []).
  { destruct (closed (run l)) eqn:Ec.
    - destruct (c_closed _ HC Ec) as (_&_&_&H&_). exact H.
    - destruct (avail (run l)) eqn:Ea; [reflexivity|].
      assert (Hne : avail (run l) <> []) by (rewrite Ea; discriminate).
      destruct (no_lost_edge l Ec Hne) as [H|[H|H]]; congruence. }
  rewrite Hav, app_nil_r in Ha. exact Ha.
Qed.

(* the end of the stream is not forgotten: once nobody can act any more, the connection has been closed *)
Lemma eof_closes (l : list action) : quiescent (run l) -> eofsent (run l) = true -> closed (run l) = true.
Proof.
  intros (Q1 & Q2 & Q3 & Q4) He. destruct (run_inv l) as [_ HC].
  destruct (closed (run l)) eqn:Ec; [reflexivity|].
  pose proof (c_eof _ HC Ec (Q4 He)) as W. unfold will_check in W. rewrite Q1, Q2, Q3 in W. discriminate.
Qed.

(* and it is closed only after everything the peer sent has been delivered *)
Lemma closed_complete (l : list action) : closed (run l) = true -> delivered (run l) = sent (run l) /\ eofsent (run l) = true.
Proof.
  intros Hc. destruct (run_inv l) as [Ha HC]. destruct (c_closed _ HC Hc) as (_&_&_&Hav&He).
  unfold Acc in Ha. rewrite Hav, app_nil_r in Ha. split; assumption.
Qed.

Lemma counter_range (l : list action) : r (run l) <= 2.
Proof. destruct (run_inv l) as [_ HC]. exact (c_range _ HC). Qed.

(* while the connection is open the counter is positive exactly while a task is alive or about to be started *)
Lemma counter_tracks_task (l : list action) : closed (run l) = false ->
  (r (run l) = 0 <-> task (run l) = None /\ spawning (run l) = false).
Proof.
  destruct (run_inv l) as [_ HC]. intros Hc. split.
  - intros Hz. split.
    + destruct (task (run l)) eqn:Et; [|reflexivity]. assert (Hx : task (run l) <> None) by (rewrite Et; discriminate).
      destruct (c_task _ HC Hx). lia.
    + destruct (spawning (run l)) eqn:Es; [|reflexivity]. destruct (c_spawn _ HC Es) as (_&H&_). lia.
  - intros [H1 H2]. apply (c_idle _ HC); assumption.
Qed.

(* ---- nobody spins: without new input only finitely many steps are possible ---- *)
Definition measure (s : st) : nat :=
  4 * length (avail s) + (if edge s then 10 else 0) + (if spawning s then 4 else 0) + 4 * r s +
  (if eofflag s then 0 else 11) +
  match task s with Some TReading => 3 | Some TAtCheck => 2 | Some TAtDec => 1 | Some TDraining => 1 | None => 0 end.

Definition is_input (a : action) : bool := match a with Arrive _ _ | PeerEOF => true | _ => false end.

Lemma step_decreases s a : Ctl s -> is_input a = false -> enabled s a = true -> measure (step s a) < measure s.
Proof.
  intros HC Ha He.
  destruct a as [x d| | | | |buf| | |buf]; try discriminate; cbn [enabled] in He; cbn [step].
  - rewrite He. apply andb_true_iff in He as [Eed Esf]. apply negb_true_iff in Esf.
    destruct (2 <=? r s) eqn:E2; boolprop; unfold measure; fields; rewrite Eed, ?Esf.
    + destruct (eofflag s), (task s) as [[]|]; lia.
    + destruct (r s =? 0); destruct (eofflag s), (task s) as [[]|]; lia.
  - rewrite He. destruct (c_spawn s HC He) as (Hta & Hr & _). unfold measure; fields. rewrite He, Hta.
    destruct (edge s), (eofflag s); lia.
  - rewrite He. apply andb_true_iff in He as [E Esf]. apply andb_true_iff in E as [Ees Eef].
    apply negb_true_iff in Eef. unfold measure; fields. rewrite Eef.
    destruct (edge s), (spawning s), (task s) as [[]|]; lia.
  - destruct (task s) as [[]|] eqn:Et; try discriminate. unfold measure; fields; rewrite ?Et.
    rewrite skipn_length.
    destruct (length (firstn (S buf) (avail s)) <? S buf) eqn:El; boolprop.
    + destruct (edge s), (spawning s), (eofflag s); lia.
    + rewrite firstn_length in El. destruct (edge s), (spawning s), (eofflag s); lia.
  - destruct (task s) as [[]|] eqn:Et; try discriminate. unfold measure; fields; rewrite ?Et.
    destruct (edge s), (spawning s), (eofflag s); lia.
  - destruct (task s) as [[]|] eqn:Et; try discriminate.
    assert (Hx : task s <> None) by (rewrite Et; discriminate). destruct (c_task s HC Hx) as [Hr _].
    destruct (r s =? 1) eqn:E1; boolprop; unfold measure; fields; rewrite ?Et; destruct (edge s), (spawning s), (eofflag s); lia.
  - destruct (task s) as [[]|] eqn:Et; try discriminate.
    destruct (avail s) eqn:Ea; unfold measure; fields; rewrite ?Et, ?Ea.
    + destruct (edge s), (spawning s), (eofflag s); cbn [length]; lia.
    + rewrite skipn_length. cbn [length]. destruct (edge s), (spawning s), (eofflag s); lia.
Qed.

Fixpoint steps_taken (s : st) (l : list action) : nat :=
  match l with
  | [] => 0
  | a :: l' => (if enabled s a then 1 else 0) + steps_taken (step s a) l'
  end.

Lemma disabled_noop (s : st) (a : action) : enabled s a = false -> step s a = s.
Proof.
  destruct a as [x d| | | | |buf| | |buf]; cbn [enabled step]; intros H.
  - apply negb_false_iff in H. rewrite H. reflexivity.
  - apply negb_false_iff in H. rewrite H. reflexivity.
  - rewrite H. reflexivity.
  - rewrite H. reflexivity.
  - rewrite H. reflexivity.
  - destruct (task s) as [[]|]; try discriminate; reflexivity.
  - destruct (task s) as [[]|]; try discriminate; reflexivity.
  - destruct (task s) as [[]|]; try discriminate; reflexivity.
  - destruct (task s) as [[]|]; try discriminate; reflexivity.
Qed.

Lemma bounded_work : forall l s, Ctl s -> forallb (fun a => negb (is_input a)) l = true ->
  steps_taken s l + measure (fold_left step l s) <= measure s.
Proof.
  induction l as [|a l IH]; intros s HC Hl; cbn [steps_taken fold_left]; [lia|].
  cbn [forallb] in Hl. apply andb_true_iff in Hl as [Ha Hl]. apply negb_true_iff in Ha.
  specialize (IH (step s a) (step_ctl s a HC) Hl).
  destruct (enabled s a) eqn:E.
  - pose proof (step_decreases s a HC Ha E). lia.
  - rewrite (disabled_noop s a E) in *. lia.
Qed.

End P.
