(* Invariants of the gate LTS (Gate.v), for both epoll disciplines and every action sequence. *)
From Coq Require Import List Arith Lia Bool.
Import ListNotations.
Require Import Gate.

Section P.
Variable A : Type.
Variable oneshot : bool.
Notation st := (st A).
Notation action := (action A).
Notation step := (@step A oneshot).
Notation run := (@run A oneshot).
Notation enabled := (@enabled A oneshot).

(* accounting: nothing is lost, duplicated or reordered between the socket and the callback *)
Definition Acc (s : st) : Prop := delivered s ++ avail s = sent s.

Definition alive (s : st) : bool := match task s with Some _ => true | None => false end.

(* somebody is going to read the socket again (one-shot: a task that ends re-arms, and the re-arm queues what is unread) *)
Definition will_read (s : st) : bool :=
  edge s || held s || spawning s || (0 <? rearm s) ||
  match task s with
  | Some TReading | Some TDraining | Some TClosing => true
  | Some TAtCheck => eofflag s || (r s =? 2) || oneshot
  | Some TAtDec => (r s =? 2) || oneshot
  | None => false
  end.

(* somebody is going to load readEOF again *)
Definition will_check (s : st) : bool :=
  edge s || held s || spawning s || (0 <? rearm s) ||
  match task s with
  | Some TReading | Some TAtCheck | Some TDraining | Some TClosing => true
  | Some TAtDec => (r s =? 2) || oneshot
  | None => false
  end.

Record Ctl (s : st) : Prop := {
  c_idle : closed s = false -> task s = None -> spawning s = false -> r s = 0;
  c_spawn : spawning s = true -> task s = None /\ r s = 1 /\ closed s = false;
  c_task : task s <> None -> 1 <= r s /\ closed s = false;
  c_range : r s <= 2;
  c_ntasks : ntasks s = match task s with Some _ => 1 | None => 0 end;
  c_data : closed s = false -> avail s <> [] -> will_read s = true;      (* no lost edge *)
  c_eof : closed s = false -> eofflag s = true -> will_check s = true;   (* no lost end of stream *)
  (* the shutdown itself is not lost before the poller has marked it *)
  c_hup : closed s = false -> eofsent s = true -> eofflag s = false ->
          edge s || held s || (oneshot && (spawning s || (0 <? rearm s) || alive s)) = true;
  (* one-shot: a disarmed descriptor is somebody's job *)
  c_armed : oneshot = true -> closed s = false -> armed s = false -> held s || spawning s || (0 <? rearm s) || alive s = true;
  c_rearm : 0 < rearm s -> oneshot = true;
  c_flag : eofflag s = true -> eofsent s = true;
  c_drain : task s = Some TDraining -> eofflag s = true;
  c_closing : task s = Some TClosing -> eofflag s = true /\ avail s = [];
  c_closed : closed s = true -> 1 <= r s /\ task s = None /\ spawning s = false /\ avail s = [] /\ eofsent s = true
}.

Lemma short_read_drains (n : nat) (l : list A) : length (firstn n l) < n -> skipn n l = [].
Proof.
  intros H. rewrite firstn_length in H. apply skipn_all2. lia.
Qed.

Ltac fields := cbn [r task held spawning rearm avail edge armed eofsent eofflag closed sent delivered ntasks upd_kernel].

Lemma step_acc s a : Acc s -> Acc (step s a).
Proof.
  unfold Acc. intros H. destruct a as [x d| | | | | | |buf| | |buf| |]; cbn [Gate.step].
  - destruct (eofsent s); [exact H|]. fields. rewrite app_assoc, H. reflexivity.
  - destruct (eofsent s); exact H.
  - destruct (oneshot && negb (closed s)); exact H.
  - destruct (edge s && negb (held s) && negb (spawning s)); exact H.
  - destruct (held s && eofsent s && negb (eofflag s) && negb (spawning s)); exact H.
  - destruct (held s && negb (spawning s) && (negb (eofsent s) || eofflag s)); [destruct (2 <=? r s)|]; exact H.
  - destruct (spawning s); exact H.
  - destruct (task s) as [[]|]; fields; try exact H.
    rewrite <- app_assoc, firstn_skipn. exact H.
  - destruct (task s) as [[]|]; exact H.
  - destruct (task s) as [[]|]; try exact H. destruct (r s =? 1); exact H.
  - destruct (task s) as [[]|]; try exact H. destruct (avail s) eqn:Ea; fields.
    + rewrite app_nil_r in *. exact H.
    + rewrite <- app_assoc, firstn_skipn. exact H.
  - destruct (task s) as [[]|]; exact H.
  - destruct (0 <? rearm s); [destruct (closed s)|]; exact H.
Qed.

Ltac boolprop :=
  repeat match goal with
  | H : (_ <=? _) = true |- _ => apply Nat.leb_le in H
  | H : (_ <=? _) = false |- _ => apply Nat.leb_gt in H
  | H : (_ <? _) = true |- _ => apply Nat.ltb_lt in H
  | H : (_ <? _) = false |- _ => apply Nat.ltb_ge in H
  | H : (_ =? _) = true |- _ => apply Nat.eqb_eq in H
  | H : (_ =? _) = false |- _ => apply Nat.eqb_neq in H
  end.

(* finishing tactic: forward chaining on the hypotheses, then the boolean clauses by computation *)
Ltac fwd :=
  repeat match goal with
  | H : _ /\ _ |- _ => destruct H
  | H : ?x = ?x -> _ |- _ => specialize (H eq_refl)
  | H : Some _ <> None -> _ |- _ => specialize (H ltac:(discriminate))
  | H : ?P -> _, H' : ?P |- _ => specialize (H H')
  end.

Ltac boolfin :=
  unfold will_read, will_check, alive, readable, raise in *; fields;
  repeat match goal with
  | H : ?x = true |- _ => is_var x; subst x
  | H : ?x = false |- _ => is_var x; subst x
  | H : ?f ?s = true |- context[?f ?s] => rewrite H
  | H : ?f ?s = false |- context[?f ?s] => rewrite H
  end;
  cbn [orb andb negb Nat.eqb];
  repeat rewrite orb_true_r; repeat rewrite orb_false_r; repeat rewrite andb_true_r;
  try reflexivity; try assumption.

Ltac fin :=
  intros; fwd;
  try discriminate; try contradiction; try congruence; try lia; auto;
  try (repeat split; try discriminate; try congruence; try lia; auto);
  try solve [boolfin];
  try solve [destruct oneshot; boolfin];
  try solve [unfold alive in *; cbn in *; repeat rewrite orb_true_r in *; repeat rewrite andb_true_r in *;
             repeat rewrite orb_false_r in *; first [assumption | reflexivity]].

Ltac bcases s :=
  destruct (edge s), (held s), (spawning s), (0 <? rearm s), (task s) as [[]|]; cbn in *; repeat rewrite orb_true_r in *;
  try reflexivity; try discriminate; try assumption.

Ltac norm :=
  cbn in *; repeat rewrite orb_false_r in *; repeat rewrite orb_true_r in *;
  repeat rewrite andb_false_r in *; repeat rewrite andb_true_r in *.

Lemma spawning_no_task s : Ctl s -> task s <> None -> spawning s = false.
Proof.
  intros HC Ht. destruct (spawning s) eqn:E; [|reflexivity]. destruct (c_spawn s HC E) as [H _]. contradiction.
Qed.

Lemma idle_has_task s : Ctl s -> closed s = false -> spawning s = false -> 1 <= r s -> task s <> None.
Proof. intros HC Hc Hs Hr Hn. pose proof (c_idle s HC Hc Hn Hs). lia. Qed.

Lemma ctl_arrive s x d : Ctl s -> Ctl (step s (Arrive x d)).
Proof.
  intros HC. cbn [Gate.step]. destruct (eofsent s) eqn:Ee; [exact HC|].
  destruct HC. constructor; fields; try solve [fin].
  - (* data: armed (or ET): the arrival queues the descriptor; disarmed: it is somebody's job *)
    intros Hc _. unfold will_read, raise; fields. destruct oneshot eqn:Eo; [|reflexivity].
    destruct (armed s) eqn:Ea; [reflexivity|]. specialize (c_armed0 eq_refl Hc eq_refl).
    unfold alive in c_armed0. bcases s.
Qed.

Lemma ctl_peereof s : Ctl s -> Ctl (step s PeerEOF).
Proof.
  intros HC. cbn [Gate.step]. destruct (eofsent s) eqn:Ee; [exact HC|].
  destruct HC. constructor; fields; try solve [fin].
  - intros Hc Hav. specialize (c_data0 Hc Hav). unfold will_read, raise in *; fields.
    destruct oneshot, (armed s), (edge s); cbn in *; auto.
  - (* the shutdown is queued, or the descriptor is disarmed and somebody's job *)
    intros Hc _ Hf. unfold raise, alive; fields. destruct oneshot eqn:Eo; [|reflexivity].
  destruct (armed s) eqn:Ea; [reflexivity|]. specialize (c_armed0 eq_refl Hc eq_refl).
  unfold alive in c_armed0. destruct (edge s), (held s); cbn in *; try reflexivity. rewrite c_armed0. reflexivity.
Qed.

Lemma ctl_mod s : Ctl s -> Ctl (step s Mod).
Proof.
  intros HC. cbn [Gate.step]. destruct (oneshot && negb (closed s)) eqn:E; [|exact HC].
  apply andb_true_iff in E as [Eo Ec]. apply negb_true_iff in Ec.
  destruct HC. constructor; fields; try solve [fin].
  intros _ Hav. unfold will_read, readable, nonempty; fields. destruct (avail s); [contradiction|]. cbn. rewrite orb_true_r. reflexivity.
Qed.

Lemma ctl_markeof s : Ctl s -> Ctl (step s PollMarkEOF).
Proof.
  intros HC. cbn [Gate.step]. destruct (held s && eofsent s && negb (eofflag s) && negb (spawning s)) eqn:E; [|exact HC].
  apply andb_true_iff in E as [E Esf]. apply andb_true_iff in E as [E Eef]. apply andb_true_iff in E as [Eed Ees].
  apply negb_true_iff in Esf. apply negb_true_iff in Eef.
  destruct HC. constructor; fields; try solve [fin].
Qed.

Lemma ctl_take s : Ctl s -> Ctl (step s PollTake).
Proof.
  intros HC. cbn [Gate.step]. destruct (edge s && negb (held s) && negb (spawning s)) eqn:E; [|exact HC].
  apply andb_true_iff in E as [E Esf]. apply andb_true_iff in E as [Eed Eh].
  apply negb_true_iff in Esf. apply negb_true_iff in Eh.
  destruct HC. constructor; fields; try solve [fin].
Qed.

Lemma ctl_gate s : Ctl s -> Ctl (step s PollGate).
Proof.
  intros HC. cbn [Gate.step]. destruct (held s && negb (spawning s) && (negb (eofsent s) || eofflag s)) eqn:E; [|exact HC].
  apply andb_true_iff in E as [E Egu]. apply andb_true_iff in E as [Eed Esf]. apply negb_true_iff in Esf.
  assert (Hup : eofsent s = true -> eofflag s = true).
  { intros He. rewrite He in Egu. exact Egu. }
  pose proof (c_range s HC) as Hr2.
  destruct (closed s) eqn:Ec.
  - (* closed: the counter stays positive, nobody is started *)
    destruct (c_closed s HC Ec) as (Hr & Hta & _ & Hav & Hes).
    destruct (2 <=? r s) eqn:E2; boolprop.
    + destruct HC. constructor; fields; rewrite ?Ec, ?Hta in *; try solve [fin].
    + assert (Hr1 : r s = 1) by lia. rewrite Hr1; cbn [Nat.eqb].
      destruct HC. constructor; fields; rewrite ?Ec, ?Hta in *; try solve [fin].
  - destruct (2 <=? r s) eqn:E2; boolprop.
    + (* counter already 2: the event is dropped; a task is alive and owes one more pass *)
      assert (Hr : r s = 2) by lia.
      pose proof (idle_has_task s HC Ec Esf ltac:(lia)) as Hta.
      destruct HC. constructor; fields; rewrite ?Ec in *; try solve [fin].
      all: intros; unfold will_read, will_check, alive; fields; rewrite ?Hr;
        destruct (task s) as [[]|]; try contradiction; cbn; repeat rewrite orb_true_r; reflexivity.
    + destruct (r s) as [|[|n]] eqn:Er; [| |lia]; cbn [Nat.eqb].
      * (* 0 -> 1: the poller will spawn *)
        assert (Hta : task s = None).
        { destruct (task s) eqn:Et; [|reflexivity]. assert (Hx : task s <> None) by (rewrite Et; discriminate).
          destruct (c_task s HC Hx). lia. }
        destruct HC. constructor; fields; rewrite ?Ec, ?Hta in *; try solve [fin].
      * (* 1 -> 2: a task is alive, it will make another pass *)
        pose proof (idle_has_task s HC Ec Esf ltac:(lia)) as Hta.
        destruct HC. constructor; fields; rewrite ?Ec in *; try solve [fin].
        all: intros; unfold will_read, will_check, alive; fields;
          destruct (task s) as [[]|]; try contradiction; cbn; repeat rewrite orb_true_r; reflexivity.
Qed.

Lemma ctl_spawn s : Ctl s -> Ctl (step s PollSpawn).
Proof.
  intros HC. cbn [Gate.step]. destruct (spawning s) eqn:E; [|exact HC].
  destruct (c_spawn s HC E) as (Hta & Hr & Hc).
  destruct HC. constructor; fields; rewrite ?Hc, ?Hta in *; try solve [fin].
  intros _ He Hf. specialize (c_hup0 eq_refl He Hf). unfold alive in *; fields.
  destruct (edge s), (held s), oneshot; norm; try reflexivity; try discriminate; try assumption.
Qed.

Lemma ctl_read s buf : Ctl s -> Ctl (step s (TaskRead buf)).
Proof.
  intros HC. cbn [Gate.step]. destruct (task s) as [[]|] eqn:Et; try exact HC.
  assert (Hx : task s <> None) by (rewrite Et; discriminate).
  destruct (c_task s HC Hx) as [Hr Hc]. pose proof (spawning_no_task s HC Hx) as Hsf.
  destruct (length (firstn (S buf) (avail s)) <? S buf) eqn:El; boolprop;
    destruct HC; constructor; unfold alive in *; fields; rewrite ?Hc, ?Hsf, ?Et in *; try solve [fin].
  intros _ Hav. exfalso. apply Hav. apply short_read_drains. exact El.
Qed.

Lemma ctl_check s : Ctl s -> Ctl (step s TaskCheck).
Proof.
  intros HC. cbn [Gate.step]. destruct (task s) as [[]|] eqn:Et; try exact HC.
  assert (Hx : task s <> None) by (rewrite Et; discriminate).
  destruct (c_task s HC Hx) as [Hr Hc]. pose proof (spawning_no_task s HC Hx) as Hsf.
  destruct (eofflag s) eqn:Ef; destruct HC; constructor; unfold alive in *; fields; rewrite ?Hc, ?Hsf, ?Et, ?Ef in *; try solve [fin].
  intros _ Hav. specialize (c_data0 eq_refl Hav). unfold will_read in *; fields.
  rewrite ?Et, ?Ef, ?Hsf in *. cbn in *. exact c_data0.
Qed.

Lemma ctl_dec s : Ctl s -> Ctl (step s TaskDec).
Proof.
  intros HC. cbn [Gate.step]. destruct (task s) as [[]|] eqn:Et; try exact HC.
  assert (Hx : task s <> None) by (rewrite Et; discriminate).
  destruct (c_task s HC Hx) as [Hr Hc]. pose proof (spawning_no_task s HC Hx) as Hsf. pose proof (c_range s HC) as Hr2.
  destruct (r s =? 1) eqn:E1; boolprop.
  - (* the task ends: in ET what is pending must have its edge; in one-shot mode the re-arm will queue it *)
    destruct oneshot eqn:Eo.
    + destruct HC; constructor; unfold alive in *; fields; rewrite ?Hc, ?Hsf, ?Et in *; try solve [fin].
    + assert (Hre : rearm s = 0).
      { destruct (rearm s) eqn:Er; [reflexivity|]. pose proof (c_rearm s HC ltac:(lia)). congruence. }
      destruct HC; constructor; unfold alive in *; fields; rewrite ?Hc, ?Hsf, ?Et, ?Hre in *; try solve [fin].
      * intros _ Hav. specialize (c_data0 eq_refl Hav). unfold will_read in *; fields.
        rewrite ?Et, ?Hsf, ?Hre, ?E1, ?Eo in *. norm. exact c_data0.
      * intros _ Hf. specialize (c_eof0 eq_refl Hf). unfold will_check in *; fields.
        rewrite ?Et, ?Hsf, ?Hre, ?E1, ?Eo in *. norm. exact c_eof0.
      * intros _ He Hf. specialize (c_hup0 eq_refl He Hf). rewrite ?Eo in *. norm. exact c_hup0.
  - destruct HC; constructor; unfold alive in *; fields; rewrite ?Hc, ?Hsf, ?Et in *; try solve [fin].
Qed.

Lemma ctl_drain s buf : Ctl s -> Ctl (step s (TaskDrain buf)).
Proof.
  intros HC. cbn [Gate.step]. destruct (task s) as [[]|] eqn:Et; try exact HC.
  assert (Hx : task s <> None) by (rewrite Et; discriminate).
  destruct (c_task s HC Hx) as [Hr Hc]. pose proof (spawning_no_task s HC Hx) as Hsf.
  pose proof (c_drain s HC Et) as Hf. pose proof (c_flag s HC Hf) as Hes.
  destruct (avail s) eqn:Ea; destruct HC; constructor; unfold alive in *; fields; rewrite ?Hc, ?Hsf, ?Et in *; try solve [fin].
Qed.

Lemma ctl_close s : Ctl s -> Ctl (step s TaskClose).
Proof.
  intros HC. cbn [Gate.step]. destruct (task s) as [[]|] eqn:Et; try exact HC.
  assert (Hx : task s <> None) by (rewrite Et; discriminate).
  destruct (c_task s HC Hx) as [Hr Hc]. pose proof (spawning_no_task s HC Hx) as Hsf.
  destruct (c_closing s HC Et) as [Hf Hav]. pose proof (c_flag s HC Hf) as Hes.
  destruct HC; constructor; unfold alive in *; fields; rewrite ?Hsf, ?Et in *; try solve [fin].
Qed.

Lemma ctl_rearm s : Ctl s -> Ctl (step s TaskRearm).
Proof.
  intros HC. cbn [Gate.step]. destruct (0 <? rearm s) eqn:Er; [|exact HC].
  apply Nat.ltb_lt in Er. pose proof (c_rearm s HC Er) as Ho.
  destruct (closed s) eqn:Ec.
  - destruct HC. constructor; fields; rewrite ?Ec in *; try solve [fin].
  - destruct HC. constructor; fields; rewrite ?Ec in *; try solve [fin].
    intros _ Hav. unfold will_read, readable, nonempty; fields. destruct (avail s); [contradiction|]. cbn. repeat rewrite orb_true_r. reflexivity.
Qed.

Lemma step_ctl s a : Ctl s -> Ctl (step s a).
Proof.
  destruct a; [apply ctl_arrive | apply ctl_peereof | apply ctl_mod | apply ctl_take | apply ctl_markeof | apply ctl_gate | apply ctl_spawn
              | apply ctl_read | apply ctl_check | apply ctl_dec | apply ctl_drain | apply ctl_close | apply ctl_rearm].
Qed.

Lemma init_acc : Acc (@init A). Proof. reflexivity. Qed.
Lemma init_ctl : Ctl (@init A).
Proof. constructor; cbn; fin. Qed.

Lemma run_inv (l : list action) : Acc (run l) /\ Ctl (run l).
Proof.
  unfold Gate.run. generalize init_acc init_ctl. generalize (@init A).
  induction l as [|a l IH]; intros s Ha Hc; cbn; [split; assumption|].
  apply IH; [apply step_acc | apply step_ctl]; assumption.
Qed.

(* ---- consequences ---- *)
Lemma one_reader (l : list action) : ntasks (run l) <= 1.
Proof. destruct (run_inv l) as [_ HC]. rewrite (c_ntasks _ HC). destruct (task _); lia. Qed.

Lemma prefix (l : list action) : exists rest, sent (run l) = delivered (run l) ++ rest.
Proof. destruct (run_inv l) as [Ha _]. exists (avail (run l)). symmetry. exact Ha. Qed.

Lemma no_lost_edge (l : list action) :
  closed (run l) = false -> avail (run l) <> [] ->
  edge (run l) = true \/ held (run l) = true \/ spawning (run l) = true \/ 0 < rearm (run l) \/ task (run l) <> None.
Proof.
  destruct (run_inv l) as [_ HC]. intros Hc H. pose proof (c_data _ HC Hc H) as W. unfold will_read in W.
  destruct (edge (run l)); [left; reflexivity|]. destruct (held (run l)); [right; left; reflexivity|].
  destruct (spawning (run l)); [right; right; left; reflexivity|].
  destruct (rearm (run l)) as [|k]; [|right; right; right; left; lia].
  right; right; right; right. destruct (task (run l)); discriminate.
Qed.

Lemma complete (l : list action) : quiescent (run l) -> delivered (run l) = sent (run l).
Proof.
  intros (Q1 & Q0 & Q2 & Q3 & Q4). destruct (run_inv l) as [Ha HC]. unfold Acc in Ha.
  assert (Hav : avail (run l) = []).
  { destruct (closed (run l)) eqn:Ec.
    - destruct (c_closed _ HC Ec) as (_&_&_&H&_). exact H.
    - destruct (avail (run l)) eqn:Ea; [reflexivity|].
      assert (Hne : avail (run l) <> []) by (rewrite Ea; discriminate).
      destruct (no_lost_edge l Ec Hne) as [H|[H|[H|[H|H]]]]; try congruence; lia. }
  rewrite Hav, app_nil_r in Ha. exact Ha.
Qed.

(* the end of the stream is not forgotten: once nobody can act any more, the connection has been closed *)
Lemma eof_closes (l : list action) : quiescent (run l) -> eofsent (run l) = true -> closed (run l) = true.
Proof.
  intros (Q1 & Q0 & Q2 & Q3 & Q4) He. destruct (run_inv l) as [_ HC].
  destruct (closed (run l)) eqn:Ec; [reflexivity|].
  destruct (eofflag (run l)) eqn:Ef.
  - pose proof (c_eof _ HC Ec Ef) as W. unfold will_check in W. rewrite Q1, Q0, Q2, Q3, Q4 in W. discriminate.
  - pose proof (c_hup _ HC Ec He Ef) as W. unfold alive in W. rewrite Q1, Q0, Q2, Q3, Q4 in W. cbn in W.
    rewrite andb_false_r in W. discriminate.
Qed.

(* and it is closed only after everything the peer sent has been delivered *)
Lemma closed_complete (l : list action) : closed (run l) = true -> delivered (run l) = sent (run l) /\ eofsent (run l) = true.
Proof.
  intros Hc. destruct (run_inv l) as [Ha HC]. destruct (c_closed _ HC Hc) as (_&_&_&Hav&He).
  unfold Acc in Ha. rewrite Hav, app_nil_r in Ha. split; assumption.
Qed.

Lemma counter_range (l : list action) : r (run l) <= 2.
Proof. destruct (run_inv l) as [_ HC]. exact (c_range _ HC). Qed.

(* while the connection is open the counter is positive exactly while a task is alive or about to be started *)
Lemma counter_tracks_task (l : list action) : closed (run l) = false ->
  (r (run l) = 0 <-> task (run l) = None /\ spawning (run l) = false).
Proof.
  destruct (run_inv l) as [_ HC]. intros Hc. split.
  - intros Hz. split.
    + destruct (task (run l)) eqn:Et; [|reflexivity]. assert (Hx : task (run l) <> None) by (rewrite Et; discriminate).
      destruct (c_task _ HC Hx). lia.
    + destruct (spawning (run l)) eqn:Es; [|reflexivity]. destruct (c_spawn _ HC Es) as (_&H&_). lia.
  - intros [H1 H2]. apply (c_idle _ HC); assumption.
Qed.

End P.
