(* Extraction of the executable wake-up model (trusted base: Extraction + ExtrOcamlBasic + ExtrOcamlNatInt for the byte counts). *)
From Coq Require Import Extraction ExtrOcamlBasic ExtrOcamlNatInt.
From WakeC Require Import WakeModel.
Extraction "wakemodel.ml" init step obs deliverable_out.
