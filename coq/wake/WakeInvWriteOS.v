(* Preservation of the invariant by the application's writes, ET+ONESHOT. *)
From Coq Require Import List Arith Lia Bool.
From WakeC Require Import WakeModel WakeInv.

Lemma inv_AppWrite_ETOS n s : Inv ETOS s -> Inv ETOS (step ETOS s (AppWrite n)).
Proof. start. go. Qed.
Lemma inv_AppSendfile_ETOS n s : Inv ETOS s -> Inv ETOS (step ETOS s (AppSendfile n)).
Proof. start. go. Qed.
