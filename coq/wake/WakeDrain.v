(* The fair round: what is under way completes, the peer makes room, the poller handles what is deliverable.
   Every round strictly shrinks a non-empty backlog, so the backlog is empty after at most `backlog` rounds,
   and every byte that left the queue went to the kernel. *)
From Coq Require Import List Arith Lia Bool.
From WakeC Require Import WakeModel WakeInv WakeProofs.
Import ListNotations.

Ltac ifs := repeat match goal with
  | |- context[if ?b then _ else _] => destruct b eqn:?
  | |- context[match ?b with WNone => _ | _ => _ end] => destruct b eqn:?
  | |- context[match ?b with O => _ | S _ => _ end] => destruct b eqn:?
  end.

(* the steps of a round: everything but the application's actions, dial registration and close *)
Definition env_step (a : action) : Prop :=
  match a with
  | Register | PeerRead _ | Deliver _ _ | HandleOut | ConnDone | ReadDispatch _ | Rearm => True
  | _ => False
  end.

(* frame: flags that environment steps keep *)
Lemma env_frame md s a :
  env_step a ->
  closed (step md s a) = closed s /\
  (dial s = false -> dial (step md s a) = false) /\
  (reg s = true -> reg (step md s a) = true) /\
  (closed s = false -> q (step md s a) + sent (step md s a) = q s + sent s /\ sent s <= sent (step md s a)).
Proof.
  intros Ha. destruct a; try (exfalso; exact Ha); clear Ha.
  - (* Register *)
    cbn [step]. unfold kadd, kctl. destruct md; ifs; simp_proj; repeat split; auto; intros; congruence.
  - (* PeerRead *)
    cbn [step]. unfold kpeer. ifs; simp_proj; repeat split; auto.
  - (* Deliver *)
    cbn [step]. ifs; simp_proj; repeat split; auto.
  - (* HandleOut *)
    cbn [step]. destruct (pw s) eqn:Ep; try (repeat split; auto; fail).
    destruct (closed s) eqn:Ec.
    + cbn [negb andb]. rewrite flush_closed by (rewrite release_closed; auto).
      unfold release, set_pw, set_owed; destruct (is_os md && negb (prd s)); simp_proj; repeat split; auto; intros; congruence.
    + cbn [negb andb]. destruct (dial s) eqn:Ed.
      * unfold set_pw, set_dial; simp_proj; repeat split; auto.
      * destruct (release_qs md s) as (A & B & C & D).
        destruct (flush_qs md (release md s)) as (X & Y); [congruence|].
        assert (Z : closed (flush md (release md s)) = false /\ dial (flush md (release md s)) = false /\
                    reg (flush md (release md s)) = reg s).
        { destruct (flush_frame md (release md s)) as (F1 & F2 & F3 & _). rewrite F1, F2, F3.
          unfold release, set_pw, set_owed. destruct (is_os md && negb (prd s)); simp_proj; auto. }
        destruct Z as (Z1 & Z2 & Z3). rewrite Z1, Z2, Z3, X, Y, A, B, C. repeat split; auto; intros; lia.
  - (* ConnDone *)
    cbn [step]. destruct (pw s) eqn:Ep; try (repeat split; auto; fail).
    assert (R : closed (release md s) = closed s /\ dial (release md s) = dial s /\ reg (release md s) = reg s)
      by (unfold release, set_pw, set_owed; destruct (is_os md && negb (prd s)); simp_proj; auto).
    destruct R as (R1 & R2 & R3). destruct (release_qs md s) as (A & B & C & D).
    match goal with |- context[if ?b then _ else _] => destruct b end.
    + destruct (resetRead_frame md (release md s)) as (F1 & F2 & F3 & _).
      destruct (resetRead_qs md (release md s)) as (Q1 & Q2 & _).
      rewrite F1, F2, F3, Q1, Q2, R1, R2, R3, A, B. repeat split; auto.
    + rewrite R1, R2, R3, A, B. repeat split; auto.
  - (* ReadDispatch *)
    cbn [step]. unfold set_prd, set_owed. ifs; simp_proj; repeat split; auto.
  - (* Rearm *)
    cbn [step]. unfold rearm, kctl, set_owed, set_wadded. destruct md; ifs; simp_proj; repeat split; auto.
Qed.

Lemma env_inv md s a : env_step a -> Inv md s -> Inv md (step md s a).
Proof. intros _. apply step_inv. Qed.

(* a bundle of facts carried through the environment steps of a round *)
Record good (md : mode) (s0 s : st) : Prop := mkgood {
  g_inv : Inv md s;
  g_closed : closed s = false;
  g_dial : dial s = false;
  g_cons : q s + sent s = q s0 + sent s0;
  g_sent : sent s0 <= sent s
}.

Lemma good_refl md s : Inv md s -> closed s = false -> dial s = false -> good md s s.
Proof. intros; constructor; auto. Qed.

Lemma good_trans md s0 s1 s2 : good md s0 s1 -> good md s1 s2 -> good md s0 s2.
Proof. intros [] []; constructor; auto; lia. Qed.

Lemma good_self md s0 s : good md s0 s -> good md s s.
Proof. intros []; constructor; auto. Qed.

Lemma good_step md s0 s a : env_step a -> good md s0 s -> good md s0 (step md s a).
Proof.
  intros Ha [Hi Hc Hd Hq Hs]. destruct (env_frame md s a Ha) as (F1 & F2 & F3 & F4).
  destruct (F4 Hc) as [F5 F6]. constructor.
  - apply env_inv; auto.
  - congruence.
  - auto.
  - lia.
  - lia.
Qed.

Lemma good_rearms md s0 n : forall s, good md s0 s -> good md s0 (rearms md n s).
Proof.
  induction n as [|n IH]; intros s G; cbn [rearms]; auto.
  apply IH. exact (good_step md s0 s Rearm I G).
Qed.

Lemma rearms_frame md n : forall s,
  pw (rearms md n s) = pw s /\ reg (rearms md n s) = reg s /\ owed (rearms md n s) = owed s - n /\ prd (rearms md n s) = prd s.
Proof.
  induction n as [|n IH]; intros s; cbn [rearms].
  - repeat split; lia.
  - destruct (IH (rearm md s)) as (A & B & C & D). rewrite A, B, C, D.
    unfold rearm, kctl, set_owed, set_wadded. destruct md; ifs; simp_proj; repeat split; auto; lia.
Qed.

(* after `finish` the connection is registered and the poller is quiescent *)
Lemma finish_good md s : good md s s -> good md s (finish md s) /\ reg (finish md s) = true /\ quiescent (finish md s).
Proof.
  intros G. unfold finish.
  set (s1 := step md s Register).
  assert (G1 : good md s s1) by (apply good_step; cbn; auto).
  assert (R1 : reg s1 = true).
  { unfold s1. cbn [step]. rewrite (g_closed _ _ _ G). cbn [orb]. destruct (reg s) eqn:Er; auto;
    unfold kadd, kctl; simp_proj; reflexivity. }
  set (s2 := step md s1 HandleOut).
  assert (G2 : good md s s2) by (apply good_step; cbn; auto).
  assert (R2 : reg s2 = true) by (apply (env_frame md s1 HandleOut I); auto).
  assert (P2 : pw s2 <> WOut).
  { unfold s2. cbn [step]. destruct (pw s1) eqn:Ep; try congruence.
    rewrite (g_closed _ _ _ G1), (g_dial _ _ _ G1). cbn [negb andb].
    destruct (flush_frame md (release md s1)) as (_ & _ & _ & F4 & _). rewrite F4.
    unfold release, set_pw, set_owed. destruct (is_os md && negb (prd s1)); simp_proj; discriminate. }
  set (s3 := step md s2 ConnDone).
  assert (G3 : good md s s3) by (apply good_step; cbn; auto).
  assert (R3 : reg s3 = true) by (apply (env_frame md s2 ConnDone I); auto).
  assert (P3 : pw s3 = WNone).
  { unfold s3. cbn [step]. destruct (pw s2) eqn:Ep; try congruence.
    assert (R : pw (release md s2) = WNone) by (unfold release, set_pw, set_owed; destruct (is_os md && negb (prd s2)); simp_proj; auto).
    match goal with |- context[if ?b then _ else _] => destruct b end; auto.
    destruct (resetRead_frame md (release md s2)) as (_ & _ & _ & F4 & _). congruence. }
  set (s4 := step md s3 (ReadDispatch false)).
  assert (G4 : good md s s4) by (apply good_step; cbn; auto).
  assert (R4 : reg s4 = true) by (apply (env_frame md s3 (ReadDispatch false) I); auto).
  assert (P4 : pw s4 = WNone /\ prd s4 = false).
  { unfold s4. cbn [step]. rewrite P3. unfold set_prd, set_owed. destruct (prd s3) eqn:Ep; [|auto].
    match goal with |- context[if ?b then _ else _] => destruct b end; simp_proj; auto. }
  destruct P4 as [P4 Q4].
  destruct (rearms_frame md (owed s4) s4) as (A & B & C & D).
  split; [apply good_rearms; exact G4|]. split; [congruence|]. split; [congruence|]. split; [lia|congruence].
Qed.

Lemma handle_out_good md s0 s : good md s0 s -> good md s0 (handle_out md s).
Proof. intros G. unfold handle_out. repeat apply good_step; cbn; auto. Qed.

Lemma round_good md s k : good md s s -> good md s (round md s k).
Proof.
  intros G. unfold round. destruct (finish_good md s G) as (GF & _).
  apply handle_out_good. apply good_step; cbn; auto.
Qed.

(* one fair round strictly shrinks a non-empty backlog *)
Lemma round_progress md s k : good md s s -> 0 < q s -> q (round md s k) < q s.
Proof.
  intros G Hq. destruct (finish_good md s G) as (GF & RF & QF).
  set (f := finish md s) in *.
  assert (Hqf : q f <= q s) by (destruct GF; lia).
  set (p := step md f (PeerRead (S k))).
  assert (GP : good md s p) by (apply good_step; cbn; auto).
  assert (Ep : q p = q f /\ room p = room f + S k /\ pw p = pw f /\ owed p = owed f /\ reg p = reg f /\ prd p = prd f).
  { unfold p. cbn [step]. rewrite (g_closed _ _ _ GF). cbn [orb Nat.eqb]. unfold kpeer. simp_proj. repeat split; auto. }
  destruct Ep as (E1 & E2 & E3 & E4 & E5 & E6).
  assert (GH : good md s (handle_out md p)) by (apply handle_out_good; auto).
  change (round md s k) with (handle_out md p).
  destruct (Nat.eq_dec (q f) 0) as [Z|NZ].
  - assert (GH' : good md p (handle_out md p)) by (apply handle_out_good; eapply good_self; eauto).
    destruct GH'. lia.
  - assert (QP : quiescent p) by (destruct QF as (? & ? & ?); repeat split; congruence).
    assert (D : deliverable_out md p false = true).
    { apply no_lost_wakeup; auto; try (destruct GP; auto; fail); try congruence; lia. }
    destruct (progress md p (g_closed _ _ _ GP) (g_dial _ _ _ GP) QP D) as [L _]; lia.
Qed.

Fixpoint rounds (md : mode) (s : st) (ks : list nat) : st :=
  match ks with [] => s | k :: t => rounds md (round md s k) t end.

Lemma rounds_good md ks : forall s, good md s s -> good md s (rounds md s ks) /\ q (rounds md s ks) <= q s - length ks.
Proof.
  induction ks as [|k t IH]; intros s G; cbn [rounds length].
  - split; auto. lia.
  - assert (G1 : good md s (round md s k)) by (apply round_good; auto).
    destruct (IH (round md s k) (good_self _ _ _ G1)) as [G2 L].
    split; [eapply good_trans; eauto|].
    destruct (Nat.eq_dec (q s) 0) as [Z|NZ].
    + destruct G1. assert (q (round md s k) = 0) by lia. lia.
    + assert (q (round md s k) < q s) by (apply round_progress; auto; lia). lia.
Qed.

(* the backlog drains: after at least `q s` fair rounds nothing is queued and every queued byte has gone to the kernel *)
Theorem drains md s ks :
  Inv md s -> closed s = false -> dial s = false -> q s <= length ks ->
  q (rounds md s ks) = 0 /\ sent (rounds md s ks) = sent s + q s /\ closed (rounds md s ks) = false.
Proof.
  intros Hi Hc Hd Hl. destruct (rounds_good md ks s (good_refl md s Hi Hc Hd)) as [G L].
  destruct G. split; [lia|]. split; [lia|auto].
Qed.
