(* Preservation of the invariant by the poller's handling of the OUT bit (takeOnConnected, then flush or the dial callback). *)
From Coq Require Import List Arith Lia Bool.
From WakeC Require Import WakeModel WakeInv.

Ltac flush_tac s :=
  intros K0 K1; start';
  [ left; rewrite flush_closed; rewrite ?release_closed; auto | ];
  destruct (prd s) eqn:Eprd;
  ( unfold flush, release, is_os, set_pw, set_owed; rewrite ?Eprd; cbn [andb negb]; simp_proj;
    (match goal with H : closed _ = false |- _ => rewrite H end);
    destruct (q s =? 0) eqn:Eq0;
    [ unfold resetRead, pmod, kctl, set_wadded; go2
    | unfold ksend, set_q; simp_proj;
      destruct (q s <=? room s) eqn:Eqr;
      [ apply Nat.leb_le in Eqr; rewrite (Nat.min_l _ _ Eqr); rewrite Nat.sub_diag; cbn [Nat.eqb];
        unfold resetRead, pmod, kctl, set_wadded; go2
      | apply Nat.leb_gt in Eqr; rewrite (Nat.min_r (q s) (room s)) by lia;
        replace (q s - room s =? 0) with false by (symmetry; apply Nat.eqb_neq; lia);
        go2 ] ] ).

Lemma inv_flush_LT s : pw s = WOut -> dial s = false -> Inv LT s -> Inv LT (flush LT (release LT s)).
Proof. flush_tac s. Qed.
Lemma inv_flush_ET s : pw s = WOut -> dial s = false -> Inv ET s -> Inv ET (flush ET (release ET s)).
Proof. flush_tac s. Qed.
Lemma inv_flush_ETOS s : pw s = WOut -> dial s = false -> Inv ETOS s -> Inv ETOS (flush ETOS (release ETOS s)).
Proof. flush_tac s. Qed.

Ltac handle_tac s lem :=
  intros HI; cbn [step]; destruct (pw s) eqn:Ep; auto;
  destruct (closed s) eqn:Ec;
  [ cbn [negb andb]; rewrite flush_closed by (rewrite release_closed; auto); left; rewrite release_closed; auto
  | cbn [negb andb]; destruct (dial s) eqn:Ed;
    [ revert HI; start'; [congruence|]; unfold set_pw, set_dial; go2
    | apply lem; auto ] ].

Lemma inv_HandleOut_LT s : Inv LT s -> Inv LT (step LT s HandleOut).
Proof. handle_tac s inv_flush_LT. Qed.
Lemma inv_HandleOut_ET s : Inv ET s -> Inv ET (step ET s HandleOut).
Proof. handle_tac s inv_flush_ET. Qed.
Lemma inv_HandleOut_ETOS s : Inv ETOS s -> Inv ETOS (step ETOS s HandleOut).
Proof. handle_tac s inv_flush_ETOS. Qed.
