(* Preservation of the invariant by registration (addConn, addDialer with a pending or a completed connect), the peer's
   reads and close. *)
From Coq Require Import List Arith Lia Bool.
From WakeC Require Import WakeModel WakeInv.

Lemma inv_Register_LT s : Inv LT s -> Inv LT (step LT s Register).
Proof. start. go. Qed.
Lemma inv_Register_ET s : Inv ET s -> Inv ET (step ET s Register).
Proof. start. go. Qed.
Lemma inv_Register_ETOS s : Inv ETOS s -> Inv ETOS (step ETOS s Register).
Proof. start. go. Qed.
Lemma inv_RegisterDial_LT s : Inv LT s -> Inv LT (step LT s RegisterDial).
Proof. start. go. Qed.
Lemma inv_RegisterDial_ET s : Inv ET s -> Inv ET (step ET s RegisterDial).
Proof. start. go. Qed.
Lemma inv_RegisterDial_ETOS s : Inv ETOS s -> Inv ETOS (step ETOS s RegisterDial).
Proof. start. go. Qed.
Lemma inv_RegisterDialNow_LT s : Inv LT s -> Inv LT (step LT s RegisterDialNow).
Proof. start. go. Qed.
Lemma inv_RegisterDialNow_ET s : Inv ET s -> Inv ET (step ET s RegisterDialNow).
Proof. start. go. Qed.
Lemma inv_RegisterDialNow_ETOS s : Inv ETOS s -> Inv ETOS (step ETOS s RegisterDialNow).
Proof. start. go. Qed.
Lemma inv_PeerRead_LT k s : Inv LT s -> Inv LT (step LT s (PeerRead k)).
Proof. start. go. Qed.
Lemma inv_PeerRead_ET k s : Inv ET s -> Inv ET (step ET s (PeerRead k)).
Proof. start. go. Qed.
Lemma inv_PeerRead_ETOS k s : Inv ETOS s -> Inv ETOS (step ETOS s (PeerRead k)).
Proof. start. go. Qed.
Lemma inv_Close md s : Inv md s -> Inv md (step md s Close).
Proof. intros _. left. cbn [step]. destruct (closed s) eqn:E; auto. Qed.
