(* The write-interest flag agrees with the registered mask; an idle connection does not keep the poller busy. *)
From Coq Require Import List Arith Lia Bool.
From WakeC Require Import WakeModel WakeInv WakeProofs.

(* Conn.isWAdded = "EPOLLOUT is in the registered mask", whenever the mask can change at all (LT, ET+ONESHOT) *)
Theorem flag_agrees md s :
  Inv md s -> closed s = false -> reg s = true -> md <> ET -> mout s = wadded s.
Proof.
  intros [Hc | (Hc & HA & HB & H1 & H5 & _)] Hcl Hr Hmd; [congruence|].
  destruct md; try congruence; apply H5; auto.
Qed.

Lemma resetRead_fields md s :
  closed s = false -> reg s = true ->
  q (resetRead md s) = q s /\ closed (resetRead md s) = false /\ reg (resetRead md s) = true /\
  eout (resetRead md s) = eout s /\ owed (resetRead md s) = owed s /\ wadded (resetRead md s) = false /\
  (md <> ET -> wadded s = true -> mout (resetRead md s) = false) /\
  (wadded s = false -> mout (resetRead md s) = mout s).
Proof.
  intros Hc Hr. unfold resetRead, pmod, kctl, set_wadded. rewrite Hc. cbn [negb andb].
  destruct (wadded s) eqn:W; destruct md; simp_proj; rewrite ?Hr; simp_proj; cbn [andb];
    repeat split; auto; intros; congruence.
Qed.

(* handling a writability event on an empty queue leaves nothing deliverable: no EPOLLOUT busy loop (D32) *)
Theorem no_idle_spin md s :
  Inv md s -> closed s = false -> dial s = false -> pw s = WNone -> prd s = false -> q s = 0 ->
  deliverable_out md s false = true ->
  deliverable_out md (handle_out md s) false = false.
Proof.
  intros HI Hcl Hd Hp Hprd Hq Hdel.
  assert (Hreg : reg s = true) by (unfold deliverable_out in Hdel; destruct (reg s); auto).
  assert (Hmw : md <> ET -> mout s = wadded s) by (intros; apply flag_agrees with md; auto).
  assert (Harm : (prd s || (is_os md && negb (armed s))) = false).
  { rewrite Hprd. cbn [orb]. unfold deliverable_out in Hdel. destruct (is_os md); auto. repeat (apply andb_true_iff in Hdel as [Hdel ?]).
    match goal with H : armed s = true |- _ => rewrite H end. reflexivity. }
  unfold handle_out.
  remember (step md s (Deliver false false)) as s1 eqn:E1.
  assert (F1 : q s1 = 0 /\ closed s1 = false /\ dial s1 = false /\ pw s1 = WOut /\ eout s1 = false /\ mout s1 = mout s /\
               wadded s1 = wadded s /\ reg s1 = true /\ prd s1 = false).
  { subst s1. cbn [step]. rewrite Hcl, Hp, Hreg. cbn [orb negb andb]. rewrite Harm, Hdel, Hd. cbn [orb negb andb]. simp_proj.
    repeat split; auto. }
  destruct F1 as (A1 & B1 & C1 & D1 & G1 & M1 & W1 & R1 & P1). clear E1.
  remember (step md s1 HandleOut) as s2 eqn:E2.
  assert (F2 : q s2 = 0 /\ closed s2 = false /\ reg s2 = true /\ eout s2 = false /\ (md <> ET -> mout s2 = false) /\
               (is_os md = true -> 0 < owed s2)).
  { subst s2. cbn [step]. rewrite D1, B1, C1. cbn [negb andb].
    set (r := release md s1).
    assert (FR : q r = 0 /\ closed r = false /\ reg r = true /\ eout r = false /\ mout r = mout s /\ wadded r = wadded s /\
                 (is_os md = true -> 0 < owed r)).
    { unfold r, release, set_pw, set_owed. rewrite P1. cbn [negb]. rewrite andb_true_r.
      destruct (is_os md); simp_proj; repeat split; auto; intros; try lia; congruence. }
    destruct FR as (Ar & Br & Rr & Gr & Mr & Wr & Or).
    unfold flush. rewrite Br, Ar. cbn [Nat.eqb].
    destruct (resetRead_fields md r Br Rr) as (X1 & X2 & X3 & X4 & X5 & X6 & X7 & X8).
    rewrite X1, X2, X3, X4, X5. repeat split; auto; try congruence.
    intros Hne. destruct (wadded r) eqn:W.
    - apply X7; auto.
    - rewrite X8 by auto. rewrite Mr, Hmw by auto. congruence. }
  clear E2. destruct F2 as (A2 & B2 & R2 & G2 & M2 & O2).
  cbn [step]. unfold deliverable_out, rearm, kctl, set_owed, set_wadded.
  destruct md; unfold is_et, is_os in *; simp_proj.
  - destruct (owed s2); simp_proj; rewrite R2, M2 by congruence; reflexivity.
  - destruct (owed s2); simp_proj; rewrite G2; cbn [orb]; rewrite !andb_false_r; reflexivity.
  - specialize (O2 eq_refl). destruct (owed s2) eqn:EO; [lia|]. simp_proj. rewrite B2, R2, A2. cbn [Nat.ltb Nat.leb andb].
    simp_proj. reflexivity.
Qed.
