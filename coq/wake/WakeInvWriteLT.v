(* Preservation of the invariant by the application's writes (Write / Writev / Sendfile), level-triggered mode. *)
From Coq Require Import List Arith Lia Bool.
From WakeC Require Import WakeModel WakeInv.

Lemma inv_AppWrite_LT n s : Inv LT s -> Inv LT (step LT s (AppWrite n)).
Proof. start. go. Qed.
Lemma inv_AppSendfile_LT n s : Inv LT s -> Inv LT (step LT s (AppSendfile n)).
Proof. start. go. Qed.
