(* Preservation of the invariant by epoll_wait handing the poller an event of the descriptor. *)
From Coq Require Import List Arith Lia Bool.
From WakeC Require Import WakeModel WakeInv.

Ltac deliver_tac s :=
  intros HI; cbn [step];
  destruct (closed s) eqn:Ec; [cbn [orb]; exact HI|];
  destruct (reg s) eqn:Er; [|cbn [orb negb]; exact HI];
  cbn [orb negb];
  destruct (pw s) eqn:Ep; try exact HI;
  unfold is_os; cbn [andb];
  try (destruct (armed s) eqn:Ea; [|cbn [negb]; exact HI]; cbn [negb]);
  revert HI; start'; [congruence|];
  unfold deliverable_out, is_et, is_os; go2.

Lemma inv_Deliver_LT rd spur s : Inv LT s -> Inv LT (step LT s (Deliver rd spur)).
Proof. deliver_tac s. Qed.
Lemma inv_Deliver_ET rd spur s : Inv ET s -> Inv ET (step ET s (Deliver rd spur)).
Proof. deliver_tac s. Qed.
Lemma inv_Deliver_ETOS rd spur s : Inv ETOS s -> Inv ETOS (step ETOS s (Deliver rd spur)).
Proof. deliver_tac s. Qed.
