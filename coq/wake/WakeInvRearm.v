(* Preservation of the invariant by ResetPollerEvent and by the return of the dial callback. *)
From Coq Require Import List Arith Lia Bool.
From WakeC Require Import WakeModel WakeInv.

Lemma inv_Rearm_LT s : Inv LT s -> Inv LT (step LT s Rearm).
Proof. start. go. Qed.
Lemma inv_Rearm_ET s : Inv ET s -> Inv ET (step ET s Rearm).
Proof. start. go. Qed.
Lemma inv_Rearm_ETOS s : Inv ETOS s -> Inv ETOS (step ETOS s Rearm).
Proof. start. go. all: fin2. Qed.
Lemma inv_ReadDispatch_LT co s : Inv LT s -> Inv LT (step LT s (ReadDispatch co)).
Proof. start. go. Qed.
Lemma inv_ReadDispatch_ET co s : Inv ET s -> Inv ET (step ET s (ReadDispatch co)).
Proof. start. go. Qed.
Lemma inv_ReadDispatch_ETOS co s : Inv ETOS s -> Inv ETOS (step ETOS s (ReadDispatch co)).
Proof. start. go. Qed.
Lemma inv_ConnDone_LT s : Inv LT s -> Inv LT (step LT s ConnDone).
Proof. start. go. Qed.
Lemma inv_ConnDone_ET s : Inv ET s -> Inv ET (step ET s ConnDone).
Proof. start. go. Qed.
Lemma inv_ConnDone_ETOS s : Inv ETOS s -> Inv ETOS (step ETOS s ConnDone).
Proof. start. go. Qed.
