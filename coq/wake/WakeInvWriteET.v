(* Preservation of the invariant by the application's writes (Write / Writev / Sendfile), edge-triggered mode. *)
From Coq Require Import List Arith Lia Bool.
From WakeC Require Import WakeModel WakeInv.

Lemma inv_AppWrite_ET n s : Inv ET s -> Inv ET (step ET s (AppWrite n)).
Proof. start. go. Qed.
Lemma inv_AppSendfile_ET n s : Inv ET s -> Inv ET (step ET s (AppSendfile n)).
Proof. start. go. Qed.
