(* Write wake-up protocol of one nbio connection on Linux (property C04), as an executable transition system.
   What is coupled:
     connection   conn_unix.go     q        unsent bytes of the write queue (len(writeList) > 0  <->  q > 0, C01)
                                   wadded   Conn.isWAdded
                                   closed   Conn.closed
                                   dial     Conn.onConnected <> nil (an asynchronous dial is pending)
     kernel       send buffer      room     free space;  nospace: a send came back short / EAGAIN since the peer last
                                            made room (SOCK_NOSPACE: the condition for a writability edge, K4)
     epoll entry  of the fd        reg      registered;  mout: EPOLLOUT in the registered mask
                                   armed    ONESHOT: not disarmed;  eout: ET: a writability report is pending
     poller       poller_epoll.go  pw       what the poller owes for the event epoll_wait handed it (the handling of
                                            the OUT bit / the resetRead after the dial callback)
                                   prd      the event the poller holds carries IN: its read part is still to be dispatched
                                   owed     ONESHOT: calls of ResetPollerEvent owed (by the poller's handler or by
                                            the asynchronous read task) for delivered events
     ghost                         sent     bytes handed to the kernel
   One action = one critical section of Conn.mux (Write/Writev/Sendfile, flush, ResetPollerEvent, addConn's
   registration, close), one kernel step (epoll_wait returning the fd's event, the peer reading), or - for a
   dialer - the lock-free steps of readWriteLoop around the dial callback.
   The code is modelled as it is in /repo now (D3, D19, D25, D27, D28, D31, D32, D38, D40 repaired).
   Who may act when: the application first sees a dialed connection in its dial callback (DialAsync returns no Conn),
   so Write/Sendfile are not enabled while dial = true; ResetPollerEvent is called for a delivered event only (by the
   poller's handler after the event's OUT bit has been handled, by the asynchronous read task, or by a custom OnRead
   handler in its place), which is what `owed` counts. *)
From Coq Require Import List Arith Bool.
Import ListNotations.

Inductive mode := LT | ET | ETOS.
Inductive pwork := WNone | WOut | WConn.

Record st := mk {
  q : nat; wadded : bool; closed : bool; dial : bool;
  room : nat; nospace : bool;
  reg : bool; mout : bool; armed : bool; eout : bool;
  pw : pwork; owed : nat; prd : bool;
  sent : nat
}.

Definition init (r0 : nat) : st := mk 0 false false false r0 false false false false false WNone 0 false 0.

Definition set_q (s : st) (v : nat) : st :=
  mk v (wadded s) (closed s) (dial s) (room s) (nospace s) (reg s) (mout s) (armed s) (eout s) (pw s) (owed s) (prd s) (sent s).
Definition set_wadded (s : st) (v : bool) : st :=
  mk (q s) v (closed s) (dial s) (room s) (nospace s) (reg s) (mout s) (armed s) (eout s) (pw s) (owed s) (prd s) (sent s).
Definition set_pw (s : st) (v : pwork) : st :=
  mk (q s) (wadded s) (closed s) (dial s) (room s) (nospace s) (reg s) (mout s) (armed s) (eout s) v (owed s) (prd s) (sent s).
Definition set_owed (s : st) (v : nat) : st :=
  mk (q s) (wadded s) (closed s) (dial s) (room s) (nospace s) (reg s) (mout s) (armed s) (eout s) (pw s) v (prd s) (sent s).
Definition set_prd (s : st) (v : bool) : st :=
  mk (q s) (wadded s) (closed s) (dial s) (room s) (nospace s) (reg s) (mout s) (armed s) (eout s) (pw s) (owed s) v (sent s).
Definition set_dial (s : st) (v : bool) : st :=
  mk (q s) (wadded s) (closed s) v (room s) (nospace s) (reg s) (mout s) (armed s) (eout s) (pw s) (owed s) (prd s) (sent s).

(* ---- kernel ---- *)

(* a successful epoll_ctl ADD/MOD with (out = true) or without EPOLLOUT in the mask: replaces the mask, re-arms a
   ONESHOT entry, and re-evaluates readiness (a writable socket is reported once more) *)
Definition kctl (s : st) (out : bool) : st :=
  mk (q s) (wadded s) (closed s) (dial s) (room s) (nospace s) (reg s) out true
     (if out && (0 <? room s) then true else eout s) (pw s) (owed s) (prd s) (sent s).

(* EPOLL_CTL_ADD *)
Definition kadd (s : st) (out : bool) : st :=
  kctl (mk (q s) (wadded s) (closed s) (dial s) (room s) (nospace s) true (mout s) (armed s) (eout s) (pw s) (owed s) (prd s) (sent s)) out.

(* one send of n bytes: takes min n room; a short count (or EAGAIN) sets nospace *)
Definition ksend (s : st) (n : nat) : st * nat :=
  let k := Nat.min n (room s) in
  (mk (q s) (wadded s) (closed s) (dial s) (room s - k) (if k <? n then true else nospace s)
      (reg s) (mout s) (armed s) (eout s) (pw s) (owed s) (prd s) (sent s + k), k).

(* the peer consumes k bytes (k > 0): room grows; a writability edge is raised iff nospace was set *)
Definition kpeer (s : st) (k : nat) : st :=
  mk (q s) (wadded s) (closed s) (dial s) (room s + k) false (reg s) (mout s) (armed s)
     (if nospace s then true else eout s) (pw s) (owed s) (prd s) (sent s).

Section M.
Variable md : mode.

Definition is_et : bool := match md with LT => false | _ => true end.
Definition is_os : bool := match md with ETOS => true | _ => false end.

(* is an EPOLLOUT report for the fd available to epoll_wait?  spur: the kernel may also report a level-ready OUT
   together with another bit's edge (one ready-list entry per fd); the emulated kernel never does, Linux may *)
Definition deliverable_out (s : st) (spur : bool) : bool :=
  reg s && mout s && (0 <? room s) &&
  (if is_et then eout s || spur else true) && (if is_os then armed s else true).

(* ---- poller.setRead / setReadWrite with EPOLL_CTL_MOD (poller_epoll.go): a no-op in pure ET;
        before the fd is registered the kernel answers ENOENT, which the callers ignore ---- *)
Definition pmod (s : st) (out : bool) : st :=
  match md with
  | ET => s
  | _ => if reg s then kctl s out else s
  end.

(* Conn.modWrite / Conn.resetRead (conn_unix.go) *)
Definition modWrite (s : st) : st :=
  if closed s || wadded s then s else pmod (set_wadded s true) true.
Definition resetRead (s : st) : st :=
  if negb (closed s) && wadded s then pmod (set_wadded s false) false else s.

(* the common tail of Write / Writev: queue empty -> (write timer dropped) else modWrite *)
Definition wtail (s : st) : st := if q s =? 0 then s else modWrite s.

(* Conn.flush *)
Definition flush (s : st) : st :=
  if closed s then s else
  if q s =? 0 then resetRead s else
  let '(s1, k) := ksend s (q s) in
  let s2 := set_q s1 (q s1 - k) in
  if q s2 =? 0 then resetRead s2 else s2.

(* Conn.ResetPollerEvent, for a delivered event *)
Definition rearm (s : st) : st :=
  match owed s with
  | O => s
  | S o =>
    let s1 := set_owed s o in
    match md with
    | ETOS => if closed s1 then s1 else
              (* the flag follows what is registered (D38) *)
              let s2 := set_wadded s1 (0 <? q s1) in
              if reg s2 then kctl s2 (0 <? q s2) else s2
    | _ => s1
    end
  end.

(* the poller is through with the OUT bit of the event it holds: after a write-only event in ONESHOT mode its own
   ResetPollerEvent is now due; an event that also carries IN gets its re-arm from the read part (ReadDispatch) *)
Definition release (s : st) : st :=
  set_pw (if is_os && negb (prd s) then set_owed s (S (owed s)) else s) WNone.

Inductive action :=
| AppWrite (n : nat)        (* Write / Writev of n bytes, from any goroutine or callback, at any time *)
| AppSendfile (n : nat)     (* Sendfile of n bytes *)
| Register                  (* poller.addConn: the ADD after the open handler, by isWAdded, under the lock *)
| RegisterDial              (* poller.addDialer, connect(2) in progress: isWAdded := true, ADD with EPOLLOUT; callback pending *)
| RegisterDialNow           (* poller.addDialer, connect(2) completed at once: the same without a pending callback *)
| PeerRead (k : nat)        (* the peer consumes k bytes *)
| Deliver (rd spur : bool)  (* epoll_wait hands the poller the fd's event: OUT iff deliverable, IN|PRI iff rd *)
| HandleOut                 (* the poller handles the OUT bit: takeOnConnected, then flush or the dial callback *)
| ConnDone                  (* the dial callback has returned: under the lock, queue empty -> resetRead *)
| ReadDispatch (co : bool)  (* the poller dispatches the IN part: the read pass in the poller (co = false), or AsyncRead: a new
                               read task (co = false) or absorbed by the task that is already running (co = true, D40) *)
| Rearm                     (* ResetPollerEvent owed for a delivered ONESHOT event (poller, async read task, custom OnRead) *)
| Close.                    (* closeWithError, any cause: closed := true, queue released, fd closed *)

Definition step (s : st) (a : action) : st :=
  match a with
  | AppWrite n =>
      if closed s || dial s then s else
      let s1 :=
        if n =? 0 then s else
        if q s =? 0 then
          let '(s1, k) := ksend s n in set_q s1 (n - k)
        else set_q s (q s + n) in
      wtail s1
  | AppSendfile n =>
      if closed s || dial s then s else
      if n =? 0 then s else
      if q s =? 0 then
        let '(s1, k) := ksend s n in
        if k <? n then modWrite (set_q s1 (n - k)) else s1
      else set_q s (q s + n)
  | Register =>
      if closed s || reg s then s else
      kadd s (match md with ET => true | _ => wadded s end)
  | RegisterDial =>
      if closed s || reg s || negb (q s =? 0) then s else
      kadd (set_dial (set_wadded s true) true) true
  | RegisterDialNow =>
      if closed s || reg s || negb (q s =? 0) then s else
      kadd (set_wadded s true) true
  | PeerRead k =>
      if closed s || (k =? 0) then s else kpeer s k
  | Deliver rd spur =>
      if closed s || negb (reg s) then s else
      match pw s with
      | WNone =>
          if prd s || (is_os && negb (armed s)) then s else
          let out := deliverable_out s spur in
          (* a socket whose connect(2) is still pending has nothing to read; once connected it is writable *)
          if (out || rd) && negb (dial s && negb out) then
            mk (q s) (wadded s) (closed s) (dial s) (room s) (nospace s) (reg s) (mout s)
               (if is_os then false else armed s)
               (if out then false else eout s)
               (if out then WOut else WNone)
               (owed s) rd (sent s)
          else s
      | _ => s
      end
  | HandleOut =>
      match pw s with
      | WOut =>
          if negb (closed s) && dial s then set_pw (set_dial s false) WConn
          else flush (release s)
      | _ => s
      end
  | ConnDone =>
      match pw s with
      | WConn => let s1 := release s in if q s1 =? 0 then resetRead s1 else s1
      | _ => s
      end
  | ReadDispatch co =>
      match pw s with
      | WNone =>
          if prd s then
            let s1 := set_prd s false in
            (* ONESHOT: the read pass / the new read task ends with ResetPollerEvent; an absorbed event is re-armed by the
               task that is already running, which still owes its ResetPollerEvent *)
            if is_os && negb (co && (0 <? owed s)) then set_owed s1 (S (owed s)) else s1
          else s
      | _ => s
      end
  | Rearm => rearm s
  | Close =>
      if closed s then s else
      mk 0 (wadded s) true false (room s) (nospace s) false (mout s) (armed s) (eout s) (pw s) (owed s) (prd s) (sent s)
  end.

Definition run (r0 : nat) (l : list action) : st := fold_left step l (init r0).

(* ---- the poller's uninterrupted handling of a writability event, and the fair round ---- *)
Definition handle_out (s : st) : st := step (step (step s (Deliver false false)) HandleOut) Rearm.

Fixpoint rearms (n : nat) (s : st) : st :=
  match n with O => s | S n' => rearms n' (rearm s) end.

(* everything already under way completes: addConn registers, the poller finishes the event it holds,
   every owed ResetPollerEvent is made *)
Definition finish (s : st) : st :=
  let s1 := step s Register in
  let s2 := step (step (step s1 HandleOut) ConnDone) (ReadDispatch false) in
  rearms (owed s2) s2.

(* fair round: what is under way completes, the peer makes room (k > 0 bytes), the poller handles what is deliverable;
   no application action *)
Definition round (s : st) (k : nat) : st := handle_out (step (finish s) (PeerRead (S k))).

End M.

(* observation used by the correspondence harness *)
Definition obs (s : st) : list nat :=
  let b (x : bool) := if x then 1 else 0 in
  [q s; b (wadded s); b (closed s); room s; b (reg s); b (mout s); b (armed s); b (eout s); b (nospace s);
   match pw s with WNone => 0 | WOut => 1 | WConn => 2 end; owed s; sent s; b (dial s); b (prd s)].
