(* Property C04 - flush liveness: a backlog always drains when the peer makes room, wherever the write was issued, in the
   three epoll modes (level-triggered, edge-triggered, edge-triggered + ONESHOT).

   Model (WakeModel.v): one connection's write queue and isWAdded flag (conn_unix.go: Write/Writev/Sendfile tails,
   modWrite, resetRead, flush), the registration order of addConn / addDialer and the poller's event handling
   (poller_epoll.go: readWriteLoop, setRead/setReadWrite incl. the no-op MOD in pure ET, ResetPollerEvent; the dispatch of
   the read part incl. the gate of Conn.AsyncRead: an event absorbed by the running read task is re-armed by that task),
   coupled with a kernel send buffer (room, SOCK_NOSPACE) and the descriptor's epoll entry (registered, EPOLLOUT in the mask, ONESHOT
   armed, pending ET report). Actions are the critical sections of Conn.mux and the kernel steps; application writes are
   enabled at any time from any goroutine (inside open / data / close callbacks, before or after the registration), so the
   theorems quantify over all interleavings at that granularity.

   Kernel assumptions (K3/K4, modelled, checked against Linux by the real-socket tier of harness/cmd/wake): a send takes
   min(offered, room); a short count / EAGAIN sets NOSPACE; the peer's read raises a writability edge iff NOSPACE was set;
   ADD/MOD re-arm a ONESHOT entry and re-evaluate readiness. The model kernel reports no more than that (Linux reports
   more: see `spur`), which is the conservative side for a liveness claim; Deliver's spur input covers the extra reports.

   Liveness is stated as bounded progress under an explicit fairness notion (`round`), not for an arbitrary fair scheduler. *)
From Coq Require Import List Arith Lia Bool.
From WakeC Require Import WakeModel WakeInv WakeProofs WakeDrain WakeIdle WakeOld.
Import ListNotations.

(* the coupling invariant holds in every reachable state: any interleaving of writes (before / after registration, from
   any callback or goroutine), registration, dial completion, peer reads, event deliveries (with or without the extra
   level reports of Linux), the poller's handling steps, ResetPollerEvent and close *)
Theorem c04_inv_reachable md r0 l : Inv md (run md r0 l).
Proof. exact (inv_reachable md r0 l). Qed.

(* no lost wake-up: backlog, registered, the peer has made room, the poller holds nothing => a writability event is deliverable *)
Theorem c04_no_lost_wakeup md r0 l :
  let s := run md r0 l in
  closed s = false -> reg s = true -> quiescent s -> 0 < q s -> 0 < room s ->
  deliverable_out md s false = true.
Proof. intros s. apply no_lost_wakeup. apply inv_reachable. Qed.

(* handling that event strictly shrinks the backlog, and what left the queue went to the kernel *)
Theorem c04_progress md s :
  closed s = false -> dial s = false -> quiescent s -> deliverable_out md s false = true -> 0 < q s ->
  q (handle_out md s) < q s /\ q (handle_out md s) + sent (handle_out md s) = q s + sent s.
Proof. exact (progress md s). Qed.

(* the backlog drains: from any reachable open state, `backlog` fair rounds (what is under way completes - including
   addConn's registration when the writes were issued before it -, the peer makes some room, the poller handles what is
   deliverable; no application call) empty the queue, every queued byte has been handed to the kernel *)
Theorem c04_drains md r0 l ks :
  let s := run md r0 l in
  closed s = false -> dial s = false -> q s <= length ks ->
  q (rounds md s ks) = 0 /\ sent (rounds md s ks) = sent s + q s /\ closed (rounds md s ks) = false.
Proof. intros s. apply drains. apply inv_reachable. Qed.

(* the property's anchor: the write-interest flag agrees with the registered mask (where the mask can change) *)
Theorem c04_flag_agrees md r0 l :
  let s := run md r0 l in
  closed s = false -> reg s = true -> md <> ET -> mout s = wadded s.
Proof. intros s. apply flag_agrees. apply inv_reachable. Qed.

(* no EPOLLOUT busy loop: after the poller handled a writability event on an empty queue nothing is deliverable (D32) *)
Theorem c04_no_idle_spin md r0 l :
  let s := run md r0 l in
  closed s = false -> dial s = false -> pw s = WNone -> prd s = false -> q s = 0 -> deliverable_out md s false = true ->
  deliverable_out md (handle_out md s) false = false.
Proof. intros s. apply no_idle_spin. apply inv_reachable. Qed.

(* refutations of the unrepaired code: what the model catches *)
Theorem d3_refuted : stalled LT (fold_left (step_d3 LT) [AppWrite 5; Register; PeerRead 1] (init 2)).
Proof. exact d3_witness. Qed.
Theorem d19_refuted :
  stalled ETOS (fold_left step_d19 [Register; AppWrite 10; PeerRead 2; Deliver false false; HandleOut; PeerRead 2] (init 2)).
Proof. exact d19_witness. Qed.
Theorem dial_callback_refuted :
  stalled LT (fold_left (step_d31 LT) [RegisterDial; Deliver false false; HandleOut; AppWrite 10; ConnDone; PeerRead 1] (init 2)).
Proof. exact d31_witness. Qed.

Theorem dialnow_oneshot_refuted : stalled ETOS (fold_left step_d38 d38_history (init 2)).
Proof. exact d38_witness. Qed.

(* non-vacuity: a write from the open handler (before the registration) of 10 bytes into a send buffer of 4, ONESHOT mode;
   the state is reachable, open, has a backlog of 6, and three fair rounds of 2 bytes of peer reading drain it *)
Example c04_example :
  let s := run ETOS 4 [AppWrite 10; Register] in
  closed s = false /\ dial s = false /\ q s = 6 /\
  q (rounds ETOS s [1; 1; 1; 1; 1; 1]) = 0 /\ sent (rounds ETOS s [1; 1; 1; 1; 1; 1]) = 10.
Proof. vm_compute. repeat split; reflexivity. Qed.

Print Assumptions c04_inv_reachable.
Print Assumptions c04_no_lost_wakeup.
Print Assumptions c04_progress.
Print Assumptions c04_drains.
Print Assumptions c04_flag_agrees.
Print Assumptions c04_no_idle_spin.
Print Assumptions d3_refuted.
Print Assumptions d19_refuted.
Print Assumptions dial_callback_refuted.
Print Assumptions dialnow_oneshot_refuted.
