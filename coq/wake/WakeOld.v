(* What the model catches: the unrepaired code (D3, D19, D31, D32, D38) violates the statements, with concrete witnesses.
   D31, D32 and D38 were found while this component was built (D38 by the one preservation lemma that would not go through). *)
From Coq Require Import List Arith Bool Lia.
From WakeC Require Import WakeModel.
Import ListNotations.

(* D3 (before 5ad1ef4): addConn always registered with addRead, whatever the open handler had left in the queue *)
Definition step_d3 (md : mode) (s : st) (a : action) : st :=
  match a with
  | Register => if closed s || reg s then s else kadd s (match md with ET => true | _ => false end)
  | _ => step md s a
  end.

(* D19 (before fe8fd44): no ResetPollerEvent after a write-only event in ONESHOT mode *)
Definition step_d19 (s : st) (a : action) : st :=
  match a with
  | HandleOut =>
      match pw s with
      | WOut => if negb (closed s) && dial s then set_pw (set_dial s false) WConn else flush ETOS (set_pw s WNone)
      | _ => s
      end
  | _ => step ETOS s a
  end.

(* D31 (before 1f7888d): after the dial callback the poller switched back to read-only unconditionally *)
Definition step_d31 (md : mode) (s : st) (a : action) : st :=
  match a with
  | ConnDone => match pw s with WConn => resetRead md (release md s) | _ => s end
  | _ => step md s a
  end.

(* D32 (before 7baed9d): flush on an empty queue returned without dropping the write interest *)
Definition flush_d32 (md : mode) (s : st) : st :=
  if closed s then s else if q s =? 0 then s else flush md s.
Definition step_d32 (md : mode) (s : st) (a : action) : st :=
  match a with
  | HandleOut =>
      match pw s with
      | WOut => if negb (closed s) && dial s then set_pw (set_dial s false) WConn else flush_d32 md (release md s)
      | _ => s
      end
  | _ => step md s a
  end.

Definition stalled (md : mode) (s : st) : Prop :=
  closed s = false /\ reg s = true /\ pw s = WNone /\ prd s = false /\ owed s = 0 /\ 0 < q s /\ 0 < room s /\ deliverable_out md s false = false.

Lemma d3_witness :
  stalled LT (fold_left (step_d3 LT) [AppWrite 5; Register; PeerRead 1] (init 2)).
Proof. vm_compute. repeat split; auto; lia. Qed.

Lemma d3_witness_oneshot :
  stalled ETOS (fold_left (step_d3 ETOS) [AppWrite 5; Register; PeerRead 1] (init 2)).
Proof. vm_compute. repeat split; auto; lia. Qed.

Lemma d19_witness :
  stalled ETOS (fold_left step_d19 [Register; AppWrite 10; PeerRead 2; Deliver false false; HandleOut; PeerRead 2] (init 2)).
Proof. vm_compute. repeat split; auto; lia. Qed.

Lemma d31_witness :
  stalled LT (fold_left (step_d31 LT) [RegisterDial; Deliver false false; HandleOut; AppWrite 10; ConnDone; PeerRead 1] (init 2)).
Proof. vm_compute. repeat split; auto; lia. Qed.

(* D32: the idle dialer is reported writable again and again; the current code reports it once *)
Lemma d32_witness :
  let handled step := fold_left step [RegisterDialNow; Deliver false false; HandleOut; Deliver false false; HandleOut] (init 4) in
  (q (handled (step_d32 LT)) = 0 /\ deliverable_out LT (handled (step_d32 LT)) false = true) /\
  (q (handled (step LT)) = 0 /\ deliverable_out LT (handled (step LT)) false = false).
Proof. vm_compute. repeat split; auto. Qed.

(* The same histories on the current code do not stall *)
Lemma repaired_histories :
  deliverable_out LT (fold_left (step LT) [AppWrite 5; Register; PeerRead 1] (init 2)) false = true /\
  deliverable_out ETOS (fold_left (step ETOS) [Register; AppWrite 10; PeerRead 2; Deliver false false; HandleOut; Rearm; PeerRead 2] (init 2)) false = true /\
  deliverable_out LT (fold_left (step LT) [RegisterDial; Deliver false false; HandleOut; AppWrite 10; ConnDone; PeerRead 1] (init 2)) false = true.
Proof. vm_compute. repeat split; auto. Qed.

(* D38 (before 2094314): ResetPollerEvent re-armed by the queue but left isWAdded alone. addDialer raises the flag with an
   empty queue (a dial whose connect(2) completed at once); if the first event of the descriptor carries no OUT bit (the
   application filled the send buffer exactly before the poller looked), the re-arm is read-only while the flag stays up,
   and the next backlog finds "already armed": nothing is deliverable until the peer happens to send something. *)
Definition rearm_d38 (s : st) : st :=
  match owed s with
  | O => s
  | S o =>
    let s1 := set_owed s o in
    if closed s1 then s1 else if reg s1 then kctl s1 (0 <? q s1) else s1
  end.
Definition step_d38 (s : st) (a : action) : st :=
  match a with
  | Rearm => rearm_d38 s
  | _ => step ETOS s a
  end.

Definition d38_history : list action :=
  [RegisterDialNow; AppWrite 2; Deliver true false; ReadDispatch false; Rearm; PeerRead 2; AppWrite 5; PeerRead 2].

Lemma d38_witness : stalled ETOS (fold_left step_d38 d38_history (init 2)).
Proof. vm_compute. repeat split; auto; lia. Qed.

Lemma d38_repaired : deliverable_out ETOS (fold_left (step ETOS) d38_history (init 2)) false = true.
Proof. vm_compute. reflexivity. Qed.
