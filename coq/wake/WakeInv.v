(* The coupling invariant of the write wake-up protocol and the tactics shared by the per-action preservation lemmas. *)
From Coq Require Import List Arith Lia Bool.
From WakeC Require Import WakeModel.
Import ListNotations.

Section I.
Variable md : mode.

Definition Inv (s : st) : Prop :=
  closed s = true \/
  ( closed s = false /\
    (dial s = true -> q s = 0 /\ wadded s = true /\ reg s = true /\ mout s = true /\ owed s = 0 /\ pw s <> WConn /\
                      (prd s = true -> pw s = WOut)) /\
    (pw s = WConn -> wadded s = true /\ mout s = true /\ owed s = 0 /\ dial s = false) /\
    (0 < q s -> wadded s = true) /\
    match md with
    | ET => True
    | _ => reg s = true -> mout s = wadded s
    end /\
    (reg s = true -> 0 < q s ->
       mout s = true /\
       match md with
       | LT => True
       | _ => (room s = 0 -> nospace s = true) /\ (0 < room s -> eout s = true \/ pw s = WOut)
       end) /\
    (reg s = true ->
       match md with LT => True | ET => mout s = true | ETOS => armed s = true \/ 0 < owed s \/ pw s <> WNone \/ prd s = true end) /\
    (reg s = false -> 0 < q s -> room s = 0 -> nospace s = true) /\
    (md <> ETOS -> owed s = 0) /\
    (reg s = false -> owed s = 0) /\
    (pw s <> WNone -> reg s = true) /\
    (prd s = true -> reg s = true) ).

End I.

Ltac boolprop :=
  repeat match goal with
  | H : (_ <=? _) = true |- _ => apply Nat.leb_le in H
  | H : (_ <=? _) = false |- _ => apply Nat.leb_gt in H
  | H : (_ <? _) = true |- _ => apply Nat.ltb_lt in H
  | H : (_ <? _) = false |- _ => apply Nat.ltb_ge in H
  | H : (_ =? _) = true |- _ => apply Nat.eqb_eq in H
  | H : (_ =? _) = false |- _ => apply Nat.eqb_neq in H
  | H : _ && _ = true |- _ => apply andb_true_iff in H; destruct H
  | H : _ || _ = false |- _ => apply orb_false_iff in H; destruct H
  | H : negb _ = true |- _ => apply negb_true_iff in H
  | H : negb _ = false |- _ => apply negb_false_iff in H
  end.

Ltac split_ifs :=
  repeat match goal with
  | |- context[if ?b then _ else _] => destruct b eqn:?
  | |- context[match ?b with WNone => _ | _ => _ end] => destruct b eqn:?
  | |- context[match ?b with O => _ | S _ => _ end] => destruct b eqn:?
  end.

Ltac forward :=
  repeat match goal with
  | H : ?P -> _ |- _ =>
      match type of P with Prop =>
        let HP := fresh "HP" in
        assert (HP : P) by (first [assumption | reflexivity | lia | congruence]);
        specialize (H HP); clear HP
      end
  end.

Ltac fin :=
  repeat match goal with
  | H : ?x = true, H' : context[?x] |- _ => rewrite H in H'
  | H : ?x = false, H' : context[?x] |- _ => rewrite H in H'
  end;
  cbn [andb orb negb] in *; boolprop; try (apply Nat.ltb_lt); try discriminate; try congruence; try lia;
  forward;
  repeat match goal with H : _ /\ _ |- _ => destruct H end;
  forward;
  try discriminate; try congruence; try lia; try tauto;
  try (match goal with H : _ && _ = false |- _ => apply andb_false_iff in H; destruct H end;
       boolprop; try congruence; try lia; try tauto);
  try (right; right; discriminate); try (right; discriminate); try (right; right; left; discriminate);
  try (match goal with H : _ \/ _ |- _ => solve [destruct H; try congruence; try lia; try tauto] end);
  try (match goal with H : ?x <> WNone -> _ |- _ => destruct x eqn:?; try congruence; try tauto;
         try solve [exfalso; assert (HH : WConn <> WNone) by discriminate; specialize (H HH); congruence] end);
  try solve [intuition (try congruence; try lia; try discriminate)].

Ltac unfold_all :=
  unfold step, flush, release, wtail, modWrite, resetRead, rearm, pmod, kadd, kctl, ksend, kpeer, deliverable_out, is_et, is_os,
         set_q, set_wadded, set_pw, set_owed, set_dial, set_prd.

Ltac simp_proj := cbn [q wadded closed dial room nospace reg mout armed eout pw owed prd sent fst snd].

Ltac simp_proj_all := cbn [q wadded closed dial room nospace reg mout armed eout pw owed prd sent fst snd] in *.

Lemma flush_closed md s : closed s = true -> flush md s = s.
Proof. intros H. unfold flush. now rewrite H. Qed.
Lemma resetRead_closed md s : closed s = true -> resetRead md s = s.
Proof. intros H. unfold resetRead. now rewrite H. Qed.

Lemma release_closed md s : closed (release md s) = closed s.
Proof. unfold release, set_pw, set_owed. destruct (is_os md && negb (prd s)); reflexivity. Qed.

(* a closed connection stays closed *)
Lemma closed_stays md s a : closed s = true -> closed (step md s a) = true.
Proof.
  intros H. destruct a; cbn [step]; rewrite ?H; cbn [orb andb negb]; auto.
  - destruct (pw s); auto. rewrite flush_closed; rewrite release_closed; auto.
  - destruct (pw s); auto.
    match goal with |- context[if ?b then _ else _] => destruct b end; try rewrite resetRead_closed; rewrite release_closed; auto.
  - destruct (pw s); auto. unfold set_prd, set_owed.
    repeat match goal with |- context[if ?b then _ else _] => destruct b end; simp_proj; auto.
  - unfold rearm, set_owed, set_wadded. destruct (owed s); auto. destruct md; simp_proj; rewrite ?H; auto.
Qed.

Ltac start :=
  intros [Hc | (Hc & HA & HB & H1 & H5 & H2 & H3 & H4 & H6 & H8 & H7 & H9)];
  [ left; apply closed_stays; exact Hc | ].

Ltac pre_rw :=
  repeat match goal with
  | H : ?x = true |- context[?x] => rewrite H
  | H : ?x = false |- context[?x] => rewrite H
  | H : ?x = WNone |- context[?x] => rewrite H
  | H : ?x = WOut |- context[?x] => rewrite H
  | H : ?x = WConn |- context[?x] => rewrite H
  end.

Ltac go :=
  unfold_all; simp_proj; pre_rw; cbn [orb andb negb]; split_ifs; simp_proj_all; boolprop;
  try (left; reflexivity);
  right; simp_proj; (repeat split; intros; fin).

Ltac start' :=
  intros [Hc | (Hc & HA & HB & H1 & H5 & H2 & H3 & H4 & H6 & H8 & H7 & H9)].

(* like go, for a goal in which the step has already been unfolded as far as wanted *)
Ltac go2 :=
  simp_proj; pre_rw; cbn [orb andb negb]; split_ifs; simp_proj_all; boolprop;
  try (left; reflexivity);
  right; simp_proj; (repeat split; intros; fin).

(* goals of the form (0 <? q s) = wadded s (ResetPollerEvent sets the mask by the queue) *)
Ltac fin2 :=
  match goal with |- (0 <? ?x) = ?w =>
    destruct (0 <? x) eqn:?; destruct w eqn:?; boolprop; auto; try lia; try congruence;
    try solve [ exfalso;
      repeat match goal with H : ?y <= 0 |- _ => assert (y = 0) by lia; clear H end;
      forward;
      repeat match goal with
      | H : _ /\ _ |- _ => destruct H
      | H : _ \/ _ |- _ => destruct H
      end; forward; repeat match goal with H : _ /\ _ |- _ => destruct H end;
      try congruence; try lia; try discriminate ]
  end.
