(* The coupling invariant of the write wake-up protocol and the tactics shared by the per-action preservation lemmas. *)
From Coq Require Import List Arith Lia Bool.
From WakeC Require Import WakeModel.
Import ListNotations.

Section I.
Variable md : mode.

Definition Inv (s : st) : Prop :=
  closed s = true \/
  ( dial s = false /\ pw s <> WConn /\
    (0 < q s -> wadded s = true) /\
    (q s = 0 -> wadded s = false) /\
    (reg s = true -> 0 < q s ->
       mout s = true /\
       match md with
       | LT => True
       | _ => (room s = 0 -> nospace s = true) /\ (0 < room s -> eout s = true \/ pw s = WOut)
       end) /\
    (reg s = true -> match md with LT => True | ET => mout s = true | ETOS => armed s = true \/ 0 < owed s end) /\
    (reg s = false -> 0 < q s -> room s = 0 -> nospace s = true) /\
    (md <> ETOS -> owed s = 0) /\
    (pw s = WOut -> reg s = true) ).

End I.

Ltac boolprop :=
  repeat match goal with
  | H : (_ <=? _) = true |- _ => apply Nat.leb_le in H
  | H : (_ <=? _) = false |- _ => apply Nat.leb_gt in H
  | H : (_ <? _) = true |- _ => apply Nat.ltb_lt in H
  | H : (_ <? _) = false |- _ => apply Nat.ltb_ge in H
  | H : (_ =? _) = true |- _ => apply Nat.eqb_eq in H
  | H : (_ =? _) = false |- _ => apply Nat.eqb_neq in H
  | H : _ && _ = true |- _ => apply andb_true_iff in H; destruct H
  | H : _ || _ = false |- _ => apply orb_false_iff in H; destruct H
  | H : negb _ = true |- _ => apply negb_true_iff in H
  | H : negb _ = false |- _ => apply negb_false_iff in H
  end.

Ltac split_ifs :=
  repeat match goal with
  | |- context[if ?b then _ else _] => destruct b eqn:?
  | |- context[match ?b with WNone => _ | _ => _ end] => destruct b eqn:?
  end.

Ltac forward :=
  repeat match goal with
  | H : ?P -> _ |- _ =>
      match type of P with Prop =>
        let HP := fresh "HP" in
        assert (HP : P) by (first [assumption | reflexivity | lia | congruence]);
        specialize (H HP); clear HP
      end
  end.

Ltac fin :=
  repeat match goal with
  | H : ?x = true, H' : context[?x] |- _ => rewrite H in H'
  | H : ?x = false, H' : context[?x] |- _ => rewrite H in H'
  end;
  cbn [andb orb negb] in *; boolprop; try (apply Nat.ltb_lt); try discriminate; try congruence; try lia;
  forward;
  repeat match goal with H : _ /\ _ |- _ => destruct H end;
  forward;
  try discriminate; try congruence; try lia; try tauto;
  try (match goal with H : _ && _ = false |- _ => apply andb_false_iff in H; destruct H end;
       boolprop; try congruence; try lia; try tauto);
  try (match goal with H : _ \/ _ |- _ => destruct H end; try congruence; try lia; try tauto).

Ltac unfold_all :=
  unfold step, flush, wtail, modWrite, resetRead, rearm, pmod, kadd, kctl, ksend, kpeer, deliverable_out, is_et, is_os,
         set_q, set_wadded, set_pw, set_owed, set_dial.

Ltac simp_proj := cbn [q wadded closed dial room nospace reg mout armed eout pw owed sent fst snd].
