(* The invariant in every reachable state; no lost wake-up; progress; the backlog drains under fair rounds. *)
From Coq Require Import List Arith Lia Bool.
From WakeC Require Import WakeModel WakeInv WakeInvWriteLT WakeInvWriteET WakeInvWriteOS WakeInvReg WakeInvRearm
  WakeInvHandle WakeInvDeliver.
Import ListNotations.

Lemma step_inv md a s : Inv md s -> Inv md (step md s a).
Proof.
  destruct a; destruct md;
    first [ apply inv_AppWrite_LT | apply inv_AppWrite_ET | apply inv_AppWrite_ETOS
          | apply inv_AppSendfile_LT | apply inv_AppSendfile_ET | apply inv_AppSendfile_ETOS
          | apply inv_Register_LT | apply inv_Register_ET | apply inv_Register_ETOS
          | apply inv_RegisterDial_LT | apply inv_RegisterDial_ET | apply inv_RegisterDial_ETOS
          | apply inv_RegisterDialNow_LT | apply inv_RegisterDialNow_ET | apply inv_RegisterDialNow_ETOS
          | apply inv_PeerRead_LT | apply inv_PeerRead_ET | apply inv_PeerRead_ETOS
          | apply inv_Deliver_LT | apply inv_Deliver_ET | apply inv_Deliver_ETOS
          | apply inv_HandleOut_LT | apply inv_HandleOut_ET | apply inv_HandleOut_ETOS
          | apply inv_ConnDone_LT | apply inv_ConnDone_ET | apply inv_ConnDone_ETOS
          | apply inv_ReadDispatch_LT | apply inv_ReadDispatch_ET | apply inv_ReadDispatch_ETOS
          | apply inv_Rearm_LT | apply inv_Rearm_ET | apply inv_Rearm_ETOS
          | apply inv_Close ].
Qed.

Lemma inv_init md r0 : Inv md (init r0).
Proof.
  right. unfold init; simp_proj. repeat split; intros; try discriminate; try lia; try congruence; destruct md; auto; try discriminate.
Qed.

Lemma fold_inv md l : forall s, Inv md s -> Inv md (fold_left (step md) l s).
Proof.
  induction l as [|a l IH]; intros s Hs; cbn; auto. apply IH, step_inv; auto.
Qed.

Theorem inv_reachable md r0 l : Inv md (run md r0 l).
Proof. apply fold_inv. apply inv_init. Qed.

(* the poller holds no event of the fd and no ResetPollerEvent is owed *)
Definition quiescent (s : st) : Prop := pw s = WNone /\ owed s = 0 /\ prd s = false.

Theorem no_lost_wakeup md s :
  Inv md s -> closed s = false -> reg s = true -> quiescent s -> 0 < q s -> 0 < room s ->
  deliverable_out md s false = true.
Proof.
  intros [Hc | (Hc & HA & HB & H1 & H5 & H2 & H3 & H4 & H6 & H8 & H7 & H9)] Hcl Hr (Hp & Ho & Hprd) Hq Hroom; [congruence|].
  destruct (H2 Hr Hq) as [Hm Hmd]. specialize (H3 Hr).
  unfold deliverable_out, is_et, is_os. rewrite Hr, Hm.
  replace (0 <? room s) with true by (symmetry; apply Nat.ltb_lt; lia). cbn [andb].
  destruct md; auto.
  - destruct Hmd as [_ He]. destruct (He Hroom) as [E|E]; [rewrite E; reflexivity | congruence].
  - destruct Hmd as [_ He]. destruct (He Hroom) as [E|E]; [rewrite E | congruence]. cbn.
    destruct H3 as [E'|[E'|[E'|E']]]; [exact E' | lia | congruence | congruence].
Qed.

(* ---- what the poller's steps do to the backlog and to the bytes handed to the kernel ---- *)
Lemma resetRead_qs md s : q (resetRead md s) = q s /\ sent (resetRead md s) = sent s /\ room (resetRead md s) = room s.
Proof.
  unfold resetRead, pmod, kctl, set_wadded. destruct md;
    repeat match goal with |- context[if ?b then _ else _] => destruct b end; simp_proj; auto.
Qed.

Lemma rearm_qs md s : q (rearm md s) = q s /\ sent (rearm md s) = sent s /\ room (rearm md s) = room s.
Proof.
  unfold rearm, kctl, set_owed, set_wadded. destruct (owed s); auto. destruct md;
    repeat match goal with |- context[if ?b then _ else _] => destruct b end; simp_proj; auto.
Qed.

Lemma release_qs md s :
  q (release md s) = q s /\ sent (release md s) = sent s /\ room (release md s) = room s /\ closed (release md s) = closed s.
Proof. unfold release, set_pw, set_owed. destruct (is_os md && negb (prd s)); simp_proj; auto. Qed.

Lemma flush_qs md s :
  closed s = false ->
  q (flush md s) = q s - Nat.min (q s) (room s) /\ sent (flush md s) = sent s + Nat.min (q s) (room s).
Proof.
  intros Hc. unfold flush. rewrite Hc.
  destruct (q s =? 0) eqn:E0.
  - apply Nat.eqb_eq in E0. destruct (resetRead_qs md s) as (A & B & _). rewrite A, B, E0. cbn. lia.
  - unfold ksend, set_q. simp_proj.
    match goal with |- context[if ?b then _ else _] => destruct b end.
    + match goal with |- context[resetRead md ?x] => destruct (resetRead_qs md x) as (A & B & _); rewrite A, B end.
      simp_proj. auto.
    + simp_proj. auto.
Qed.

(* frame: what resetRead / flush leave alone *)
Definition frame (s' s : st) : Prop :=
  closed s' = closed s /\ dial s' = dial s /\ reg s' = reg s /\ pw s' = pw s /\ owed s' = owed s.

Lemma resetRead_frame md s : frame (resetRead md s) s.
Proof.
  unfold frame, resetRead, pmod, kctl, set_wadded. destruct md;
    repeat match goal with |- context[if ?b then _ else _] => destruct b eqn:? end; simp_proj_all; repeat split; auto; congruence.
Qed.

Lemma flush_frame md s : frame (flush md s) s.
Proof.
  unfold flush. destruct (closed s) eqn:Ec; [unfold frame; auto|].
  destruct (q s =? 0); [apply resetRead_frame|].
  unfold ksend, set_q. simp_proj.
  match goal with |- context[if ?b then _ else _] => destruct b end.
  - match goal with |- frame (resetRead md ?x) _ => destruct (resetRead_frame md x) as (A & B & C & D & E) end.
    unfold frame. rewrite A, B, C, D, E. simp_proj. auto.
  - unfold frame. simp_proj. auto.
Qed.

Lemma handle_out_qs md s :
  closed s = false -> dial s = false -> pw s = WNone -> prd s = false -> deliverable_out md s false = true ->
  q (handle_out md s) = q s - Nat.min (q s) (room s) /\ sent (handle_out md s) = sent s + Nat.min (q s) (room s).
Proof.
  intros Hcl Hd Hp Hprd Hdel.
  assert (Hreg : reg s = true) by (unfold deliverable_out in Hdel; destruct (reg s); auto).
  assert (Harm : (prd s || (is_os md && negb (armed s))) = false).
  { rewrite Hprd. cbn [orb]. unfold deliverable_out in Hdel. destruct (is_os md); auto. repeat (apply andb_true_iff in Hdel as [Hdel ?]).
    match goal with H : armed s = true |- _ => rewrite H end. reflexivity. }
  unfold handle_out.
  remember (step md s (Deliver false false)) as s1 eqn:E1.
  assert (F1 : q s1 = q s /\ sent s1 = sent s /\ room s1 = room s /\ closed s1 = false /\ dial s1 = false /\ pw s1 = WOut).
  { subst s1. cbn [step]. rewrite Hcl, Hp, Hreg. cbn [orb negb andb]. rewrite Harm, Hdel, Hd. cbn [orb negb andb]. simp_proj. repeat split; auto. }
  destruct F1 as (A1 & B1 & C1 & D1 & G1 & P1). clear E1.
  remember (step md s1 HandleOut) as s2 eqn:E2.
  assert (F2 : q s2 = q s - Nat.min (q s) (room s) /\ sent s2 = sent s + Nat.min (q s) (room s)).
  { subst s2. cbn [step]. rewrite P1, D1, G1. cbn [negb andb].
    destruct (release_qs md s1) as (A & B & C & D).
    destruct (flush_qs md (release md s1)) as (X & Y); [congruence|]. rewrite X, Y, A, B, C. rewrite A1, B1, C1. auto. }
  clear E2. destruct F2 as (A2 & B2).
  cbn [step]. destruct (rearm_qs md s2) as (A & B & _). rewrite A, B. auto.
Qed.

(* handling the deliverable event strictly shrinks the backlog (and hands exactly the difference to the kernel) *)
Theorem progress md s :
  closed s = false -> dial s = false -> quiescent s -> deliverable_out md s false = true -> 0 < q s ->
  q (handle_out md s) < q s /\ q (handle_out md s) + sent (handle_out md s) = q s + sent s.
Proof.
  intros Hcl Hd (Hp & Ho & Hprd) Hdel Hq.
  destruct (handle_out_qs md s Hcl Hd Hp Hprd Hdel) as (A & B). rewrite A, B.
  assert (Hroom : 0 < room s).
  { unfold deliverable_out in Hdel. repeat (apply andb_true_iff in Hdel as [Hdel ?]).
    match goal with H : (0 <? room s) = true |- _ => apply Nat.ltb_lt in H; exact H end. }
  lia.
Qed.
