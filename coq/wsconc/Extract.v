(* Extraction of the executable write-side model (trusted base: Extraction, ExtrOcamlBasic, ExtrOcamlNatInt:
   nat -> OCaml int for frame identities, slot indices and the queue bound). *)
From Coq Require Import Extraction ExtrOcamlBasic ExtrOcamlNatInt.
From WsConcC Require SendQueue.
Extraction "sqmodel.ml" SendQueue.init SendQueue.step SendQueue.observe SendQueue.wire SendQueue.accepted SendQueue.hand SendQueue.somes SendQueue.begin_msg SendQueue.nframes SendQueue.wire_len.
