(* Invariant of the websocket write side (SendQueue.v), for both write modes, every queue bound, every action
   sequence and every answer of Conn.Write. *)
From Coq Require Import List Arith Lia Bool.
Import ListNotations.
Require Import SendQueue.

(* ---- list facts ---- *)
Lemma somes_app a b : somes (a ++ b) = somes a ++ somes b.
Proof. unfold somes. now rewrite flat_map_app. Qed.

Lemma somes_nones k : somes (repeat None k) = [].
Proof. induction k; cbn; auto. Qed.

Lemma somes_map_some p : somes (map Some p) = p.
Proof. induction p; cbn; auto. now f_equal. Qed.

Lemma somes_wipe (l : list (option nat)) : somes (map (fun _ => None) l) = [].
Proof. induction l; cbn; auto. Qed.

Lemma somes_shape k p : somes (repeat None k ++ map Some p) = p.
Proof. now rewrite somes_app, somes_nones, somes_map_some. Qed.

Lemma nth_shape k f (q : list (option nat)) : nth k (repeat None k ++ Some f :: q) None = Some f.
Proof. induction k; cbn; auto. Qed.

Lemma set_nth_shape k f (q : list (option nat)) : set_nth (repeat None k ++ Some f :: q) k = repeat None (S k) ++ q.
Proof. induction k; cbn; auto. now f_equal. Qed.

Lemma repeat_snoc (k : nat) : repeat (@None nat) k ++ [None] = repeat None (S k).
Proof. induction k; cbn; auto. now f_equal. Qed.

Lemma concat_map_snoc {A B} (g : A -> list B) l x : concat (map g (l ++ [x])) = concat (map g l) ++ g x.
Proof. rewrite map_app, concat_app. cbn. now rewrite app_nil_r. Qed.

Lemma shape_nil k (p : list nat) : repeat (@None nat) k ++ map Some p = [] -> k = 0 /\ p = [].
Proof. destruct k; cbn; [|discriminate]. destruct p; cbn; [auto|discriminate]. Qed.

Lemma shape_short k (p : list nat) : length (repeat (@None nat) k ++ map Some p) <= k -> p = [].
Proof. rewrite app_length, repeat_length, map_length. destruct p; cbn; [auto|lia]. Qed.

Arguments somes : simpl never.

(* ---- the invariant ---- *)
Definition call_ok (c : list nat * list nat * result) : Prop :=
  let '(fs, acc, r) := c in
  (exists rest, fs = acc ++ rest) /\ (r = ROk -> acc = fs) /\ (r = RClosed -> acc = []) /\ fs <> [].

Definition shape (s : st) : Prop :=
  exists k p, slots s = repeat None k ++ map Some p /\
              (forall d, dr s = Some d -> k = di d) /\
              (dr s = None -> failed s = false -> slots s = []).

Definition Inv (m : mode) (s : st) : Prop :=
  extra s = 0 /\
  accepted s = map fst (attempted s) ++ hand (dr s) ++ somes (slots s) ++ dropped s /\
  (closed s = false -> shape s /\ dropped s = []) /\
  (closed s = true -> somes (slots s) = []) /\
  (forall d, dr s = Some d -> 1 <= di d) /\
  (forall c, holder s = Some c -> closed s = false /\ cfs c = cacc c ++ crest c /\ crest c <> []) /\
  (failed s = false -> Forall (fun x => snd x = true) (attempted s)) /\
  (m = Direct -> slots s = [] /\ dr s = None) /\
  Forall call_ok (calls s).

Lemma init_inv m : Inv m init.
Proof.
  unfold Inv, init, accepted, shape; cbn. repeat split; auto; try discriminate; try (intros; discriminate).
  exists 0, []. cbn. repeat split; auto. intros; discriminate.
Qed.

Section Step.
Variable m : mode.
Variable maxq : nat.

(* the invariant with the accepted frames given explicitly and nothing said about the holder *)
Definition Inv0 (s : st) (acc : list nat) : Prop :=
  extra s = 0 /\
  concat (map (fun c => snd (fst c)) (calls s)) ++ acc = map fst (attempted s) ++ hand (dr s) ++ somes (slots s) ++ dropped s /\
  (closed s = false -> shape s /\ dropped s = []) /\
  (closed s = true -> somes (slots s) = []) /\
  (forall d, dr s = Some d -> 1 <= di d) /\
  (failed s = false -> Forall (fun x => snd x = true) (attempted s)) /\
  (m = Direct -> slots s = [] /\ dr s = None) /\
  Forall call_ok (calls s).

Lemma inv_inv0 s : Inv m s -> Inv0 s (cur (holder s)).
Proof.
  intros (He & Ha & Ho & Hc & Hd & Hh & Hf & Hm & Hk). unfold Inv0. unfold accepted in Ha.
  repeat split; auto; try (apply Ho; assumption); try (apply Hm; assumption).
Qed.

Lemma finish_inv s fs acc rest r :
  Inv0 s acc -> call_ok (fs, acc, r) -> Inv m (finish s {| cfs := fs; cacc := acc; crest := rest |} r).
Proof.
  intros (He & Ha & Ho & Hc & Hd & Hf & Hm & Hk) Hok.
  unfold Inv, accepted, finish; cbn.
  rewrite concat_map_snoc. cbn. rewrite app_nil_r.
  repeat split; auto; try (intros; discriminate); try (apply Ho; assumption); try (apply Hm; assumption).
  apply Forall_app. split; auto.
Qed.

Lemma set_holder_inv s c :
  Inv0 s (cacc c) -> closed s = false -> cfs c = cacc c ++ crest c -> crest c <> [] -> Inv m (set_holder s (Some c)).
Proof.
  intros (He & Ha & Ho & Hc & Hd & Hf & Hm & Hk) Hcl Hfs Hne.
  unfold Inv, accepted, set_holder; cbn.
  repeat split; auto; try (intros; discriminate); try (apply Ho; assumption); try (apply Hm; assumption);
  try (match goal with H : Some _ = Some _ |- _ => inversion H; subst; assumption end).
Qed.

Lemma advance_call_inv s c f rest :
  Inv0 s (cacc c ++ [f]) -> closed s = false -> cfs c = cacc c ++ f :: rest ->
  Inv m (advance_call s c f rest).
Proof.
  intros H0 Hcl Hfs. unfold advance_call. destruct rest as [|g rest].
  - apply finish_inv; auto. cbn. rewrite Hfs. repeat split; auto.
    + exists []. now rewrite app_nil_r.
    + intros E. discriminate.
    + destruct (cacc c); discriminate.
  - apply set_holder_inv; cbn; auto.
    + rewrite Hfs, <- app_assoc. reflexivity.
    + discriminate.
Qed.


(* Inv from its parts *)
Lemma inv_of_inv0 s :
  Inv0 s (cur (holder s)) ->
  (forall c, holder s = Some c -> closed s = false /\ cfs c = cacc c ++ crest c /\ crest c <> []) ->
  Inv m s.
Proof.
  intros (He & Ha & Ho & Hc & Hd & Hf & Hm & Hk) Hh. unfold Inv, accepted. repeat split; auto; try (apply Ho; assumption); try (apply Hm; assumption);
  try (match goal with H : holder s = Some _ |- _ => apply (Hh _ H) end).
Qed.

Lemma begin_inv s fs : Inv m s -> Inv m (step m maxq s (Begin fs)).
Proof.
  intros HI. pose proof (inv_inv0 s HI) as H0.
  cbn [step]. destruct (holder s) as [c|] eqn:Eh; [exact HI|].
  destruct fs as [|f fs]; [exact HI|]. cbn [cur] in H0.
  destruct H0 as (He & Ha & Ho & Hc & Hd & Hf & Hm & Hk).
  assert (Hrefuse : forall r, r <> ROk ->
            Inv m (mk (slots s) (closed s) None (dr s) (extra s) (attempted s) (failed s) (dropped s)
                      (calls s ++ [(f :: fs, [], r)]))).
  { intros r Hr. apply inv_of_inv0; cbn; [|intros; discriminate].
    unfold Inv0; cbn. rewrite concat_map_snoc. cbn. rewrite !app_nil_r in *.
    repeat split; auto; try (intros; discriminate); try (apply Ho; assumption); try (apply Hm; assumption).
    apply Forall_app. split; auto. constructor; [|constructor].
    cbn. repeat split; auto; try (intros; discriminate); try contradiction. now exists (f :: fs). }
  destruct (closed s) eqn:Ec.
  - apply Hrefuse. discriminate.
  - destruct (no_room m maxq s (f :: fs)).
    + apply Hrefuse. discriminate.
    + apply set_holder_inv; cbn; auto; [|discriminate].
      unfold Inv0; cbn. rewrite Ec. repeat split; auto; try (apply Ho; assumption); try (apply Hm; assumption);
        try (intros; discriminate).
Qed.

Lemma close_inv s : Inv m s -> Inv m (step m maxq s CloseClean).
Proof.
  intros HI. pose proof (inv_inv0 s HI) as H0.
  cbn [step]. destruct (holder s) as [c|] eqn:Eh; [exact HI|].
  destruct (closed s) eqn:Ec; [exact HI|]. cbn [cur] in H0.
  destruct H0 as (He & Ha & Ho & Hc & Hd & Hf & Hm & Hk).
  destruct (Ho Ec) as (Hs & Hdr).
  apply inv_of_inv0; cbn; [|intros; discriminate].
  unfold Inv0; cbn. rewrite somes_wipe. rewrite Hdr in *. cbn in *.
  rewrite !app_nil_r in *.
  repeat split; auto; try (intros; discriminate).
  - match goal with H : m = Direct |- _ => destruct (Hm H) as (Hs0 & Hd0) end. rewrite Hs0. reflexivity.
  - match goal with H : m = Direct |- _ => now destruct (Hm H) end.
Qed.

Lemma holder_keep s s' :
  Inv m s -> holder s' = holder s -> closed s' = closed s ->
  forall c, holder s' = Some c -> closed s' = false /\ cfs c = cacc c ++ crest c /\ crest c <> [].
Proof.
  intros (He & Ha & Ho & Hc & Hd & Hh & Hf & Hm & Hk) E1 E2 c E. rewrite E1 in E. rewrite E2. now apply Hh.
Qed.

Lemma dwrite_inv s ok : Inv m s -> Inv m (step m maxq s (DWrite ok)).
Proof.
  intros HI. pose proof (inv_inv0 s HI) as H0.
  cbn [step]. destruct (dr s) as [[i [f|]]|] eqn:Ed; try exact HI.
  destruct H0 as (He & Ha & Ho & Hc & Hd & Hf & Hm & Hk).
  assert (Hq : m <> Direct) by (intros E; destruct (Hm E); congruence).
  rewrite ?Ed in Ha. cbn [hand dph] in Ha.
  destruct ok.
  - apply inv_of_inv0; cbn; [|apply (holder_keep s); auto].
    unfold Inv0; cbn. rewrite map_app. cbn. rewrite <- app_assoc. cbn.
    split; [exact He|]. split; [exact Ha|]. split; [|split; [exact Hc|split; [|split; [|split; [|exact Hk]]]]].
    + intros H. destruct (Ho H) as ((k & p & Es & Hk1 & Hk2) & Hdr). split; [|exact Hdr].
      exists k, p. cbn. split; [exact Es|]. split.
      * intros d E. inversion E; subst. cbn. now apply (Hk1 _ Ed).
      * intros; discriminate.
    + intros d E. inversion E; subst. cbn. apply (Hd _ Ed).
    + intros H. apply Forall_app. split; auto.
    + intros H. contradiction.
  - apply inv_of_inv0; cbn; [|apply (holder_keep s); auto].
    unfold Inv0; cbn. rewrite map_app. cbn. rewrite <- app_assoc. cbn.
    split; [exact He|]. split; [exact Ha|]. split; [|split; [exact Hc|split; [|split; [|split; [|exact Hk]]]]].
    + intros H. destruct (Ho H) as ((k & p & Es & Hk1 & Hk2) & Hdr). split; [|exact Hdr].
      exists k, p. cbn. split; [exact Es|]. split; intros; discriminate.
    + intros; discriminate.
    + intros; discriminate.
    + intros H. contradiction.
Qed.

Lemma dadvance_inv s : Inv m s -> Inv m (step m maxq s DAdvance).
Proof.
  intros HI. pose proof (inv_inv0 s HI) as H0.
  cbn [step]. destruct (holder s) as [c|] eqn:Eh; [exact HI|].
  destruct (dr s) as [[i [f|]]|] eqn:Ed; try exact HI.
  destruct H0 as (He & Ha & Ho & Hc & Hd & Hf & Hm & Hk).
  assert (Hq : m <> Direct) by (intros E; destruct (Hm E); congruence).
  rewrite ?Eh, ?Ed in Ha. cbn [hand dph cur] in Ha. cbn [app] in Ha.
  destruct (closed s) eqn:Ec.
  - apply inv_of_inv0; cbn; [|intros; discriminate].
    unfold Inv0; cbn.
    split; [exact He|]. split; [exact Ha|]. split; [intros; discriminate|]. split; [intros _; now apply Hc|].
    split; [intros; discriminate|]. split; [exact Hf|]. split; [intros; contradiction|exact Hk].
  - destruct (Ho eq_refl) as ((k & p & Es & Hk1 & Hk2) & Hdr).
    pose proof (Hk1 _ Ed) as Ek. cbn in Ek. subst k.
    destruct (length (slots s) <=? i) eqn:El.
    + apply Nat.leb_le in El. rewrite Es in El. apply shape_short in El. subst p.
      rewrite Es, somes_shape in Ha. cbn [app] in Ha.
      apply inv_of_inv0; cbn; [|intros; discriminate].
      unfold Inv0, shape; cbn.
      split; [exact He|]. split; [exact Ha|]. split.
      { intros _. split; [|exact Hdr]. exists 0, []. cbn. repeat split; auto. intros; discriminate. }
      split; [intros; discriminate|].
      split; [intros; discriminate|]. split; [exact Hf|]. split; [intros; contradiction|exact Hk].
    + apply Nat.leb_gt in El.
      destruct p as [|f p].
      { rewrite Es, app_length, repeat_length in El. cbn in El. lia. }
      rewrite Es, somes_shape in Ha.
      cbn [map] in Es. rewrite Es, nth_shape, set_nth_shape.
      apply inv_of_inv0; cbn; [|intros; discriminate].
      unfold Inv0, shape; cbn.
      change (None :: repeat None i ++ map Some p) with (repeat (@None nat) (S i) ++ map Some p).
      rewrite somes_shape.
      split; [exact He|]. split; [exact Ha|]. split.
      { intros _. split; [|exact Hdr]. exists (S i), p. repeat split; auto.
        - intros d E. inversion E; subst. reflexivity.
        - intros; discriminate. }
      split; [intros; discriminate|].
      split; [intros d E; inversion E; subst; cbn; lia|].
      split; [exact Hf|]. split; [intros; contradiction|exact Hk].
Qed.

End Step.

Lemma inv0_open m s acc :
  extra s = 0 ->
  concat (map (fun c => snd (fst c)) (calls s)) ++ acc = map fst (attempted s) ++ hand (dr s) ++ somes (slots s) ++ dropped s ->
  closed s = false -> shape s -> dropped s = [] ->
  (forall d, dr s = Some d -> 1 <= di d) ->
  (failed s = false -> Forall (fun x => snd x = true) (attempted s)) ->
  (m = Direct -> slots s = [] /\ dr s = None) ->
  Forall call_ok (calls s) ->
  Inv0 m s acc.
Proof.
  intros H1 H2 H3 H4 H5 H6 H7 H8 H9. unfold Inv0. repeat split; auto; try (apply H8; assumption).
  intros E. rewrite H3 in E. discriminate.
Qed.

Lemma frame_inv m maxq s ok : Inv m s -> Inv m (step m maxq s (Frame ok)).
Proof.
  intros HI. pose proof (inv_inv0 m s HI) as H0.
  pose proof HI as (He & Ha & Ho & Hc & Hd & Hh & Hf & Hm & Hk).
  cbn [step]. destruct (holder s) as [c|] eqn:Eh; [|exact HI].
  destruct (Hh _ eq_refl) as (Hcl & Hfs & Hne).
  destruct (crest c) as [|f rest] eqn:Er; [exact HI|]. cbn [cur] in H0.
  destruct (Ho Hcl) as (Hsh & Hdr).
  destruct H0 as (_ & Ha0 & _).
  assert (Hok : forall r, r <> ROk -> r <> RClosed -> call_ok (cfs c, cacc c, r)).
  { intros r R1 R2. cbn. repeat split; try contradiction.
    - now exists (f :: rest).
    - rewrite Hfs. destruct (cacc c); discriminate. }
  assert (Hsame : Inv0 m s (cacc c)) by (apply inv0_open; auto).
  assert (Hc' : c = {| cfs := cfs c; cacc := cacc c; crest := crest c |}) by (destruct c; reflexivity).
  destruct m.
  - (* direct *)
    destruct (Hm eq_refl) as (Hs0 & Hdn).
    destruct ok.
    + apply advance_call_inv; auto.
      rewrite Hs0, Hdn, Hdr in Ha0. cbn in Ha0. rewrite app_nil_r in Ha0.
      apply inv0_open; cbn; [exact He| |exact Hcl| |exact Hdr|exact Hd| |exact Hm|exact Hk].
      * rewrite Hs0, Hdn, Hdr. cbn. rewrite map_app, app_nil_r, app_assoc, Ha0. reflexivity.
      * destruct Hsh as (k & p & Es & Hk1 & Hk2). exists k, p. cbn. auto.
      * intros H. apply Forall_app. split; auto.
    + rewrite Hc'. apply finish_inv; [|apply Hok; discriminate].
      apply inv0_open; cbn; [exact He|exact Ha0|exact Hcl| |exact Hdr|exact Hd| |exact Hm|exact Hk].
      * destruct Hsh as (k & p & Es & Hk1 & Hk2). exists k, p. cbn. repeat split; auto; try (intros; discriminate).
      * intros; discriminate.
  - (* queued *)
    destruct (full maxq s).
    { rewrite Hc'. apply finish_inv; [exact Hsame|apply Hok; discriminate]. }
    destruct Hsh as (k & p & Es & Hk1 & Hk2).
    destruct (slots s) as [|x l] eqn:Esl.
    + (* head *)
      symmetry in Es. apply shape_nil in Es as (-> & ->).
      assert (Hn : dr s = None).
      { destruct (dr s) as [d|] eqn:Ed; auto. pose proof (Hk1 _ eq_refl). pose proof (Hd _ eq_refl). lia. }
      rewrite Hn. apply advance_call_inv; auto.
      rewrite Hn, Hdr in Ha0. cbn in Ha0. rewrite app_nil_r in Ha0.
      apply inv0_open; cbn; [exact He| |exact Hcl| |exact Hdr| |exact Hf|intros; discriminate|exact Hk].
      * rewrite Hdr, app_assoc, Ha0. reflexivity.
      * exists 1, []. cbn. repeat split; auto.
        -- intros d H. inversion H; subst. reflexivity.
        -- intros; discriminate.
      * intros d H. inversion H; subst. cbn. lia.
    + (* behind a live (or dead) drainer *)
      apply advance_call_inv; auto.
      rewrite Hdr, app_nil_r in Ha0.
      apply inv0_open; cbn; [exact He| |exact Hcl| |exact Hdr|exact Hd|exact Hf|intros; discriminate|exact Hk].
      * change (x :: l ++ [Some f]) with ((x :: l) ++ [Some f]).
        rewrite Hdr, somes_app, app_assoc, Ha0, app_nil_r, <- !app_assoc. reflexivity.
      * exists k, (p ++ [f]). cbn. rewrite map_app, app_assoc, <- Es. cbn. repeat split; auto.
        intros Hn Hff. specialize (Hk2 Hn Hff). discriminate.
Qed.

Theorem step_inv m maxq s a : Inv m s -> Inv m (step m maxq s a).
Proof.
  destruct a; [apply begin_inv|apply frame_inv|apply dwrite_inv|apply dadvance_inv|apply close_inv].
Qed.


Lemma fold_inv m maxq acts s : Inv m s -> Inv m (fold_left (step m maxq) acts s).
Proof. revert s. induction acts as [|a acts IH]; intros s H; cbn; auto. apply IH. now apply step_inv. Qed.

Theorem inv_all m maxq acts : Inv m (run m maxq acts).
Proof. apply fold_inv, init_inv. Qed.

(* ---- consequences ---- *)
Lemma wire_all_ok (att : list (nat * bool)) :
  Forall (fun x => snd x = true) att -> map fst (filter snd att) = map fst att.
Proof.
  induction att as [|[f b] att IH]; intros H; cbn; auto.
  inversion H as [|? ? Hb Hr]; subst. cbn in Hb. subst b. cbn. f_equal. auto.
Qed.

(* every frame handed to the socket was accepted, in acceptance order *)
Theorem attempted_prefix m maxq acts :
  let s := run m maxq acts in exists rest, accepted s = map fst (attempted s) ++ rest.
Proof.
  intros s. destruct (inv_all m maxq acts) as (_ & Ha & _). fold s in Ha. rewrite Ha. eauto.
Qed.

(* without a socket error the wire is a prefix of the accepted frames; what is not yet on the wire is the frame in the
   drainer's hand, then the queued frames, then (after CloseAndClean) the frames that were freed unwritten *)
Theorem whole m maxq acts :
  let s := run m maxq acts in
  failed s = false -> accepted s = wire s ++ hand (dr s) ++ somes (slots s) ++ dropped s.
Proof.
  intros s Hf. destruct (inv_all m maxq acts) as (_ & Ha & _ & _ & _ & _ & Hok & _). fold s in Ha, Hok.
  unfold wire. rewrite (wire_all_ok _ (Hok Hf)). exact Ha.
Qed.

Theorem calls_ok m maxq acts : Forall call_ok (calls (run m maxq acts)).
Proof. now destruct (inv_all m maxq acts) as (_ & _ & _ & _ & _ & _ & _ & _ & Hk). Qed.

(* open, no socket error, no drainer alive: everything accepted is on the wire, in order, once *)
Theorem quiescent_wire m maxq acts :
  let s := run m maxq acts in
  closed s = false -> failed s = false -> dr s = None -> wire s = accepted s.
Proof.
  intros s Hc Hf Hd. pose proof (whole m maxq acts Hf) as Hw. fold s in Hw.
  destruct (inv_all m maxq acts) as (_ & _ & Ho & _). fold s in Ho.
  destruct (Ho Hc) as ((k & p & Es & _ & Hk2) & Hdr).
  rewrite Hw, Hd, (Hk2 Hd Hf), Hdr. cbn. now rewrite app_nil_r.
Qed.

Theorem one_drainer m maxq acts :
  let s := run m maxq acts in extra s = 0 /\ (m = Direct -> dr s = None /\ slots s = []).
Proof.
  intros s. destruct (inv_all m maxq acts) as (He & _ & _ & _ & _ & _ & _ & Hm & _). fold s in He, Hm.
  split; auto. intros E. destruct (Hm E). auto.
Qed.

(* a live drainer always has something in hand or a slot index >= 1; the queue is empty iff no drainer was ever
   started since the last hand-over (open, no socket error) *)
Theorem drainer_iff_nonempty m maxq acts :
  let s := run m maxq acts in
  closed s = false -> failed s = false -> (dr s = None <-> slots s = []).
Proof.
  intros s Hc Hf. destruct (inv_all m maxq acts) as (_ & _ & Ho & _ & Hd & _). fold s in Ho, Hd.
  destruct (Ho Hc) as ((k & p & Es & Hk1 & Hk2) & _). split; [intros H; auto|].
  intros E. destruct (dr s) as [d|] eqn:Ed; auto.
  rewrite E in Es. symmetry in Es. apply shape_nil in Es as (-> & _).
  pose proof (Hk1 _ eq_refl). pose proof (Hd _ eq_refl). lia.
Qed.

(* refused after close *)
Lemma begin_closed m maxq s f fs :
  holder s = None -> closed s = true ->
  let s' := step m maxq s (Begin (f :: fs)) in
  accepted s' = accepted s /\ calls s' = calls s ++ [(f :: fs, [], RClosed)] /\ slots s' = slots s /\ dr s' = dr s.
Proof.
  intros Hh Hc. cbn. rewrite Hh, Hc. unfold accepted; cbn. rewrite Hh, concat_map_snoc. cbn.
  now rewrite !app_nil_r.
Qed.

(* ---- the drainer left alone (mutex free, socket accepting) empties the queue ---- *)
Lemma set_nth_length l i : length (set_nth l i) = length l.
Proof. revert i. induction l as [|x l IH]; intros [|i]; cbn; auto. Qed.

Definition drain_measure (s : st) : nat :=
  match dr s with
  | None => 0
  | Some {| di := i; dph := Writing _ |} => 2 * (S (length (slots s)) - i) + 2
  | Some {| di := i; dph := AtLock |} => 2 * (S (length (slots s)) - i) + 1
  end.

Definition next_action (s : st) : action :=
  match dr s with
  | Some {| dph := Writing _ |} => DWrite true
  | _ => DAdvance
  end.

Definition drainer_action (a : action) : Prop := a = DWrite true \/ a = DAdvance.

Lemma next_is_drainer s : drainer_action (next_action s).
Proof. unfold next_action, drainer_action. destruct (dr s) as [[i [f|]]|]; auto. Qed.

Lemma next_keeps_holder m maxq s : holder s = None -> holder (step m maxq s (next_action s)) = None.
Proof.
  intros H. unfold next_action. destruct (dr s) as [[i [f|]]|] eqn:Ed; cbn; rewrite ?H, ?Ed; cbn; auto.
  destruct (closed s); cbn; auto. destruct (length (slots s) <=? i); cbn; auto.
  destruct (nth i (slots s) None); cbn; auto.
Qed.

Lemma next_decreases m maxq s :
  holder s = None -> dr s <> None -> drain_measure (step m maxq s (next_action s)) < drain_measure s.
Proof.
  intros H Hn. unfold next_action, drain_measure.
  destruct (dr s) as [[i [f|]]|] eqn:Ed; [| |congruence]; cbn [step]; rewrite ?H, ?Ed; cbn -[Nat.mul Nat.sub].
  - lia.
  - destruct (closed s); cbn -[Nat.mul Nat.sub]; [lia|].
    destruct (length (slots s) <=? i) eqn:El; cbn -[Nat.mul Nat.sub]; [lia|]. apply Nat.leb_gt in El.
    destruct (nth i (slots s) None); cbn -[Nat.mul Nat.sub]; [|lia]. rewrite set_nth_length. lia.
Qed.

Fixpoint drain (m : mode) (maxq : nat) (fuel : nat) (s : st) : list action :=
  match fuel with
  | O => []
  | S f => match dr s with
           | None => []
           | Some _ => next_action s :: drain m maxq f (step m maxq s (next_action s))
           end
  end.

Lemma drain_all_drainer m maxq fuel s : Forall drainer_action (drain m maxq fuel s).
Proof.
  revert s. induction fuel as [|f IH]; intros s; cbn; [constructor|].
  destruct (dr s); constructor; auto using next_is_drainer.
Qed.

Lemma drain_reaches m maxq fuel s :
  holder s = None -> drain_measure s <= fuel -> dr (fold_left (step m maxq) (drain m maxq fuel s) s) = None.
Proof.
  revert s. induction fuel as [|f IH]; intros s Hh Hm.
  - cbn. unfold drain_measure in Hm. destruct (dr s) as [[i [g|]]|]; auto; lia.
  - cbn [drain]. destruct (dr s) eqn:Ed; [|cbn; auto].
    cbn [fold_left]. apply IH; [now apply next_keeps_holder|].
    assert (Hn : dr s <> None) by congruence.
    pose proof (next_decreases m maxq s Hh Hn). lia.
Qed.

Theorem drains m maxq acts :
  holder (run m maxq acts) = None ->
  exists more, Forall drainer_action more /\ dr (run m maxq (acts ++ more)) = None.
Proof.
  intros Hh. set (s := run m maxq acts).
  exists (drain m maxq (drain_measure s) s). split; [apply drain_all_drainer|].
  unfold run. rewrite fold_left_app. apply drain_reaches; [exact Hh|apply Nat.le_refl].
Qed.

(* drainer steps with a working socket neither close nor fail nor accept anything *)
Lemma drainer_step_keeps m maxq s a :
  drainer_action a ->
  closed (step m maxq s a) = closed s /\ failed (step m maxq s a) = failed s /\
  calls (step m maxq s a) = calls s /\ holder (step m maxq s a) = holder s.
Proof.
  intros [->| ->]; cbn.
  - destruct (dr s) as [[i [f|]]|]; cbn; auto.
  - destruct (holder s) eqn:Eh; cbn; auto.
    destruct (dr s) as [[i [f|]]|]; cbn; auto.
    destruct (closed s); cbn; auto. destruct (length (slots s) <=? i); cbn; auto.
    destruct (nth i (slots s) None); cbn; auto.
Qed.

Lemma drainer_steps_keep m maxq more s :
  Forall drainer_action more ->
  let s' := fold_left (step m maxq) more s in
  closed s' = closed s /\ failed s' = failed s /\ calls s' = calls s /\ holder s' = holder s.
Proof.
  revert s. induction more as [|a more IH]; intros s H; cbn; auto.
  inversion H as [|? ? Ha Hr]; subst.
  destruct (drainer_step_keeps m maxq s a Ha) as (E1 & E2 & E3 & E4).
  destruct (IH (step m maxq s a) Hr) as (F1 & F2 & F3 & F4). cbn in *.
  rewrite F1, F2, F3, F4. auto.
Qed.

(* no accepted frame is stranded: while open and without socket error, the drainer's own steps put every accepted
   frame on the wire *)
Theorem all_written m maxq acts :
  let s := run m maxq acts in
  holder s = None -> closed s = false -> failed s = false ->
  exists more, Forall drainer_action more /\
    let s' := run m maxq (acts ++ more) in
    dr s' = None /\ wire s' = accepted s /\ calls s' = calls s.
Proof.
  intros s Hh Hc Hf. destruct (drains m maxq acts Hh) as (more & Hm & Hd).
  exists more. split; auto. cbn zeta.
  pose proof (drainer_steps_keep m maxq more s Hm) as (E1 & E2 & E3 & E4).
  assert (Er : run m maxq (acts ++ more) = fold_left (step m maxq) more s) by (unfold run, s; now rewrite fold_left_app).
  rewrite Er in *. cbn zeta in *.
  split; auto. split; auto.
  pose proof (quiescent_wire m maxq (acts ++ more)) as Q. cbn zeta in Q. rewrite Er in Q.
  rewrite Q; try congruence.
  unfold accepted. rewrite E3, E4. reflexivity.
Qed.

(* the crisp form: open, no socket error, nobody writing, no drainer alive, every call so far returned nil:
   the wire is the concatenation, in lock order, of the calls' whole frame sequences *)
Lemma concat_ok_calls (l : list (list nat * list nat * result)) :
  Forall call_ok l -> Forall (fun c => snd c = ROk) l ->
  concat (map (fun c => snd (fst c)) l) = concat (map (fun c => fst (fst c)) l).
Proof.
  induction l as [|[[fs acc] r] l IH]; intros Hk Hr; cbn; auto.
  inversion Hk as [|? ? Hc Hk']; subst. inversion Hr as [|? ? Hr1 Hr']; subst.
  cbn in Hr1. subst r. destruct Hc as (_ & E & _). rewrite (E eq_refl). f_equal. auto.
Qed.

Theorem whole_messages m maxq acts :
  let s := run m maxq acts in
  closed s = false -> failed s = false -> dr s = None -> holder s = None ->
  Forall (fun c => snd c = ROk) (calls s) ->
  wire s = concat (map (fun c => fst (fst c)) (calls s)).
Proof.
  intros s Hc Hf Hd Hh Hr.
  pose proof (quiescent_wire m maxq acts Hc Hf Hd) as Q. fold s in Q. rewrite Q.
  unfold accepted. rewrite Hh. cbn. rewrite app_nil_r.
  apply concat_ok_calls; auto. apply calls_ok.
Qed.

(* ---- a bounded queue takes a WriteMessage as a whole or not at all ---- *)
(* the call that passed the whole-message check keeps room for the frames it still has to queue (nobody else appends
   while it holds the mutex, and the queue only shrinks by the drainer's truncation, which needs the mutex too), so
   writeFrame's own per-frame check never fires inside a call: a call refused as full has accepted nothing *)
Definition Room (m : mode) (maxq : nat) (s : st) : Prop :=
  (forall c, holder s = Some c -> m = Queued -> 0 < maxq -> length (slots s) + length (crest c) <= maxq) /\
  Forall (fun c => snd c = RFull -> snd (fst c) = []) (calls s).

Lemma room_init m maxq : Room m maxq init.
Proof. split; [intros c H; discriminate|constructor]. Qed.

Lemma room_snoc (l : list (list nat * list nat * result)) x :
  Forall (fun c => snd c = RFull -> snd (fst c) = []) l -> (snd x = RFull -> snd (fst x) = []) ->
  Forall (fun c => snd c = RFull -> snd (fst c) = []) (l ++ [x]).
Proof. intros H1 H2. apply Forall_app. split; auto. Qed.

Lemma step_room m maxq s a : Room m maxq s -> Room m maxq (step m maxq s a).
Proof.
  intros (Hr & Hk). destruct a as [fs|ok|ok| |]; cbn [step].
  - (* Begin *)
    destruct (holder s) as [c|] eqn:Eh; [split; [now rewrite Eh|auto]|].
    destruct fs as [|f fs]; [split; [now rewrite Eh|auto]|].
    destruct (closed s).
    + split; cbn; [intros c H; discriminate|apply room_snoc; auto; cbn; discriminate].
    + destruct (no_room m maxq s (f :: fs)) eqn:En.
      * split; cbn; [intros c H; discriminate|apply room_snoc; auto].
      * split; cbn; auto. intros c H Hm Hq. inversion H; subst. cbn.
        unfold no_room in En. destruct maxq as [|q]; [lia|]. apply Nat.ltb_ge in En. cbn in En. lia.
  - (* Frame *)
    destruct (holder s) as [c|] eqn:Eh; [|split; [now rewrite Eh|auto]].
    destruct (crest c) as [|f rest] eqn:Er; [split; [now rewrite Eh|auto]|].
    assert (Hfin : forall s1 c1 r, calls s1 = calls s -> r <> RFull -> Room m maxq (finish s1 c1 r)).
    { intros s1 c1 r E R. split; cbn; [intros c0 H; discriminate|]. rewrite E. apply room_snoc; auto. cbn. intros; contradiction. }
    assert (Hadv : forall s1, calls s1 = calls s ->
              (m = Queued -> 0 < maxq -> length (slots s1) + length rest <= maxq) ->
              Room m maxq (advance_call s1 c f rest)).
    { intros s1 E L. unfold advance_call. destruct rest as [|g rest]; [apply Hfin; auto; discriminate|].
      split; cbn; [|now rewrite E]. intros c0 H Hm Hq. inversion H; subst. cbn. apply L; auto. }
    destruct m.
    + destruct ok; [apply Hadv; auto; intros; discriminate|apply Hfin; auto; discriminate].
    + pose proof (Hr c eq_refl eq_refl) as L. rewrite Er in L. cbn in L.
      assert (Hnf : full maxq s = false).
      { unfold full. destruct maxq as [|q]; auto. apply Nat.leb_gt. specialize (L ltac:(lia)). lia. }
      rewrite Hnf.
      destruct (slots s) as [|x l] eqn:Es.
      * destruct (dr s); apply Hadv; auto; cbn; intros _ Hq; specialize (L Hq); cbn in L; lia.
      * apply Hadv; auto. cbn. intros _ Hq. specialize (L Hq). cbn in L. rewrite app_length. cbn. lia.
  - (* DWrite *)
    destruct (dr s) as [[i [f|]]|]; try (split; auto; fail). destruct ok; split; cbn; auto.
  - (* DAdvance *)
    destruct (holder s) as [c|] eqn:Eh; [split; [now rewrite Eh|auto]|].
    destruct (dr s) as [[i [f|]]|]; try (split; [now rewrite Eh|auto]; fail).
    destruct (closed s); [split; cbn; auto; intros c H; discriminate|].
    destruct (length (slots s) <=? i); [split; cbn; auto; intros c H; discriminate|].
    destruct (nth i (slots s) None); split; cbn; auto; intros c H; discriminate.
  - (* CloseClean *)
    destruct (holder s) as [c|] eqn:Eh; [split; [now rewrite Eh|auto]|].
    destruct (closed s); [split; [now rewrite Eh|auto]|]. split; cbn; auto. intros c H; discriminate.
Qed.

Theorem room_all m maxq acts : Room m maxq (run m maxq acts).
Proof.
  unfold run. assert (G : forall acts s, Room m maxq s -> Room m maxq (fold_left (step m maxq) acts s)).
  { clear acts. induction acts as [|a r IH]; intros s H; cbn; auto. apply IH, step_room, H. }
  apply G, room_init.
Qed.

(* every finished call: nil => all its frames accepted; closed or queue full => none (a socket error in direct mode
   is the only way to a proper prefix) *)
Theorem all_or_none m maxq acts :
  Forall (fun c => let '(fs, acc, r) := c in
                   (r = ROk -> acc = fs) /\ (r = RClosed -> acc = []) /\ (r = RFull -> acc = []))
         (calls (run m maxq acts)).
Proof.
  pose proof (calls_ok m maxq acts) as Hk. destruct (room_all m maxq acts) as (_ & Hf).
  rewrite Forall_forall in *. intros [[fs acc] r] Hin.
  specialize (Hk _ Hin). specialize (Hf _ Hin). cbn in *. destruct Hk as (_ & H1 & H2 & _). auto.
Qed.

(* ---- the admission rule in terms of the bytes that are actually fragmented ---- *)
Lemma nframes_pos limit ctl n : 1 <= nframes limit ctl n.
Proof.
  unfold nframes. destruct ctl; auto. destruct limit as [|l]; auto. destruct n as [|n]; auto.
  apply Nat.div_le_lower_bound; lia.
Qed.

Lemma msg_frames_length mid n : length (msg_frames mid n) = n.
Proof. unfold msg_frames. now rewrite map_length, seq_length. Qed.

(* a WriteMessage on an open connection in queued mode with bound maxq > 0: with k = the number of fragments of the
   bytes that go out (the DEFLATED length when compression applies) it is refused as a whole - nothing queued, nothing
   accepted, the mutex free again - exactly when len(queue) + k > maxq; otherwise it owns the mutex with all k frames
   to do (and by [Room] every one of them will be accepted) *)
Theorem admission maxq s limit mid ctl raw z :
  holder s = None -> closed s = false -> 0 < maxq ->
  let k := nframes limit ctl (wire_len raw z) in
  let fs := msg_frames mid k in
  let s' := step Queued maxq s (begin_msg limit mid ctl raw z) in
  length fs = k /\
  (maxq < length (slots s) + k ->
     calls s' = calls s ++ [(fs, [], RFull)] /\ slots s' = slots s /\ dr s' = dr s /\ holder s' = None /\ accepted s' = accepted s) /\
  (length (slots s) + k <= maxq ->
     holder s' = Some {| cfs := fs; cacc := []; crest := fs |} /\ calls s' = calls s /\ slots s' = slots s).
Proof.
  intros Hh Hc Hq k fs s'. split; [apply msg_frames_length|].
  assert (Hk : 1 <= k) by apply nframes_pos.
  assert (Hl : length fs = k) by apply msg_frames_length.
  unfold s', begin_msg. fold k. fold fs. cbn [step]. rewrite Hh, Hc.
  destruct fs as [|f fs'] eqn:Ef; [cbn in Hl; lia|].
  unfold no_room. destruct maxq as [|q]; [lia|]. rewrite Hl.
  split; intros H.
  - apply Nat.ltb_lt in H. rewrite H. unfold accepted; cbn. rewrite Hh, concat_map_snoc. cbn. now rewrite !app_nil_r.
  - assert (E : (S q <? length (slots s) + k) = false) by (apply Nat.ltb_ge; lia). rewrite E. cbn. auto.
Qed.
