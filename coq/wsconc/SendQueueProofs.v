(* Invariant of the websocket write side (SendQueue.v), for both write modes, every queue bound, every action
   sequence and every answer of Conn.Write. *)
From Coq Require Import List Arith Lia Bool.
Import ListNotations.
Require Import SendQueue.

Arguments somes : simpl never.

(* ---- list facts ---- *)
Lemma somes_app a b : somes (a ++ b) = somes a ++ somes b.
Proof. unfold somes. now rewrite flat_map_app. Qed.

Lemma somes_nones k : somes (repeat None k) = [].
Proof. induction k; cbn; auto. Qed.

Lemma somes_map_some p : somes (map Some p) = p.
Proof. induction p; cbn; auto. now f_equal. Qed.

Lemma somes_wipe (l : list (option nat)) : somes (map (fun _ => None) l) = [].
Proof. induction l; cbn; auto. Qed.

Lemma somes_shape k p : somes (repeat None k ++ map Some p) = p.
Proof. now rewrite somes_app, somes_nones, somes_map_some. Qed.

Lemma nth_shape k f (q : list (option nat)) : nth k (repeat None k ++ Some f :: q) None = Some f.
Proof. induction k; cbn; auto. Qed.

Lemma set_nth_shape k f (q : list (option nat)) : set_nth (repeat None k ++ Some f :: q) k = repeat None (S k) ++ q.
Proof. induction k; cbn; auto. now f_equal. Qed.

Lemma repeat_snoc (k : nat) : repeat (@None nat) k ++ [None] = repeat None (S k).
Proof. induction k; cbn; auto. now f_equal. Qed.

Lemma concat_map_snoc {A B} (g : A -> list B) l x : concat (map g (l ++ [x])) = concat (map g l) ++ g x.
Proof. rewrite map_app, concat_app. cbn. now rewrite app_nil_r. Qed.

Lemma shape_nil k (p : list nat) : repeat (@None nat) k ++ map Some p = [] -> k = 0 /\ p = [].
Proof. destruct k; cbn; [|discriminate]. destruct p; cbn; [auto|discriminate]. Qed.

Lemma shape_short k (p : list nat) : length (repeat (@None nat) k ++ map Some p) <= k -> p = [].
Proof. rewrite app_length, repeat_length, map_length. destruct p; cbn; [auto|lia]. Qed.

(* ---- the invariant ---- *)
Definition call_ok (c : list nat * list nat * result) : Prop :=
  let '(fs, acc, r) := c in
  (exists rest, fs = acc ++ rest) /\ (r = ROk -> acc = fs) /\ (r = RClosed -> acc = []) /\ fs <> [].

Definition shape (s : st) : Prop :=
  exists k p, slots s = repeat None k ++ map Some p /\
              (forall d, dr s = Some d -> k = di d) /\
              (dr s = None -> failed s = false -> slots s = []).

Definition Inv (m : mode) (s : st) : Prop :=
  extra s = 0 /\
  accepted s = map fst (attempted s) ++ hand (dr s) ++ somes (slots s) ++ dropped s /\
  (closed s = false -> shape s /\ dropped s = []) /\
  (closed s = true -> somes (slots s) = []) /\
  (forall d, dr s = Some d -> 1 <= di d) /\
  (forall c, holder s = Some c -> closed s = false /\ cfs c = cacc c ++ crest c /\ crest c <> []) /\
  (failed s = false -> Forall (fun x => snd x = true) (attempted s)) /\
  (m = Direct -> slots s = [] /\ dr s = None) /\
  Forall call_ok (calls s).

Lemma init_inv m : Inv m init.
Proof.
  unfold Inv, init, accepted, shape; cbn. repeat split; auto; try discriminate; try (intros; discriminate).
  exists 0, []. cbn. repeat split; auto. intros; discriminate.
Qed.

Section Step.
Variable m : mode.
Variable maxq : nat.

(* the invariant with the accepted frames given explicitly and nothing said about the holder *)
Definition Inv0 (s : st) (acc : list nat) : Prop :=
  extra s = 0 /\
  concat (map (fun c => snd (fst c)) (calls s)) ++ acc = map fst (attempted s) ++ hand (dr s) ++ somes (slots s) ++ dropped s /\
  (closed s = false -> shape s /\ dropped s = []) /\
  (closed s = true -> somes (slots s) = []) /\
  (forall d, dr s = Some d -> 1 <= di d) /\
  (failed s = false -> Forall (fun x => snd x = true) (attempted s)) /\
  (m = Direct -> slots s = [] /\ dr s = None) /\
  Forall call_ok (calls s).

Lemma inv_inv0 s : Inv m s -> Inv0 s (cur (holder s)).
Proof.
  intros (He & Ha & Ho & Hc & Hd & Hh & Hf & Hm & Hk). unfold Inv0. unfold accepted in Ha.
  repeat split; auto; try (apply Ho; assumption); try (apply Hm; assumption).
Qed.

Lemma finish_inv s fs acc rest r :
  Inv0 s acc -> call_ok (fs, acc, r) -> Inv m (finish s {| cfs := fs; cacc := acc; crest := rest |} r).
Proof.
  intros (He & Ha & Ho & Hc & Hd & Hf & Hm & Hk) Hok.
  unfold Inv, accepted, finish; cbn.
  rewrite concat_map_snoc. cbn. rewrite app_nil_r.
  repeat split; auto; try (intros; discriminate); try (apply Ho; assumption); try (apply Hm; assumption).
  apply Forall_app. split; auto.
Qed.

Lemma set_holder_inv s c :
  Inv0 s (cacc c) -> closed s = false -> cfs c = cacc c ++ crest c -> crest c <> [] -> Inv m (set_holder s (Some c)).
Proof.
  intros (He & Ha & Ho & Hc & Hd & Hf & Hm & Hk) Hcl Hfs Hne.
  unfold Inv, accepted, set_holder; cbn.
  repeat split; auto; try (intros; discriminate); try (apply Ho; assumption); try (apply Hm; assumption);
  try (match goal with H : Some _ = Some _ |- _ => inversion H; subst; assumption end).
Qed.

Lemma advance_call_inv s c f rest :
  Inv0 s (cacc c ++ [f]) -> closed s = false -> cfs c = cacc c ++ f :: rest ->
  Inv m (advance_call s c f rest).
Proof.
  intros H0 Hcl Hfs. unfold advance_call. destruct rest as [|g rest].
  - apply finish_inv; auto. cbn. rewrite Hfs. repeat split; auto.
    + exists []. now rewrite app_nil_r.
    + intros E. discriminate.
    + destruct (cacc c); discriminate.
  - apply set_holder_inv; cbn; auto.
    + rewrite Hfs, <- app_assoc. reflexivity.
    + discriminate.
Qed.


(* Inv from its parts *)
Lemma inv_of_inv0 s :
  Inv0 s (cur (holder s)) ->
  (forall c, holder s = Some c -> closed s = false /\ cfs c = cacc c ++ crest c /\ crest c <> []) ->
  Inv m s.
Proof.
  intros (He & Ha & Ho & Hc & Hd & Hf & Hm & Hk) Hh. unfold Inv, accepted. repeat split; auto; try (apply Ho; assumption); try (apply Hm; assumption);
  try (match goal with H : holder s = Some _ |- _ => apply (Hh _ H) end).
Qed.

Lemma begin_inv s fs : Inv m s -> Inv m (step m maxq s (Begin fs)).
Proof.
  intros HI. pose proof (inv_inv0 s HI) as H0.
  cbn [step]. destruct (holder s) as [c|] eqn:Eh; [exact HI|].
  destruct fs as [|f fs]; [exact HI|]. cbn [cur] in H0.
  destruct H0 as (He & Ha & Ho & Hc & Hd & Hf & Hm & Hk).
  destruct (closed s) eqn:Ec.
  - apply inv_of_inv0; cbn; [|intros; discriminate].
    unfold Inv0; cbn. rewrite concat_map_snoc. cbn. rewrite !app_nil_r in *.
    repeat split; auto; try (intros; discriminate); try (apply Hm; assumption).
    apply Forall_app. split; auto. constructor; [|constructor].
    cbn. repeat split; auto; try (intros; discriminate). now exists (f :: fs).
  - apply set_holder_inv; cbn; auto; [|discriminate].
    unfold Inv0; cbn. rewrite Ec. repeat split; auto; try (apply Ho; reflexivity); try (apply Hm; assumption).
Qed.

Lemma close_inv s : Inv m s -> Inv m (step m maxq s CloseClean).
Proof.
  intros HI. pose proof (inv_inv0 s HI) as H0.
  cbn [step]. destruct (holder s) as [c|] eqn:Eh; [exact HI|].
  destruct (closed s) eqn:Ec; [exact HI|]. cbn [cur] in H0.
  destruct H0 as (He & Ha & Ho & Hc & Hd & Hf & Hm & Hk).
  destruct (Ho Ec) as (Hs & Hdr).
  apply inv_of_inv0; cbn; [|intros; discriminate].
  unfold Inv0; cbn. rewrite somes_wipe. rewrite Hdr in *. cbn in *.
  rewrite !app_nil_r in *.
  repeat split; auto; try (intros; discriminate).
  - match goal with H : m = Direct |- _ => destruct (Hm H) as (Hs0 & Hd0) end. rewrite Hs0. reflexivity.
  - match goal with H : m = Direct |- _ => now destruct (Hm H) end.
Qed.

Lemma holder_keep s s' :
  Inv m s -> holder s' = holder s -> closed s' = closed s ->
  forall c, holder s' = Some c -> closed s' = false /\ cfs c = cacc c ++ crest c /\ crest c <> [].
Proof.
  intros (He & Ha & Ho & Hc & Hd & Hh & Hf & Hm & Hk) E1 E2 c E. rewrite E1 in E. rewrite E2. now apply Hh.
Qed.

Lemma dwrite_inv s ok : Inv m s -> Inv m (step m maxq s (DWrite ok)).
Proof.
  intros HI. pose proof (inv_inv0 s HI) as H0.
  cbn [step]. destruct (dr s) as [[i [f|]]|] eqn:Ed; try exact HI.
  destruct H0 as (He & Ha & Ho & Hc & Hd & Hf & Hm & Hk).
  assert (Hq : m <> Direct) by (intros E; destruct (Hm E); congruence).
  cbn [hand dph] in Ha.
  destruct ok.
  - apply inv_of_inv0; cbn; [|apply (holder_keep s); auto].
    unfold Inv0; cbn. rewrite map_app. cbn. rewrite <- app_assoc. cbn.
    split; [exact He|]. split; [exact Ha|]. split; [|split; [exact Hc|split; [|split; [|split; [|exact Hk]]]]].
    + intros H. destruct (Ho H) as ((k & p & Es & Hk1 & Hk2) & Hdr). split; [|exact Hdr].
      exists k, p. cbn. split; [exact Es|]. split.
      * intros d E. inversion E; subst. cbn. now apply (Hk1 _ eq_refl).
      * intros; discriminate.
    + intros d E. inversion E; subst. cbn. apply (Hd _ eq_refl).
    + intros H. apply Forall_app. split; auto.
    + intros H. contradiction.
  - apply inv_of_inv0; cbn; [|apply (holder_keep s); auto].
    unfold Inv0; cbn. rewrite map_app. cbn. rewrite <- app_assoc. cbn.
    split; [exact He|]. split; [exact Ha|]. split; [|split; [exact Hc|split; [|split; [|split; [|exact Hk]]]]].
    + intros H. destruct (Ho H) as ((k & p & Es & Hk1 & Hk2) & Hdr). split; [|exact Hdr].
      exists k, p. cbn. split; [exact Es|]. split; intros; discriminate.
    + intros; discriminate.
    + intros; discriminate.
    + intros H. contradiction.
Qed.

Lemma dadvance_inv s : Inv m s -> Inv m (step m maxq s DAdvance).
Proof.
  intros HI. pose proof (inv_inv0 s HI) as H0.
  cbn [step]. destruct (holder s) as [c|] eqn:Eh; [exact HI|].
  destruct (dr s) as [[i [f|]]|] eqn:Ed; try exact HI.
  destruct H0 as (He & Ha & Ho & Hc & Hd & Hf & Hm & Hk).
  assert (Hq : m <> Direct) by (intros E; destruct (Hm E); congruence).
  cbn [hand dph cur] in Ha.
  destruct (closed s) eqn:Ec.
  - apply inv_of_inv0; cbn; [|intros; discriminate].
    unfold Inv0; cbn. rewrite Ec.
    repeat split; auto; try (intros; discriminate); try contradiction.
  - destruct (Ho eq_refl) as ((k & p & Es & Hk1 & Hk2) & Hdr).
    pose proof (Hk1 _ eq_refl) as Ek. cbn in Ek. subst k.
    destruct (length (slots s) <=? i) eqn:El.
    + apply Nat.leb_le in El. rewrite Es in El. apply shape_short in El. subst p.
      rewrite Es, somes_shape in Ha. cbn in Ha.
      apply inv_of_inv0; cbn; [|intros; discriminate].
      unfold Inv0, shape; cbn. rewrite Ec.
      repeat split; auto; try (intros; discriminate); try contradiction.
      exists 0, []. cbn. repeat split; auto. intros; discriminate.
    + apply Nat.leb_gt in El.
      destruct p as [|f p].
      { rewrite Es, app_length, repeat_length in El. cbn in El. lia. }
      rewrite Es, somes_shape in Ha.
      cbn [map] in Es. rewrite Es, nth_shape, set_nth_shape.
      apply inv_of_inv0; cbn; [|intros; discriminate].
      unfold Inv0, shape; cbn. rewrite Ec.
      change (None :: repeat None i) with (repeat (@None nat) (S i)).
      rewrite somes_shape.
      repeat split; auto; try (intros; discriminate); try contradiction.
      * exists (S i), p. repeat split; auto.
        -- intros d E. inversion E; subst. reflexivity.
        -- intros; discriminate.
      * intros d E. inversion E; subst. cbn. lia.
Qed.

Lemma frame_inv s ok : Inv m s -> Inv m (step m maxq s (Frame ok)).
Proof.
  intros HI. pose proof (inv_inv0 s HI) as H0.
  pose proof HI as (He & Ha & Ho & Hc & Hd & Hh & Hf & Hm & Hk).
  cbn [step]. destruct (holder s) as [c|] eqn:Eh; [|exact HI].
  destruct (Hh _ eq_refl) as (Hcl & Hfs & Hne).
  destruct (crest c) as [|f rest] eqn:Er; [exact HI|]. cbn [cur] in H0.
  destruct (Ho Hcl) as ((k & p & Es & Hk1 & Hk2) & Hdr).
  destruct H0 as (He0 & Ha0 & Ho0 & Hc0 & Hd0 & Hf0 & Hm0 & Hk0).
  assert (Hok : forall r, r <> ROk -> r <> RClosed -> call_ok (cfs c, cacc c, r)).
  { intros r R1 R2. cbn. repeat split; try contradiction.
    - now exists (f :: rest).
    - rewrite Hfs. destruct (cacc c); discriminate. }
  destruct m eqn:Em.
  - (* direct *)
    destruct (Hm eq_refl) as (Hs0 & Hdn).
    destruct ok.
    + apply advance_call_inv; auto.
      unfold Inv0, shape in *; cbn. rewrite Hs0, Hdn, Hdr in *. cbn in *.
      rewrite map_app. cbn. rewrite !app_nil_r in *. rewrite app_assoc, Ha0.
      repeat split; auto; try (intros; discriminate).
      * exists 0, []. cbn. repeat split; auto. intros; discriminate.
      * intros H. apply Forall_app. split; auto.
    + replace c with {| cfs := cfs c; cacc := cacc c; crest := crest c |} by (destruct c; reflexivity).
      apply finish_inv; [|apply Hok; discriminate].
      unfold Inv0, shape in *; cbn.
      repeat split; auto; try (intros; discriminate).
      intros _. exists k, p. repeat split; auto. intros; discriminate.
  - (* queued *)
    destruct (full maxq s).
    { replace c with {| cfs := cfs c; cacc := cacc c; crest := crest c |} by (destruct c; reflexivity).
      apply finish_inv; [|apply Hok; discriminate].
      unfold Inv0; repeat split; auto. }
    destruct (slots s) as [|x l] eqn:Esl.
    + (* head *)
      symmetry in Es. apply shape_nil in Es as (-> & ->).
      assert (Hn : dr s = None).
      { destruct (dr s) as [d|] eqn:Ed; auto. pose proof (Hk1 _ eq_refl). pose proof (Hd _ eq_refl). lia. }
      rewrite Hn. apply advance_call_inv; auto.
      unfold Inv0, shape in *; cbn. rewrite Hn, Hdr, Esl in *. cbn in *.
      rewrite !app_nil_r in *. rewrite app_assoc, Ha0.
      repeat split; auto; try (intros; discriminate).
      * exists 1, []. cbn. repeat split; auto.
        -- intros d H. inversion H; subst. reflexivity.
        -- intros; discriminate.
      * intros d H. inversion H; subst. cbn. lia.
    + (* behind a live (or dead) drainer *)
      apply advance_call_inv; auto.
      unfold Inv0, shape in *; cbn. rewrite Esl, Hdr in *.
      rewrite somes_app. cbn [somes flat_map app]. rewrite !app_nil_r in *.
      rewrite app_assoc, Ha0, <- !app_assoc.
      repeat split; auto; try (intros; discriminate).
      * exists k, (p ++ [f]). rewrite map_app, app_assoc, <- Es. cbn. repeat split; auto.
        intros Hn Hff. specialize (Hk2 Hn Hff). discriminate.
      * intros H. rewrite Hcl in H. discriminate.
Qed.

Theorem step_inv s a : Inv m s -> Inv m (step m maxq s a).
Proof.
  destruct a; [apply begin_inv|apply frame_inv|apply dwrite_inv|apply dadvance_inv|apply close_inv].
Qed.

End Step.
