(* Property C14: WebSocket callbacks ordered and exactly-once; concurrent writes stay whole.
   Only statements, each closed by [exact]; proofs live in SendQueueProofs / CallbacksProofs (and coq/sched for C05).

   WRITE SIDE (SendQueue.v).  Every theorem is for ALL action sequences = all numbers of concurrent WriteMessage /
   WriteFrame callers and frames per call, all interleavings of their per-frame steps (under the explicit mutex),
   the drainer's socket writes and critical sections and CloseAndClean; both write modes (Direct: Conn.Write under
   the mutex; Queued: the send queue of BlockingModAsyncWrite), every queue bound [maxq] (0 = unbounded, the default)
   and every answer of Conn.Write.
     accepted s   the frames for which writeFrame returned nil, per call and in lock order:
                  concat of the accepted sequence of every finished call ++ that of the call holding the mutex
     wire s       the frames that went out on the socket, in order
     calls s      finished calls (frames given, frames accepted, result)

   CALLBACK SIDE (Callbacks.v): an explicit instantiation of the serializer of property C05 - see c14_order. *)
From Coq Require Import List Arith Bool.
Import ListNotations.
From SchedC Require Serializer SerializerProofs C05.
Require Import SendQueue SendQueueProofs.
Require Callbacks CallbacksProofs.

(* Whole messages.  (1) every finished call's accepted frames are a prefix of the frames it was given - all of them
   when it returned nil, none when it was refused as closed; (2) whatever was handed to the socket is a prefix of the
   accepted frames (so the frames of one call are contiguous and in fragment order, calls in lock order: nothing of
   another call inside a message); (3) without a socket error the wire itself is that prefix, and what is missing is
   exactly the frame in the drainer's hand, the queued frames and - after CloseAndClean - the frames it freed. *)
Theorem c14_whole m maxq acts :
  let s := run m maxq acts in
  Forall call_ok (calls s) /\
  (exists rest, accepted s = map fst (attempted s) ++ rest) /\
  (failed s = false -> accepted s = wire s ++ hand (dr s) ++ somes (slots s) ++ dropped s).
Proof.
  exact (conj (calls_ok m maxq acts) (conj (attempted_prefix m maxq acts) (whole m maxq acts))).
Qed.

(* All or nothing per call: a call that returned nil has all its frames accepted; a call refused because the connection
   is closed or because the bounded queue has no room for the whole message (the check WriteMessage makes before it
   queues the first fragment; writeFrame's per-frame check can then never fire inside the call) has NONE accepted - so
   no unfinished message is ever left on the wire by a refusal.  Only a socket error in direct mode ends a call with a
   proper prefix. *)
Theorem c14_all_or_none m maxq acts :
  Forall (fun c => let '(fs, acc, r) := c in
                   (r = ROk -> acc = fs) /\ (r = RClosed -> acc = []) /\ (r = RFull -> acc = []))
         (calls (run m maxq acts)).
Proof. exact (all_or_none m maxq acts). Qed.

(* The admission rule of a bounded queue, stated for the bytes that are actually cut into fragments: with k the number
   of fragments of the DEFLATED payload when compression applies (its length is an oracle input [z], see SendQueue.v),
   of the raw payload otherwise, a WriteMessage on an open connection is refused as a whole exactly when
   len(queue) + k > bound, and then nothing of it is queued or accepted; otherwise it starts with all k frames to do -
   and by c14_all_or_none none of them can be refused later. *)
Theorem c14_admission maxq s limit mid ctl raw z :
  holder s = None -> closed s = false -> 0 < maxq ->
  let k := nframes limit ctl (wire_len raw z) in
  let fs := msg_frames mid k in
  let s' := step Queued maxq s (begin_msg limit mid ctl raw z) in
  length fs = k /\
  (maxq < length (slots s) + k ->
     calls s' = calls s ++ [(fs, [], RFull)] /\ slots s' = slots s /\ dr s' = dr s /\ holder s' = None /\ accepted s' = accepted s) /\
  (length (slots s) + k <= maxq ->
     holder s' = Some {| cfs := fs; cacc := []; crest := fs |} /\ calls s' = calls s /\ slots s' = slots s).
Proof. exact (admission maxq s limit mid ctl raw z). Qed.

(* Nothing lost, nothing duplicated while the connection is open: with no drainer alive the wire IS the accepted
   frame sequence; and from every state in which no call holds the mutex the drainer's own steps (socket accepting)
   reach such a state without accepting or finishing anything else - no accepted frame is stranded in the queue. *)
Theorem c14_no_loss_no_dup m maxq acts :
  let s := run m maxq acts in
  (closed s = false -> failed s = false -> dr s = None -> wire s = accepted s) /\
  (holder s = None -> closed s = false -> failed s = false ->
   exists more, Forall drainer_action more /\
     let s' := run m maxq (acts ++ more) in dr s' = None /\ wire s' = accepted s /\ calls s' = calls s).
Proof. exact (conj (quiescent_wire m maxq acts) (all_written m maxq acts)). Qed.

(* The crisp form of both: connection open, no socket error, no call in progress, no drainer alive, every WriteMessage /
   WriteFrame so far returned nil: the wire is exactly the concatenation, in lock order, of the calls' frame sequences. *)
Theorem c14_whole_messages m maxq acts :
  let s := run m maxq acts in
  closed s = false -> failed s = false -> dr s = None -> holder s = None ->
  Forall (fun c => snd c = ROk) (calls s) ->
  wire s = concat (map (fun c => fst (fst c)) (calls s)).
Proof. exact (whole_messages m maxq acts). Qed.

(* One drainer: a second drainer goroutine is never started; in direct mode there is none at all; while the connection
   is open and the socket works a drainer is alive exactly when the queue is non-empty. *)
Theorem c14_single_drainer m maxq acts :
  let s := run m maxq acts in
  extra s = 0 /\ (m = Direct -> dr s = None /\ slots s = []) /\
  (closed s = false -> failed s = false -> (dr s = None <-> slots s = [])).
Proof.
  exact (conj (proj1 (one_drainer m maxq acts)) (conj (proj2 (one_drainer m maxq acts)) (drainer_iff_nonempty m maxq acts))).
Qed.

(* After CloseAndClean a write is refused as a whole: nothing of it is accepted, queued or written. *)
Theorem c14_closed m maxq s f fs :
  holder s = None -> closed s = true ->
  let s' := step m maxq s (Begin (f :: fs)) in
  accepted s' = accepted s /\ calls s' = calls s ++ [(f :: fs, [], RClosed)] /\ slots s' = slots s /\ dr s' = dr s.
Proof. exact (begin_closed m maxq s f fs). Qed.

(* Callback order, as a corollary of the serializer theorems c05_fifo_once, c05_mutex, c05_all_run (coq/sched) under
   the instantiation of Callbacks.v: job 0 = the upgrade request's job, in which the open handler runs; job i+2 = the
   i-th message callback in wire order; job 1 = CloseAndClean + the user's close callback.
   For every websocket schedule w accepted by [wf] (upgrade first, messages in wire order through Execute, closed flag,
   then one MustExecute of the close job), every executor, every capacity oracle and every interleaving of the
   drainer's steps:
     - the jobs started so far are a prefix of  open ; message 0 .. m-1 in wire order ; close  (m = the messages
       dispatched before the closed flag; later ones never run), without repetition;
     - the start/end trace is serial: every started job has ended before the next one starts (so the open handler has
       completed before the first message callback starts, message callbacks never overlap, and the close callback
       starts only after the last message callback has ended);
     - when the drainer has returned, exactly that list has run: every dispatched message callback, and the close
       callback exactly once, last. *)
Theorem c14_order ex c w :
  Callbacks.wf Callbacks.P0 w ->
  let acts := Callbacks.compile 0 w in
  let s := C05.crun ex c acts in
  let order := Callbacks.callback_order (Callbacks.has_upgrade w) (Callbacks.delivered Callbacks.P0 w) (Callbacks.has_onclose w) in
  (exists rest, order = Serializer.started s ++ rest) /\
  Callbacks.serial (Callbacks.trace ex c acts) (Serializer.started s) /\
  NoDup (Serializer.started s) /\
  Serializer.nrunning s <= 1 /\
  (Serializer.dr s = None ->
   Serializer.started s = order /\ Callbacks.trace ex c acts = Callbacks.brackets order).
Proof. exact (CallbacksProofs.ws_order ex c w). Qed.

(* ---- non-vacuity ---- *)
(* queued mode: writer A (frames 1,2,3) starts the drainer with its first fragment; the drainer writes frame 1 while A
   still appends; writer B (frames 4,5) gets the mutex after A; the drainer hands over three times, finds the queue
   empty and returns; writer C (frame 6) starts a new drainer; CloseAndClean; writer D is refused. *)
Example c14_write_nonvacuous :
  let acts := [Begin [1;2;3]; Frame true; DWrite true; Frame true; DAdvance (* blocked: A holds the mutex *); Frame true;
               DAdvance; Begin [4;5]; Frame true; DWrite true; Frame true; DAdvance; DWrite true; DAdvance; DWrite true;
               DAdvance; DWrite true; DAdvance;
               Begin [6]; Frame true; DWrite true; DAdvance; CloseClean; Begin [7;8]] in
  let s := run Queued 0 acts in
  wire s = [1;2;3;4;5;6] /\ accepted s = [1;2;3;4;5;6] /\ dr s = None /\ failed s = false /\ closed s = true /\
  calls s = [([1;2;3],[1;2;3],ROk); ([4;5],[4;5],ROk); ([6],[6],ROk); ([7;8],[],RClosed)].
Proof. vm_compute. repeat split. Qed.

(* a bounded queue without room for the whole message: refused before anything is queued; a message that fits is taken *)
Example c14_full_nonvacuous :
  let s := run Queued 2 [Begin [1;2;3]; Frame true; Begin [4;5]; Frame true; Frame true; Begin [6]] in
  calls s = [([1;2;3],[],RFull); ([4;5],[4;5],ROk); ([6],[],RFull)] /\ holder s = None /\ accepted s = [4;5].
Proof. vm_compute. repeat split. Qed.

(* frame limit 16, bound 4, one frame already queued behind the drainer's: an incompressible 32 byte payload is 2 fragments
   raw but 38 bytes = 3 fragments deflated - it is refused as a whole (2 would have fitted); uncompressed it is taken *)
Example c14_admission_nonvacuous :
  let pre := [Begin [100]; Frame true; Begin [200]; Frame true] in
  calls (run Queued 4 (pre ++ [begin_msg 16 3 false 32 (Some 38)])) = [([100],[100],ROk); ([200],[200],ROk); ([300;301;302],[],RFull)] /\
  accepted (run Queued 4 (pre ++ [begin_msg 16 3 false 32 None; Frame true; Frame true])) = [100; 200; 300; 301].
Proof. vm_compute. repeat split. Qed.

(* upgrade, two messages, the second dispatched while the first runs, connection closed while it runs, a third message
   refused, the close job queued behind; pool executor *)
Example c14_order_nonvacuous :
  let w := [Callbacks.WUpgrade 4; Callbacks.WExec Serializer.DBegin; Callbacks.WExec Serializer.DStart;
            Callbacks.WMessage 4; Callbacks.WExec Serializer.DEnd; Callbacks.WExec Serializer.DAdvance;
            Callbacks.WExec Serializer.DStart; Callbacks.WMessage 4; Callbacks.WConnClose; Callbacks.WMessage 4;
            Callbacks.WOnClose 4; Callbacks.WExec Serializer.DEnd; Callbacks.WExec Serializer.DAdvance;
            Callbacks.WExec Serializer.DStart; Callbacks.WExec Serializer.DEnd; Callbacks.WExec Serializer.DAdvance;
            Callbacks.WExec Serializer.DStart; Callbacks.WExec Serializer.DEnd; Callbacks.WExec Serializer.DAdvance] in
  Callbacks.wf Callbacks.P0 w /\
  Serializer.dr (C05.crun Serializer.Pool 4 (Callbacks.compile 0 w)) = None /\
  Serializer.started (C05.crun Serializer.Pool 4 (Callbacks.compile 0 w)) = [0; 2; 3; 1] /\
  Callbacks.trace Serializer.Pool 4 (Callbacks.compile 0 w) = Callbacks.brackets [0; 2; 3; 1].
Proof. vm_compute. repeat split; discriminate. Qed.

Print Assumptions c14_whole.
Print Assumptions c14_all_or_none.
Print Assumptions c14_admission.
Print Assumptions c14_no_loss_no_dup.
Print Assumptions c14_whole_messages.
Print Assumptions c14_single_drainer.
Print Assumptions c14_closed.
Print Assumptions c14_order.
