(* The write side of websocket.Conn as a labelled transition system (executable, no proofs here).

   /repo/nbhttp/websocket/conn.go:
     WriteMessage / WriteFrame   c.mux.Lock(); defer c.mux.Unlock(); closed => ErrClosed;
                                 WriteMessage, queued mode with a bound: len(sendQueue) + #frames > sendQueueSize =>
                                 ErrMessageSendQuqueIsFull before anything is queued (a message is taken as a whole or not
                                 at all; for the single frame of WriteFrame this is writeFrame's own check below);
                                 then one writeFrame per fragment (WriteFrame: exactly one), first error returns.
     writeFrame, direct mode     (c.sendQueue == nil)  _, err := c.Conn.Write(frame); return err
     writeFrame, queued mode     (BlockingModAsyncWrite: c.sendQueue != nil)
         if sendQueueSize > 0 && len(sendQueue) >= sendQueueSize { free; return ErrMessageSendQuqueIsFull }
         sendQueue = append(sendQueue, frame); isHead := len(sendQueue) == 1
         isHead => sendQueue[0] = nil; go drainer(frame)
     drainer                     i := 0; loop { _, err := c.Conn.Write(frame); free; err => CloseWithError(err), return;
                                   i++; c.mux.Lock(); closed => unlock, return;
                                   len(sendQueue) <= i => sendQueue = sendQueue[:0], unlock, return;
                                   frame = sendQueue[i]; sendQueue[i] = nil; unlock; frame == nil => return }
     CloseAndClean               c.mux.Lock(); closed => unlock, return; closed = true; every non-nil slot freed and set to nil; ...; unlock

   Granularity: the connection mutex is explicit ([holder] = the call that owns it), ONE action per writeFrame of a
   call, so the drainer's socket write (outside the mutex) interleaves freely with the fragments of a call in
   progress; the drainer's critical section and CloseAndClean need the mutex and are disabled while a call holds
   it.  An action that is not enabled leaves the state unchanged (a schedule is any list of actions).

   Frames are ghost identities (nat); the frames of one call are listed in fragment order.
   [di] of the drainer is the next slot it will take (the code's i+1 while it writes slot i, i after the i++). *)
From Coq Require Import List Arith Bool.
Import ListNotations.

Notation frame := nat (only parsing).

Inductive mode := Direct | Queued.

Inductive result := ROk | RClosed | RFull | RErr.

Inductive dphase := Writing (f : frame) | AtLock.
Record drainer := { di : nat; dph : dphase }.

(* the call that owns the mutex: the frames it was given, those writeFrame accepted so far, those still to do *)
Record call := { cfs : list frame; cacc : list frame; crest : list frame }.

Record st := mk {
  slots : list (option frame);          (* c.sendQueue; consumed / freed slots are nil *)
  closed : bool;
  holder : option call;                 (* who holds c.mux across the fragments of a WriteMessage *)
  dr : option drainer;                  (* the live drainer goroutine, if any *)
  extra : nat;                          (* further live drainers: must stay 0 *)
  attempted : list (frame * bool);      (* ghost: frames handed to Conn.Write by the drainer / directly, with the outcome *)
  failed : bool;                        (* ghost: some Conn.Write failed *)
  dropped : list frame;                 (* ghost: frames freed unwritten by CloseAndClean *)
  calls : list (list frame * list frame * result)   (* ghost: finished calls in lock order: given, accepted, returned *)
}.

Inductive action :=
| Begin (fs : list frame)   (* WriteMessage / WriteFrame takes the mutex for the frame sequence fs (fs <> []) *)
| Frame (ok : bool)         (* the owner's next writeFrame; ok: answer of Conn.Write in direct mode (oracle input) *)
| DWrite (ok : bool)        (* the drainer's Conn.Write of the frame it holds (outside the mutex); ok: oracle input *)
| DAdvance                  (* the drainer's critical section *)
| CloseClean.               (* CloseAndClean's critical section *)

Definition somes (l : list (option frame)) : list frame :=
  flat_map (fun o => match o with Some f => [f] | None => [] end) l.

Definition hand (d : option drainer) : list frame :=
  match d with Some {| dph := Writing f |} => [f] | _ => [] end.

Definition cur (h : option call) : list frame :=
  match h with Some c => cacc c | None => [] end.

(* frames that went out on the socket, in order *)
Definition wire (s : st) : list frame := map fst (filter snd (attempted s)).

(* every frame some writeFrame accepted, in lock order *)
Definition accepted (s : st) : list frame := concat (map (fun c => snd (fst c)) (calls s)) ++ cur (holder s).

Definition set_holder (s : st) (h : option call) : st :=
  mk (slots s) (closed s) h (dr s) (extra s) (attempted s) (failed s) (dropped s) (calls s).

(* the owner's call ends with result r *)
Definition finish (s : st) (c : call) (r : result) : st :=
  mk (slots s) (closed s) None (dr s) (extra s) (attempted s) (failed s) (dropped s)
     (calls s ++ [(cfs c, cacc c, r)]).

(* after an accepted frame: go on or return nil *)
Definition advance_call (s : st) (c : call) (f : frame) (rest : list frame) : st :=
  let c' := {| cfs := cfs c; cacc := cacc c ++ [f]; crest := rest |} in
  match rest with
  | [] => finish s c' ROk
  | _ => set_holder s (Some c')
  end.

Definition full (maxq : nat) (s : st) : bool :=
  match maxq with 0 => false | _ => maxq <=? length (slots s) end.

(* the whole-message check of WriteMessage: no room for all the frames of the call *)
Definition no_room (m : mode) (maxq : nat) (s : st) (fs : list frame) : bool :=
  match m, maxq with
  | Queued, S _ => maxq <? length (slots s) + length fs
  | _, _ => false
  end.

Fixpoint set_nth (l : list (option frame)) (i : nat) : list (option frame) :=
  match l, i with
  | [], _ => []
  | _ :: r, 0 => None :: r
  | x :: r, S i' => x :: set_nth r i'
  end.

Definition step (m : mode) (maxq : nat) (s : st) (a : action) : st :=
  match a with
  | Begin fs =>
      match holder s, fs with
      | None, _ :: _ =>
          if closed s
          then mk (slots s) (closed s) None (dr s) (extra s) (attempted s) (failed s) (dropped s)
                  (calls s ++ [(fs, [], RClosed)])
          else if no_room m maxq s fs
          then mk (slots s) (closed s) None (dr s) (extra s) (attempted s) (failed s) (dropped s)
                  (calls s ++ [(fs, [], RFull)])
          else set_holder s (Some {| cfs := fs; cacc := []; crest := fs |})
      | _, _ => s
      end
  | Frame ok =>
      match holder s with
      | Some c =>
          match crest c with
          | f :: rest =>
              match m with
              | Direct =>
                  if ok
                  then advance_call (mk (slots s) (closed s) (holder s) (dr s) (extra s) (attempted s ++ [(f, true)])
                                        (failed s) (dropped s) (calls s)) c f rest
                  else finish (mk (slots s) (closed s) (holder s) (dr s) (extra s) (attempted s) true (dropped s) (calls s))
                              c RErr
              | Queued =>
                  if full maxq s then finish s c RFull
                  else
                    match slots s with
                    | [] =>   (* head: slot 0 is nil-ed at once, a drainer is started with the frame in hand *)
                        let d' := match dr s with None => Some {| di := 1; dph := Writing f |} | Some d => Some d end in
                        let e' := match dr s with None => extra s | Some _ => S (extra s) end in
                        advance_call (mk [None] (closed s) (holder s) d' e' (attempted s) (failed s) (dropped s) (calls s))
                                     c f rest
                    | _ =>
                        advance_call (mk (slots s ++ [Some f]) (closed s) (holder s) (dr s) (extra s) (attempted s)
                                         (failed s) (dropped s) (calls s)) c f rest
                    end
              end
          | [] => s
          end
      | None => s
      end
  | DWrite ok =>
      match dr s with
      | Some {| di := i; dph := Writing f |} =>
          if ok
          then mk (slots s) (closed s) (holder s) (Some {| di := i; dph := AtLock |}) (extra s)
                  (attempted s ++ [(f, true)]) (failed s) (dropped s) (calls s)
          else mk (slots s) (closed s) (holder s) None (extra s)
                  (attempted s ++ [(f, false)]) true (dropped s) (calls s)
      | _ => s
      end
  | DAdvance =>
      match holder s, dr s with
      | None, Some {| di := i; dph := AtLock |} =>
          if closed s
          then mk (slots s) (closed s) None None (extra s) (attempted s) (failed s) (dropped s) (calls s)
          else if length (slots s) <=? i
          then mk [] (closed s) None None (extra s) (attempted s) (failed s) (dropped s) (calls s)
          else match nth i (slots s) None with
               | Some f => mk (set_nth (slots s) i) (closed s) None (Some {| di := S i; dph := Writing f |}) (extra s)
                              (attempted s) (failed s) (dropped s) (calls s)
               | None => mk (slots s) (closed s) None None (extra s) (attempted s) (failed s) (dropped s) (calls s)
               end
      | _, _ => s
      end
  | CloseClean =>
      match holder s with
      | None =>
          if closed s then s
          else mk (map (fun _ => None) (slots s)) true None (dr s) (extra s) (attempted s) (failed s)
                  (dropped s ++ somes (slots s)) (calls s)
      | Some _ => s
      end
  end.

(* ---- a WriteMessage call as the code forms it ----
   WriteMessage first deflates the payload when write compression applies (data message, permessage-deflate negotiated),
   THEN cuts the bytes it is going to send into fragments of at most MaxWebsocketFramePayloadSize and, for a bounded
   queue, asks for room for all of them.  DEFLATE is not modelled: the deflated length is an oracle input of the call
   ([z = Some n]: compression applied and produced n bytes; [None]: the payload goes out as it is).
   Control messages are never fragmented; an empty payload is one empty frame. *)
Definition wire_len (raw : nat) (z : option nat) : nat := match z with Some n => n | None => raw end.

Definition nframes (limit : nat) (ctl : bool) (n : nat) : nat :=
  if ctl then 1
  else match limit, n with
       | 0, _ => 1
       | _, 0 => 1
       | _, _ => (n + limit - 1) / limit
       end.

(* the frames of message [mid]: identities mid*100 + fragment index *)
Definition msg_frames (mid n : nat) : list frame := map (fun j => mid * 100 + j) (seq 0 n).

Definition begin_msg (limit mid : nat) (ctl : bool) (raw : nat) (z : option nat) : action :=
  Begin (msg_frames mid (nframes limit ctl (wire_len raw z))).

Definition init : st := mk [] false None None 0 [] false [] [].
Definition run (m : mode) (maxq : nat) (acts : list action) : st := fold_left (step m maxq) acts init.

(* what a harness could compare: is the action enabled, and what does it answer (computed on the state BEFORE) *)
Inductive out :=
| OBegin (r : option result)                 (* Some RClosed / Some RFull: refused as a whole; None: the call goes on *)
| OFrame (r : option result) (head : bool)   (* the call's result if it returns now; did this frame start a drainer *)
| ODWrite
| OAdv (exit : bool)
| OClose (first : bool)
| OStuck.

Definition observe (m : mode) (maxq : nat) (s : st) (a : action) : out :=
  match a with
  | Begin fs => match holder s, fs with
                | None, _ :: _ => OBegin (if closed s then Some RClosed else if no_room m maxq s fs then Some RFull else None)
                | _, _ => OStuck
                end
  | Frame ok =>
      match holder s with
      | Some c =>
          match crest c with
          | f :: rest =>
              let fin := match rest with [] => Some ROk | _ => None end in
              match m with
              | Direct => if ok then OFrame fin false else OFrame (Some RErr) false
              | Queued => if full maxq s then OFrame (Some RFull) false
                          else OFrame fin (match slots s with [] => true | _ => false end)
              end
          | [] => OStuck
          end
      | None => OStuck
      end
  | DWrite _ => match dr s with Some {| dph := Writing _ |} => ODWrite | _ => OStuck end
  | DAdvance =>
      match holder s, dr s with
      | None, Some {| di := i; dph := AtLock |} =>
          OAdv (closed s || (length (slots s) <=? i) || match nth i (slots s) None with None => true | Some _ => false end)
      | _, _ => OStuck
      end
  | CloseClean => match holder s with None => OClose (negb (closed s)) | Some _ => OStuck end
  end.
