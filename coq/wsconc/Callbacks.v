(* WebSocket callback order as an INSTANCE of the per-connection job serializer (coq/sched, property C05).

   The instantiation (poller-driven and transferred connections, where websocket.Conn.Execute = nbio.Conn.Execute):
     job 0        the upgrade request's job: nbhttp's processor hands the HTTP handler to parser.Execute; the handler
                  calls Upgrader.Upgrade, which makes the websocket.Conn the session of the nbio.Conn, writes the 101
                  answer and THEN runs the open handler (upgrader.go:546) - all inside this one job;
     job i+2      the i-th message callback in wire order: Conn.Parse runs on one reader at a time (poller / IO task
                  of the connection) and dispatches through c.Execute (conn.go handleMessage);
     job 1        the close job: nbio's closeWithError sets the Conn's closed flag (action Close), later the engine's
                  OnClose hook calls c.MustExecute(CloseAndClean + user OnClose) (nbhttp/engine.go:1169).
   (Requests served on the connection before the upgrade are earlier jobs of the same queue and end before job 0 starts.)
   A websocket-level schedule [list wsact] is compiled to an action sequence of the serializer LTS; its drainer /
   executor steps (job start, job end, panic, hand-over, pool pick-up, ExecuteLen) are arbitrary and arbitrarily
   interleaved.  What the surrounding code guarantees about the ORDER OF SUBMISSIONS is the automaton [wf]:
   the upgrade job is submitted first, messages are dispatched in wire order, the close job is submitted once, after
   the closed flag was set; messages dispatched after the flag are Execute calls too (they are refused).

   The blocking paths (IOModBlocking with the HTTP parser's reader, and the connection's own HandleRead loop) run
   open handler, message callbacks and CloseAndClean in program order on ONE goroutine (SyncExecutor / SyncCall):
   there is nothing to interleave; those paths are exercised by the harness only. *)
From Coq Require Import List Arith Lia Bool.
Import ListNotations.
From SchedC Require Import Serializer SerializerProofs C05.

(* ---------- job start / end events of a run of the serializer ---------- *)
Inductive ev := EStart (j : nat) | EEnd (j : nat).

Definition ev_of (s : st) (a : action) : list ev :=
  match a, dr s with
  | DStart, Some {| di := i; dphase := Ready |} => [EStart (nth i (jobs s) 0)]
  | DEnd, Some {| di := i; dphase := Running |} => [EEnd (nth i (jobs s) 0)]
  | DPanic, Some {| di := i; dphase := Running |} => [EEnd (nth i (jobs s) 0)]
  | _, _ => []
  end.

Fixpoint trace_from (v : variant) (ex : executor) (s : st) (acts : list action) : list ev :=
  match acts with
  | [] => []
  | a :: r => ev_of s a ++ trace_from v ex (step v ex s a) r
  end.

Definition trace (ex : executor) (c : nat) (acts : list action) : list ev := trace_from ConnV ex (init c) acts.

(* the jobs of [l] one after the other, each finished before the next starts *)
Fixpoint brackets (l : list nat) : list ev :=
  match l with
  | [] => []
  | j :: r => EStart j :: EEnd j :: brackets r
  end.

(* a trace is serial for the started jobs [l]: either all of them have ended, or all but the last, which runs *)
Definition serial (t : list ev) (l : list nat) : Prop :=
  t = brackets l \/ exists l0 x, l = l0 ++ [x] /\ t = brackets l0 ++ [EStart x].

(* ---------- websocket-level schedules ---------- *)
Inductive wsact :=
| WUpgrade (nc : nat)     (* the upgrade request is handed to Execute (nc: append's growth oracle, as in Serializer.v) *)
| WMessage (nc : nat)     (* Parse dispatches the next message of the wire through Execute *)
| WConnClose              (* the nbio.Conn's closed flag is set *)
| WOnClose (nc : nat)     (* the engine's OnClose hook: MustExecute(close job) *)
| WExec (a : action).     (* any step of the drainer / executor *)

Definition job_open := 0.
Definition job_close := 1.
Definition job_msg (i : nat) := i + 2.

Definition exec_action (a : action) : bool :=
  match a with Submit _ _ _ | Close => false | _ => true end.

(* n = number of messages dispatched so far = wire index of the next message *)
Fixpoint compile (n : nat) (w : list wsact) : list action :=
  match w with
  | [] => []
  | WUpgrade nc :: r => Submit job_open false nc :: compile n r
  | WMessage nc :: r => Submit (job_msg n) false nc :: compile (S n) r
  | WConnClose :: r => Close :: compile n r
  | WOnClose nc :: r => Submit job_close true nc :: compile n r
  | WExec a :: r => a :: compile n r
  end.

Inductive wsphase := P0 | P1 | P2 | P3.   (* before the upgrade / open / closed flag set / close job submitted *)

Fixpoint wf (ph : wsphase) (w : list wsact) : Prop :=
  match w with
  | [] => True
  | WUpgrade _ :: r => ph = P0 /\ wf P1 r
  | WMessage _ :: r => ph <> P0 /\ wf ph r
  | WConnClose :: r => ph = P1 /\ wf P2 r
  | WOnClose _ :: r => ph = P2 /\ wf P3 r
  | WExec a :: r => exec_action a = true /\ wf ph r
  end.

(* the callbacks that must run, in order, read off the websocket schedule alone *)
Fixpoint expected (ph : wsphase) (n : nat) (w : list wsact) : list nat :=
  match w with
  | [] => []
  | WUpgrade _ :: r => job_open :: expected P1 n r
  | WMessage _ :: r => match ph with
                       | P1 => job_msg n :: expected ph (S n) r
                       | _ => expected ph (S n) r
                       end
  | WConnClose :: r => expected P2 n r
  | WOnClose _ :: r => job_close :: expected P3 n r
  | WExec _ :: r => expected ph n r
  end.

Definition closed_of (ph : wsphase) : bool := match ph with P0 | P1 => false | _ => true end.

(* messages dispatched while the connection is open *)
Fixpoint delivered (ph : wsphase) (w : list wsact) : nat :=
  match w with
  | [] => 0
  | WUpgrade _ :: r => delivered P1 r
  | WMessage _ :: r => match ph with P1 => S (delivered ph r) | _ => delivered ph r end
  | WConnClose :: r => delivered P2 r
  | WOnClose _ :: r => delivered P3 r
  | WExec _ :: r => delivered ph r
  end.

Fixpoint has_upgrade (w : list wsact) : bool :=
  match w with [] => false | WUpgrade _ :: _ => true | _ :: r => has_upgrade r end.
Fixpoint has_onclose (w : list wsact) : bool :=
  match w with [] => false | WOnClose _ :: _ => true | _ :: r => has_onclose r end.

(* open callback's job, then the message callbacks 0..m-1 in wire order, then the close job *)
Definition callback_order (up : bool) (m : nat) (cl : bool) : list nat :=
  (if up then [job_open] else []) ++ map job_msg (seq 0 m) ++ (if cl then [job_close] else []).
