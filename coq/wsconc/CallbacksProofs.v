(* Proofs for Callbacks.v: the job trace of the serializer is serial; the submissions of a websocket schedule are
   accepted exactly as [expected]; [expected] is open, messages in wire order, close. *)
From Coq Require Import List Arith Lia Bool FinFun.
Import ListNotations.
From SchedC Require Import Serializer SerializerProofs C05.
Require Import Callbacks.

Lemma brackets_snoc l x : brackets (l ++ [x]) = brackets l ++ [EStart x; EEnd x].
Proof. induction l as [|y l IH]; cbn; auto. now rewrite IH. Qed.

Lemma trace_from_app v ex s a b :
  trace_from v ex s (a ++ b) = trace_from v ex s a ++ trace_from v ex (fold_left (step v ex) a s) b.
Proof.
  revert s. induction a as [|x a IH]; intros s; cbn; auto. now rewrite IH, app_assoc.
Qed.

(* ---------- the trace is serial ---------- *)
Definition tr_ok (s : st) (t : list ev) : Prop :=
  match dr s with
  | Some {| di := i; dphase := Running |} =>
      exists l0, started s = l0 ++ [nth i (jobs s) 0] /\ t = brackets l0 ++ [EStart (nth i (jobs s) 0)]
  | _ => t = brackets (started s)
  end.

Lemma nth_app_keep (l : list nat) x i : i < length l -> nth i (l ++ [x]) 0 = nth i l 0.
Proof. intros H. now rewrite app_nth1. Qed.

Lemma step_tr v ex s a t : Inv s -> tr_ok s t -> tr_ok (step v ex s a) (t ++ ev_of s a).
Proof.
  intros (He & Ha & Hs & Hd & Hi & Hr) Ht. unfold tr_ok, ev_of in *.
  destruct a as [j must nc| | | | | | |]; cbn [step].
  - (* Submit *)
    rewrite app_nil_r.
    destruct (closed s && negb must); cbn; [exact Ht|].
    destruct (jobs s) as [|x l] eqn:Ej.
    + assert (Hn : dr s = None) by (apply Hd; reflexivity).
      unfold spawn; cbn. rewrite Hn in *. cbn. unfold spawn_phase. destruct v, ex; exact Ht.
    + cbn. destruct (dr s) as [[i p]|] eqn:Ed; [|exact Ht].
      destruct p; try exact Ht.
      specialize (Hi _ eq_refl). unfold bound_ok in Hi. cbn in Hi.
      destruct i as [|i']; cbn in Ht |- *; [exact Ht|]. rewrite app_nth1 by lia. exact Ht.
  - cbn. rewrite app_nil_r. exact Ht.
  - rewrite app_nil_r. exact Ht.
  - (* DBegin *)
    rewrite app_nil_r. destruct (dr s) as [[i p]|] eqn:Ed; [|now rewrite Ed].
    destruct p; cbn; rewrite ?Ed; exact Ht.
  - (* DStart *)
    destruct (dr s) as [[i p]|] eqn:Ed; [|rewrite Ed, app_nil_r; exact Ht].
    destruct p; cbn; rewrite ?Ed, ?app_nil_r; try exact Ht.
    exists (started s). split; auto. now rewrite Ht.
  - (* DEnd *)
    destruct (dr s) as [[i p]|] eqn:Ed; [|rewrite Ed, app_nil_r; exact Ht].
    destruct p; cbn; rewrite ?Ed, ?app_nil_r; try exact Ht.
    destruct Ht as (l0 & E1 & E2). rewrite E1, E2, brackets_snoc, <- app_assoc. reflexivity.
  - (* DPanic *)
    destruct (dr s) as [[i p]|] eqn:Ed; [|rewrite Ed, app_nil_r; exact Ht].
    destruct p; cbn; rewrite ?Ed, ?app_nil_r; try exact Ht.
    destruct Ht as (l0 & E1 & E2). rewrite E1, E2, brackets_snoc, <- app_assoc. reflexivity.
  - (* DAdvance *)
    rewrite app_nil_r. destruct (dr s) as [[i p]|] eqn:Ed; [|now rewrite Ed].
    destruct p; cbn; rewrite ?Ed; try exact Ht.
    destruct (Nat.eqb (length (jobs s)) i); cbn; exact Ht.
Qed.

Lemma fold_tr v ex acts s t :
  Inv s -> tr_ok s t -> tr_ok (fold_left (step v ex) acts s) (t ++ trace_from v ex s acts).
Proof.
  revert s t. induction acts as [|a acts IH]; intros s t HI Ht; cbn.
  - now rewrite app_nil_r.
  - rewrite app_assoc. apply IH; [now apply step_inv|now apply step_tr].
Qed.

Theorem trace_ok ex c acts : tr_ok (crun ex c acts) (trace ex c acts).
Proof.
  unfold crun, run, trace. change (trace_from ConnV ex (init c) acts) with ([] ++ trace_from ConnV ex (init c) acts).
  apply fold_tr; [apply init_inv|]. unfold tr_ok. cbn. reflexivity.
Qed.

Theorem trace_serial ex c acts : serial (trace ex c acts) (started (crun ex c acts)).
Proof.
  pose proof (trace_ok ex c acts) as H. unfold tr_ok, serial in *.
  destruct (dr (crun ex c acts)) as [[i p]|]; auto.
  destruct p; auto. destruct H as (l0 & E1 & E2). right. eauto.
Qed.

(* with no job running the trace is complete brackets *)
Theorem trace_idle ex c acts :
  nrunning (crun ex c acts) = 0 -> trace ex c acts = brackets (started (crun ex c acts)).
Proof.
  intros Hn. pose proof (trace_ok ex c acts) as H. unfold tr_ok in H.
  destruct (inv_all ConnV ex c acts) as (_&_&_&_&_&Hr). fold (crun ex c acts) in Hr.
  destruct (dr (crun ex c acts)) as [[i p]|]; auto.
  destruct p; auto. rewrite Hr in Hn. discriminate.
Qed.

(* ---------- the accepted submissions of a websocket schedule ---------- *)
Lemma accepted_expected ph n w :
  wf ph w -> spec_accepted (closed_of ph) (compile n w) = expected ph n w.
Proof.
  revert ph n. induction w as [|a w IH]; intros ph n H; cbn; auto.
  destruct a as [nc|nc| |nc|a]; cbn in H |- *.
  - destruct H as (-> & H). cbn. f_equal. apply (IH P1 n H).
  - destruct H as (Hp & H). destruct ph; cbn; try contradiction; try (f_equal); apply (IH _ (S n) H).
  - destruct H as (-> & H). cbn. apply (IH P2 n H).
  - destruct H as (-> & H). cbn. f_equal. apply (IH P3 n H).
  - destruct H as (Ha & H). destruct a; cbn in Ha; try discriminate; apply (IH ph n H).
Qed.

Lemma expected_P3 n w : wf P3 w -> expected P3 n w = [] /\ has_onclose w = false.
Proof.
  revert n. induction w as [|a w IH]; intros n H; cbn; auto.
  destruct a as [nc|nc| |nc|a]; cbn in H |- *; try (destruct H as (E & _); discriminate).
  - destruct H as (_ & H). apply (IH (S n) H).
  - destruct H as (_ & H). apply (IH n H).
Qed.

Lemma expected_P2 n w :
  wf P2 w -> expected P2 n w = (if has_onclose w then [job_close] else []) /\ delivered P2 w = 0.
Proof.
  revert n. induction w as [|a w IH]; intros n H; cbn; auto.
  destruct a as [nc|nc| |nc|a]; cbn in H |- *; try (destruct H as (E & _); discriminate).
  - destruct H as (_ & H). apply (IH (S n) H).
  - destruct H as (_ & H). destruct (expected_P3 n w H) as (-> & _). split; auto.
    clear IH. revert H. generalize n. induction w as [|b w IHw]; intros n0 H; cbn; auto.
    destruct b; cbn in H |- *; try (destruct H as (E & _); discriminate); destruct H as (_ & H); eauto.
  - destruct H as (_ & H). apply (IH n H).
Qed.

Lemma expected_P1 n w :
  wf P1 w ->
  expected P1 n w = map job_msg (seq n (delivered P1 w)) ++ (if has_onclose w then [job_close] else []).
Proof.
  revert n. induction w as [|a w IH]; intros n H; cbn; auto.
  destruct a as [nc|nc| |nc|a]; cbn in H |- *; try (destruct H as (E & _); discriminate).
  - destruct H as (_ & H). cbn. f_equal. apply (IH (S n) H).
  - destruct H as (_ & H). destruct (expected_P2 n w H) as (-> & ->). reflexivity.
  - destruct H as (_ & H). apply (IH n H).
Qed.

Lemma expected_P0 n w :
  wf P0 w ->
  expected P0 n w = (if has_upgrade w then [job_open] else []) ++ map job_msg (seq n (delivered P0 w)) ++
                    (if has_onclose w then [job_close] else []) /\
  (has_upgrade w = false -> delivered P0 w = 0 /\ has_onclose w = false).
Proof.
  revert n. induction w as [|a w IH]; intros n H; cbn; auto.
  destruct a as [nc|nc| |nc|a]; cbn in H |- *; try (destruct H as (E & _); discriminate).
  - destruct H as (_ & H). rewrite (expected_P1 n w H). split; [reflexivity|discriminate].
  - destruct H as (E & _). contradiction.
  - destruct H as (_ & H). apply (IH n H).
Qed.

Theorem expected_order w :
  wf P0 w -> expected P0 0 w = callback_order (has_upgrade w) (delivered P0 w) (has_onclose w).
Proof. intros H. unfold callback_order. apply (expected_P0 0 w H). Qed.

Lemma nodup_snoc (l : list nat) x : NoDup l -> ~ In x l -> NoDup (l ++ [x]).
Proof.
  induction l as [|y l IH]; intros Hn Hx; cbn.
  - constructor; [intros []|constructor].
  - inversion Hn as [|? ? Hy Hl]; subst. constructor.
    + intros H. apply in_app_or in H as [H|[H|[]]]; [auto|]. subst. apply Hx. now left.
    + apply IH; auto. intros H. apply Hx. now right.
Qed.

Lemma callback_order_nodup up m cl : NoDup (callback_order up m cl).
Proof.
  unfold callback_order, job_open, job_close, job_msg.
  assert (Hm : NoDup (map (fun i => i + 2) (seq 0 m))).
  { apply Injective_map_NoDup; [intros a b; lia|apply seq_NoDup]. }
  assert (Hin : forall x, In x (map (fun i => i + 2) (seq 0 m)) -> 2 <= x).
  { intros x Hx. apply in_map_iff in Hx as (i & <- & _). lia. }
  assert (Hmc : NoDup (map (fun i => i + 2) (seq 0 m) ++ (if cl then [1] else []))).
  { destruct cl; [|rewrite app_nil_r; apply Hm].
    apply nodup_snoc; auto. intros Hx. apply Hin in Hx. lia. }
  destruct up; cbn; auto. constructor; auto.
  intros Hx. apply in_app_or in Hx as [Hx|Hx]; [apply Hin in Hx; lia|].
  destruct cl; cbn in Hx; intuition discriminate.
Qed.

(* ---------- the instantiation: callbacks of one websocket connection ---------- *)
Theorem ws_order ex c w :
  wf P0 w ->
  let acts := compile 0 w in
  let s := crun ex c acts in
  let order := callback_order (has_upgrade w) (delivered P0 w) (has_onclose w) in
  (exists rest, order = started s ++ rest) /\
  serial (trace ex c acts) (started s) /\
  NoDup (started s) /\
  nrunning s <= 1 /\
  (dr s = None -> started s = order /\ trace ex c acts = brackets order).
Proof.
  intros Hw acts s order.
  assert (Ea : spec_accepted false acts = order).
  { unfold acts, order. rewrite <- (expected_order w Hw). apply (accepted_expected P0 0 w Hw). }
  destruct (c05_fifo_once ex c acts) as ((rest & Hp) & _). fold s in Hp. rewrite Ea in Hp.
  split; [eauto|]. split; [apply trace_serial|]. split.
  { pose proof (callback_order_nodup (has_upgrade w) (delivered P0 w) (has_onclose w)) as N.
    fold order in N. rewrite Hp in N. now apply nodup_app_l in N. }
  split; [apply (c05_mutex ex c acts)|].
  intros Hd. destruct (c05_all_run ex c acts Hd) as (Hs & _). fold s in Hs. rewrite Ea in Hs.
  split; auto. rewrite <- Hs. apply trace_idle.
  destruct (inv_all ConnV ex c acts) as (_&_&_&_&_&Hr).
  change (run ConnV ex c acts) with s in Hr. change (crun ex c acts) with s. rewrite Hr, Hd. reflexivity.
Qed.

(* a message dispatched after the connection's closed flag was set never runs *)
Theorem ws_refused ex c w :
  wf P0 w -> forall j, In j (started (crun ex c (compile 0 w))) ->
  In j (callback_order (has_upgrade w) (delivered P0 w) (has_onclose w)).
Proof.
  intros Hw j Hj. destruct (ws_order ex c w Hw) as ((rest & E) & _). rewrite E. apply in_or_app. now left.
Qed.
