(* Invariants of the UDP session table and the reduction of every session to a run of the per-connection model. *)
Require Import Lifecycle LifeProofs UdpSessions.
From Coq Require Import List Bool Arith Lia.
Import ListNotations.

(* ---- small facts about the table operations ---- *)
Lemma lookup_in k t v : lookup k t = Some v -> In (k, v) t.
Proof.
  induction t as [|[k' v'] t IH]; cbn; [discriminate|]. destruct (Nat.eqb k k') eqn:E.
  - apply Nat.eqb_eq in E. intros H; inversion H; subst. auto.
  - auto.
Qed.

Lemma lookup_none k t : lookup k t = None -> ~ In k (map fst t).
Proof.
  induction t as [|[k' v'] t IH]; cbn; auto. destruct (Nat.eqb k k') eqn:E; [discriminate|].
  apply Nat.eqb_neq in E. intros H [H1|H1]; [congruence|]. apply IH; auto.
Qed.

Lemma in_lookup k v t : NoDup (map fst t) -> In (k, v) t -> lookup k t = Some v.
Proof.
  induction t as [|[k' v'] t IH]; cbn; [tauto|]. intros Hn [H|H].
  - inversion H; subst. rewrite Nat.eqb_refl. reflexivity.
  - inversion Hn; subst. destruct (Nat.eqb k k') eqn:E.
    + apply Nat.eqb_eq in E. subst. exfalso. apply H2. apply (in_map fst) in H. exact H.
    + auto.
Qed.

Lemma remove_key_in k t k' v : In (k', v) (remove_key k t) <-> In (k', v) t /\ k' <> k.
Proof.
  unfold remove_key. rewrite filter_In. cbn. rewrite negb_true_iff, Nat.eqb_neq. tauto.
Qed.

Lemma remove_key_keys k t x : In x (map fst (remove_key k t)) -> In x (map fst t).
Proof.
  intros H. apply in_map_iff in H. destruct H as ([a b] & E & H). apply remove_key_in in H. cbn in E. subst.
  apply in_map_iff. exists (x, b). tauto.
Qed.

Lemma remove_key_nodup k t : NoDup (map fst t) -> NoDup (map fst (remove_key k t)).
Proof.
  induction t as [|[k' v] t IH]; cbn; auto. intros Hn. inversion Hn; subst.
  destruct (negb (Nat.eqb k' k)); cbn; auto. constructor; auto. intros H. apply H1. eapply remove_key_keys; eauto.
Qed.

Lemma set_nth_length n x l : length (set_nth n x l) = length l.
Proof. revert n. induction l as [|h t IH]; intros [|n]; cbn; auto. Qed.

Lemma set_nth_same n x l : n < length l -> nth_error (set_nth n x l) n = Some x.
Proof. revert n. induction l as [|h t IH]; intros [|n] H; cbn in *; try lia; auto. apply IH. lia. Qed.

Lemma set_nth_other n m x l : n <> m -> nth_error (set_nth n x l) m = nth_error l m.
Proof. revert n m. induction l as [|h t IH]; intros [|n] [|m] H; cbn; auto; try congruence. Qed.

Lemma nth_error_lt {A} (l : list A) n x : nth_error l n = Some x -> n < length l.
Proof. intros H. apply nth_error_Some. congruence. Qed.

(* ---- the descriptor-release counter of a connection never decreases, and moves by one ---- *)
Lemma step_fdcl s a : knd s <> KNone -> fdcl (fst (step s a)) = fdcl s \/ fdcl (fst (step s a)) = S (fdcl s).
Proof.
  intros Hk. destruct a; cbn [step]; unfold teardown, set_closed; break; simp; auto; congruence.
Qed.

Lemma s0_Inv : Inv s0 /\ knd s0 = KConn /\ fdcl s0 = 0.
Proof. split; [apply step_Inv, init_Inv|split; reflexivity]. Qed.

(* ---- the table invariant ---- *)
Definition UInv (u : ust) : Prop :=
  NoDup (map fst (tbl u))
  /\ (forall k sid, In (k, sid) (tbl u) -> exists x, nth_error (ss u) sid = Some x /\ skey x = k /\ fdcl (sst x) = 0)
  /\ (forall sid x, nth_error (ss u) sid = Some x -> fdcl (sst x) = 0 -> In (skey x, sid) (tbl u))
  /\ (forall sid x, nth_error (ss u) sid = Some x -> Inv (sst x) /\ knd (sst x) = KConn).

Lemma uinit_UInv : UInv uinit.
Proof.
  unfold UInv, uinit; cbn. split; [constructor|]. split; [tauto|]. split; intros [|?] ? H; discriminate.
Qed.

Lemma ustep_UInv u a : UInv u -> UInv (fst (ustep u a)).
Proof.
  intros HU. pose proof HU as (N & T2 & T3 & T4). destruct a as [k|sid a|]; cbn [ustep].
  - (* datagram *)
    destruct (srv u); [exact HU|]. destruct (lookup k (tbl u)) as [sid|] eqn:El; [exact HU|].
    cbn [fst]. unfold UInv; cbn [tbl ss map fst]. split; [|split; [|split]].
    + constructor; auto. apply lookup_none; auto.
    + intros k' sid' [H|H].
      * inversion H; subst. exists (mks k' s0). rewrite nth_error_app2, Nat.sub_diag by lia. cbn. repeat split; reflexivity.
      * destruct (T2 _ _ H) as (x & E1 & E2 & E3). exists x. rewrite nth_error_app1 by (eapply nth_error_lt; eauto). auto.
    + intros sid' x H Hf. destruct (Nat.lt_ge_cases sid' (length (ss u))) as [L|L].
      * rewrite nth_error_app1 in H by auto. right. apply T3; auto.
      * rewrite nth_error_app2 in H by auto. destruct (sid' - length (ss u)) as [|d] eqn:Ed; cbn in H.
        -- inversion H; subst. cbn. left. f_equal. lia.
        -- destruct d; discriminate.
    + intros sid' x H. destruct (Nat.lt_ge_cases sid' (length (ss u))) as [L|L].
      * rewrite nth_error_app1 in H by auto. apply (T4 _ _ H).
      * rewrite nth_error_app2 in H by auto. destruct (sid' - length (ss u)) as [|d] eqn:Ed; cbn in H.
        -- inversion H; subst. cbn. destruct s0_Inv as (A & B & _). auto.
        -- destruct d; discriminate.
  - (* a session's own action *)
    destruct (nth_error (ss u) sid) as [x|] eqn:Ex; [|exact HU]. cbn [fst].
    destruct (T4 _ _ Ex) as [HI Hk].
    assert (Hk' : knd (sst x) <> KNone) by congruence.
    set (s' := fst (step (sst x) a)).
    assert (HI' : Inv s') by (apply step_Inv, HI).
    assert (Hks : knd s' = KConn) by (unfold s'; rewrite step_knd; auto).
    pose proof (nth_error_lt _ _ _ Ex) as Hlt.
    destruct (Nat.ltb (fdcl (sst x)) (fdcl s')) eqn:Er.
    + (* released in this step *)
      apply Nat.ltb_lt in Er. destruct (step_fdcl (sst x) a Hk') as [Hf|Hf]; fold s' in Hf; [lia|].
      pose proof (fdcl_le_1 _ HI') as Hle.
      assert (Hx0 : fdcl (sst x) = 0) by lia.
      unfold UInv; cbn [tbl ss]. split; [|split; [|split]].
      * apply remove_key_nodup; auto.
      * intros k sid' H. apply remove_key_in in H. destruct H as [H Hne].
        destruct (T2 _ _ H) as (y & E1 & E2 & E3).
        assert (sid' <> sid) by (intros ->; rewrite Ex in E1; inversion E1; subst; congruence).
        exists y. rewrite set_nth_other by auto. auto.
      * intros sid' y H Hf0. destruct (Nat.eq_dec sid' sid) as [->|Hne].
        -- rewrite set_nth_same in H by auto. inversion H; subst. cbn in Hf0. fold s' in Hf0. lia.
        -- rewrite set_nth_other in H by auto. apply remove_key_in. split; [apply T3; auto|].
           intros Ek. pose proof (T3 _ _ H Hf0) as I1. pose proof (T3 _ _ Ex Hx0) as I2. rewrite Ek in I1.
           apply (in_lookup _ _ _ N) in I1. apply (in_lookup _ _ _ N) in I2. congruence.
      * intros sid' y H. destruct (Nat.eq_dec sid' sid) as [->|Hne].
        -- rewrite set_nth_same in H by auto. inversion H; subst. cbn. auto.
        -- rewrite set_nth_other in H by auto. apply (T4 _ _ H).
    + (* not released *)
      apply Nat.ltb_ge in Er. destruct (step_fdcl (sst x) a Hk') as [Hf|Hf]; fold s' in Hf; [|lia].
      unfold UInv; cbn [tbl ss]. split; [exact N|split; [|split]].
      * intros k sid' H. destruct (T2 _ _ H) as (y & E1 & E2 & E3). destruct (Nat.eq_dec sid' sid) as [->|Hne].
        -- rewrite Ex in E1. inversion E1; subst. exists (mks (skey y) s'). rewrite set_nth_same by auto. cbn. repeat split; auto. lia.
        -- exists y. rewrite set_nth_other by auto. auto.
      * intros sid' y H Hf0. destruct (Nat.eq_dec sid' sid) as [->|Hne].
        -- rewrite set_nth_same in H by auto. inversion H; subst. cbn in *. apply T3; auto. fold s' in Hf0. lia.
        -- rewrite set_nth_other in H by auto. apply T3; auto.
      * intros sid' y H. destruct (Nat.eq_dec sid' sid) as [->|Hne].
        -- rewrite set_nth_same in H by auto. inversion H; subst. cbn. auto.
        -- rewrite set_nth_other in H by auto. apply (T4 _ _ H).
  - exact HU.
Qed.

Lemma urun_UInv acts : forall u, UInv u -> UInv (urun u acts).
Proof. induction acts as [|a acts IH]; intros u H; cbn; auto. apply IH, ustep_UInv, H. Qed.

Lemma urun_app a b : forall u, urun u (a ++ b) = urun (urun u a) b.
Proof. induction a as [|x a IH]; intros u; cbn; auto. Qed.

Lemma utrace_app a b : forall u, utrace u (a ++ b) = utrace u a ++ utrace (urun u a) b.
Proof. induction a as [|x a IH]; intros u; cbn; auto. rewrite IH, app_assoc. reflexivity. Qed.

(* ---- every session is a run of the per-connection model ---- *)
Lemma evs_of_app sid a b : evs_of sid (a ++ b) = evs_of sid a ++ evs_of sid b.
Proof. unfold evs_of. now rewrite flat_map_app. Qed.

Lemma evs_of_map_same sid l : evs_of sid (map (UEv sid) l) = l.
Proof. induction l as [|e l IH]; cbn; auto. rewrite Nat.eqb_refl. cbn. f_equal. exact IH. Qed.

Lemma evs_of_map_other sid sid' l : sid' <> sid -> evs_of sid (map (UEv sid') l) = [].
Proof. intros H. induction l as [|e l IH]; cbn; auto. apply Nat.eqb_neq in H. rewrite H. cbn. exact IH. Qed.

(* u with the events emitted so far: session sid, if it exists, is in the state - and has produced the events - of the
   per-connection run  AAdd false :: l  for the list l of life-cycle actions applied to it; a session that does not exist
   has produced nothing *)
Definition SRun (u : ust) (tr : list uev) : Prop :=
  forall sid, match nth_error (ss u) sid with
              | Some x => exists l, sst x = run init (AAdd false :: l) /\ evs_of sid tr = trace init (AAdd false :: l)
              | None => evs_of sid tr = []
              end.

Lemma uinit_SRun : SRun uinit [].
Proof. intros [|sid]; reflexivity. Qed.

Lemma ustep_SRun u tr a : SRun u tr -> SRun (fst (ustep u a)) (tr ++ snd (ustep u a)).
Proof.
  intros HS. destruct a as [k|sid a|]; cbn [ustep].
  - destruct (srv u); [cbn; rewrite app_nil_r; exact HS|].
    destruct (lookup k (tbl u)) as [sid|] eqn:El.
    + cbn [fst snd]. intros sid'. specialize (HS sid'). rewrite evs_of_app. cbn. rewrite app_nil_r. exact HS.
    + cbn [fst snd]. intros sid'. cbn [ss]. rewrite evs_of_app. cbn [evs_of flat_map]. rewrite app_nil_r.
      destruct (Nat.lt_ge_cases sid' (length (ss u))) as [L|L].
      * rewrite nth_error_app1 by auto. specialize (HS sid').
        assert (E : Nat.eqb (length (ss u)) sid' = false) by (apply Nat.eqb_neq; lia). rewrite E. cbn. rewrite app_nil_r. exact HS.
      * rewrite nth_error_app2 by auto. specialize (HS sid').
        assert (Hn : nth_error (ss u) sid' = None) by (apply nth_error_None; auto). rewrite Hn in HS.
        destruct (sid' - length (ss u)) as [|d] eqn:Ed; cbn [nth_error].
        -- assert (sid' = length (ss u)) by lia. subst sid'. rewrite Nat.eqb_refl. exists []. cbn [sst]. split; [reflexivity|].
           rewrite HS. reflexivity.
        -- assert (E : Nat.eqb (length (ss u)) sid' = false) by (apply Nat.eqb_neq; lia). rewrite E. cbn. rewrite app_nil_r.
           destruct d; exact HS.
  - destruct (nth_error (ss u) sid) as [x|] eqn:Ex; [|cbn; rewrite app_nil_r; exact HS].
    cbn [fst snd]. intros sid'. cbn [ss]. rewrite evs_of_app. pose proof (nth_error_lt _ _ _ Ex) as Hlt.
    destruct (Nat.eq_dec sid' sid) as [->|Hne].
    + rewrite set_nth_same by auto. specialize (HS sid). rewrite Ex in HS. destruct HS as (l & E1 & E2).
      exists (l ++ [a]). cbn [sst]. rewrite evs_of_map_same, E2, E1.
      change (AAdd false :: l ++ [a]) with ((AAdd false :: l) ++ [a]). rewrite run_app, trace_app. cbn [run trace].
      rewrite app_nil_r. split; reflexivity.
    + rewrite set_nth_other by auto. rewrite evs_of_map_other by auto. rewrite app_nil_r. apply HS.
  - cbn. rewrite app_nil_r. exact HS.
Qed.

Lemma urun_SRun acts : forall u tr, SRun u tr -> SRun (urun u acts) (tr ++ utrace u acts).
Proof.
  induction acts as [|a acts IH]; intros u tr H; cbn [urun utrace]; [rewrite app_nil_r; exact H|].
  rewrite app_assoc. apply IH, ustep_SRun, H.
Qed.

Lemma session_run acts sid :
  (exists x l, nth_error (ss (urun uinit acts)) sid = Some x /\ sst x = run init (AAdd false :: l)
               /\ evs_of sid (utrace uinit acts) = trace init (AAdd false :: l))
  \/ (nth_error (ss (urun uinit acts)) sid = None /\ evs_of sid (utrace uinit acts) = []).
Proof.
  pose proof (urun_SRun acts uinit [] uinit_SRun sid) as H. cbn [app] in H.
  destruct (nth_error (ss (urun uinit acts)) sid) as [x|]; [left|right; auto].
  destruct H as (l & E1 & E2). exists x, l. auto.
Qed.

(* ---- data is delivered to sessions that have had their open notification ---- *)
Definition opened_before (tr : list uev) : Prop :=
  forall pre sid post, tr = pre ++ UData sid :: post -> In (UEv sid EOpen) pre.

Lemma ustep_data u a sid : In (UData sid) (snd (ustep u a)) -> UInv u ->
  sid < length (ss u) \/ snd (ustep u a) = [UEv sid EOpen; UData sid].
Proof.
  destruct a as [k|sid' a|]; cbn [ustep]; intros H HU.
  - destruct (srv u); [destruct H|]. destruct (lookup k (tbl u)) as [s|] eqn:El; cbn in H.
    + destruct H as [H|[]]. inversion H; subst. left. destruct HU as (_ & T2 & _).
      destruct (T2 _ _ (lookup_in _ _ _ El)) as (x & E & _). eapply nth_error_lt; eauto.
    + destruct H as [H|[H|[]]]; [discriminate|]. inversion H; subst. right. reflexivity.
  - destruct (nth_error (ss u) sid'); cbn in H; [|destruct H]. apply in_map_iff in H. destruct H as (? & E & _). discriminate.
  - destruct H.
Qed.

Fixpoint opened_after (o : list nat) (tr : list uev) : list nat :=
  match tr with
  | [] => o
  | UEv sid EOpen :: t => opened_after (sid :: o) t
  | _ :: t => opened_after o t
  end.

Fixpoint okd (o : list nat) (tr : list uev) : bool :=
  match tr with
  | [] => true
  | UEv sid EOpen :: t => okd (sid :: o) t
  | UEv _ _ :: t => okd o t
  | UData sid :: t => existsb (Nat.eqb sid) o && okd o t
  end.

Lemma okd_app a : forall o b, okd o (a ++ b) = okd o a && okd (opened_after o a) b.
Proof.
  induction a as [|e a IH]; intros o b; cbn; auto. destruct e as [sid [] |sid]; cbn; rewrite ?IH; auto.
  rewrite andb_assoc. reflexivity.
Qed.

Lemma opened_after_app a : forall o b, opened_after o (a ++ b) = opened_after (opened_after o a) b.
Proof. induction a as [|e a IH]; intros o b; cbn; auto. destruct e as [sid [] |sid]; cbn; auto. Qed.

Lemma opened_after_mono tr : forall o x, In x o -> In x (opened_after o tr).
Proof. induction tr as [|e t IH]; intros o x H; cbn; auto. destruct e as [sid [] |sid]; auto. apply IH. right; auto. Qed.

Lemma okd_split tr : forall o pre sid post, okd o tr = true -> tr = pre ++ UData sid :: post -> In sid o \/ In (UEv sid EOpen) pre.
Proof.
  induction tr as [|e t IH]; intros o pre sid post Hk E.
  - destruct pre; discriminate.
  - destruct pre as [|p pre]; cbn in E; inversion E; subst.
    + cbn in Hk. apply andb_true_iff in Hk. destruct Hk as [Hk _]. apply existsb_exists in Hk. destruct Hk as (y & Hy & Ey).
      apply Nat.eqb_eq in Ey. subst. auto.
    + destruct p as [s1 e1|s1].
      * destruct e1; cbn in Hk; try (destruct (IH _ _ _ _ Hk eq_refl) as [H|H]; [left; exact H|right; right; exact H]).
        destruct (IH _ _ _ _ Hk eq_refl) as [[H|H]|H]; [right; left; subst; reflexivity|left; exact H|right; right; exact H].
      * cbn in Hk. apply andb_true_iff in Hk. destruct Hk as [_ Hk].
        destruct (IH _ _ _ _ Hk eq_refl) as [H|H]; [left; exact H|right; right; exact H].
Qed.

Definition DInv (u : ust) (tr : list uev) : Prop :=
  okd [] tr = true /\ forall sid, sid < length (ss u) -> In sid (opened_after [] tr).

Lemma ustep_DInv u tr a : UInv u -> DInv u tr -> DInv (fst (ustep u a)) (tr ++ snd (ustep u a)).
Proof.
  intros HU (Hk & Ho). unfold DInv. rewrite okd_app, opened_after_app, Hk. cbn [andb].
  destruct a as [k|sid a|]; cbn [ustep].
  - destruct (srv u); [cbn; auto|]. destruct (lookup k (tbl u)) as [s|] eqn:El; cbn [fst snd].
    + cbn. split; auto. rewrite andb_true_r. apply existsb_exists. exists s. split; [|apply Nat.eqb_refl].
      apply Ho. destruct HU as (_ & T2 & _). destruct (T2 _ _ (lookup_in _ _ _ El)) as (x & E & _). eapply nth_error_lt; eauto.
    + cbn. rewrite Nat.eqb_refl. cbn. split; auto. intros sid Hl. rewrite app_length in Hl. cbn in Hl.
      destruct (Nat.eq_dec sid (length (ss u))) as [->|Hne]; [left; reflexivity|right; apply Ho; lia].
  - destruct (nth_error (ss u) sid) as [x|] eqn:Ex; cbn [fst snd]; [|cbn; auto].
    assert (Hnone : forall l o, ~ In EOpen l -> okd o (map (UEv sid) l) = true /\ opened_after o (map (UEv sid) l) = o).
    { induction l as [|e l IH]; intros o Hn; cbn; auto. destruct e; try (apply IH; intros H; apply Hn; right; exact H).
      exfalso. apply Hn. left; reflexivity. }
    assert (Hno : ~ In EOpen (snd (step (sst x) a))).
    { destruct HU as (_ & _ & _ & T4). destruct (T4 _ _ Ex) as [_ Hkc].
      destruct a; cbn [step]; unfold teardown, set_closed; rewrite ?Hkc; break; cbn; intuition discriminate. }
    destruct (Hnone _ (opened_after [] tr) Hno) as [-> ->]. split; auto. intros s Hl. cbn [ss] in Hl. rewrite set_nth_length in Hl. auto.
  - cbn. auto.
Qed.

Lemma urun_DInv acts : forall u tr, UInv u -> DInv u tr -> DInv (urun u acts) (tr ++ utrace u acts).
Proof.
  induction acts as [|a acts IH]; intros u tr HU H; cbn [urun utrace]; [rewrite app_nil_r; exact H|].
  rewrite app_assoc. apply IH; [apply ustep_UInv, HU | apply ustep_DInv; auto].
Qed.

(* ---- one live session per remote address ---- *)
Lemma table_characterisation u k sid : UInv u ->
  (lookup k (tbl u) = Some sid <-> exists x, nth_error (ss u) sid = Some x /\ skey x = k /\ fdcl (sst x) = 0).
Proof.
  intros (N & T2 & T3 & _). split.
  - intros H. apply T2. apply lookup_in; auto.
  - intros (x & E1 & E2 & E3). apply in_lookup; auto. rewrite <- E2. apply T3; auto.
Qed.
