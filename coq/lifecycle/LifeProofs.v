(* Invariants of the connection life-cycle LTS, each preserved by every step, hence true after every schedule. *)
Require Import Lifecycle.
From Coq Require Import List Bool Arith Lia.
Import ListNotations.

Definition b2n (b : bool) : nat := if b then 1 else 0.
Definition jerrs (l : list job) : list (option nat) := flat_map (fun j => match j with JNotify e => [e] | _ => [] end) l.
Definition jdials (l : list job) : list (option nat) := flat_map (fun j => match j with JDial r => [r] | _ => [] end) l.
Definition terrs (l : list (nat * option nat * bool)) : list (option nat) := map (fun x => snd (fst x)) l.

Lemma jerrs_app a b : jerrs (a ++ b) = jerrs a ++ jerrs b.
Proof. unfold jerrs. now rewrite flat_map_app. Qed.
Lemma jdials_app a b : jdials (a ++ b) = jdials a ++ jdials b.
Proof. unfold jdials. now rewrite flat_map_app. Qed.
Lemma terrs_app a b : terrs (a ++ b) = terrs a ++ terrs b.
Proof. unfold terrs. now rewrite map_app. Qed.

Lemma pick_some t l e u r : pick t l = Some (e, u, r) ->
  length l = S (length r) /\ (exists l1 l2, l = l1 ++ (t, e, u) :: l2 /\ r = l1 ++ l2).
Proof.
  revert e u r. induction l as [|[[t' e'] u'] l IH]; intros e u r H; cbn in H; [discriminate|].
  destruct (Nat.eqb t t') eqn:Et.
  - apply Nat.eqb_eq in Et. subst t'. inversion H; subst. split; [reflexivity|]. exists [], r. split; reflexivity.
  - destruct (pick t l) as [[[e2 u2] r2]|] eqn:Ep; [|discriminate]. inversion H; subst.
    destruct (IH _ _ _ eq_refl) as [Hl (l1 & l2 & E1 & E2)]. split; [cbn; lia|].
    exists ((t', e', u') :: l1), l2. subst. split; reflexivity.
Qed.

Lemma pick_none_nil t e u l : pick t ((t, e, u) :: l) <> None.
Proof. cbn. rewrite Nat.eqb_refl. discriminate. Qed.

Ltac break :=
  repeat match goal with
  | |- context [match ?x with _ => _ end] => destruct x eqn:?
  end.

Ltac simp := cbn [fst snd knd managed rej opens closed flip fop tears pend imm taken kern jobs notes dials fdcl sys cret
                  teardown set_closed b2n length app negb andb orb Nat.add] in *.

(* ---------------------------------------------------------------------------------------------------------------- *)
(* before it is handed to an engine nothing happens to the connection *)
Definition InvK (s : st) : Prop := knd s = KNone -> s = init.

Lemma step_knd s a : knd s <> KNone -> knd (fst (step s a)) = knd s.
Proof.
  intros Hk. destruct a; cbn [step]; unfold teardown, set_closed; break; simp; try reflexivity; congruence.
Qed.

Lemma step_K s a : InvK s -> InvK (fst (step s a)).
Proof.
  unfold InvK. intros H. destruct (knd s) eqn:Ek.
  - rewrite (H eq_refl). destruct a; cbn; break; cbn; intros; try discriminate; reflexivity.
  - rewrite step_knd; congruence.
  - rewrite step_knd; congruence.
Qed.

(* ---------------------------------------------------------------------------------------------------------------- *)
(* accounting: the flag is flipped once; every flip owes exactly one teardown, one close notification (managed
   connections) and one close(2) *)
Definition InvC (s : st) : Prop :=
  (managed s = true -> length (tears s) + length (jerrs (jobs s)) + length (notes s) = b2n (closed s))
  /\ (managed s = false -> length (tears s) + length (jerrs (jobs s)) + length (notes s) = 0 /\ (closed s = true \/ knd s = KNone))
  /\ fdcl s + length (tears s) = b2n (closed s)
  /\ (closed s = false -> flip s = None /\ cret s = false /\ fop s = None)
  /\ (closed s = true -> flip s <> None).

Lemma init_C : InvC init.
Proof. unfold InvC; cbn; repeat split; auto; try discriminate. Qed.

Lemma jerrs_n e l : jerrs (JNotify e :: l) = e :: jerrs l. Proof. reflexivity. Qed.
Lemma jerrs_d r l : jerrs (JDial r :: l) = jerrs l. Proof. reflexivity. Qed.
Lemma jdials_n e l : jdials (JNotify e :: l) = jdials l. Proof. reflexivity. Qed.
Lemma jdials_d r l : jdials (JDial r :: l) = r :: jdials l. Proof. reflexivity. Qed.
Lemma jerrs_nil : jerrs [] = []. Proof. reflexivity. Qed.
Lemma jdials_nil : jdials [] = []. Proof. reflexivity. Qed.
Lemma terrs_c t e u l : terrs ((t, e, u) :: l) = e :: terrs l. Proof. reflexivity. Qed.
Lemma terrs_nil : terrs [] = []. Proof. reflexivity. Qed.

Ltac lens := rewrite ?jerrs_app, ?jdials_app, ?terrs_app, ?jerrs_n, ?jerrs_d, ?jdials_n, ?jdials_d, ?jerrs_nil, ?jdials_nil,
                     ?terrs_c, ?terrs_nil, ?app_length in *; cbn [length app] in *.

Ltac fin := repeat split; intros; simp; try solve [intuition (try discriminate; try congruence; try lia)].

Lemma step_C s a : InvK s -> InvC s -> InvC (fst (step s a)).
Proof.
  intros HK HC. pose proof HC as (H1 & H2 & H3 & H4 & H5). destruct a; cbn [step].
  - (* AAdd *) break; try exact HC; unfold InvC; simp; fin.
  - (* ADial *) break; try exact HC; unfold InvC; simp; lens; fin.
  - (* ADialCbAsync *) break; try exact HC. unfold InvC; simp; lens. rewrite ?Nat.add_0_r. fin.
  - (* AKernel *) break; try exact HC; unfold InvC; simp; fin.
  - (* APollTake *) break; try exact HC; unfold InvC; simp; fin.
  - (* APollCall *) break; try exact HC; unfold InvC; simp; fin.
  - (* ACloseLock *)
    destruct (knd s) eqn:Ek; [exact HC| |];
      (destruct (closed s) eqn:Ec;
       [ unfold InvC; simp; rewrite ?Ec; fin
       | unfold InvC; simp; lens; destruct (managed s) eqn:Em; fin ]).
  - (* ATeardown *)
    destruct (pick t (tears s)) as [[[e u] rest]|] eqn:Ep; [|exact HC].
    destruct (pick_some _ _ _ _ _ Ep) as [Hl _]. unfold InvC; simp.
    destruct (managed s) eqn:Em; lens; rewrite ?Hl in *; destruct (closed s) eqn:Ec; simp; fin.
  - (* AOp *)
    destruct (knd s) eqn:Ek; [exact HC| |];
      (destruct (closed s) eqn:Ec; [exact HC|];
       destruct o as [n|e n];
       [ unfold InvC; simp; rewrite ?Ec; fin
       | destruct (closing k) eqn:Eck;
         [ destruct (inline_teardown k) eqn:Ei;
           unfold InvC; simp; destruct (managed s) eqn:Em; lens; fin
         | unfold InvC; simp; rewrite ?Ec; fin ] ]).
  - (* ARunJob *)
    destruct (jobs s) as [|[e|r] rest] eqn:Ej; [exact HC| |]; unfold InvC; simp; lens; fin.
Qed.

Lemma open_lists_nil s : InvC s -> closed s = false -> tears s = [] /\ jerrs (jobs s) = [] /\ notes s = [].
Proof.
  intros (H1 & H2 & H3 & _) Hc. rewrite Hc in *. cbn in *.
  assert (length (tears s) = 0) by lia.
  assert (length (jerrs (jobs s)) + length (notes s) = 0) by (destruct (managed s); [specialize (H1 eq_refl)|destruct (H2 eq_refl)]; lia).
  repeat split; apply length_zero_iff_nil; lia.
Qed.

(* ---------------------------------------------------------------------------------------------------------------- *)
(* first cause: whatever is owed or delivered carries the error of the action that flipped the flag *)
Definition InvE (s : st) : Prop :=
  (forall x, In x (terrs (tears s)) \/ In x (jerrs (jobs s)) \/ In x (notes s) -> flip s = Some x)
  /\ (forall e, fop s = Some e -> flip s = Some (Some e)).

Lemma init_E : InvE init.
Proof. unfold InvE; cbn; split; [intuition|discriminate]. Qed.

Ltac ins := rewrite ?in_app_iff in *; cbn [In] in *.

Lemma step_E s a : InvC s -> InvE s -> InvE (fst (step s a)).
Proof.
  intros HC HE. pose proof HE as (E1 & E2). destruct a; cbn [step].
  - break; try exact HE; unfold InvE; simp; lens; split; intros; ins; intuition discriminate.
  - break; try exact HE; unfold InvE; simp; lens; split; intros; ins; try discriminate; intuition congruence.
  - break; try exact HE. unfold InvE; simp; lens. rewrite app_nil_r. exact HE.
  - break; try exact HE; unfold InvE; simp; exact HE.
  - break; try exact HE; unfold InvE; simp; exact HE.
  - break; try exact HE; unfold InvE; simp; exact HE.
  - destruct (knd s) eqn:Ek; [exact HE| |];
      (destruct (closed s) eqn:Ec;
       [ unfold InvE; simp; exact HE
       | destruct (open_lists_nil s HC Ec) as (T & J & N); destruct HC as (_ & _ & _ & H4 & _); destruct (H4 Ec) as (_ & _ & Hf);
         unfold InvE; simp; rewrite T, J, N, Hf; cbn; split; intros; ins; try discriminate; intuition congruence ]).
  - destruct (pick t (tears s)) as [[[e u] rest]|] eqn:Ep; [|exact HE].
    destruct (pick_some _ _ _ _ _ Ep) as [_ (l1 & l2 & El & Er)]. unfold InvE; simp. split; [|exact E2].
    intros x Hx. apply E1. rewrite El, Er in *. lens. destruct (managed s); lens; ins; intuition.
  - destruct (knd s) eqn:Ek; [exact HE| |];
      (destruct (closed s) eqn:Ec; [exact HE|];
       destruct (open_lists_nil s HC Ec) as (T & J & N);
       destruct o as [n|e n];
       [ unfold InvE; simp; exact HE
       | destruct (closing k) eqn:Eck;
         [ destruct (inline_teardown k) eqn:Ei;
           unfold InvE; simp; rewrite ?T, ?J, ?N; lens; rewrite ?J;
           (split; [intros x Hx; destruct (managed s); lens; ins; intuition congruence | intros; congruence])
         | unfold InvE; simp; exact HE ] ]).
  - destruct (jobs s) as [|[e|r] rest] eqn:Ej; [exact HE| |]; unfold InvE; simp; (split; [|exact E2]);
      intros x Hx; apply E1; lens; ins; intuition.
Qed.

(* ---------------------------------------------------------------------------------------------------------------- *)
(* the dial callback is a token: pending in the Conn, in the poller's hands, owed by DialAsync, queued, or delivered *)
Definition dsum (s : st) : nat :=
  b2n (pend s) + length (taken s) + b2n (imm s) + length (jdials (jobs s)) + length (dials s).

Definition InvD (s : st) : Prop :=
  (knd s = KDial -> rej s = false -> dsum s = 1)
  /\ dsum s <= 1
  /\ (knd s <> KDial -> dsum s = 0)
  /\ (pend s = true -> closed s = true -> tears s <> [])
  /\ (rej s = true -> dsum s = 0).

Lemma init_D : InvD init.
Proof. unfold InvD, dsum; cbn; repeat split; auto; try discriminate. Qed.

Lemma step_D s a : InvK s -> InvD s -> InvD (fst (step s a)).
Proof.
  intros HK HD. pose proof HD as (D1 & D2 & D3 & D4 & D5). unfold dsum in *. destruct a; cbn [step].
  - break; try exact HD; unfold InvD, dsum; simp; lens; fin.
  - break; try exact HD; unfold InvD, dsum; simp; lens; fin.
  - break; try exact HD. unfold InvD, dsum; simp; lens; simp; fin.
  - break; try exact HD; unfold InvD, dsum; simp; fin.
  - destruct (pend s) eqn:Ep; cbn [andb]; [|exact HD]. destruct (closed s) eqn:Ec; cbn [negb]; [exact HD|].
    break; try exact HD; unfold InvD, dsum; simp; lens; rewrite ?Ep, ?Ec in *; simp; fin.
  - destruct (taken s) eqn:Et; [exact HD|]. unfold InvD, dsum; simp; lens; rewrite ?Et in *; simp; fin.
  - destruct (knd s) eqn:Ek; [exact HD| |];
      (destruct (closed s) eqn:Ec; unfold InvD, dsum; simp; rewrite ?Ec; fin; destruct (tears s); discriminate).
  - destruct (pick t (tears s)) as [[[e u] rest]|] eqn:Ep; [|exact HD].
    unfold InvD, dsum; simp. destruct (pend s) eqn:Epd; destruct (managed s); lens; simp; fin.
  - destruct (knd s) eqn:Ek; [exact HD| |];
      (destruct (closed s) eqn:Ec; [exact HD|];
       destruct o as [n|e n];
       [ unfold InvD, dsum; simp; rewrite ?Ec; fin
       | destruct (closing k) eqn:Eck;
         [ destruct (inline_teardown k) eqn:Ei;
           unfold InvD, dsum; simp; destruct (pend s) eqn:Epd; destruct (managed s); lens; simp; fin;
           destruct (tears s); discriminate
         | unfold InvD, dsum; simp; rewrite ?Ec; fin ] ]).
  - destruct (jobs s) as [|[e|r] rest] eqn:Ej; [exact HD| |]; unfold InvD, dsum; simp; lens; fin.
Qed.

(* ---------------------------------------------------------------------------------------------------------------- *)
(* truthful dial: a success result exists only once the kernel has established the connection *)
Definition InvT (s : st) : Prop :=
  (forall r, In r (taken s) \/ In r (jdials (jobs s)) \/ In r (dials s) -> r = None -> kern s = KEstab)
  /\ (imm s = true -> kern s = KEstab).

Lemma init_T : InvT init.
Proof. unfold InvT; cbn; split; [intuition|discriminate]. Qed.

Lemma step_T s a : InvT s -> InvT (fst (step s a)).
Proof.
  intros HT. pose proof HT as (T1 & T2). destruct a; cbn [step].
  - break; try exact HT; unfold InvT; simp; lens; split; intros; ins; intuition discriminate.
  - break; try exact HT; unfold InvT; simp; lens; split; intros; ins; subst; intuition discriminate.
  - break; try exact HT. unfold InvT; simp; lens. split; [|discriminate]. intros r Hr Hn. ins. apply T2; reflexivity.
  - destruct (kern s) eqn:Ek; try exact HT. unfold InvT; simp.
    split; [intros x Hx Hn; specialize (T1 x Hx Hn); discriminate | intros Hi; specialize (T2 Hi); discriminate].
  - break; try exact HT; unfold InvT; simp; (split; [|exact T2]); intros x Hx Hn; ins;
      destruct Hx as [[Hx|[Hx|[]]]|Hx]; try reflexivity; try (subst; discriminate); apply (T1 x); auto.
  - destruct (taken s) eqn:Et; [exact HT|]. unfold InvT; simp. split; [|exact T2]. intros x Hx Hn. apply (T1 x); [|exact Hn].
    ins. intuition.
  - destruct (knd s); [exact HT| |]; (destruct (closed s); unfold InvT; simp; exact HT).
  - destruct (pick t (tears s)) as [[[e u] rest]|] eqn:Ep; [|exact HT].
    unfold InvT; simp. split; [|exact T2]. intros x Hx Hn. apply (T1 x); [|exact Hn].
    destruct (managed s); destruct (pend s); lens; ins; subst; intuition discriminate.
  - destruct (knd s); [exact HT| |];
      (destruct (closed s); [exact HT|];
       destruct o as [n|e n];
       [ unfold InvT; simp; exact HT
       | destruct (closing k); [destruct (inline_teardown k)|]; unfold InvT; simp; try exact HT;
         (split; [|exact T2]); intros x Hx Hn; apply (T1 x); [|exact Hn];
         destruct (managed s); destruct (pend s); lens; ins; subst; intuition discriminate ]).
  - destruct (jobs s) as [|[e|r] rest] eqn:Ej; [exact HT| |]; unfold InvT; simp; (split; [|exact T2]);
      intros x Hx Hn; apply (T1 x); auto; lens; ins; intuition.
Qed.

(* ---------------------------------------------------------------------------------------------------------------- *)
(* an accepted / added connection that the engine manages has had its open notification *)
Definition InvO (s : st) : Prop :=
  opens s <= 1 /\ (knd s = KConn -> managed s = true -> opens s = 1) /\ (knd s <> KConn -> opens s = 0).

Lemma init_O : InvO init.
Proof. unfold InvO; cbn; repeat split; auto; discriminate. Qed.

Lemma step_O s a : InvO s -> InvO (fst (step s a)).
Proof.
  intros HO. pose proof HO as (O1 & O2 & O3). destruct a; cbn [step]; unfold teardown, set_closed;
    break; try exact HO; unfold InvO; simp; fin.
Qed.

(* ---------------------------------------------------------------------------------------------------------------- *)
Definition Inv (s : st) : Prop := InvK s /\ InvC s /\ InvE s /\ InvD s /\ InvT s /\ InvO s.

Lemma init_Inv : Inv init.
Proof. unfold Inv. split; [intros _; reflexivity|]. split; [apply init_C|]. split; [apply init_E|]. split; [apply init_D|]. split; [apply init_T|apply init_O]. Qed.

Lemma step_Inv s a : Inv s -> Inv (fst (step s a)).
Proof.
  intros (K & C & E & D & T & O). unfold Inv.
  split; [apply step_K, K|]. split; [apply step_C; auto|]. split; [apply step_E; auto|]. split; [apply step_D; auto|].
  split; [apply step_T; auto|apply step_O; auto].
Qed.

Lemma run_Inv acts : forall s, Inv s -> Inv (run s acts).
Proof. induction acts as [|a acts IH]; intros s H; cbn; auto. apply IH, step_Inv, H. Qed.

Lemma run_app a b : forall s, run s (a ++ b) = run (run s a) b.
Proof. induction a as [|x a IH]; intros s; cbn; auto. Qed.

Lemma trace_app a b : forall s, trace s (a ++ b) = trace s a ++ trace (run s a) b.
Proof. induction a as [|x a IH]; intros s; cbn; auto. rewrite IH, app_assoc. reflexivity. Qed.

(* ---------------------------------------------------------------------------------------------------------------- *)
(* consequences *)
Definition closes_of (tr : list ev) : list (option nat) := flat_map (fun e => match e with EClose x => [x] | _ => [] end) tr.
Definition dials_of (tr : list ev) : list (option nat) := flat_map (fun e => match e with EDial x => [x] | _ => [] end) tr.
Definition opens_of (tr : list ev) : nat := length (filter (fun e => match e with EOpen => true | _ => false end) tr).

Lemma step_notes s a : InvK s -> notes (fst (step s a)) = notes s ++ closes_of (snd (step s a))
                    /\ dials (fst (step s a)) = dials s ++ dials_of (snd (step s a)).
Proof.
  intros HK. destruct a; cbn [step]; unfold teardown, set_closed; break; simp; cbn; rewrite ?app_nil_r; auto;
    rewrite (HK Heqk); cbn; auto.
Qed.

Lemma closes_of_app a b : closes_of (a ++ b) = closes_of a ++ closes_of b.
Proof. unfold closes_of. now rewrite flat_map_app. Qed.
Lemma dials_of_app a b : dials_of (a ++ b) = dials_of a ++ dials_of b.
Proof. unfold dials_of. now rewrite flat_map_app. Qed.

Lemma run_notes acts : forall s, InvK s -> notes (run s acts) = notes s ++ closes_of (trace s acts)
                              /\ dials (run s acts) = dials s ++ dials_of (trace s acts).
Proof.
  induction acts as [|a acts IH]; intros s HK; cbn [run trace]; [cbn; rewrite !app_nil_r; auto|].
  destruct (IH (fst (step s a)) (step_K s a HK)) as [-> ->]. destruct (step_notes s a HK) as [-> ->].
  rewrite closes_of_app, dials_of_app, !app_assoc. auto.
Qed.

Lemma notes_le_1 s : Inv s -> length (notes s) <= 1.
Proof.
  intros (_ & (H1 & H2 & _) & _). destruct (managed s); [specialize (H1 eq_refl)|destruct (H2 eq_refl)]; destruct (closed s); cbn in *; lia.
Qed.

Lemma dials_le_1 s : Inv s -> length (dials s) <= 1.
Proof. intros (_ & _ & _ & (_ & D2 & _) & _). unfold dsum in D2. lia. Qed.

Lemma fdcl_le_1 s : Inv s -> fdcl s <= 1.
Proof. intros (_ & (_ & _ & H3 & _) & _). destruct (closed s); cbn in *; lia. Qed.

Lemma quiescent_spec s : quiescent s = true <-> tears s = [] /\ taken s = [] /\ jobs s = [] /\ imm s = false.
Proof.
  unfold quiescent. destruct (tears s), (taken s), (jobs s), (imm s); cbn; intuition discriminate.
Qed.

Lemma quiescent_once s : Inv s -> quiescent s = true ->
  fdcl s = b2n (closed s) /\
  (managed s = true -> closed s = true -> exists e, notes s = [e] /\ flip s = Some e) /\
  (closed s = false -> notes s = []) /\
  (managed s = false -> notes s = []).
Proof.
  intros (_ & HC & (E1 & _) & _) Hq. apply quiescent_spec in Hq. destruct Hq as (T & _ & J & _).
  pose proof HC as (H1 & H2 & H3 & _). rewrite T, J in *. cbn in *. repeat split.
  - lia.
  - intros Hm Hc. specialize (H1 Hm). rewrite Hc in H1. cbn in H1. destruct (notes s) as [|e [|]] eqn:En; cbn in H1; try lia.
    exists e. split; auto. apply E1. right; right. left; reflexivity.
  - intros Hc. destruct (open_lists_nil s HC Hc) as (_ & _ & N). exact N.
  - intros Hm. destruct (H2 Hm) as [Hz _]. apply length_zero_iff_nil. lia.
Qed.

Lemma quiescent_dial s : Inv s -> quiescent s = true -> knd s = KDial -> rej s = false ->
  (closed s = true \/ pend s = false) -> exists r, dials s = [r].
Proof.
  intros (_ & _ & _ & (D1 & _ & _ & D4 & _) & _) Hq Hk Hr Hc. apply quiescent_spec in Hq. destruct Hq as (T & K & J & I).
  specialize (D1 Hk Hr). unfold dsum in D1. rewrite K, J, I in D1. cbn in D1.
  assert (Hp : pend s = false).
  { destruct Hc as [Hc|Hp]; auto. destruct (pend s) eqn:Ep; auto. exfalso. apply (D4 eq_refl Hc). exact T. }
  rewrite Hp in D1. cbn in D1. destruct (dials s) as [|r [|]]; cbn in D1; try lia. exists r; reflexivity.
Qed.

(* settling *)
Lemma next_none s : next s = None <-> quiescent s = true.
Proof.
  unfold next, quiescent. destruct (tears s) as [|[[t e] u] ?], (taken s), (jobs s), (imm s); cbn; intuition discriminate.
Qed.

Lemma next_decreases s a : next s = Some a -> measure (fst (step s a)) < measure s.
Proof.
  unfold next, measure. destruct (tears s) as [|[[t e] u] tl] eqn:Et.
  - destruct (taken s) as [|r tk] eqn:Ek.
    + destruct (imm s) eqn:Ei.
      * intros H; inversion H; subst. cbn [step]. rewrite Ei. simp. rewrite Et, Ek, app_length. cbn. lia.
      * destruct (jobs s) as [|j js] eqn:Ej; [discriminate|]. intros H; inversion H; subst. cbn [step]. rewrite Ej.
        destruct j; simp; rewrite Et, Ek, Ei; cbn; lia.
    + intros H; inversion H; subst. cbn [step]. rewrite Ek. simp. rewrite Et. cbn. lia.
  - intros H; inversion H; subst. cbn [step]. rewrite Et. cbn [pick]. rewrite Nat.eqb_refl. simp.
    rewrite app_length. destruct (managed s); cbn; lia.
Qed.

Lemma settle_quiescent fuel : forall s, measure s <= fuel -> quiescent (run s (settle_acts fuel s)) = true.
Proof.
  induction fuel as [|f IH]; intros s Hm; cbn [settle_acts].
  - cbn. apply next_none. unfold measure in Hm. unfold next.
    destruct (tears s) as [|[[? ?] ?] ?], (taken s), (imm s), (jobs s); cbn in *; auto; lia.
  - destruct (next s) as [a|] eqn:En; [|cbn; now apply next_none].
    cbn [run]. apply IH. pose proof (next_decreases s a En). lia.
Qed.

(* the flag is monotone; the flip records the cause *)
Lemma step_closed_mono s a : InvK s -> closed s = true -> closed (fst (step s a)) = true /\ flip (fst (step s a)) = flip s.
Proof.
  intros HK Hc. destruct a; cbn [step]; unfold teardown, set_closed; rewrite ?Hc; break; simp; auto; try discriminate.
  all: rewrite (HK Heqk) in Hc; discriminate.
Qed.

Lemma run_closed_mono acts : forall s, InvK s -> closed s = true -> closed (run s acts) = true /\ flip (run s acts) = flip s.
Proof.
  induction acts as [|a acts IH]; intros s HK Hc; cbn; auto.
  destruct (step_closed_mono s a HK Hc) as [H1 H2]. destruct (IH _ (step_K s a HK) H1) as [H3 H4]. split; congruence.
Qed.

Lemma step_flip s a : InvK s -> closed s = false -> closed (fst (step s a)) = true -> flip (fst (step s a)) = cause s a.
Proof.
  intros HK Hc. destruct a; cbn [step cause]; unfold teardown, set_closed; rewrite ?Hc; break; simp; auto; try discriminate; try congruence.
  all: try (rewrite (HK eq_refl) in *; cbn in *; discriminate).
Qed.

Lemma flip_origin acts : forall s e, Inv s -> closed s = false -> flip (run s acts) = Some e ->
  exists pre a post, acts = pre ++ a :: post /\ closed (run s pre) = false /\ cause (run s pre) a = Some e
                     /\ closed (run s (pre ++ [a])) = true.
Proof.
  induction acts as [|a acts IH]; intros s e HI Hc Hf; cbn [run] in Hf.
  - destruct HI as (_ & (_ & _ & _ & H4 & _) & _). destruct (H4 Hc) as (Hn & _). congruence.
  - destruct (closed (fst (step s a))) eqn:Ec1.
    + exists [], a, acts. cbn. repeat split; auto.
      destruct HI as (HK & _). destruct (run_closed_mono acts _ (step_K s a HK) Ec1) as [_ Hfl]. rewrite Hfl in Hf.
      rewrite <- (step_flip s a HK Hc Ec1). exact Hf.
    + destruct (IH _ e (step_Inv s a HI) Ec1 Hf) as (pre & b & post & E1 & E2 & E3 & E4).
      exists (a :: pre), b, post. subst. cbn. repeat split; auto.
Qed.

(* operations on a closed connection; idempotent Close *)
Lemma op_closed s k t o : closed s = true -> step s (AOp k t o) = (s, [EOp (cret s) k RClosed]) \/ knd s = KNone.
Proof. intros Hc. cbn [step]. rewrite Hc. destruct (knd s); auto. Qed.

Lemma cret_closed s : Inv s -> cret s = true -> closed s = true.
Proof.
  intros (_ & (_ & _ & _ & H4 & _) & _) Hr. destruct (closed s) eqn:Ec; auto. destruct (H4 eq_refl) as (_ & Hc & _). congruence.
Qed.

Lemma closed_started s : Inv s -> closed s = true -> knd s <> KNone.
Proof. intros (HK & _) Hc Hk. rewrite (HK Hk) in Hc. discriminate. Qed.

(* the kernel's verdict "established" comes from the kernel *)
Lemma step_kern s a : kern (fst (step s a)) = KEstab ->
  kern s = KEstab \/ a = AKernel None \/ exists r, a = ADial false r.
Proof.
  destruct a; cbn [step]; unfold teardown, set_closed; break; simp; auto; try discriminate; intros; subst; auto;
    try (right; right; eexists; reflexivity); try congruence.
Qed.

Lemma run_kern acts : forall s, kern (run s acts) = KEstab ->
  kern s = KEstab \/ In (AKernel None) acts \/ exists r, In (ADial false r) acts.
Proof.
  induction acts as [|a acts IH]; intros s H; cbn [run] in H; auto.
  destruct (IH _ H) as [H1|[H1|[r H1]]].
  - destruct (step_kern s a H1) as [H2|[H2|[r H2]]]; auto.
    + right; left; left; auto.
    + right; right; exists r; left; auto.
  - right; left; right; auto.
  - right; right; exists r; right; auto.
Qed.

(* once handed to an engine, whether the connection is managed / was rejected never changes *)
Lemma step_managed s a : knd s <> KNone -> managed (fst (step s a)) = managed s /\ rej (fst (step s a)) = rej s.
Proof.
  intros Hk. destruct a; cbn [step]; unfold teardown, set_closed; break; simp; auto; congruence.
Qed.

Lemma run_managed acts : forall s, knd s <> KNone -> managed (run s acts) = managed s /\ rej (run s acts) = rej s.
Proof.
  induction acts as [|a acts IH]; intros s Hk; cbn [run]; auto.
  destruct (step_managed s a Hk) as [H1 H2]. destruct (IH (fst (step s a))) as [H3 H4]; [rewrite step_knd; auto|]. split; congruence.
Qed.

(* a rejected dial: nothing is ever delivered *)
Lemma rejected_silent s : Inv s -> knd s = KDial -> rej s = true -> managed s = false -> notes s = [] /\ dials s = [].
Proof.
  intros (_ & (_ & H2 & _) & _ & (_ & _ & _ & _ & D5) & _) Hk Hr Hm.
  destruct (H2 Hm) as [Hz _]. specialize (D5 Hr). unfold dsum in D5. split; apply length_zero_iff_nil; lia.
Qed.
