(* Property C03 - connection life cycle: exactly one close notification, never before the open, first cause reported,
   Close idempotent, operations after Close fail without touching the descriptor, truthful dial result exactly once.

   Proved about the executable transition system Lifecycle.v (one nbio.Conn: conn_unix.go closeWithError /
   closeWithErrorWithoutLock and the error paths of Write / Writev / Sendfile / flush, poller_epoll.go addConn / addDialer /
   deleteConn / takeOnConnected and the dial completion paths, engine_unix.go DialAsyncTimeout, engine.go OnOpen / OnClose
   through the Async FIFO) for EVERY schedule: any number of closers of any cause (Close, CloseWithError, timers, poller
   EOF / read error, Stop's jobs), failing writers, flushers, operations on the closed connection, kernel verdicts on the
   connect, poller completions, the Async drainer - in any interleaving of their critical sections and lock-free tails.

   The model is tied to the code by the harness cmd/lifecycle: schedules of the real code on simulated descriptors under
   the cooperative scheduler are replayed through [run]/[trace] and compared event by event, and the logs of real engines
   are run through the extracted checker [legal]/[complete] (c03_model_logs_are_legal: no model behaviour is rejected). *)
Require Import Lifecycle LifeProofs LifeObs UdpSessions UdpProofs.
From Coq Require Import List Bool Arith Lia.
Import ListNotations.

(* at most one close notification and at most one close(2), after every schedule *)
Theorem c03_at_most_once acts :
  length (closes_of (trace init acts)) <= 1 /\ fdcl (run init acts) <= 1.
Proof.
  pose proof (run_Inv acts init init_Inv) as HI. split; [|apply fdcl_le_1, HI].
  destruct (run_notes acts init (proj1 init_Inv)) as [Hn _]. cbn [notes init app] in Hn. rewrite <- Hn. apply notes_le_1, HI.
Qed.

(* at quiescence: a closed connection that the engine manages has been notified exactly once, with the error of the
   action that flipped the flag, and its descriptor has been closed exactly once; an open connection not at all *)
Theorem c03_exactly_once_at_quiescence acts :
  let s := run init acts in
  quiescent s = true ->
  fdcl s = (if closed s then 1 else 0) /\
  (managed s = true -> closed s = true -> exists e, closes_of (trace init acts) = [e] /\ flip s = Some e) /\
  (closed s = false -> closes_of (trace init acts) = []).
Proof.
  intros s Hq. pose proof (run_Inv acts init init_Inv) as HI. fold s in HI.
  destruct (run_notes acts init (proj1 init_Inv)) as [Hn _]. cbn [notes init app] in Hn. fold s in Hn. rewrite <- Hn.
  destruct (quiescent_once s HI Hq) as (H1 & H2 & H3 & _). repeat split; auto.
Qed.

(* quiescence is reachable from every state: finishing the started pieces of work takes at most [measure] steps *)
Theorem c03_settles acts :
  let s := run init acts in quiescent (run init (acts ++ settle_acts (measure s) s)) = true.
Proof. intros s. rewrite run_app. apply settle_quiescent. fold s. lia. Qed.

(* never before the open: in the log of every schedule a close notification is preceded by the open notification
   (accepted / added connection) or by DialAsync's acceptance of the dial (dialed connections have no OnOpen) *)
Theorem c03_open_before_close acts pre e post :
  clean acts = true -> trace init acts = pre ++ EClose e :: post -> In EOpen pre \/ In EDialStart pre.
Proof. intros Hc Ht. apply (legal_open_before_close pre e post). rewrite <- Ht. apply legal_run, Hc. Qed.

(* ... and, whatever the schedule (rejected registrations included), a notified connection had been handed to an engine,
   and if it was accepted / added its open handler had run exactly once *)
Theorem c03_notified_was_opened acts :
  let s := run init acts in
  closes_of (trace init acts) <> [] -> knd s <> KNone /\ managed s = true /\ (knd s = KConn -> opens s = 1).
Proof.
  intros s Hn. pose proof (run_Inv acts init init_Inv) as HI. fold s in HI.
  destruct (run_notes acts init (proj1 init_Inv)) as [Hn' _]. cbn [notes init app] in Hn'. fold s in Hn'. rewrite <- Hn' in Hn.
  pose proof HI as (HK & (_ & H2 & _) & _ & _ & _ & (_ & O2 & _)).
  assert (Hm : managed s = true).
  { destruct (managed s) eqn:Em; auto. destruct (H2 eq_refl) as [Hz _]. destruct (notes s); [congruence|cbn in Hz; lia]. }
  repeat split; auto. intros Hk. rewrite (HK Hk) in Hn. apply Hn. reflexivity.
Qed.

(* first cause: the notified error is the error of the action that flipped the flag, i.e. of the first closing action
   in lock order; [cause] says which error an action carries when it finds the connection open *)
Theorem c03_first_cause acts e :
  In e (closes_of (trace init acts)) ->
  exists pre a post, acts = pre ++ a :: post /\ closed (run init pre) = false /\ cause (run init pre) a = Some e
                     /\ closed (run init (pre ++ [a])) = true.
Proof.
  intros Hin. pose proof (run_Inv acts init init_Inv) as HI.
  destruct (run_notes acts init (proj1 init_Inv)) as [Hn _]. cbn [notes init app] in Hn. rewrite <- Hn in Hin.
  destruct HI as (_ & _ & (E1 & _) & _). apply (flip_origin acts init e init_Inv eq_refl). apply E1. auto.
Qed.

(* Close is idempotent: on a closed connection it changes nothing (no second teardown, notification, close(2)) *)
Theorem c03_idempotent s t e user :
  closed s = true -> knd s <> KNone ->
  let s' := fst (step s (ACloseLock t e user)) in
  tears s' = tears s /\ jobs s' = jobs s /\ notes s' = notes s /\ dials s' = dials s /\ fdcl s' = fdcl s /\ flip s' = flip s
  /\ closed s' = true /\ snd (step s (ACloseLock t e user)) = (if user then [ECloseRet] else []).
Proof. intros Hc Hk. cbn [step]. rewrite Hc. destruct (knd s); [congruence| |]; cbn; repeat split; auto. Qed.

(* after Close: once a user's Close call has returned, in whatever schedule, every operation returns the closed
   indication, performs no syscall and changes nothing *)
Theorem c03_after_close acts k t o :
  let s := run init acts in
  cret s = true -> step s (AOp k t o) = (s, [EOp true k RClosed]).
Proof.
  intros s Hr. pose proof (run_Inv acts init init_Inv) as HI. fold s in HI.
  pose proof (cret_closed s HI Hr) as Hc. destruct (op_closed s k t o Hc) as [H|H].
  - rewrite Hr in H. exact H.
  - exfalso. apply (closed_started s HI Hc H).
Qed.

(* ... and so does every operation that merely finds the flag set (closed by the peer, a timer, a failed write, ...) *)
Theorem c03_after_flag acts k t o :
  let s := run init acts in
  closed s = true -> step s (AOp k t o) = (s, [EOp (cret s) k RClosed]).
Proof.
  intros s Hc. pose proof (run_Inv acts init init_Inv) as HI. fold s in HI.
  destruct (op_closed s k t o Hc) as [H|H]; auto. exfalso. apply (closed_started s HI Hc H).
Qed.

(* the dial callback is invoked at most once; for an accepted dial exactly once as soon as the connection is closed
   (or the completion has been consumed) and the started work is finished *)
Theorem c03_dial_once acts :
  let s := run init acts in
  length (dials_of (trace init acts)) <= 1 /\
  (knd s = KDial -> rej s = false -> quiescent s = true -> (closed s = true \/ pend s = false) ->
   exists r, dials_of (trace init acts) = [r]).
Proof.
  intros s. pose proof (run_Inv acts init init_Inv) as HI. fold s in HI.
  destruct (run_notes acts init (proj1 init_Inv)) as [_ Hd]. cbn [dials init app] in Hd. fold s in Hd. rewrite <- Hd.
  split; [apply dials_le_1, HI|]. intros Hk Hr Hq Hc. apply quiescent_dial; auto.
Qed.

(* truthful: a success callback implies that the kernel had established the connection - by its verdict on the
   non-blocking connect (AKernel None) or because connect(2) itself had returned 0 (ADial false) *)
Theorem c03_dial_truthful acts :
  In None (dials_of (trace init acts)) ->
  kern (run init acts) = KEstab /\ (In (AKernel None) acts \/ exists r, In (ADial false r) acts).
Proof.
  intros Hin. pose proof (run_Inv acts init init_Inv) as HI.
  destruct (run_notes acts init (proj1 init_Inv)) as [_ Hd]. cbn [dials init app] in Hd. rewrite <- Hd in Hin.
  destruct HI as (_ & _ & _ & _ & (T1 & _) & _).
  assert (Hk : kern (run init acts) = KEstab) by (apply (T1 None); auto).
  split; auto. destruct (run_kern acts init Hk) as [H|H]; [discriminate|exact H].
Qed.

(* refinement tie: every schedule of the model (without rejected registrations, which the harness logs separately)
   projects to a log the executable checker accepts; at quiescence the log of a closed connection is complete *)
Theorem c03_model_logs_are_legal acts : clean acts = true -> legal (trace init acts) = true.
Proof. exact (legal_run acts). Qed.

Theorem c03_model_logs_complete acts : clean acts = true ->
  quiescent (run init acts) = true -> closed (run init acts) = true -> complete (trace init acts) = true.
Proof. exact (complete_run acts). Qed.

(* ---- rejected registrations; and what the code does NOT guarantee (a behaviour of the model, i.e. of the code as it is) ---- *)

(* a dial whose registration fails (descriptor beyond the connection table, or epoll_ctl fails) is reported ONCE, by
   DialAsync's return value: whatever happens afterwards, no callback and no close notification are ever delivered
   (this was not so before /repo eae881e: the callback was invoked as well, and with epoll_ctl failing OnClose too) *)
Theorem c03_rejected_dial_reported_once inprog r acts :
  r <> RegOk ->
  let tr := trace init (ADial inprog r :: acts) in
  dials_of tr = [] /\ closes_of tr = [] /\ exists e, hd_error tr = Some (EDialRej e).
Proof.
  intros Hr tr. pose proof (run_Inv (ADial inprog r :: acts) init init_Inv) as HI.
  destruct (run_notes (ADial inprog r :: acts) init (proj1 init_Inv)) as [Hn Hd]. cbn [notes dials init app] in Hn, Hd.
  fold tr in Hn, Hd. rewrite <- Hn, <- Hd.
  assert (E : exists e, fst (step init (ADial inprog r)) =
                        mk KDial false true 0 true (Some (Some e)) None [] false false [] (if inprog then KProg else KEstab) [] [] [] 1 0 false
                        /\ snd (step init (ADial inprog r)) = [EDialRej e]).
  { destruct r as [|e|e]; [congruence| |]; exists e; split; reflexivity. }
  destruct E as (e & Es & Ee). cbn [run] in HI |- *. set (s1 := fst (step init (ADial inprog r))) in *.
  assert (Hk1 : knd s1 <> KNone) by (rewrite Es; discriminate).
  assert (Hm1 : managed s1 = false) by (rewrite Es; reflexivity).
  assert (Hr1 : rej s1 = true) by (rewrite Es; reflexivity).
  destruct (run_managed acts s1 Hk1) as [Hm Hj]. rewrite Hm1 in Hm. rewrite Hr1 in Hj.
  assert (Hk : knd (run s1 acts) = KDial).
  { clear -Es Hk1. revert s1 Es Hk1. induction acts as [|a acts IH]; intros s1 Es Hk1; cbn [run]; [rewrite Es; reflexivity|].
    assert (Hd : knd s1 = KDial) by (rewrite Es; reflexivity).
    assert (G : forall l s, knd s = KDial -> knd (run s l) = KDial).
    { clear. induction l as [|x l IHl]; intros s H; cbn [run]; auto. apply IHl. rewrite step_knd; congruence. }
    apply G. rewrite step_knd; congruence. }
  destruct (rejected_silent _ HI Hk Hj Hm) as [H1 H2]. repeat split; auto.
  exists e. unfold tr. cbn [trace]. rewrite Ee. reflexivity.
Qed.

(* a close that wins the flag while the poller holds a taken completion is notified BEFORE the success callback *)
Theorem c03_close_can_precede_success_callback :
  trace init [ADial true RegOk; AKernel None; APollTake false; ACloseLock 7 None true; ATeardown 7; ARunJob; APollCall]
  = [EDialStart; ECloseRet; EClose None; EDial None].
Proof. reflexivity. Qed.

(* ---- UDP peer sessions (UdpSessions.v: the listener's table remote address -> session on top of the per-connection model) ---- *)

(* every session is a connection: after any history of datagrams, session actions and the listener's close, session sid is
   in the state - and has produced exactly the events - of the per-connection run  AAdd false :: l  where l are the life-cycle
   actions that were applied to it; hence every theorem above holds for every session *)
Theorem c03_udp_session_is_connection acts sid :
  (exists x l, nth_error (ss (urun uinit acts)) sid = Some x /\ sst x = run init (AAdd false :: l)
               /\ evs_of sid (utrace uinit acts) = trace init (AAdd false :: l))
  \/ (nth_error (ss (urun uinit acts)) sid = None /\ evs_of sid (utrace uinit acts) = []).
Proof. exact (session_run acts sid). Qed.

Theorem c03_udp_at_most_once acts sid : length (closes_of (evs_of sid (utrace uinit acts))) <= 1.
Proof.
  destruct (session_run acts sid) as [(x & l & _ & _ & ->)|[_ ->]]; [|cbn; lia]. apply c03_at_most_once.
Qed.

Theorem c03_udp_open_before_close acts sid pre e post :
  evs_of sid (utrace uinit acts) = pre ++ EClose e :: post -> In EOpen pre.
Proof.
  destruct (session_run acts sid) as [(x & l & _ & _ & ->)|[_ ->]]; [|destruct pre; discriminate].
  cbn [trace]. change (snd (step init (AAdd false))) with [EOpen]. cbn [app]. intros H.
  destruct pre as [|p pre]; cbn in H; inversion H; subst. left; reflexivity.
Qed.

Theorem c03_udp_first_cause acts sid e :
  In e (closes_of (evs_of sid (utrace uinit acts))) ->
  exists l pre a post, evs_of sid (utrace uinit acts) = trace init (AAdd false :: l) /\ AAdd false :: l = pre ++ a :: post
    /\ closed (run init pre) = false /\ cause (run init pre) a = Some e /\ closed (run init (pre ++ [a])) = true.
Proof.
  destruct (session_run acts sid) as [(x & l & _ & _ & E)|[_ E]]; rewrite E; [|intros []].
  intros H. destruct (c03_first_cause _ _ H) as (pre & a & post & E1 & E2 & E3 & E4). exists l, pre, a, post. auto.
Qed.

(* a datagram is delivered only to a session that has had its open notification *)
Theorem c03_udp_data_after_open acts pre sid post :
  utrace uinit acts = pre ++ UData sid :: post -> In (UEv sid EOpen) pre.
Proof.
  intros E. destruct (urun_DInv acts uinit [] uinit_UInv) as [Hk _]; [split; [reflexivity|cbn; intros; lia]|]. cbn [app] in Hk.
  destruct (okd_split _ _ _ _ _ Hk E) as [[]|H]; exact H.
Qed.

(* same address -> same session: the listener's table maps an address exactly to THE session of that address whose teardown
   has not run; there is never a second one, so a datagram from a known address goes to that session without a new open
   notification, and a new session for the address exists only after the previous one has been released *)
Theorem c03_udp_one_session_per_address acts k :
  let u := urun uinit acts in
  (forall sid, lookup k (tbl u) = Some sid <-> exists x, nth_error (ss u) sid = Some x /\ skey x = k /\ fdcl (sst x) = 0)
  /\ (forall s1 s2 x1 x2, nth_error (ss u) s1 = Some x1 -> nth_error (ss u) s2 = Some x2 -> skey x1 = k -> skey x2 = k ->
       fdcl (sst x1) = 0 -> fdcl (sst x2) = 0 -> s1 = s2).
Proof.
  intros u. pose proof (urun_UInv acts uinit uinit_UInv) as HU. fold u in HU. split.
  - intros sid. apply table_characterisation, HU.
  - intros s1 s2 x1 x2 E1 E2 K1 K2 F1 F2.
    assert (H1 : lookup k (tbl u) = Some s1) by (apply table_characterisation; auto; exists x1; auto).
    assert (H2 : lookup k (tbl u) = Some s2) by (apply table_characterisation; auto; exists x2; auto).
    congruence.
Qed.

Theorem c03_udp_datagram_routing acts k :
  let u := urun uinit acts in srv u = false ->
  match lookup k (tbl u) with
  | Some sid => ustep u (UDatagram k) = (u, [UData sid])
  | None => snd (ustep u (UDatagram k)) = [UEv (length (ss u)) EOpen; UData (length (ss u))]
  end.
Proof. intros u Hs. cbn [ustep]. rewrite Hs. destruct (lookup k (tbl u)); reflexivity. Qed.

(* PARTIAL.  Proved: once the listener is closed no session is created and no datagram delivered.  Not proved (full statement):
   the listener's teardown (udpConn.Close: `for _, c := range u.conns { c.Close() }`) closes every session of the table, so that
   at quiescence each of them has had exactly one close notification with a nil error unless another cause came first; the
   model represents those closes as ordinary USess _ (ACloseLock _ None false) actions of the schedule and does not force them. *)
Theorem c03_udp_listener_close_partial acts k :
  let u := urun uinit acts in srv u = true -> ustep u (UDatagram k) = (u, []).
Proof. intros u Hs. cbn [ustep]. rewrite Hs. reflexivity. Qed.

(* non-vacuity: remote 7 sends twice (one session), remote 9 once, session 0 is closed and released, remote 7 sends again *)
Example c03_udp_example :
  utrace uinit [UDatagram 7; UDatagram 7; UDatagram 9; USess 0 (ACloseLock 1 (Some 5) true); UDatagram 7; USess 0 (ATeardown 1);
                USess 0 ARunJob; UDatagram 7]
  = [UEv 0 EOpen; UData 0; UData 0; UEv 1 EOpen; UData 1; UData 0; UEv 0 ECloseRet; UEv 0 (EClose (Some 5)); UEv 2 EOpen; UData 2].
Proof. vm_compute. reflexivity. Qed.

(* ---- the checker rejects what the property forbids ---- *)
Example c03_checker_rejects :
  legal [EOpen; EClose None; EClose None] = false /\               (* notified twice *)
  legal [EClose None; EOpen] = false /\                            (* close before open *)
  legal [EOpen; ECloseRet; EOp true OWrite RDone] = false /\       (* a write after Close succeeded *)
  legal [EOpen; EOp false OWrite (RErr 32); EClose (Some 1)] = false /\   (* write failure is not the notified cause *)
  legal [EDialStart; EDial None; EDial (Some 0)] = false /\        (* dial callback twice *)
  complete [EOpen; ECloseRet] = false /\                           (* closed, never notified *)
  complete [EDialStart; ECloseRet; EClose None] = false /\         (* dial callback missing *)
  complete [EDialStart; EDial (Some 0); ECloseRet; EClose None] = true /\
  complete [EOpen; EOp false OWrite (RErr 32); ECloseRet; EClose (Some 32); EOp true OWrite RClosed] = true.
Proof. vm_compute. repeat split; reflexivity. Qed.

(* non-vacuity: three closers race a failing writer on an accepted connection; the writer wins, its error is notified
   once, the losers and a later write see the closed connection *)
Example c03_example :
  let acts := [AAdd false; AOp OWrite 1 (OutFail 32 1); ACloseLock 2 None true; ACloseLock 3 (Some 9) true; ATeardown 1;
               ARunJob; AOp OWrite 4 (OutOk 1)] in
  trace init acts = [EOpen; EOp false OWrite (RErr 32); ECloseRet; ECloseRet; EClose (Some 32); EOp true OWrite RClosed]
  /\ quiescent (run init acts) = true /\ sys (run init acts) = 1 /\ fdcl (run init acts) = 1.
Proof. vm_compute. repeat split; reflexivity. Qed.

Print Assumptions c03_at_most_once.
Print Assumptions c03_exactly_once_at_quiescence.
Print Assumptions c03_settles.
Print Assumptions c03_open_before_close.
Print Assumptions c03_notified_was_opened.
Print Assumptions c03_first_cause.
Print Assumptions c03_idempotent.
Print Assumptions c03_after_close.
Print Assumptions c03_after_flag.
Print Assumptions c03_dial_once.
Print Assumptions c03_dial_truthful.
Print Assumptions c03_model_logs_are_legal.
Print Assumptions c03_model_logs_complete.
Print Assumptions c03_rejected_dial_reported_once.
Print Assumptions c03_close_can_precede_success_callback.
Print Assumptions c03_udp_session_is_connection.
Print Assumptions c03_udp_at_most_once.
Print Assumptions c03_udp_open_before_close.
Print Assumptions c03_udp_first_cause.
Print Assumptions c03_udp_data_after_open.
Print Assumptions c03_udp_one_session_per_address.
Print Assumptions c03_udp_datagram_routing.
Print Assumptions c03_udp_listener_close_partial.
