(* The life of ONE nbio connection (conn_unix.go, poller_epoll.go, engine_unix.go DialAsyncTimeout, engine.go OnOpen/OnClose)
   as a transition system.  An action is one critical section of Conn.mux or one lock-free piece of code between two
   critical sections; a schedule is a list of actions; every closing path of the code is "test-and-set `closed` under the
   mutex; the winner later runs the lock-free teardown (closeWithErrorWithoutLock): fail a pending dial, deleteConn ->
   close notification (queued on the engine's Async FIFO), close(2)".

   Errors are natural numbers (identities chosen by the harness); [None] stands for a nil error.
   NO proofs in this file (it is extracted and runs even when a proof breaks). *)
From Coq Require Import List Bool Arith.
Import ListNotations.

Definition ErrClosed : nat := 0.   (* net.ErrClosed *)
Definition ErrEOF    : nat := 1.   (* io.EOF *)
Definition ErrTooBig : nat := 2.   (* "too many open files, fd >= MaxOpenFiles" *)

Inductive kind := KNone | KConn | KDial.           (* not yet handed to an engine | accepted / AddConn | DialAsync *)
Inductive kstate := KIdle | KProg | KEstab | KFail (e : nat).   (* the kernel's view of the connect *)
Inductive opk := OWrite | OWritev | OSendfile | OFlush | OExecute | ORead.
Inductive outcome := OutOk (nsys : nat) | OutFail (e : nat) (nsys : nat).
   (* what the kernel / the write-buffer limit answers IF the operation finds the connection open:
      success after nsys descriptor syscalls, or a fatal failure e (errno, or ErrOverflow with nsys = 0) *)
Inductive ores := RDone | RClosed | RErr (e : nat).
Inductive regres := RegOk | RegTooBig (e : nat) | RegEpoll (e : nat).
   (* poller.addDialer: registered | fd >= len(connsUnix) | epoll_ctl ADD failed *)
Inductive job := JNotify (e : option nat) | JDial (r : option nat).

Inductive ev :=
| EOpen                               (* OnOpen(c) *)
| EClose (e : option nat)             (* OnClose(c, e) *)
| EDialStart                          (* DialAsync accepted the dial (returned nil) *)
| EDialRej (e : nat)                  (* DialAsync returned the error e *)
| EDial (r : option nat)              (* the dial callback; None = success *)
| ECloseRet                           (* a user's Close / CloseWithError call returned *)
| EOp (after : bool) (k : opk) (r : ores).  (* an operation's result; after = a user's Close had returned before it began *)

Record st := mk {
  knd : kind;
  managed : bool;                     (* c.p != nil: the teardown notifies *)
  rej : bool;                         (* DialAsync returned an error *)
  opens : nat;                        (* OnOpen deliveries *)
  closed : bool;                      (* Conn.closed *)
  flip : option (option nat);         (* ghost: the error of the action that flipped the flag *)
  fop : option nat;                   (* ghost: the fatal error an operation reported *)
  tears : list (nat * option nat * bool);   (* winners whose teardown has not run yet: (thread, error, user call) *)
  pend : bool;                        (* Conn.onConnected != nil *)
  imm : bool;                         (* connect(2) returned 0: DialAsync still has to queue h(c, nil) *)
  taken : list (option nat);          (* completions taken by the poller (takeOnConnected), callback not yet invoked *)
  kern : kstate;
  jobs : list job;                    (* the engine's Async FIFO restricted to this connection *)
  notes : list (option nat);          (* close notifications delivered *)
  dials : list (option nat);          (* dial callbacks delivered *)
  fdcl : nat;                         (* close(2) calls on the descriptor *)
  sys : nat;                          (* descriptor syscalls made by operations *)
  cret : bool                         (* a user's Close call has returned *)
}.

Definition init : st := mk KNone false false 0 false None None [] false false [] KIdle [] [] [] 0 0 false.

Inductive action :=
| AAdd (toobig : bool)                 (* poller.addConn: fd range check (too big: closeWithError, never opened), onOpen *)
| ADial (inprog : bool) (r : regres)   (* DialAsyncTimeout up to and including addDialer *)
| ADialCbAsync                         (* ... its tail when connect(2) had returned 0: engine.Async(h(c, nil)) *)
| AKernel (r : option nat)             (* the kernel finishes the connect: established / failed with SO_ERROR e *)
| APollTake (hup : bool)               (* poller: EPOLLOUT event -> takeOnConnected (hup: the event also carries ERR|HUP|RDHUP) *)
| APollCall                            (* poller: invoke the callback it took *)
| ACloseLock (t : nat) (e : option nat) (user : bool)
     (* closeWithError's critical section, any caller: Close / CloseWithError (user), timer, poller EOF or read error,
        failed dial, failed epoll registration, Stop's job *)
| ATeardown (t : nat)                  (* the winner's closeWithErrorWithoutLock *)
| AOp (k : opk) (t : nat) (o : outcome)(* Write / Writev / Sendfile / flush / Execute / Read: one critical section *)
| ARunJob.                             (* the Async drainer runs the head job *)

Definition dial_err (e : option nat) : nat := match e with None => ErrClosed | Some x => x end.

(* which operations close the connection on a fatal failure, and whether the teardown runs inside the critical section *)
Definition closing (k : opk) : bool := match k with OWrite | OWritev | OSendfile | OFlush => true | _ => false end.
Definition inline_teardown (k : opk) : bool := match k with OSendfile | OFlush => true | _ => false end.

Fixpoint pick (t : nat) (l : list (nat * option nat * bool)) : option (option nat * bool * list (nat * option nat * bool)) :=
  match l with
  | [] => None
  | (t', e, u) :: r =>
      if Nat.eqb t t' then Some (e, u, r)
      else match pick t r with
           | Some (e', u', r') => Some (e', u', (t', e, u) :: r')
           | None => None
           end
  end.

(* closeWithErrorWithoutLock *)
Definition teardown (s : st) (e : option nat) (user : bool) : st * list ev :=
  (mk (knd s) (managed s) (rej s) (opens s) (closed s) (flip s) (fop s) (tears s)
      false (imm s) (taken s) (kern s)
      (jobs s ++ (if managed s then [JNotify e] else []))
      (notes s)
      (dials s ++ (if pend s then [Some (dial_err e)] else []))
      (S (fdcl s)) (sys s) (cret s || user),
   (if pend s then [EDial (Some (dial_err e))] else []) ++ (if user then [ECloseRet] else [])).

Definition set_closed (s : st) (e : option nat) (fo : option nat) (tr : list (nat * option nat * bool)) (nsys : nat) : st :=
  mk (knd s) (managed s) (rej s) (opens s) true (Some e) fo tr
     (pend s) (imm s) (taken s) (kern s) (jobs s) (notes s) (dials s) (fdcl s) (sys s + nsys) (cret s).

Definition step (s : st) (a : action) : st * list ev :=
  match a with
  | AAdd toobig =>
      match knd s with
      | KNone =>
          if toobig
          then (mk KConn false false 0 true (Some (Some ErrTooBig)) None [] false false [] KIdle [] [] [] 1 0 false, [])
          else (mk KConn true false 1 false None None [] false false [] KIdle [] [] [] 0 0 false, [EOpen])
      | _ => (s, [])
      end
  | ADial inprog r =>
      match knd s with
      | KNone =>
          let k0 := if inprog then KProg else KEstab in
          match r with
          | RegOk => (mk KDial true false 0 false None None [] inprog (negb inprog) [] k0 [] [] [] 0 0 false, [EDialStart])
          | RegTooBig e | RegEpoll e =>
              (* the failure is reported once, by DialAsync's return value: addDialer clears the pending callback (and, when
                 epoll_ctl failed, the table slot and c.p) before closeWithError(e): no callback, no close notification,
                 the descriptor is closed *)
              (mk KDial false true 0 true (Some (Some e)) None [] false false [] k0 [] [] [] 1 0 false, [EDialRej e])
          end
      | _ => (s, [])
      end
  | ADialCbAsync =>
      if imm s
      then (mk (knd s) (managed s) (rej s) (opens s) (closed s) (flip s) (fop s) (tears s) (pend s) false (taken s) (kern s)
               (jobs s ++ [JDial None]) (notes s) (dials s) (fdcl s) (sys s) (cret s), [])
      else (s, [])
  | AKernel r =>
      match kern s with
      | KProg => (mk (knd s) (managed s) (rej s) (opens s) (closed s) (flip s) (fop s) (tears s) (pend s) (imm s) (taken s)
                     (match r with None => KEstab | Some e => KFail e end)
                     (jobs s) (notes s) (dials s) (fdcl s) (sys s) (cret s), [])
      | _ => (s, [])
      end
  | APollTake hup =>
      if pend s && negb (closed s)
      then match kern s with
           | KEstab =>
               (mk (knd s) (managed s) (rej s) (opens s) (closed s) (flip s) (fop s) (tears s) false (imm s)
                   (taken s ++ [if hup then Some ErrEOF else None]) (kern s)
                   (jobs s) (notes s) (dials s) (fdcl s) (sys s) (cret s), [])
           | KFail e =>
               (mk (knd s) (managed s) (rej s) (opens s) (closed s) (flip s) (fop s) (tears s) false (imm s)
                   (taken s ++ [Some e]) (kern s)
                   (jobs s) (notes s) (dials s) (fdcl s) (sys s) (cret s), [])
           | _ => (s, [])          (* no writability event before the kernel has finished the connect *)
           end
      else (s, [])
  | APollCall =>
      match taken s with
      | r :: rest =>
          (mk (knd s) (managed s) (rej s) (opens s) (closed s) (flip s) (fop s) (tears s) (pend s) (imm s) rest (kern s)
              (jobs s) (notes s) (dials s ++ [r]) (fdcl s) (sys s) (cret s), [EDial r])
      | [] => (s, [])
      end
  | ACloseLock t e user =>
      match knd s with
      | KNone => (s, [])
      | _ =>
          if closed s
          then (mk (knd s) (managed s) (rej s) (opens s) (closed s) (flip s) (fop s) (tears s) (pend s) (imm s) (taken s) (kern s)
                   (jobs s) (notes s) (dials s) (fdcl s) (sys s) (cret s || user),
                if user then [ECloseRet] else [])
          else (set_closed s e (fop s) (tears s ++ [(t, e, user)]) 0, [])
      end
  | ATeardown t =>
      match pick t (tears s) with
      | Some (e, u, rest) =>
          teardown (mk (knd s) (managed s) (rej s) (opens s) (closed s) (flip s) (fop s) rest (pend s) (imm s) (taken s) (kern s)
                       (jobs s) (notes s) (dials s) (fdcl s) (sys s) (cret s)) e u
      | None => (s, [])
      end
  | AOp k t o =>
      match knd s with
      | KNone => (s, [])
      | _ =>
          if closed s then (s, [EOp (cret s) k RClosed])       (* the closed indication, no syscall, nothing changes *)
          else match o with
               | OutOk n =>
                   (mk (knd s) (managed s) (rej s) (opens s) (closed s) (flip s) (fop s) (tears s) (pend s) (imm s) (taken s) (kern s)
                       (jobs s) (notes s) (dials s) (fdcl s) (sys s + n) (cret s), [EOp (cret s) k RDone])
               | OutFail e n =>
                   if closing k
                   then if inline_teardown k
                        then let '(s', evs) := teardown (set_closed s (Some e) (Some e) (tears s) n) (Some e) false in
                             (s', EOp (cret s) k (RErr e) :: evs)
                        else (set_closed s (Some e) (Some e) (tears s ++ [(t, Some e, false)]) n, [EOp (cret s) k (RErr e)])
                   else (mk (knd s) (managed s) (rej s) (opens s) (closed s) (flip s) (fop s) (tears s) (pend s) (imm s) (taken s) (kern s)
                            (jobs s) (notes s) (dials s) (fdcl s) (sys s + n) (cret s), [EOp (cret s) k RDone])
               end
      end
  | ARunJob =>
      match jobs s with
      | JNotify e :: rest =>
          (mk (knd s) (managed s) (rej s) (opens s) (closed s) (flip s) (fop s) (tears s) (pend s) (imm s) (taken s) (kern s)
              rest (notes s ++ [e]) (dials s) (fdcl s) (sys s) (cret s), [EClose e])
      | JDial r :: rest =>
          (mk (knd s) (managed s) (rej s) (opens s) (closed s) (flip s) (fop s) (tears s) (pend s) (imm s) (taken s) (kern s)
              rest (notes s) (dials s ++ [r]) (fdcl s) (sys s) (cret s), [EDial r])
      | [] => (s, [])
      end
  end.

Fixpoint run (s : st) (acts : list action) : st :=
  match acts with [] => s | a :: t => run (fst (step s a)) t end.

Fixpoint trace (s : st) (acts : list action) : list ev :=
  match acts with [] => [] | a :: t => snd (step s a) ++ trace (fst (step s a)) t end.

(* quiescence: no started action is unfinished (no teardown owed, no callback in the poller's hands, DialAsync done, queue empty) *)
Definition quiescent (s : st) : bool :=
  match tears s, taken s, jobs s with [], [], [] => negb (imm s) | _, _, _ => false end.

(* the next piece of started-but-unfinished work, if any; running these pieces one after the other ends in a quiescent
   state after at most [measure] steps *)
Definition next (s : st) : option action :=
  match tears s with
  | (t, _, _) :: _ => Some (ATeardown t)
  | [] => match taken s with
          | _ :: _ => Some APollCall
          | [] => if imm s then Some ADialCbAsync
                  else match jobs s with _ :: _ => Some ARunJob | [] => None end
          end
  end.

Definition measure (s : st) : nat :=
  2 * length (tears s) + length (taken s) + 2 * (if imm s then 1 else 0) + length (jobs s).

Fixpoint settle_acts (fuel : nat) (s : st) : list action :=
  match fuel with
  | O => []
  | S f => match next s with Some a => a :: settle_acts f (fst (step s a)) | None => [] end
  end.

(* the cause an action is, when it finds the connection open (None: the action does not close) *)
Definition cause (s : st) (a : action) : option (option nat) :=
  match a with
  | ACloseLock _ e _ => match knd s with KNone => None | _ => Some e end
  | AOp k _ (OutFail e _) => match knd s with KNone => None | _ => if closing k then Some (Some e) else None end
  | AAdd true => match knd s with KNone => Some (Some ErrTooBig) | _ => None end
  | ADial _ (RegTooBig e) | ADial _ (RegEpoll e) => match knd s with KNone => Some (Some e) | _ => None end
  | _ => None
  end.
