(* Extraction of the life-cycle model and the log checker (trusted base: Extraction + ExtrOcamlBasic + ExtrOcamlNatInt for
   thread / error identities and the small counters). *)
From Coq Require Import Extraction ExtrOcamlBasic ExtrOcamlNatInt.
From LifeC Require Import Lifecycle LifeObs UdpSessions.
Extraction "lifemodel.ml" init step quiescent legal complete clean uinit ustep.
