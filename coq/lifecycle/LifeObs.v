(* Observable projection of the life-cycle model and an executable checker for observed per-connection event logs.
   The harness records, per connection and in real-time order, the events  open / close(err) / dial accepted /
   dial callback(err) / a user's Close returned / result of an operation (with the flag "begun after a Close had returned").
   [legal] decides whether such a log is a behaviour of the model; [legal_run] proves that every schedule of the model
   (without rejected registrations, which produce no log) projects to a legal log, and [complete_run] that at quiescence
   the log of a closed connection is complete.  A real log that [legal] rejects is therefore outside the model. *)
Require Import Lifecycle LifeProofs.
From Coq Require Import List Bool Arith Lia.
Import ListNotations.

Inductive ck := CNone | CConn | CDial.

Record cs := mkc {
  ckind : ck;
  nclose : nat;                     (* close notifications seen *)
  ndial : nat;                      (* dial callbacks seen *)
  ccret : bool;                     (* a user's Close has returned *)
  cfatal : option nat;              (* the fatal error an operation reported *)
  cerr : option (option nat)        (* the error of the close notification *)
}.

Definition cinit : cs := mkc CNone 0 0 false None None.

Definition started (c : cs) : bool := match ckind c with CNone => false | _ => true end.

Definition check1 (c : cs) (e : ev) : option cs :=
  match e with
  | EOpen => match ckind c with
             | CNone => Some (mkc CConn (nclose c) (ndial c) (ccret c) (cfatal c) (cerr c))
             | _ => None                                   (* a second open, or an open on a dialed connection *)
             end
  | EDialStart => match ckind c with
                  | CNone => Some (mkc CDial (nclose c) (ndial c) (ccret c) (cfatal c) (cerr c))
                  | _ => None
                  end
  | EDialRej _ => None                                     (* rejected registrations are not logged *)
  | EClose x =>
      if started c && (nclose c =? 0)                      (* never before the open / the dial; never twice *)
         && match cfatal c with                            (* first cause: a fatal operation error is the one notified *)
            | Some f => match x with Some y => y =? f | None => false end
            | None => true
            end
      then Some (mkc (ckind c) 1 (ndial c) (ccret c) (cfatal c) (Some x))
      else None
  | EDial r =>
      match ckind c with
      | CDial => if ndial c =? 0 then Some (mkc CDial (nclose c) 1 (ccret c) (cfatal c) (cerr c)) else None   (* never twice *)
      | _ => None
      end
  | ECloseRet => if started c then Some (mkc (ckind c) (nclose c) (ndial c) true (cfatal c) (cerr c)) else None
  | EOp after k r =>
      if started c
         && (if after then ccret c && match r with RClosed => true | _ => false end else true)
      then match r with
           | RErr f =>
               if closing k
                  && match cfatal c with None => true | Some _ => false end      (* one fatal failure at most *)
                  && match cerr c with None => true | Some (Some y) => y =? f | Some None => false end
               then Some (mkc (ckind c) (nclose c) (ndial c) (ccret c) (Some f) (cerr c))
               else None
           | _ => Some c
           end
      else None
  end.

Fixpoint check (c : cs) (l : list ev) : option cs :=
  match l with
  | [] => Some c
  | e :: t => match check1 c e with Some c' => check c' t | None => None end
  end.

Definition legal (l : list ev) : bool := match check cinit l with Some _ => true | None => false end.

(* the log of a connection that is known to be closed and settled: exactly one close notification, and for a dialed
   connection exactly one callback *)
Definition complete (l : list ev) : bool :=
  match check cinit l with
  | Some c => match ckind c with
              | CNone => false
              | CConn => nclose c =? 1
              | CDial => (nclose c =? 1) && (ndial c =? 1)
              end
  | None => false
  end.

(* ---- every model run is legal ---- *)
Definition clean_action (a : action) : bool :=
  match a with
  | AAdd true => false
  | ADial _ (RegTooBig _) | ADial _ (RegEpoll _) => false
  | _ => true
  end.
Definition clean (acts : list action) : bool := forallb clean_action acts.

Definition cs_of (s : st) : cs :=
  mkc (match knd s with KNone => CNone | KConn => CConn | KDial => CDial end)
      (length (notes s)) (length (dials s)) (cret s) (fop s) (hd_error (notes s)).

Lemma check_app c l1 l2 : check c (l1 ++ l2) = match check c l1 with Some c' => check c' l2 | None => None end.
Proof. revert c. induction l1 as [|e t IH]; intros c; cbn; auto. destruct (check1 c e); auto. Qed.

(* facts used below, from the invariants *)
Lemma jnotify_head s e rest : Inv s -> jobs s = JNotify e :: rest ->
  notes s = [] /\ knd s <> KNone /\ (forall f, fop s = Some f -> e = Some f).
Proof.
  intros (HK & (H1 & H2 & _) & (E1 & E2) & _) Hj. rewrite Hj in *. rewrite jerrs_n in *. cbn [length] in *.
  assert (Hn : notes s = []).
  { apply length_zero_iff_nil. destruct (managed s); [specialize (H1 eq_refl); destruct (closed s); cbn in H1; lia|destruct (H2 eq_refl); lia]. }
  repeat split; auto.
  - intros Hk. rewrite (HK Hk) in Hj. discriminate.
  - intros f Hf. specialize (E2 f Hf). assert (flip s = Some e) by (apply E1; right; left; left; reflexivity). congruence.
Qed.

Lemma dial_token s : Inv s -> (pend s = true \/ taken s <> [] \/ jdials (jobs s) <> []) -> knd s = KDial /\ dials s = [].
Proof.
  intros (_ & _ & _ & (_ & D2 & D3 & _) & _) H. unfold dsum in *.
  assert (Hpos : 1 <= b2n (pend s) + length (taken s) + length (jdials (jobs s))).
  { destruct H as [H|[H|H]]; [rewrite H; cbn; lia| destruct (taken s); [congruence|cbn; lia] | destruct (jdials (jobs s)); [congruence|cbn; lia]]. }
  split.
  - destruct (knd s) eqn:Ek; auto; (assert (Hz : knd s <> KDial) by congruence; rewrite Ek in Hz; specialize (D3 Hz); lia).
  - apply length_zero_iff_nil. lia.
Qed.

Ltac simpc := cbn [fst snd knd managed rej opens closed flip fop tears pend imm taken kern jobs notes dials fdcl sys cret
                   teardown set_closed cs_of check check1 started ckind nclose ndial ccret cfatal cerr app length hd_error
                   andb negb orb Nat.eqb].

Lemma step_check s a rest : Inv s -> clean_action a = true ->
  check (cs_of s) (snd (step s a) ++ rest) = check (cs_of (fst (step s a))) rest.
Proof.
  intros HI Hcl. pose proof HI as (HK & HC & HE & HD & HT & HO).
  destruct a; cbn [step].
  - (* AAdd *) destruct toobig; [discriminate|]. destruct (knd s) eqn:Ek; simpc; rewrite ?Ek; try reflexivity.
    rewrite (HK Ek). reflexivity.
  - (* ADial *) destruct r; try discriminate. destruct (knd s) eqn:Ek; simpc; rewrite ?Ek; try reflexivity.
    rewrite (HK Ek). reflexivity.
  - (* ADialCbAsync *) destruct (imm s); reflexivity.
  - (* AKernel *) destruct (kern s); reflexivity.
  - (* APollTake *) destruct (pend s && negb (closed s)); [|reflexivity]. destruct (kern s); reflexivity.
  - (* APollCall *)
    destruct (taken s) as [|r tk] eqn:Et; [reflexivity|].
    destruct (dial_token s HI) as [Hk Hd]; [right; left; rewrite Et; discriminate|].
    unfold cs_of. simpc. rewrite Hk, Hd. simpc. reflexivity.
  - (* ACloseLock *)
    destruct (knd s) eqn:Ek; [reflexivity| |];
      (destruct (closed s) eqn:Ec; [destruct user|]; unfold cs_of; simpc; rewrite ?Ek; simpc; rewrite ?orb_true_r, ?orb_false_r; reflexivity).
  - (* ATeardown *)
    destruct (pick t (tears s)) as [[[e u] tl]|] eqn:Ep; [|reflexivity].
    assert (Hk : knd s <> KNone).
    { intros Hk. rewrite (HK Hk) in Ep. discriminate. }
    destruct (pend s) eqn:Epd.
    + destruct (dial_token s HI) as [Hkd Hd]; [left; exact Epd|].
      unfold cs_of. simpc. rewrite ?Epd, ?Hkd, ?Hd. destruct u; simpc; rewrite ?orb_true_r, ?orb_false_r; reflexivity.
    + unfold cs_of. simpc. rewrite ?Epd, ?app_nil_r.
      destruct u; simpc; [destruct (knd s); [congruence| |]; simpc; rewrite ?orb_true_r; reflexivity | rewrite orb_false_r; reflexivity].
  - (* AOp *)
    destruct (knd s) eqn:Ek; [reflexivity| |].
    all: destruct (closed s) eqn:Ec.
    all: try (unfold cs_of; simpc; rewrite Ek; simpc;
              destruct (cret s) eqn:Ecr; simpc; reflexivity).
    all: destruct HC as (_ & _ & _ & H4 & _); destruct (H4 Ec) as (_ & Hcr & Hfo);
         destruct (open_lists_nil s (proj1 (proj2 HI)) Ec) as (_ & _ & Hn).
    all: destruct o as [n|e n];
         [ unfold cs_of; simpc; rewrite Ek, Hcr; simpc; reflexivity |].
    all: destruct (closing k) eqn:Eck;
         [| unfold cs_of; simpc; rewrite Ek, Hcr; simpc; reflexivity ].
    all: destruct (inline_teardown k) eqn:Ei.
    all: try (unfold cs_of; simpc; rewrite Ek, Hcr, Hfo, Hn, Eck; simpc; reflexivity).
    (* inline teardown: a pending dial callback is failed first *)
    all: destruct (pend s) eqn:Epd.
    all: try (destruct (dial_token s HI) as [Hkd Hd]; [left; exact Epd|]; try congruence).
    all: unfold cs_of; simpc; rewrite ?Epd, ?Ek, ?Hcr, ?Hfo, ?Hn, ?Eck, ?Hd; simpc; rewrite ?Hcr, ?Eck, ?app_nil_r; simpc; try reflexivity.
  - (* ARunJob *)
    destruct (jobs s) as [|[e|r] tl] eqn:Ej; [reflexivity| |].
    + destruct (jnotify_head s e tl HI Ej) as (Hn & Hk & Hf).
      unfold cs_of. simpc. rewrite Hn. simpc.
      destruct (knd s) eqn:Ek; [congruence| |]; simpc;
        (destruct (fop s) as [f|] eqn:Ef; [rewrite (Hf f eq_refl); rewrite Nat.eqb_refl|]; reflexivity).
    + destruct (dial_token s HI) as [Hk Hd]; [right; right; rewrite Ej, jdials_d; discriminate|].
      unfold cs_of. simpc. rewrite Hk, Hd. simpc. reflexivity.
Qed.

Lemma trace_check acts : forall s, Inv s -> clean acts = true ->
  check (cs_of s) (trace s acts) = Some (cs_of (run s acts)).
Proof.
  induction acts as [|a acts IH]; intros s HI Hc; cbn [trace run check]; auto.
  cbn in Hc. apply andb_true_iff in Hc. destruct Hc as [Ha Hc].
  rewrite step_check by auto. apply IH; auto. apply step_Inv, HI.
Qed.

Theorem legal_run acts : clean acts = true -> legal (trace init acts) = true.
Proof.
  intros Hc. unfold legal. change cinit with (cs_of init). rewrite trace_check; auto. apply init_Inv.
Qed.

(* without rejected registrations every connection handed to an engine is managed *)
Definition InvM (s : st) : Prop := knd s <> KNone -> managed s = true /\ rej s = false.

Lemma step_M s a : InvK s -> clean_action a = true -> InvM s -> InvM (fst (step s a)).
Proof.
  intros HK Hc HM. unfold InvM in *. destruct (knd s) eqn:Ek.
  - rewrite (HK Ek) in *. destruct a; cbn in *; break; cbn; intros; try discriminate; auto; congruence.
  - assert (Hk : knd s <> KNone) by congruence. rewrite Ek in Hk. specialize (HM Hk). intros _.
    destruct HM as [Hm Hr]. destruct a; cbn [step]; unfold teardown, set_closed; rewrite ?Ek; break; simp; auto; try discriminate; try congruence.
  - assert (Hk : knd s <> KNone) by congruence. rewrite Ek in Hk. specialize (HM Hk). intros _.
    destruct HM as [Hm Hr]. destruct a; cbn [step]; unfold teardown, set_closed; rewrite ?Ek; break; simp; auto; try discriminate; try congruence.
Qed.

Lemma run_M acts : forall s, Inv s -> clean acts = true -> InvM s -> InvM (run s acts).
Proof.
  induction acts as [|a acts IH]; intros s HI Hc HM; cbn [run]; auto.
  cbn in Hc. apply andb_true_iff in Hc. destruct Hc as [Ha Hc].
  apply IH; auto; [apply step_Inv, HI | apply step_M; auto; apply HI].
Qed.

Theorem complete_run acts : clean acts = true ->
  let s := run init acts in
  quiescent s = true -> closed s = true -> complete (trace init acts) = true.
Proof.
  intros Hc s Hq Hcl. unfold complete. change cinit with (cs_of init). rewrite trace_check; auto; [|apply init_Inv].
  fold s. assert (HI : Inv s) by (apply run_Inv, init_Inv).
  assert (HM : InvM s) by (apply run_M; auto; [apply init_Inv | intros H; exfalso; apply H; reflexivity]).
  assert (Hk : knd s <> KNone).
  { intros Hk. destruct HI as (HK & _). rewrite (HK Hk) in Hcl. discriminate. }
  destruct (HM Hk) as [Hm Hr].
  destruct (quiescent_once s HI Hq) as (_ & Hn & _). destruct (Hn Hm Hcl) as (e & Hnotes & _).
  unfold cs_of; cbn [ckind nclose ndial]. rewrite Hnotes. cbn [length Nat.eqb].
  destruct (knd s) eqn:Ek; [congruence|reflexivity|].
  destruct (quiescent_dial s HI Hq Ek Hr (or_introl Hcl)) as (r & Hd). rewrite Hd. reflexivity.
Qed.

(* ---- what a legal log guarantees, as statements about the log itself ---- *)
Lemma check1_started c e c' : check1 c e = Some c' -> started c' = true ->
  started c = true \/ e = EOpen \/ e = EDialStart.
Proof.
  destruct e; cbn [check1]; unfold started; intros H; auto;
    repeat match type of H with
    | context [match ?x with _ => _ end] => destruct x eqn:?; try discriminate
    end; inversion H; subst; cbn in *; auto.
Qed.

Lemma check_started l : forall c c', check c l = Some c' -> started c' = true ->
  started c = true \/ In EOpen l \/ In EDialStart l.
Proof.
  induction l as [|e l IH]; intros c c' H Hs; cbn [check] in H.
  - inversion H; subst; auto.
  - destruct (check1 c e) as [c1|] eqn:E1; [|discriminate].
    destruct (IH _ _ H Hs) as [H1|[H1|H1]].
    + destruct (check1_started _ _ _ E1 H1) as [H2|[H2|H2]]; auto; subst; right; [left|right]; left; reflexivity.
    + right; left; right; auto.
    + right; right; right; auto.
Qed.

Lemma legal_open_before_close pre e post : legal (pre ++ EClose e :: post) = true -> In EOpen pre \/ In EDialStart pre.
Proof.
  unfold legal. rewrite check_app. destruct (check cinit pre) as [c1|] eqn:E1; [|discriminate].
  cbn [check]. destruct (check1 c1 (EClose e)) as [c2|] eqn:E2; [|discriminate]. intros _.
  assert (Hs : started c1 = true).
  { cbn [check1] in E2. destruct (started c1); auto. discriminate. }
  destruct (check_started _ _ _ E1 Hs) as [H|H]; auto. discriminate.
Qed.
