(* The session table of a UDP listener (conn_unix.go: readUDP, udpConn.getConn, udpConn.Close) on top of the per-connection
   life-cycle model.  The listener (ConnTypeUDPServer) owns one descriptor and a map  remote address -> peer session
   (ConnTypeUDPClientFromRead).  readUDP, under the listener's mutex, looks the sender of every datagram up: a known
   sender's datagram goes to its session, an unknown sender gets a fresh session (entered into the map, then the open
   notification, then the data).  A session lives the life of any connection (Lifecycle.v: closers of any cause, the
   lock-free teardown, the close notification through the Async FIFO); its teardown does not close a descriptor but
   removes the session's address from the listener's map (udpConn.Close: delete(parent.connUDP.conns, key)) - the model
   re-uses the close(2) counter [fdcl] of the embedded connection state as the "released" marker.
   Creation is ONE step: "entered into the map, open notification, idle timer armed (Config.UDPReadTimeout)" - the order of
   readUDP since /repo 6bda07e (getConn; onOpen; SetReadDeadline): the timer's close is a later action of the session.  Before
   that commit the timer was armed BEFORE the open handler ran and, with a tiny UDPReadTimeout, its close notification could
   overtake the open notification (finding D38; the harness's udp-idle-stress scenario guards it).
   NO proofs in this file (it is extracted). *)
Require Import Lifecycle.
From Coq Require Import List Bool Arith.
Import ListNotations.

Record sess := mks { skey : nat; sst : st }.

Record ust := mku {
  tbl : list (nat * nat);      (* udpConn.conns of the listener: remote key -> session id *)
  ss : list sess;              (* every session ever created; its id is its position *)
  srv : bool                   (* the listener's closed flag *)
}.

Definition uinit : ust := mku [] [] false.

Inductive uaction :=
| UDatagram (key : nat)          (* the listener reads a datagram sent by remote [key] *)
| USess (sid : nat) (a : action) (* one life-cycle action of session sid *)
| UServerClose.                  (* the listener's closed flag is set (Close / Engine.Stop); its teardown then closes the
                                    sessions one by one: those are USess _ (ACloseLock _ None false) actions *)

Inductive uev :=
| UEv (sid : nat) (e : ev)       (* a life-cycle event of session sid (open, close, close-returned, operation result) *)
| UData (sid : nat).             (* a datagram is delivered to session sid *)

Fixpoint lookup (k : nat) (t : list (nat * nat)) : option nat :=
  match t with
  | [] => None
  | (k', v) :: r => if Nat.eqb k k' then Some v else lookup k r
  end.

Definition remove_key (k : nat) (t : list (nat * nat)) : list (nat * nat) :=
  filter (fun p => negb (Nat.eqb (fst p) k)) t.

Fixpoint set_nth (n : nat) (x : sess) (l : list sess) : list sess :=
  match l, n with
  | [], _ => []
  | _ :: t, O => x :: t
  | h :: t, S n' => h :: set_nth n' x t
  end.

(* a fresh session: handed to the engine, open notification delivered *)
Definition s0 : st := fst (step init (AAdd false)).

Definition ustep (u : ust) (a : uaction) : ust * list uev :=
  match a with
  | UDatagram k =>
      if srv u then (u, [])                                  (* ReadAndGetConn on the closed listener: ErrClosed *)
      else match lookup k (tbl u) with
           | Some sid => (u, [UData sid])
           | None =>
               let sid := length (ss u) in
               (mku ((k, sid) :: tbl u) (ss u ++ [mks k s0]) (srv u), [UEv sid EOpen; UData sid])
           end
  | USess sid a =>
      match nth_error (ss u) sid with
      | Some x =>
          let s' := fst (step (sst x) a) in
          let released := Nat.ltb (fdcl (sst x)) (fdcl s') in      (* the teardown ran in this step *)
          (mku (if released then remove_key (skey x) (tbl u) else tbl u)
               (set_nth sid (mks (skey x) s') (ss u)) (srv u),
           map (UEv sid) (snd (step (sst x) a)))
      | None => (u, [])
      end
  | UServerClose => (mku (tbl u) (ss u) true, [])
  end.

Fixpoint urun (u : ust) (acts : list uaction) : ust :=
  match acts with [] => u | a :: t => urun (fst (ustep u a)) t end.

Fixpoint utrace (u : ust) (acts : list uaction) : list uev :=
  match acts with [] => [] | a :: t => snd (ustep u a) ++ utrace (fst (ustep u a)) t end.

(* the life-cycle events of one session, and the life-cycle actions applied to it *)
Definition evs_of (sid : nat) (tr : list uev) : list ev :=
  flat_map (fun e => match e with UEv i x => if Nat.eqb i sid then [x] else [] | UData _ => [] end) tr.
