(* Extraction of the log checker (trusted base: Extraction + ExtrOcamlBasic + ExtrOcamlNatInt for the two counters). *)
From Coq Require Import Extraction ExtrOcamlBasic ExtrOcamlNatInt.
From StopC Require Import StopModel StopObs.
Extraction "stopmodel.ml" legal.
