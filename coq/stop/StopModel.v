(* Engine.Stop (engine.go:200-245) and the open-connection wait group as a transition system.
   conns: one entry per connection the engine ever managed (accepted, added, dialed), by id = position.
   jobs:  the engine's Async queue (FIFO, one drainer - property C19): close notifications are delivered
          through it (engine.go OnClose wrapper) and Stop queues one Close job per connection of its snapshot.
   wg:    Engine.wgConn (starts at 1; +1 per open, -1 per finished close callback, -1 by Stop). *)
From Coq Require Import List ZArith Bool Lia.
Import ListNotations.

Inductive cst := COpen | CClosing | CNotified.
Inductive job := JNotify (id : nat) | JClose (id : nat).
Inductive phase := Running | Waiting | Returned.

Record st := mk { conns : list cst; wg : Z; jobs : list job; ph : phase }.

Definition init : st := mk [] 1%Z [] Running.

Fixpoint set_nth (n : nat) (x : cst) (l : list cst) : list cst :=
  match l, n with
  | [], _ => []
  | _ :: t, O => x :: t
  | h :: t, S n' => h :: set_nth n' x t
  end.

(* closeWithError: the closed flag is flipped once (C03); the teardown queues the close notification *)
Definition close_conn (s : st) (id : nat) : st :=
  match nth_error (conns s) id with
  | Some COpen => mk (set_nth id CClosing (conns s)) (wg s) (jobs s ++ [JNotify id]) (ph s)
  | _ => s
  end.

Fixpoint open_ids (i : nat) (l : list cst) : list nat :=
  match l with
  | [] => []
  | COpen :: t => i :: open_ids (S i) t
  | _ :: t => open_ids (S i) t
  end.

Inductive action :=
| AOpen            (* accept / AddConn / DialAsync accepted: wgConn.Add(1) *)
| AClose (id : nat) (* any cause: peer, Close(), deadline, write failure, overflow *)
| ARunJob          (* the Async drainer runs the head job *)
| AStopBegin       (* listeners stopped; snapshot; wgConn.Done(); one Close job per connection *)
| AStopReturn.     (* wgConn.Wait() returns *)

(* late_open = true models an accept that lands after Stop's snapshot (finding D11) *)
Definition step (late_open : bool) (s : st) (a : action) : st :=
  match a with
  | AOpen =>
      match ph s with
      | Running => mk (conns s ++ [COpen]) (wg s + 1) (jobs s) (ph s)
      | Waiting => if late_open then mk (conns s ++ [COpen]) (wg s + 1) (jobs s) (ph s) else s
      | Returned => s
      end
  | AClose id => close_conn s id
  | ARunJob =>
      match jobs s with
      | [] => s
      | JNotify id :: t =>
          match nth_error (conns s) id with
          | Some CClosing => mk (set_nth id CNotified (conns s)) (wg s - 1) t (ph s)
          | _ => mk (conns s) (wg s) t (ph s)
          end
      | JClose id :: t => close_conn (mk (conns s) (wg s) t (ph s)) id
      end
  | AStopBegin =>
      match ph s with
      | Running => mk (conns s) (wg s - 1) (jobs s ++ map JClose (open_ids 0 (conns s))) Waiting
      | _ => s
      end
  | AStopReturn =>
      match ph s with
      | Waiting => if (wg s =? 0)%Z then mk (conns s) (wg s) (jobs s) Returned else s
      | _ => s
      end
  end.

Definition run (late : bool) (s : st) (acts : list action) : st := fold_left (step late) acts s.

Definition count (c : cst) (l : list cst) : nat :=
  length (filter (fun x => match x, c with COpen, COpen | CClosing, CClosing | CNotified, CNotified => true | _, _ => false end) l).

(* Stop's waiting loop under a fair Async drainer: run jobs until the queue is empty *)
Fixpoint drain (fuel : nat) (s : st) : st :=
  match fuel with
  | O => s
  | S f => match jobs s with [] => s | _ => drain f (step false s ARunJob) end
  end.
