Require Import PollerStop.
From Coq Require Import List Bool Lia.
Import ListNotations.

(* fixed code: once requested, the stop flag stays *)
Lemma flag_sticky a p : flag p = true -> flag (pstep false p a) = true.
Proof. intros H. destruct a; cbn; auto; destruct (ps p); cbn; auto. now rewrite H. Qed.

Lemma flag_sticky_run acts : forall p, flag p = true -> flag (prun false p acts) = true.
Proof. induction acts as [|a acts IH]; intros p H; cbn; auto. apply IH, flag_sticky, H. Qed.

Lemma exited_stays r a p : ps p = PExited -> ps (pstep r p a) = PExited.
Proof. intros H. destruct a; cbn; rewrite ?H; auto. Qed.

(* however the start of the goroutine, its loop turns and the stop request interleave: after the request the poller's
   next own moves make it exit *)
Lemma stop_not_lost before after :
  ps (own_moves false (prun false pinit (before ++ PStop :: after))) = PExited.
Proof.
  unfold prun. rewrite fold_left_app. cbn [fold_left].
  set (p0 := fold_left (pstep false) before pinit).
  assert (Hf : flag (prun false (pstep false p0 PStop) after) = true) by (apply flag_sticky_run; reflexivity).
  unfold prun in Hf. set (p := fold_left (pstep false) after (pstep false p0 PStop)) in *.
  unfold own_moves. destruct p as [s f e]. cbn in Hf. subst f. destruct s; reflexivity.
Qed.

(* and it never spins: a running poller whose descriptor is readable has been asked to stop and sees it *)
Lemma evt_flag_step a p : (evt p = true -> flag p = true) -> evt (pstep false p a) = true -> flag (pstep false p a) = true.
Proof.
  intros H. destruct a; cbn.
  - destruct (ps p); cbn; exact H.
  - destruct (ps p); cbn; try exact H. destruct (flag p) eqn:F; cbn; [reflexivity|]. rewrite ?F. exact H.
  - reflexivity.
Qed.

Lemma never_spins_from acts : forall p, (evt p = true -> flag p = true) -> spinning (prun false p acts) = false.
Proof.
  induction acts as [|a acts IH]; intros p H; cbn [prun fold_left].
  - unfold spinning. destruct (ps p); auto. destruct (evt p); [rewrite H by reflexivity|]; destruct (flag p); reflexivity.
  - apply (IH (pstep false p a)). apply evt_flag_step, H.
Qed.

Lemma never_spins acts : spinning (prun false pinit acts) = false.
Proof. apply never_spins_from. discriminate. Qed.

(* the code before the fix: Stop before the goroutine begins is lost - the poller then spins for ever *)
Lemma old_stop_lost n :
  let p := prun true pinit ([PStop; PBegin] ++ repeat PIter n) in ps p = PRunning /\ spinning p = true.
Proof.
  cbn zeta. unfold prun. rewrite fold_left_app. cbn [fold_left app pstep pinit ps flag evt].
  induction n as [|n IH]; cbn [repeat fold_left]; [split; reflexivity|]. exact IH.
Qed.
