(* Observable projection of the Stop model and a checker for observed engine logs.
   The harness records, in real time order, the events  open / close-notification / Stop called / Stop returned
   of a real engine; [legal] decides whether such a log is a behaviour of the model. [legal_run] proves that
   every run of the model projects to a legal log, so a real log that [legal] rejects is outside the model. *)
Require Import StopModel StopProofs.
From Coq Require Import List ZArith Bool Arith Lia.
Import ListNotations.

Inductive obs := OOpen | ONotified | OStop | OReturn.

Definition obs_of (late : bool) (s : st) (a : action) : list obs :=
  match a with
  | AOpen => match ph s with Running => [OOpen] | Waiting => if late then [OOpen] else [] | Returned => [] end
  | AClose _ => []
  | ARunJob => match jobs s with
               | JNotify id :: _ => match nth_error (conns s) id with Some CClosing => [ONotified] | _ => [] end
               | _ => []
               end
  | AStopBegin => match ph s with Running => [OStop] | _ => [] end
  | AStopReturn => match ph s with Waiting => if (wg s =? 0)%Z then [OReturn] else [] | _ => [] end
  end.

Fixpoint trace (late : bool) (s : st) (acts : list action) : list obs :=
  match acts with
  | [] => []
  | a :: t => obs_of late s a ++ trace late (step late s a) t
  end.

(* checker state: opens seen, notifications seen, phase *)
Definition cstate := (nat * nat * phase)%type.

Definition check1 (c : cstate) (o : obs) : option cstate :=
  let '(op, nt, p) := c in
  match o, p with
  | OOpen, Returned => None                       (* an open after Stop returned *)
  | OOpen, _ => Some (S op, nt, p)
  | ONotified, Returned => None                   (* a close notification after Stop returned *)
  | ONotified, _ => if nt <? op then Some (op, S nt, p) else None   (* never more notifications than opens *)
  | OStop, Running => Some (op, nt, Waiting)
  | OStop, _ => None
  | OReturn, Waiting => if nt =? op then Some (op, nt, Returned) else None  (* every connection notified before the return *)
  | OReturn, _ => None
  end.

Fixpoint check (c : cstate) (l : list obs) : bool :=
  match l with
  | [] => true
  | o :: t => match check1 c o with Some c' => check c' t | None => false end
  end.

Definition legal (l : list obs) : bool := check (0, 0, Running) l.

(* ---- every model run is legal ---- *)
Definition notified_n (l : list cst) : nat := length (filter is_notified l).

Lemma live_notified l : live l + notified_n l = length l.
Proof.
  unfold live, notified_n. induction l as [|h t IH]; cbn; auto. destruct (is_notified h); cbn; lia.
Qed.

Definition Rel (s : st) (c : cstate) : Prop :=
  c = (length (conns s), notified_n (conns s), ph s).

Lemma notified_app l x : notified_n (l ++ [x]) = notified_n l + (if is_notified x then 1 else 0).
Proof. unfold notified_n. rewrite filter_app, app_length. cbn. destruct (is_notified x); reflexivity. Qed.

Lemma set_nth_length l : forall id c, length (set_nth id c l) = length l.
Proof. induction l as [|h t IH]; intros [|id] c; cbn; auto. Qed.

Lemma notified_set_same l : forall id c c', nth_error l id = Some c -> is_notified c = is_notified c' ->
  notified_n (set_nth id c' l) = notified_n l.
Proof.
  intros id c c' H1 H2. pose proof (live_notified l). pose proof (live_notified (set_nth id c' l)).
  rewrite set_nth_length in *. rewrite (live_set_same l id c c') in * by auto. lia.
Qed.

Lemma notified_set_notified l : forall id c, nth_error l id = Some c -> is_notified c = false ->
  notified_n (set_nth id CNotified l) = S (notified_n l) /\ notified_n l < length l.
Proof.
  intros id c H1 H2. pose proof (live_notified l). pose proof (live_notified (set_nth id CNotified l)).
  rewrite set_nth_length in *. pose proof (live_set_notified l id c H1 H2). lia.
Qed.

Lemma close_conn_rel s id c : Rel s c -> Rel (close_conn s id) c.
Proof.
  unfold Rel, close_conn. intros ->. destruct (nth_error (conns s) id) as [[| |]|] eqn:E; auto.
  cbn [conns ph]. rewrite set_nth_length, (notified_set_same _ id COpen CClosing); auto.
Qed.

Lemma step_check late s a c : Acc s -> RetInv s -> Rel s c ->
  exists c', Rel (step late s a) c' /\ forall rest, check c (obs_of late s a ++ rest) = check c' rest.
Proof.
  intros HA HRet HR. unfold Rel in HR. subst c. destruct a; cbn [step obs_of].
  - destruct (ph s) eqn:Ep.
    + eexists. split; [unfold Rel; cbn [conns ph]; rewrite app_length, notified_app; cbn; rewrite ?Ep; reflexivity|].
      intros rest. cbn. replace (length (conns s) + 1) with (S (length (conns s))) by lia.
      replace (notified_n (conns s) + 0) with (notified_n (conns s)) by lia. reflexivity.
    + destruct late.
      * eexists. split; [unfold Rel; cbn [conns ph]; rewrite app_length, notified_app; cbn; rewrite ?Ep; reflexivity|].
        intros rest. cbn. replace (length (conns s) + 1) with (S (length (conns s))) by lia.
        replace (notified_n (conns s) + 0) with (notified_n (conns s)) by lia. reflexivity.
      * eexists. split; [unfold Rel; rewrite ?Ep; reflexivity|]. reflexivity.
    + eexists. split; [unfold Rel; rewrite ?Ep; reflexivity|]. reflexivity.
  - eexists. split; [apply close_conn_rel; reflexivity|]. reflexivity.
  - destruct (jobs s) as [|[id|id] t] eqn:Ej.
    + eexists. split; [reflexivity|]. reflexivity.
    + destruct (nth_error (conns s) id) as [[| |]|] eqn:E.
      * eexists. split; [reflexivity|]. reflexivity.
      * destruct (notified_set_notified _ _ _ E eq_refl) as [Hn Hlt].
        eexists. split; [unfold Rel; cbn [conns ph]; rewrite set_nth_length, Hn; reflexivity|].
        intros rest. cbn [app check check1].
        assert (Hp : ph s <> Returned).
        { intros Hp. pose proof (HRet Hp) as Hw. unfold Acc in HA. rewrite Hp, Hw in HA.
          pose proof (live_set_notified _ _ _ E eq_refl). lia. }
        destruct (ph s) eqn:Ep; try (apply Nat.ltb_lt in Hlt; rewrite Hlt; reflexivity).
        exfalso. apply Hp. reflexivity.
      * eexists. split; [reflexivity|]. reflexivity.
      * eexists. split; [reflexivity|]. reflexivity.
    + eexists. split; [apply close_conn_rel; reflexivity|]. reflexivity.
  - destruct (ph s) eqn:Ep.
    + eexists. split; [reflexivity|]. intros rest. cbn. reflexivity.
    + eexists. split; [unfold Rel; rewrite ?Ep; reflexivity|]. reflexivity.
    + eexists. split; [unfold Rel; rewrite ?Ep; reflexivity|]. reflexivity.
  - destruct (ph s) eqn:Ep.
    + eexists. split; [unfold Rel; rewrite ?Ep; reflexivity|]. reflexivity.
    + destruct (wg s =? 0)%Z eqn:Ew.
      * eexists. split; [reflexivity|]. intros rest. cbn [app check check1 conns ph].
        apply Z.eqb_eq in Ew. unfold Acc in HA. rewrite Ep, Ew in HA.
        pose proof (live_notified (conns s)).
        assert (En : notified_n (conns s) =? length (conns s) = true) by (apply Nat.eqb_eq; lia).
        rewrite En. reflexivity.
      * eexists. split; [unfold Rel; rewrite ?Ep; reflexivity|]. reflexivity.
    + eexists. split; [unfold Rel; rewrite ?Ep; reflexivity|]. reflexivity.
Qed.

Lemma trace_check late acts : forall s c, Acc s -> RetInv s -> Rel s c -> check c (trace late s acts) = true.
Proof.
  induction acts as [|a acts IH]; intros s c HA HRet HR; cbn [trace check]; auto.
  destruct (step_check late s a c HA HRet HR) as (c' & HR' & Hc). rewrite Hc.
  apply IH; auto; [apply step_acc, HA | apply step_ret; auto].
Qed.

Theorem legal_run late acts : legal (trace late init acts) = true.
Proof. apply trace_check; [exact init_acc | intros H; discriminate | reflexivity]. Qed.
