Require Import StopModel.
From Coq Require Import List ZArith Bool Lia.
Import ListNotations.

Definition is_notified (c : cst) := match c with CNotified => true | _ => false end.
Definition live (l : list cst) : nat := length (filter (fun c => negb (is_notified c)) l).

(* accounting invariant: wgConn = (1 until Stop has done its Done) + connections whose close callback has not completed *)
Definition Acc (s : st) : Prop :=
  wg s = (match ph s with Running => 1 | _ => 0 end + Z.of_nat (live (conns s)))%Z.

Lemma live_app l x : live (l ++ [x]) = live l + (if is_notified x then 0 else 1).
Proof. unfold live. rewrite filter_app, app_length. cbn. destruct (is_notified x); reflexivity. Qed.

Lemma live_set_same l : forall id c c', nth_error l id = Some c -> is_notified c = is_notified c' ->
  live (set_nth id c' l) = live l.
Proof.
  induction l as [|h t IH]; intros [|id] c c' Hn Hc; cbn in *; try discriminate; auto.
  - inversion Hn; subst. unfold live; cbn. rewrite Hc. destruct (negb (is_notified c')); reflexivity.
  - unfold live in *; cbn. destruct (negb (is_notified h)); cbn; rewrite (IH id c c'); auto.
Qed.

Lemma live_set_notified l : forall id c, nth_error l id = Some c -> is_notified c = false ->
  S (live (set_nth id CNotified l)) = live l.
Proof.
  induction l as [|h t IH]; intros [|id] c Hn Hc; cbn in *; try discriminate.
  - inversion Hn; subst. unfold live; cbn. rewrite Hc. reflexivity.
  - unfold live in *; cbn. destruct (negb (is_notified h)); cbn; rewrite <- (IH id c); auto.
Qed.

Lemma close_conn_acc s id : Acc s -> Acc (close_conn s id).
Proof.
  unfold Acc, close_conn. intros H. destruct (nth_error (conns s) id) as [[| |]|] eqn:E; auto.
  cbn [conns wg ph jobs]. rewrite (live_set_same _ id COpen CClosing); auto.
Qed.

Lemma step_acc late s a : Acc s -> Acc (step late s a).
Proof.
  intros H. destruct a; cbn.
  - destruct (ph s) eqn:Ep; auto.
    + unfold Acc in *; cbn [conns wg ph jobs]. rewrite Ep in *. rewrite live_app. cbn [is_notified]. lia.
    + destruct late; auto. unfold Acc in *; cbn [conns wg ph jobs]. rewrite Ep in *. rewrite live_app. cbn [is_notified]. lia.
  - now apply close_conn_acc.
  - destruct (jobs s) as [|[id|id] t]; auto.
    + destruct (nth_error (conns s) id) as [[| |]|] eqn:E; try exact H.
      unfold Acc in *; cbn [conns wg ph jobs]. pose proof (live_set_notified _ _ _ E eq_refl). destruct (ph s); lia.
    + apply close_conn_acc. exact H.
  - destruct (ph s) eqn:Ep; auto. unfold Acc in *; cbn [conns wg ph jobs]. rewrite Ep in H. lia.
  - destruct (ph s) eqn:Ep; auto. destruct (wg s =? 0)%Z; auto. unfold Acc in *; cbn [conns wg ph jobs]. now rewrite Ep in H.
Qed.

Lemma run_acc late acts : forall s, Acc s -> Acc (run late s acts).
Proof. induction acts as [|a acts IH]; intros s H; cbn; auto. apply IH, step_acc, H. Qed.

Lemma init_acc : Acc init. Proof. reflexivity. Qed.

Lemma live_zero_all l : live l = 0 -> Forall (fun c => c = CNotified) l.
Proof.
  induction l as [|h t IH]; intros H; constructor.
  - destruct h; auto; unfold live in H; cbn in H; discriminate.
  - apply IH. unfold live in *; cbn in H. destruct (negb (is_notified h)); cbn in H; auto; discriminate.
Qed.

(* Returned is entered only through AStopReturn with wg = 0 *)
Definition RetInv (s : st) : Prop := ph s = Returned -> wg s = 0%Z.

Lemma close_conn_ph s id : ph (close_conn s id) = ph s /\ wg (close_conn s id) = wg s.
Proof. unfold close_conn. destruct (nth_error _ _) as [[| |]|]; auto. Qed.

(* once returned, the state is frozen except for late bookkeeping of jobs that change nothing on wg: we only need wg *)
Lemma step_ret late s a : Acc s -> RetInv s -> RetInv (step late s a).
Proof.
  intros HA H. unfold RetInv in *. destruct a; cbn.
  - destruct (ph s) eqn:Ep; auto; [cbn; congruence | destruct late; cbn; auto; congruence].
  - destruct (close_conn_ph s id) as [-> ->]. auto.
  - destruct (jobs s) as [|[id|id] t]; auto.
    + destruct (nth_error (conns s) id) as [[| |]|] eqn:E; cbn; auto.
      intros Hp. specialize (H Hp). unfold Acc in HA. rewrite Hp in HA.
      pose proof (live_set_notified _ _ _ E eq_refl). lia.
    + destruct (close_conn_ph (mk (conns s) (wg s) t (ph s)) id) as [-> ->]. cbn. auto.
  - destruct (ph s) eqn:Ep; cbn; auto; congruence.
  - destruct (ph s) eqn:Ep; auto; try (intros; congruence).
    destruct (wg s =? 0)%Z eqn:Ew; cbn [ph wg]; [intros _; now apply Z.eqb_eq | rewrite Ep; congruence].
Qed.

Lemma run_ret late acts : forall s, Acc s -> RetInv s -> RetInv (run late s acts) /\ Acc (run late s acts).
Proof.
  induction acts as [|a acts IH]; intros s HA HR; cbn; auto.
  apply IH; [apply step_acc, HA | apply step_ret; auto].
Qed.

(* ---------- termination of the wait under a fair drainer, without late opens ---------- *)
(* every closing connection has its notification queued; after Stop began every open connection has a Close job queued *)
Definition has_notify (jobs : list job) (id : nat) := In (JNotify id) jobs.
Definition has_close (jobs : list job) (id : nat) := In (JClose id) jobs.

Definition Cov (s : st) : Prop :=
  (forall id, nth_error (conns s) id = Some CClosing -> has_notify (jobs s) id) /\
  (ph s <> Running -> forall id, nth_error (conns s) id = Some COpen -> has_close (jobs s) id).

Lemma nth_set_nth l : forall id c j, nth_error (set_nth id c l) j =
  if Nat.eqb j id then (match nth_error l id with Some _ => Some c | None => None end) else nth_error l j.
Proof.
  induction l as [|h t IH]; intros id c j.
  - cbn. destruct id, j; cbn; try reflexivity; destruct (Nat.eqb j id); reflexivity.
  - destruct id, j; cbn; auto.
Qed.

Lemma open_ids_spec l : forall i id, nth_error l id = Some COpen -> In (i + id) (open_ids i l).
Proof.
  induction l as [|h t IH]; intros i [|id] H; cbn in *; try discriminate.
  - inversion H; subst. left. lia.
  - specialize (IH (S i) id H). replace (i + S id) with (S i + id) by lia. destruct h; cbn; auto.
Qed.

Lemma close_conn_cov s id : Cov s -> Cov (close_conn s id).
Proof.
  intros [H1 H2]. unfold close_conn. destruct (nth_error (conns s) id) as [[| |]|] eqn:E; try (split; assumption).
  split; cbn [conns jobs ph].
  - intros j Hj. rewrite nth_set_nth, E in Hj. unfold has_notify.
    destruct (Nat.eqb_spec j id) as [Heq|Hne]; apply in_or_app; [right; left; now rewrite Heq | left; apply H1; exact Hj].
  - intros Hp j Hj. rewrite nth_set_nth, E in Hj. destruct (Nat.eqb_spec j id); [discriminate|].
    unfold has_close. apply in_or_app. left. apply H2; auto.
Qed.

Lemma step_cov s a : Cov s -> Cov (step false s a).
Proof.
  intros H. destruct a; cbn.
  - destruct (ph s) eqn:Ep; auto. destruct H as [H1 H2]. split; cbn [conns jobs ph].
    + intros j Hj. apply H1. destruct (Nat.lt_ge_cases j (length (conns s))).
      * now rewrite nth_error_app1 in Hj.
      * rewrite nth_error_app2 in Hj by lia. destruct (j - length (conns s)) as [|[|k]]; cbn in Hj; discriminate.
    + intros Hc. congruence.
  - now apply close_conn_cov.
  - destruct (jobs s) as [|[id|id] t] eqn:Ej; auto.
    + destruct H as [H1 H2]. destruct (nth_error (conns s) id) as [[| |]|] eqn:E.
      * split; cbn [conns jobs ph].
        -- intros j Hj. specialize (H1 j Hj). unfold has_notify in *. rewrite Ej in H1. destruct H1 as [Heq|]; auto.
           inversion Heq; subst. congruence.
        -- intros Hp j Hj. specialize (H2 Hp j Hj). unfold has_close in *. rewrite Ej in H2. destruct H2 as [Heq|]; auto. discriminate.
      * (* the notification runs: a JNotify for the same id might remain only if it was queued twice, which never happens;
           we do not need uniqueness: after the step the conn is CNotified, so it needs no cover *)
        split; cbn [conns jobs ph].
        -- intros j Hj. rewrite nth_set_nth, E in Hj. destruct (Nat.eqb_spec j id); [discriminate|].
           specialize (H1 j Hj). unfold has_notify in *. rewrite Ej in H1. destruct H1 as [Heq|]; auto. inversion Heq; congruence.
        -- intros Hp j Hj. rewrite nth_set_nth, E in Hj. destruct (Nat.eqb_spec j id); [discriminate|].
           specialize (H2 Hp j Hj). unfold has_close in *. rewrite Ej in H2. destruct H2 as [Heq|]; auto. discriminate.
      * split; cbn [conns jobs ph].
        -- intros j Hj. specialize (H1 j Hj). unfold has_notify in *. rewrite Ej in H1. destruct H1 as [Heq|]; auto.
           inversion Heq; subst. congruence.
        -- intros Hp j Hj. specialize (H2 Hp j Hj). unfold has_close in *. rewrite Ej in H2. destruct H2 as [Heq|]; auto. discriminate.
      * split; cbn [conns jobs ph].
        -- intros j Hj. specialize (H1 j Hj). unfold has_notify in *. rewrite Ej in H1. destruct H1 as [Heq|]; auto.
           inversion Heq; subst. congruence.
        -- intros Hp j Hj. specialize (H2 Hp j Hj). unfold has_close in *. rewrite Ej in H2. destruct H2 as [Heq|]; auto. discriminate.
    + (* a Close job: afterwards its connection is not open any more *)
      destruct H as [H1 H2].
      assert (Hc : Cov (close_conn (mk (conns s) (wg s) t (ph s)) id)).
      { unfold close_conn; cbn [conns jobs wg ph].
        destruct (nth_error (conns s) id) as [[| |]|] eqn:E.
        - split; cbn [conns jobs ph].
          + intros j Hj. rewrite nth_set_nth, E in Hj. unfold has_notify.
            destruct (Nat.eqb_spec j id) as [Heq|Hne]; apply in_or_app; [right; left; now rewrite Heq|left].
            specialize (H1 j Hj). unfold has_notify in H1. rewrite Ej in H1. destruct H1 as [Heq|]; auto. discriminate.
          + intros Hp j Hj. rewrite nth_set_nth, E in Hj. destruct (Nat.eqb_spec j id); [discriminate|].
            unfold has_close. apply in_or_app. left.
            specialize (H2 Hp j Hj). unfold has_close in H2. rewrite Ej in H2. destruct H2 as [Heq|]; auto. inversion Heq; congruence.
        - split; cbn [conns jobs ph].
          + intros j Hj. specialize (H1 j Hj). unfold has_notify in *. rewrite Ej in H1. destruct H1 as [Heq|]; auto. discriminate.
          + intros Hp j Hj. specialize (H2 Hp j Hj). unfold has_close in *. rewrite Ej in H2. destruct H2 as [Heq|]; auto. inversion Heq; congruence.
        - split; cbn [conns jobs ph].
          + intros j Hj. specialize (H1 j Hj). unfold has_notify in *. rewrite Ej in H1. destruct H1 as [Heq|]; auto. discriminate.
          + intros Hp j Hj. specialize (H2 Hp j Hj). unfold has_close in *. rewrite Ej in H2. destruct H2 as [Heq|]; auto. inversion Heq; congruence.
        - split; cbn [conns jobs ph].
          + intros j Hj. specialize (H1 j Hj). unfold has_notify in *. rewrite Ej in H1. destruct H1 as [Heq|]; auto. discriminate.
          + intros Hp j Hj. specialize (H2 Hp j Hj). unfold has_close in *. rewrite Ej in H2. destruct H2 as [Heq|]; auto. inversion Heq; congruence. }
      exact Hc.
  - destruct (ph s) eqn:Ep; auto. destruct H as [H1 H2]. split; cbn [conns jobs ph].
    + intros j Hj. unfold has_notify. apply in_or_app. left. now apply H1.
    + intros _ j Hj. unfold has_close. apply in_or_app. right. apply in_map_iff. exists j. split; auto.
      apply (open_ids_spec _ 0 j Hj).
  - destruct (ph s) eqn:Ep; auto. destruct (wg s =? 0)%Z; auto. destruct H as [H1 H2]. split; cbn [conns jobs ph]; auto.
    intros _. apply H2. congruence.
Qed.

Lemma run_cov acts : forall s, Cov s -> Cov (run false s acts).
Proof. induction acts as [|a acts IH]; intros s H; cbn; auto. apply IH, step_cov, H. Qed.

Lemma init_cov : Cov init.
Proof. split; [intros [|id] H; discriminate | intros H; exfalso; apply H; reflexivity]. Qed.

(* when the queue is empty after Stop began, nothing is open or closing: the wait group is at zero *)
Lemma empty_queue_done s : Acc s -> Cov s -> ph s = Waiting -> jobs s = [] -> wg s = 0%Z.
Proof.
  intros HA [H1 H2] Hp Hj. unfold Acc in HA. rewrite Hp in HA. rewrite HA.
  assert (live (conns s) = 0); [|lia].
  assert (Hall : forall id c, nth_error (conns s) id = Some c -> c = CNotified).
  { intros id [| |] Hn; auto; exfalso.
    - assert (Hr : ph s <> Running) by congruence. specialize (H2 Hr id Hn). unfold has_close in H2. now rewrite Hj in H2.
    - specialize (H1 id Hn). unfold has_notify in H1. now rewrite Hj in H1. }
  clear - Hall. induction (conns s) as [|h t IH]; auto.
  assert (h = CNotified) by (apply (Hall 0 h); reflexivity). subst. unfold live in *; cbn.
  apply IH. intros id c Hn. apply (Hall (S id) c Hn).
Qed.

(* the drainer empties the queue: each job either disappears or is replaced by at most one notification for a
   connection that was open; measure = 2 * (open connections) + queue length *)
Definition opens (l : list cst) : nat := count COpen l.
Definition measure (s : st) : nat := 2 * opens (conns s) + length (jobs s).

Lemma count_set_open l : forall id, nth_error l id = Some COpen -> S (opens (set_nth id CClosing l)) = opens l.
Proof.
  induction l as [|h t IH]; intros [|id] H; cbn in *; try discriminate.
  - inversion H; subst. reflexivity.
  - unfold opens, count in *; cbn. destruct h; cbn; rewrite <- (IH id H); reflexivity.
Qed.

Lemma count_set_notified l : forall id, nth_error l id = Some CClosing -> opens (set_nth id CNotified l) = opens l.
Proof.
  induction l as [|h t IH]; intros [|id] H; cbn in *; try discriminate.
  - inversion H; subst. reflexivity.
  - unfold opens, count in *; cbn. destruct h; cbn; rewrite (IH id H); reflexivity.
Qed.

Lemma runjob_measure s : jobs s <> [] -> measure (step false s ARunJob) < measure s.
Proof.
  intros Hj. unfold measure. cbn [step]. destruct (jobs s) as [|[id|id] t] eqn:Ej; [congruence| |].
  - destruct (nth_error (conns s) id) as [[| |]|] eqn:E; cbn [conns jobs length]; try lia.
    rewrite (count_set_notified _ _ E). lia.
  - unfold close_conn; cbn [conns jobs wg ph]. destruct (nth_error (conns s) id) as [[| |]|] eqn:E; cbn [conns jobs length]; try lia.
    rewrite app_length. cbn [length]. pose proof (count_set_open _ _ E). lia.
Qed.

Lemma drain_empties fuel : forall s, measure s <= fuel -> jobs (drain fuel s) = [].
Proof.
  induction fuel as [|f IH]; intros s Hm; cbn.
  - unfold measure in Hm. destruct (jobs s); auto. cbn in Hm. lia.
  - destruct (jobs s) eqn:Ej; auto. apply IH.
    assert (H : jobs s <> []) by congruence. pose proof (runjob_measure s H) as Hlt. cbn [step] in Hlt. rewrite Ej in Hlt. lia.
Qed.

Lemma drain_is_run fuel : forall s, exists acts, drain fuel s = run false s acts /\ Forall (fun a => a = ARunJob) acts.
Proof.
  induction fuel as [|f IH]; intros s; cbn [drain].
  - exists []. split; [reflexivity|constructor].
  - destruct (jobs s) eqn:Ej.
    + exists []. split; [reflexivity|constructor].
    + destruct (IH (step false s ARunJob)) as (acts & E & F). exists (ARunJob :: acts). split; [exact E|constructor; auto].
Qed.

Lemma runjob_ph s : ph (step false s ARunJob) = ph s.
Proof.
  cbn [step]. destruct (jobs s) as [|[id|id] t]; auto.
  - destruct (nth_error (conns s) id) as [[| |]|]; reflexivity.
  - rewrite (proj1 (close_conn_ph _ id)). reflexivity.
Qed.

Lemma runjobs_ph acts : Forall (fun a => a = ARunJob) acts -> forall s, ph (run false s acts) = ph s.
Proof.
  induction 1 as [|a acts Ha _ IH]; intros s; [reflexivity|]. subst.
  change (run false s (ARunJob :: acts)) with (run false (step false s ARunJob) acts).
  rewrite IH. apply runjob_ph.
Qed.
