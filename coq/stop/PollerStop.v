(* The last phase of Engine.Stop (engine.go: pollers[i].stop(); g.Wait()) against one poller goroutine
   (poller_epoll.go: start/readWriteLoop/stop). The poller goroutine is created by Engine.Start but may begin to run
   at any later time - also after Stop.
     flag = p.shutdown, evt = the event descriptor is readable (stop() writes it, nobody ever drains it).
   reset_on_begin = true is the code before fix e3ced4a (D42): the loop wrote `p.shutdown = false` when it began. *)
From Coq Require Import List Bool Lia.
Import ListNotations.

Inductive pstate := PNotStarted | PRunning | PExited.
Record poller := mkp { ps : pstate; flag : bool; evt : bool }.
Inductive pact :=
| PBegin   (* the goroutine starts to run: enters the loop function *)
| PIter    (* one turn of `for !p.shutdown { EpollWait ... }`; EpollWait returns at once while evt is readable *)
| PStop.   (* poller.stop(): p.shutdown = true; write(evtfd) *)

Definition pinit : poller := mkp PNotStarted false false.

Definition pstep (reset_on_begin : bool) (p : poller) (a : pact) : poller :=
  match a with
  | PBegin => match ps p with
              | PNotStarted => mkp PRunning (if reset_on_begin then false else flag p) (evt p)
              | _ => p
              end
  | PIter => match ps p with
             | PRunning => if flag p then mkp PExited (flag p) (evt p) else p
             | _ => p
             end
  | PStop => mkp (ps p) true true
  end.

Definition prun (r : bool) (p : poller) (acts : list pact) : poller := fold_left (pstep r) acts p.

(* the poller's own next moves: begin if it has not begun, then one turn of the loop *)
Definition own_moves (r : bool) (p : poller) : poller := pstep r (pstep r p PBegin) PIter.

(* is the goroutine burning CPU? running, not asked to stop as far as it can see, descriptor permanently readable *)
Definition spinning (p : poller) : bool :=
  match ps p with PRunning => negb (flag p) && evt p | _ => false end.
