(* Property C18 (Stop terminates and reclaims) - the accounting core, for the core engine.
   Proved for every history of opens (accept/add/dial), closes of any cause, Async job executions and Stop:
   the wait group counts exactly the connections whose close callback has not completed; hence when Stop's
   wait returns every connection has been notified; and, when no connection is opened after Stop's snapshot,
   a fair Async drainer always brings the wait group to zero (Stop returns). The refutation shows the one
   history class on which it does not (an accept landing after the snapshot, finding D11).
   Runtime facts (goroutines and descriptors released) are observed by the harness, not proved. *)
Require Import PollerStop PollerStopProofs StopModel StopProofs StopObs.
Require AcceptStop AcceptStopProofs.
From Coq Require Import List ZArith Bool Lia.
Import ListNotations.

Theorem c18_accounting late acts : Acc (run late init acts).
Proof. exact (run_acc late acts init init_acc). Qed.

(* the core engine has delivered every close notification before its Stop returns *)
Theorem c18_notified_before_return late acts :
  ph (run late init acts) = Returned -> Forall (fun c => c = CNotified) (conns (run late init acts)).
Proof.
  intros Hp. destruct (run_ret late acts init init_acc) as [HR HA]; [intros H; discriminate|].
  specialize (HR Hp). unfold Acc in HA. rewrite Hp in HA. apply live_zero_all. lia.
Qed.

(* Stop always returns: from any state reached without a late open, once Stop has begun, draining the Async queue
   (at most `measure` jobs) brings wgConn to zero, i.e. AStopReturn is enabled *)
Theorem c18_terminates acts :
  let s := run false init acts in
  ph s = Waiting -> wg (drain (measure s) s) = 0%Z.
Proof.
  intros s Hp. destruct (drain_is_run (measure s) s) as (ra & E & F). rewrite E.
  apply empty_queue_done.
  - unfold s. unfold run. rewrite <- fold_left_app. apply (run_acc false (acts ++ ra) init init_acc).
  - unfold s. unfold run. rewrite <- fold_left_app. apply (run_cov (acts ++ ra) init init_cov).
  - rewrite runjobs_ph; auto.
  - rewrite <- E. apply drain_empties. lia.
Qed.

(* D11: with an accept that lands after Stop's snapshot, the queue can be empty with the wait group above zero: Stop hangs *)
Theorem c18_late_open_refuted :
  exists acts, let s := run true init acts in ph s = Waiting /\ jobs s = [] /\ (wg s > 0)%Z.
Proof. exists [AStopBegin; AOpen]. vm_compute. repeat split; reflexivity. Qed.

(* refinement tie: every run of the model (with or without late opens) projects to a log the executable checker accepts;
   the harness runs this checker (extracted) on the event logs of real engines *)
Theorem c18_model_logs_are_legal late acts : legal (trace late init acts) = true.
Proof. exact (legal_run late acts). Qed.

(* and the checker does reject the logs the property forbids: a return before the last close notification,
   a notification after the return, more notifications than opens *)
Example c18_checker_rejects :
  legal [OOpen; OStop; OReturn] = false /\ legal [OOpen; OStop; ONotified; OReturn; ONotified] = false /\
  legal [OOpen; ONotified; ONotified] = false /\ legal [OOpen; OOpen; OStop; ONotified; ONotified; OReturn] = true.
Proof. vm_compute. repeat split; reflexivity. Qed.

(* non-vacuity: a history with two connections, one closed by the peer, then Stop, reaches Returned *)
Example c18_example :
  ph (run false init [AOpen; AOpen; AClose 0; AStopBegin; ARunJob; ARunJob; ARunJob; AStopReturn]) = Returned.
Proof. vm_compute. reflexivity. Qed.

(* the last phase of Stop: the stop request to a poller is never lost, whenever the poller goroutine begins to run -
   before, between or after the request (fix e3ced4a, D42) *)
Theorem c18_poller_stop_not_lost before after :
  ps (own_moves false (prun false pinit (before ++ PStop :: after))) = PExited.
Proof. exact (stop_not_lost before after). Qed.

(* and no poller ever busy-loops on the never-drained event descriptor *)
Theorem c18_poller_never_spins acts : spinning (prun false pinit acts) = false.
Proof. exact (never_spins acts). Qed.

(* the code before the fix: Stop requested before the goroutine begins is overwritten; the poller spins for ever *)
Theorem c18_poller_stop_old_refuted n :
  let p := prun true pinit ([PStop; PBegin] ++ repeat PIter n) in ps p = PRunning /\ spinning p = true.
Proof. exact (old_stop_lost n). Qed.

(* The hand-over of an accepted connection to the nbhttp engine racing with Stop/Shutdown (listen loop, listener mux,
   AddConn*, closeAllConns), every interleaving of the three goroutines, with and without the listener mux: when nothing
   can move any more, the connection is not forgotten - it was refused by the kernel, closed by whoever held it, or
   registered in time for the sweep. D52/D53 as refutations: the code before the repairs, and the code between the two
   repairs, each reach a final state in which an accepted connection is owned by nobody (or is served behind the sweep). *)
Theorem c18_accept_handover_closed mx x :
  AcceptStopProofs.reach (AcceptStopProofs.fixed mx) x -> AcceptStop.terminal (AcceptStopProofs.fixed mx) x = true -> AcceptStop.forgotten x = false.
Proof. exact (AcceptStopProofs.accept_stop_safe mx x). Qed.

Theorem c18_accept_handover_old_refuted mx :
  exists x, AcceptStopProofs.reach (AcceptStopProofs.old mx) x /\ AcceptStop.terminal (AcceptStopProofs.old mx) x = true /\ AcceptStop.forgotten x = true.
Proof. exact (AcceptStopProofs.accept_stop_old_refuted mx). Qed.

Theorem c18_accept_handover_half_refuted mx :
  exists x, AcceptStopProofs.reach (AcceptStopProofs.half mx) x /\ AcceptStop.terminal (AcceptStopProofs.half mx) x = true /\ AcceptStop.forgotten x = true.
Proof. exact (AcceptStopProofs.accept_stop_half_refuted mx). Qed.

Print Assumptions c18_accounting.
Print Assumptions c18_notified_before_return.
Print Assumptions c18_terminates.
Print Assumptions c18_late_open_refuted.
Print Assumptions c18_model_logs_are_legal.
Print Assumptions c18_poller_stop_not_lost.
Print Assumptions c18_poller_never_spins.
Print Assumptions c18_poller_stop_old_refuted.
Print Assumptions c18_accept_handover_closed.
Print Assumptions c18_accept_handover_old_refuted.
Print Assumptions c18_accept_handover_half_refuted.
