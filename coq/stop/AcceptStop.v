(* The hand-over of an accepted connection to the nbhttp engine, racing with Stop (nbhttp/engine.go: listen, AddConn*,
   Stop, closeAllConns; lmux/lmux.go: ListenerMux.Start/Stop, ChanListener.Accept), for ONE connection and every
   interleaving of the three goroutines involved (connections are independent of each other here: each has its own slot
   in the channel and in engine.conns).  IOModMixed goes through the listener mux (mux = true); the other IO modes accept
   directly in the listen loop (mux = false).

   The repairs D52/D53 are switches of the model so that the unrepaired code is an instance too:
     fl  the listen loop closes a connection it got from Accept when the shutdown flag is already set        (a5fe607)
     fm  the mux goroutine closes what it accepts during shutdown and drains behind its own push             (a5fe607)
     fa  ChanListener.Accept drains its channel when it returns because the mux was closed                   (a5fe607)
     fd  ListenerMux.Stop drains the channels                                                                (a132cdb)
     fr  AddConn* test the shutdown flag under the mutex that Stop's sweep takes                             (a132cdb)

   Each goroutine step is one atomic action (one flag read, one channel operation, one critical section of engine.mux). *)
From Coq Require Import List Bool Arith.
Import ListNotations.

Inductive place := Backlog | MuxHeld | InChan | ListenHeld | Registered | Closed.
Inductive mpc := MAccept | MCheck1 | MPush | MCheck2 | MDone.
Inductive lpc := LTest | LAccept | LCheck | LAdd | LDone.
Inductive spc := S0 | S1 | S2 | S3 | S4 | S5 | SDone.

Record cfg := { mux : bool; fl : bool; fm : bool; fa : bool; fd : bool; fr : bool }.

Record st := mk {
  conn : place;
  m : mpc; l : lpc; s : spc;
  esd : bool;      (* engine.shutdown *)
  msd : bool;      (* ListenerMux.shutdown *)
  lclosed : bool;  (* the kernel listener is closed: nothing is accepted any more, the backlog is reset *)
  chclosed : bool  (* lm.chClose *) }.

Definition place_eqb (a b : place) : bool :=
  match a, b with
  | Backlog, Backlog | MuxHeld, MuxHeld | InChan, InChan | ListenHeld, ListenHeld | Registered, Registered | Closed, Closed => true
  | _, _ => false
  end.

Definition init (c : cfg) : st :=
  mk Backlog (if mux c then MAccept else MDone) LTest S0 false false false false.

Definition set_conn p x := mk p (m x) (l x) (s x) (esd x) (msd x) (lclosed x) (chclosed x).
Definition set_m p x := mk (conn x) p (l x) (s x) (esd x) (msd x) (lclosed x) (chclosed x).
Definition set_l p x := mk (conn x) (m x) p (s x) (esd x) (msd x) (lclosed x) (chclosed x).
Definition set_s p x := mk (conn x) (m x) (l x) p (esd x) (msd x) (lclosed x) (chclosed x).

(* draining the channel closes the connection if it is in it *)
Definition drain x := if place_eqb (conn x) InChan then set_conn Closed x else x.
(* closing the kernel listener resets what is still in its backlog *)
Definition close_listener x :=
  let x := mk (conn x) (m x) (l x) (s x) (esd x) (msd x) true (chclosed x) in
  if place_eqb (conn x) Backlog then set_conn Closed x else x.

(* the Stop goroutine: flag, stopListeners (mux: flag, listener, chClose [, drain]; plain: listener), sweep *)
Definition stop_step (c : cfg) (x : st) : list st :=
  match s x with
  | S0 => [set_s S1 (mk (conn x) (m x) (l x) (s x) true (msd x) (lclosed x) (chclosed x))]
  | S1 => if mux c then [set_s S2 (mk (conn x) (m x) (l x) (s x) (esd x) true (lclosed x) (chclosed x))]
          else [set_s S2 x]
  | S2 => [set_s S3 (close_listener x)]
  | S3 => if mux c then [set_s S4 (mk (conn x) (m x) (l x) (s x) (esd x) (msd x) (lclosed x) true)] else [set_s S4 x]
  | S4 => [set_s S5 (if mux c && fd c then drain x else x)]
  | S5 => (* closeAllConns, one critical section of engine.mux *)
          [set_s SDone (if place_eqb (conn x) Registered then set_conn Closed x else x)]
  | SDone => []
  end.

(* the mux goroutine (lmux.Start): Accept on the kernel listener, dispatch into the channel *)
Definition mux_step (c : cfg) (x : st) : list st :=
  match m x with
  | MAccept =>
      if place_eqb (conn x) Backlog then (if lclosed x then [] else [set_m MCheck1 (set_conn MuxHeld x)])
      else if lclosed x then [set_m MDone x]     (* Accept fails: the goroutine exits *)
      else []                                    (* blocked in Accept *)
  | MCheck1 => if fm c && msd x then [set_m MDone (set_conn Closed x)] else [set_m MPush x]
  | MPush => [set_m MCheck2 (set_conn InChan x)]
  | MCheck2 => if fm c && msd x then [set_m MAccept (drain x)] else [set_m MAccept x]
  | MDone => []
  end.

(* the listen goroutine (nbhttp listen): for !e.shutdown { Accept; hand over } *)
Definition listen_step (c : cfg) (x : st) : list st :=
  match l x with
  | LTest => if esd x then [set_l LDone x] else [set_l LAccept x]
  | LAccept =>
      if mux c then
        (* ChanListener.Accept: select between the channel and chClose (both may be ready) *)
        (if place_eqb (conn x) InChan then [set_l LCheck (set_conn ListenHeld x)] else []) ++
        (if chclosed x then [set_l LTest (if fa c then drain x else x)] else [])
      else
        if place_eqb (conn x) Backlog then (if lclosed x then [] else [set_l LCheck (set_conn ListenHeld x)])
        else if lclosed x then [set_l LTest x] else []
  | LCheck =>
      (* old code: `if err == nil && !e.shutdown { addConn } else { ...forgotten... }` *)
      if esd x then [set_l LTest (if fl c then set_conn Closed x else x)] else [set_l LAdd x]
  | LAdd =>
      (* AddConn*: one critical section of engine.mux *)
      if fr c && esd x then [set_l LTest (set_conn Closed x)] else [set_l LTest (set_conn Registered x)]
  | LDone => []
  end.

Definition next (c : cfg) (x : st) : list st := stop_step c x ++ mux_step c x ++ listen_step c x.

(* a registered connection is owned by a reader / the poller: closed by the sweep, or by its owner at its own end; what the
   property forbids is a connection that nobody owns and nobody will close *)
Definition forgotten (x : st) : bool :=
  match conn x with
  | MuxHeld | InChan | ListenHeld => true
  | Registered => match s x with SDone => true | _ => false end   (* registered behind the sweep: served instead of closed *)
  | Backlog | Closed => false
  end.
Definition terminal (c : cfg) (x : st) : bool := match next c x with [] => true | _ => false end.

(* ---------- executable exploration (also used for the refutation witnesses) ---------- *)
Definition mpc_eqb a b := match a, b with MAccept, MAccept | MCheck1, MCheck1 | MPush, MPush | MCheck2, MCheck2 | MDone, MDone => true | _, _ => false end.
Definition lpc_eqb a b := match a, b with LTest, LTest | LAccept, LAccept | LCheck, LCheck | LAdd, LAdd | LDone, LDone => true | _, _ => false end.
Definition spc_eqb a b := match a, b with S0, S0 | S1, S1 | S2, S2 | S3, S3 | S4, S4 | S5, S5 | SDone, SDone => true | _, _ => false end.
Definition st_eqb (a b : st) : bool :=
  place_eqb (conn a) (conn b) && mpc_eqb (m a) (m b) && lpc_eqb (l a) (l b) && spc_eqb (s a) (s b) &&
  Bool.eqb (esd a) (esd b) && Bool.eqb (msd a) (msd b) && Bool.eqb (lclosed a) (lclosed b) && Bool.eqb (chclosed a) (chclosed b).
Definition mem (x : st) (xs : list st) : bool := existsb (st_eqb x) xs.

Fixpoint add_all (ys : list st) (seen : list st) : list st :=
  match ys with [] => seen | y :: t => if mem y seen then add_all t seen else add_all t (seen ++ [y]) end.
(* saturate: repeatedly add the successors of everything seen *)
Fixpoint explore (c : cfg) (fuel : nat) (seen : list st) : list st :=
  match fuel with
  | O => seen
  | S f => explore c f (add_all (flat_map (next c) seen) seen)
  end.
Definition closed_under (c : cfg) (xs : list st) : bool := forallb (fun x => forallb (fun y => mem y xs) (next c x)) xs.
