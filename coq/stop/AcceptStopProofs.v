(* All interleavings of the accept hand-over with Stop: the reachable state space is finite, the inductive invariant is
   membership in an explicitly computed set that is closed under `next` (checked by the kernel with vm_compute). *)
From Coq Require Import List Bool Arith.
Require Import AcceptStop.
Import ListNotations.

Inductive reach (c : cfg) : st -> Prop :=
| reach_init : reach c (init c)
| reach_step x y : reach c x -> In y (next c x) -> reach c y.

Lemma place_eqb_eq a b : place_eqb a b = true -> a = b.
Proof. destruct a, b; simpl; intros H; try discriminate; reflexivity. Qed.
Lemma mpc_eqb_eq a b : mpc_eqb a b = true -> a = b.
Proof. destruct a, b; simpl; intros H; try discriminate; reflexivity. Qed.
Lemma lpc_eqb_eq a b : lpc_eqb a b = true -> a = b.
Proof. destruct a, b; simpl; intros H; try discriminate; reflexivity. Qed.
Lemma spc_eqb_eq a b : spc_eqb a b = true -> a = b.
Proof. destruct a, b; simpl; intros H; try discriminate; reflexivity. Qed.

Lemma st_eqb_eq a b : st_eqb a b = true -> a = b.
Proof.
  unfold st_eqb. intros H.
  repeat (apply andb_true_iff in H; destruct H as [H ?]).
  destruct a, b; cbn in *.
  f_equal; auto using place_eqb_eq, mpc_eqb_eq, lpc_eqb_eq, spc_eqb_eq, Bool.eqb_prop.
Qed.

Lemma mem_In x xs : mem x xs = true -> In x xs.
Proof.
  unfold mem. intros H. apply existsb_exists in H as (y & Hy & E). apply st_eqb_eq in E. now subst.
Qed.

Lemma reach_in_closed c xs :
  mem (init c) xs = true -> closed_under c xs = true -> forall x, reach c x -> In x xs.
Proof.
  intros Hi Hc x Hr. induction Hr as [|x y Hr IH Hy].
  - now apply mem_In.
  - unfold closed_under in Hc. rewrite forallb_forall in Hc. specialize (Hc x IH).
    rewrite forallb_forall in Hc. apply mem_In. now apply Hc.
Qed.

Definition safe_set (c : cfg) (xs : list st) : bool :=
  forallb (fun x => negb (terminal c x) || negb (forgotten x)) xs.

Lemma safe_from_set c xs :
  mem (init c) xs = true -> closed_under c xs = true -> safe_set c xs = true ->
  forall x, reach c x -> terminal c x = true -> forgotten x = false.
Proof.
  intros Hi Hc Hs x Hr Ht. pose proof (reach_in_closed c xs Hi Hc x Hr) as Hin.
  unfold safe_set in Hs. rewrite forallb_forall in Hs. specialize (Hs x Hin).
  rewrite Ht in Hs. cbn in Hs. now destruct (forgotten x).
Qed.

(* the repaired code, through the listener mux and without it *)
Definition fixed (mx : bool) : cfg := {| mux := mx; fl := true; fm := true; fa := true; fd := true; fr := true |}.
(* the code before a5fe607, and between a5fe607 and a132cdb *)
Definition old (mx : bool) : cfg := {| mux := mx; fl := false; fm := false; fa := false; fd := false; fr := false |}.
Definition half (mx : bool) : cfg := {| mux := mx; fl := true; fm := true; fa := true; fd := false; fr := false |}.

Definition states (c : cfg) : list st := explore c 40 [init c].

Theorem accept_stop_safe mx x :
  reach (fixed mx) x -> terminal (fixed mx) x = true -> forgotten x = false.
Proof.
  destruct mx.
  - apply (safe_from_set (fixed true) (states (fixed true))); vm_compute; reflexivity.
  - apply (safe_from_set (fixed false) (states (fixed false))); vm_compute; reflexivity.
Qed.

(* Stop always gets to its end, whatever the other goroutines do: its steps are never blocked *)
Lemma stop_never_blocked c x : s x <> SDone -> stop_step c x <> [].
Proof. unfold stop_step. destruct (s x); try congruence; intros _; destruct (mux c); discriminate. Qed.

(* a run is a list of choices (which enabled successor is taken) *)
Fixpoint run (c : cfg) (choices : list nat) (x : st) : st :=
  match choices with
  | [] => x
  | k :: t => match nth_error (next c x) k with Some y => run c t y | None => x end
  end.
Lemma run_reach c choices : forall x, reach c x -> reach c (run c choices x).
Proof.
  induction choices as [|k t IH]; intros x Hr; cbn [run]; [exact Hr|].
  destruct (nth_error (next c x) k) as [y|] eqn:E; [|exact Hr].
  apply IH. eapply reach_step; [exact Hr|]. eapply nth_error_In; exact E.
Qed.

(* witnesses: a terminal state with a forgotten connection, found by searching the explored set *)
Definition bad (c : cfg) : list st := filter (fun x => terminal c x && forgotten x) (states c).

Lemma explore_reach c : forall fuel seen, (forall x, In x seen -> reach c x) -> forall x, In x (explore c fuel seen) -> reach c x.
Proof.
  induction fuel as [|f IH]; intros seen Hs x Hx; cbn [explore] in Hx; [now apply Hs|].
  apply (IH (add_all (flat_map (next c) seen) seen)); [|exact Hx].
  clear x Hx. intros x Hx.
  assert (G : forall ys sn, (forall y, In y ys -> reach c y) -> (forall y, In y sn -> reach c y) ->
                            forall y, In y (add_all ys sn) -> reach c y).
  { induction ys as [|y t IHy]; intros sn Hy Hsn z Hz; cbn [add_all] in Hz; [now apply Hsn|].
    destruct (mem y sn).
    - apply (IHy sn); auto. intros; apply Hy; now right.
    - apply (IHy (sn ++ [y])); auto.
      + intros; apply Hy; now right.
      + intros w Hw. apply in_app_or in Hw as [Hw|[<-|[]]]; [now apply Hsn|apply Hy; now left]. }
  apply (G (flat_map (next c) seen) seen); auto.
  intros y Hy. apply in_flat_map in Hy as (w & Hw & Hy). eapply reach_step; [apply Hs; exact Hw|exact Hy].
Qed.

Lemma states_reach c y : In y (states c) -> reach c y.
Proof. apply (explore_reach c 40 [init c]). intros z [<-|[]]. constructor. Qed.

Lemma bad_reach c x : In x (bad c) -> reach c x /\ terminal c x = true /\ forgotten x = true.
Proof.
  unfold bad. pose proof (states_reach c) as Hall. revert Hall. generalize (states c). intros xs Hall H.
  apply filter_In in H as [Hin Hb]. apply andb_true_iff in Hb as [Ht Hf]. auto.
Qed.

Theorem accept_stop_old_refuted mx : exists x, reach (old mx) x /\ terminal (old mx) x = true /\ forgotten x = true.
Proof.
  destruct mx.
  - destruct (bad (old true)) as [|x t] eqn:E; [vm_compute in E; discriminate|].
    exists x. apply bad_reach. rewrite E. now left.
  - destruct (bad (old false)) as [|x t] eqn:E; [vm_compute in E; discriminate|].
    exists x. apply bad_reach. rewrite E. now left.
Qed.

(* the first repair alone is not enough (D53): both in the mux path (undrained channel) and without it (registration behind the sweep) *)
Theorem accept_stop_half_refuted mx : exists x, reach (half mx) x /\ terminal (half mx) x = true /\ forgotten x = true.
Proof.
  destruct mx.
  - destruct (bad (half true)) as [|x t] eqn:E; [vm_compute in E; discriminate|].
    exists x. apply bad_reach. rewrite E. now left.
  - destruct (bad (half false)) as [|x t] eqn:E; [vm_compute in E; discriminate|].
    exists x. apply bad_reach. rewrite E. now left.
Qed.

(* non-vacuity: the repaired model does reach terminal states, with the connection served-and-swept or refused *)
Example accept_stop_terminals :
  existsb (terminal (fixed true)) (states (fixed true)) = true /\
  existsb (terminal (fixed false)) (states (fixed false)) = true /\
  length (states (fixed true)) > 100.
Proof. vm_compute. repeat split; auto. repeat constructor. Qed.
